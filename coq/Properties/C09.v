(** C09 — parsing is a pure function of input, context and flags.
    This file contains only statements closed by [exact] and their
    [Print Assumptions]; the model is [Parse/Stateful.v] (process-wide cache
    of standard argument parsers + lazily created inner parsers, threaded
    through a history of parses that end in the pure, frozen
    [Parser.parse_top]); the proofs are in [Proofs/StatefulProofs.v]. *)
From Coq Require Import NArith ZArith List Bool Arith.
From PLV Require Import Base.PyStr Tok.PState Parse.Nodes Parse.Parser Parse.ParseWire Parse.Stateful
                        Proofs.StatefulProofs.
From PLV Require Gen.GenWalkerCtx.
Import ListNotations.

(** [Inv g]: every cached instance is what [LatexStandardArgumentParser(key)]
    constructs for its key, every instance (cached or placed explicitly on a
    specification) has its inner parser either not yet created or equal to
    [get_arg_parser_instance] of its own fields. *)

(** A fresh process (empty cache, explicit objects never used) satisfies it. *)
Theorem C09_inv_init : forall objs, Forall (fun i => i_inner i = None) objs -> Inv (g_init objs).
Proof. exact inv_init. Qed.

(** Every parse preserves it, for every job (context, input, flags). *)
Theorem C09_inv_preserved : forall g j, Inv g -> Inv (fst (parse_st g j)).
Proof. exact inv_preserved. Qed.

(** History independence: in ANY history of parses started from ANY state
    satisfying the invariant, the result of every parse is the result of the
    same job with freshly resolved argument parsers ([parse_pure] consults
    neither the cache nor any lazy field, only the constructor fields of the
    explicit objects). *)
Theorem C09_history_independent : forall jobs g0, Inv g0 ->
  map snd (run_history g0 jobs) = map (parse_pure (map strip (g_objs g0))) jobs.
Proof. exact history_independent. Qed.

(** Two processes in arbitrary (reachable) states give the same result for the same job. *)
Theorem C09_state_irrelevant : forall g1 g2 j, Inv g1 -> Inv g2 ->
  map strip (g_objs g1) = map strip (g_objs g2) ->
  snd (parse_st g1 j) = snd (parse_st g2 j).
Proof. exact state_irrelevant. Qed.

(** What a parse may change.  The context handed to a parse is an immutable
    value of the model ([j_ctx j] is returned as it is, by construction); the
    mutable objects reachable from it are the explicit parser objects and the
    cache, and a parse changes nothing in them but lazily created inner
    parsers: the constructor fields of every explicit object are unchanged and
    the cache keeps every key with the same constructor fields, in the same
    order, possibly followed by new entries.  (That the REAL context database,
    its specification objects and everything else reachable from it are left
    unchanged is not a theorem: it is checked on the real objects, before and
    after every history, by the correspondence.) *)
Theorem C09_context_unchanged : forall g j,
  map strip (g_objs (fst (parse_st g j))) = map strip (g_objs g) /\
  exists ext, map (fun e => (fst e, strip (snd e))) (g_cache (fst (parse_st g j)))
              = map (fun e => (fst e, strip (snd e))) (g_cache g) ++ ext.
Proof. exact parse_st_le. Qed.

(** Documentation of the defect repaired by 9295ac7 (NOT the model of the
    current code): with the verbatim nesting counter stored on the shared
    parser instance, the argument parser of [\v] called twice on the same
    input [\v{a{b}c}d] at the same position gives two different results (the
    first equals what the current model computes; the counter is left at 0, so
    the second call stops at the first closing brace; the strict document
    parse then fails on the stray [}]). *)
Theorem C09_counter_on_instance_refuted :
  exists (s : str) (ps : pstate) (pos : nat),
    let r1 := old_verb_parse (old_vnew None) s ps pos in
    let r2 := old_verb_parse (fst r1) s ps pos in
    snd r1 <> snd r2.
Proof. exact counter_on_instance_refuted. Qed.

(** Table obligation, re-proved against the table regenerated from /repo on
    every run: for every argument of the default walker database
    (all macros, environments and specials), the parser kind decoded structurally from the live
    parser object is [kind_of_spec] of its specification string for some
    constructor fields — the model's mirror of [get_arg_parser_instance]
    agrees with the live objects. *)
Theorem C09_default_ctx_standard : ctx_standard Gen.GenWalkerCtx.default_ctx = true.
Proof. exact default_ctx_standard. Qed.

(** Non-vacuity.  A context declaring [\v] with a 'v' argument (string
    spelling), [\w] with get_standard_argument_parser('{', allow_pre_space=False)
    and [\x] with an explicit LatexStandardArgumentParser('[', allow_pre_space=False)
    object; a state reached by a first parse (so the cache is populated and
    inner parsers exist) satisfies the invariant, and the history
    [\v{a{b}c}d ; \v{a{b}c}d ; \w {a}\x[b]] gives three successful, identical-where-equal results. *)
Definition nv_key (a : str) : key := {| k_spec := a; k_aps := None; k_full := None |}.
Definition nv_ctx : sctx :=
  {| sx_macros :=
       [([118%N], {| ss_args := SAStd [{| sa_sp := SpKey (nv_key [118%N]); sa_delta := ADNone |}]; ss_body_math := false |});
        ([119%N], {| ss_args := SAStd [{| sa_sp := SpKey {| k_spec := [123%N]; k_aps := Some false; k_full := None |};
                                          sa_delta := ADNone |}]; ss_body_math := false |});
        ([120%N], {| ss_args := SAStd [{| sa_sp := SpObj 0; sa_delta := ADNone |}]; ss_body_math := false |})];
     sx_envs := []; sx_specials := []; sx_unk_macro := None; sx_unk_env := None |}.
Definition nv_objs : list instance := [{| i_spec := [91%N]; i_aps := false; i_full := false; i_inner := None |}].
Definition nv_job (s : str) : job := {| j_ctx := nv_ctx; j_s := s; j_tol := false |}.
Definition nv_jobs : list job :=
  [nv_job doc_v; nv_job doc_v; nv_job [92;119;32;123;97;125;92;120;91;98;93]%N].
Definition nv_g0 : gstate := fst (parse_st (g_init nv_objs) (nv_job doc_v)).

Definition is_ok (r : res out) : bool := match r with Ok (ONode (Some _)) _ => true | _ => false end.

Example C09_nonvacuous :
  Inv nv_g0
  /\ length (g_cache nv_g0) = 2
  /\ existsb (fun e => match i_inner (snd e) with Some _ => true | None => false end) (g_cache nv_g0) = true
  /\ forallb is_ok (map snd (run_history nv_g0 nv_jobs)) = true
  /\ nth 0 (map snd (run_history nv_g0 nv_jobs)) OutOfFuel = nth 1 (map snd (run_history nv_g0 nv_jobs)) OutOfFuel
  /\ map snd (run_history nv_g0 nv_jobs) = map (parse_pure (map strip (g_objs nv_g0))) nv_jobs.
Proof.
  split.
  - apply C09_inv_preserved. apply C09_inv_init. repeat constructor.
  - vm_compute. repeat split; reflexivity.
Qed.

Print Assumptions C09_inv_init.
Print Assumptions C09_inv_preserved.
Print Assumptions C09_history_independent.
Print Assumptions C09_state_irrelevant.
Print Assumptions C09_context_unchanged.
Print Assumptions C09_counter_on_instance_refuted.
Print Assumptions C09_default_ctx_standard.
