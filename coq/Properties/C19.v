(** C19 — a node visitor sees every node exactly once, children first, in
    document order, and hands each parent the results of its children.

    Statements only ([exact] of lemmas of [Proofs/VisitorProofs.v]) followed by
    [Print Assumptions].  [visit cb t] is the model of
    [LatexNodesVisitor.start(t)] for a visitor whose [visit_*] methods are the
    fields of [cb] ([Tree/Visitor.v]); [events] is the sequence of callback
    invocations (method, object with its path in the tree, keyword arguments) in
    call order, [outcome] what [start] returns or raises.

    [wf t] says that every body ([nodelist] of a group, environment or math
    node) is [None] or a node list — what every parser produces; on other
    trees the Python code raises [TypeError] and so does the model
    ([C19_raises_iff_illformed]).  All theorems quantify over every tree, every
    result type and every callback record. *)
From Coq Require Import NArith ZArith List Bool Arith Permutation.
From PLV Require Import Base.PyStr Base.Wire Parse.Nodes Tree.Visitor Proofs.VisitorProofs.
Import ListNotations.

(** The callback log is the post-order walk: for each node first its arguments
    object (argument slots in order, then the object itself), then its body
    items in order, then the node; each callback receiving the results of the
    objects it owns, in slot order, [None] for an absent slot, [''] for a
    missing arguments object, [None] / [[]] for a missing body. *)
Theorem C19_postorder : forall (R : Type) (cb : callbacks R) (t : node),
  wf t = true -> events (visit cb t) = postorder_events cb [] t.
Proof. exact @visit_events_postorder. Qed.

(** [start] returns the root's result, i.e. the fold of the callbacks over the tree. *)
Theorem C19_returns_root_result : forall (R : Type) (cb : callbacks R) (t : node),
  wf t = true -> outcome (visit cb t) = VOk (result cb [] t).
Proof. exact @visit_returns_root_result. Qed.

(** The only failure: a body that is a node but not a node list. *)
Theorem C19_raises_iff_illformed : forall (R : Type) (cb : callbacks R) (t : node),
  outcome (visit cb t) = VTypeError <-> wf t = false.
Proof. exact @visit_raises_iff_illformed. Qed.

(** Exactly once: no path is visited twice, the visited (path, object) pairs
    are a permutation of the objects of the tree enumerated independently
    (owner first), and distinct objects of the tree have distinct paths. *)
Theorem C19_each_once : forall (R : Type) (cb : callbacks R) (t : node),
  wf t = true ->
  NoDup (map (@ev_path R) (events (visit cb t)))
  /\ Permutation (map ev_occ (events (visit cb t))) (occurrences [] t)
  /\ NoDup (map fst (occurrences [] t)).
Proof. exact @visit_each_once. Qed.

(** The same restricted to proper nodes (what [treedump.iter_nodes] yields). *)
Theorem C19_nodes_once : forall (R : Type) (cb : callbacks R) (t : node),
  wf t = true ->
  Permutation (filter is_proper_node (map ev_occ (events (visit cb t)))) (node_occurrences t).
Proof. exact @visit_nodes_once. Qed.

(** Every invocation: the method is the one of the object's class, the keyword
    arguments are the results of the objects it owns ([expected_payload] reads
    them off the fold [result]), and the value handed to the owner is what this
    very invocation returned. *)
Theorem C19_children_results : forall (R : Type) (cb : callbacks R) (t : node),
  wf t = true -> forall e, In e (events (visit cb t)) ->
  ev_kind e = subject_kind (ev_subj e)
  /\ ev_pay e = expected_payload cb (ev_path e) (ev_subj e)
  /\ callback_result cb e = Some (subject_result cb (ev_path e) (ev_subj e)).
Proof. exact @visit_event_facts. Qed.

(** The lists in those keyword arguments, slot by slot: same length as the
    slot list, [None] exactly at absent slots, otherwise the result of the
    child at that slot — in slot order. *)
Theorem C19_slots_in_order : forall (R : Type) (res : path -> node -> R) p mk l i,
  length (slot_results res p mk i l) = length l
  /\ forall k, nth_error (slot_results res p mk i l) k
               = option_map (option_map (res (p ++ [mk (i + k)]))) (nth_error l k).
Proof. intros. split; [exact (slot_results_length res p mk l i) | exact (slot_results_nth res p mk l i)]. Qed.

(** Children first: every object strictly below the object of an event had its
    callback earlier in the log. *)
Theorem C19_children_first : forall (R : Type) (cb : callbacks R) (t : node),
  wf t = true -> forall l1 e l2,
  events (visit cb t) = l1 ++ e :: l2 ->
  forall o, In o (occurrences [] t) -> strictly_below (ev_path e) (fst o) ->
  exists e', In e' l1 /\ ev_occ e' = o.
Proof. exact @visit_children_first. Qed.

(** ... and nothing below an object is visited after it. *)
Theorem C19_nothing_below_later : forall (R : Type) (cb : callbacks R) (t : node),
  wf t = true ->
  ForallOrdPairs (fun a b : event R => ~ strictly_below (ev_path a) (ev_path b)) (events (visit cb t)).
Proof. exact @visit_children_first_pairs. Qed.

(** Document order: nothing is visited after something that lies later in the
    document — below any common owner, what hangs off the arguments object
    comes before what hangs off the body, and what hangs off slot [i] of a
    list before what hangs off slot [j > i] ([doc_before]). *)
Theorem C19_document_order : forall (R : Type) (cb : callbacks R) (t : node),
  wf t = true ->
  ForallOrdPairs (fun a b : event R => ~ doc_before (ev_path b) (ev_path a)) (events (visit cb t)).
Proof. exact @visit_document_order. Qed.

(** Non-vacuity: a well-formed tree with an environment (absent optional
    argument, a group argument, a body with a chars node, a math node whose
    body is [None], a macro without arguments object, a specials node with an
    empty arguments object) — 10 callbacks — and an ill-formed one. *)
Definition ex_tree : node :=
  NEnv 0 40 text_mode [101%N]
    (Some ([[91%N]; [123%N]],
           [None; Some (NGroup 9 12 text_mode [123%N] [125%N]
                          (Some (NList (Some 10) (Some 11) [Some (NChars 10 11 text_mode [97%N])])))]))
    (Some (NList (Some 12) (Some 30)
       [Some (NChars 12 13 text_mode [98%N]);
        Some (NMath 13 14 text_mode false [36%N] [36%N] None);
        Some (NMacro 14 16 text_mode [109%N] [] None);
        Some (NSpecials 16 17 text_mode [126%N] (Some ([], [])));
        None;
        Some (NComment 17 19 text_mode [99%N] [10%N])])).

Example C19_nonvacuous :
  wf ex_tree = true
  /\ length (events (visit recording ex_tree)) = 10
  /\ length (occurrences [] ex_tree) = 10
  /\ length (node_occurrences ex_tree) = 8
  /\ map (@ev_path str) (events (visit recording ex_tree))
     = [[SArgs; SArg 1; SBody 0]; [SArgs; SArg 1]; [SArgs]; [SBody 0]; [SBody 1]; [SBody 2];
        [SBody 3; SArgs]; [SBody 3]; [SBody 5]; []]%list
  /\ wf (NGroup 0 3 text_mode [123%N] [125%N] (Some (NChars 1 2 text_mode [97%N]))) = false.
Proof. vm_compute. repeat split. Qed.

(** the two order relations are inhabited on the paths of that tree *)
Example C19_orders_nonvacuous :
  doc_before [SArgs; SArg 1] [SBody 0] /\ doc_before [SBody 0] [SBody 3; SArgs]
  /\ strictly_below [SBody 3] [SBody 3; SArgs].
Proof.
  split; [|split].
  - exists [], SArgs, (SBody 0), [SArg 1], []. repeat split.
  - exists [], (SBody 0), (SBody 3), [], [SArgs]. repeat split. cbn. auto with arith.
  - exists SArgs, []. reflexivity.
Qed.

Print Assumptions C19_postorder.
Print Assumptions C19_returns_root_result.
Print Assumptions C19_raises_iff_illformed.
Print Assumptions C19_each_once.
Print Assumptions C19_nodes_once.
Print Assumptions C19_children_results.
Print Assumptions C19_slots_in_order.
Print Assumptions C19_children_first.
Print Assumptions C19_nothing_below_later.
Print Assumptions C19_document_order.
