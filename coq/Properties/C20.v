(** C20 — positions map to the right line and column.
    This file contains only statements closed by [exact] and their
    [Print Assumptions]; the proofs are in [Proofs/LineNoProofs.v]. *)
From Coq Require Import NArith ZArith List Arith.
From PLV Require Import Base.PyStr Util.LineNo Proofs.LineNoProofs.
Import ListNotations.

(** The model of [pos_to_lineno_colno] equals the declarative line/column of a
    position: line = number of newlines before it, column = distance back to
    the nearest preceding newline (or to the start), plus the configured
    offsets — for every string, every offset setting, every position
    [0..len]. *)
Theorem C20_is_spec : forall o s p, p <= length s ->
  lineno_colno o s p = Some (spec_lc o s p).
Proof. exact lineno_colno_is_spec. Qed.

(** The inverse reading in the property text: start offset of the reported
    line plus reported column minus the column offset is the position, and no
    later line starts at or before the position. *)
Theorem C20_inverse : forall o s p l c, p <= length s ->
  lineno_colno o s p = Some (l, c) ->
  let k := Z.to_nat (l - line_offset o) in
  k < length (line_starts s) /\
  (Z.of_nat (nth k (line_starts s) 0%nat) + (c - col_off o k) = Z.of_nat p)%Z /\
  (forall j, j < length (line_starts s) -> nth j (line_starts s) 0 <= p -> j <= k).
Proof. exact lineno_colno_inverse. Qed.

(** Line starts are 0 and one past every newline. *)
Theorem C20_line_starts : forall s, line_starts s = 0 :: map S (positions 10 s 0).
Proof. exact line_starts_positions. Qed.

(** The column really is the distance to the nearest preceding newline. *)
Theorem C20_col_meaning : forall s p, p <= length s ->
  spec_col s p <= p /\
  (forall j, p - spec_col s p <= j -> j < p -> nth j s 0%N <> 10%N) /\
  (spec_col s p < p -> nth (p - spec_col s p - 1) s 0%N = 10%N).
Proof. exact spec_col_meaning. Qed.

(** The internal assertion of the Python code can never fire. *)
Theorem C20_total : forall o s p, exists lc, lineno_colno o s p = Some lc.
Proof. exact lineno_colno_total. Qed.

(** Non-vacuity: a concrete string with empty lines, a carriage return and a
    position at a newline, at the end, and with non-default offsets. *)
Example C20_nonvacuous :
  let s := [97; 10; 10; 98; 13; 10; 99]%N in
  let o := {| line_offset := 5; first_col_offset := 3; col_offset := -2 |} in
  map (lineno_colno o s) [0; 1; 2; 3; 6; 7] =
  [Some (5, 3); Some (5, 4); Some (6, -2); Some (7, -2); Some (8, -2); Some (8, -1)]%Z
  /\ 7 <= length s.
Proof. vm_compute. split; [reflexivity | repeat constructor]. Qed.

Print Assumptions C20_is_spec.
Print Assumptions C20_inverse.
Print Assumptions C20_line_starts.
Print Assumptions C20_col_meaning.
Print Assumptions C20_total.
