(** C13 — encoded text is inert, strictly parseable LaTeX, ASCII-only when
    asked.  Statements only; proofs are in [Proofs/EncBuiltinFacts.v] (all
    strings), [Proofs/FastProtection.v], [Proofs/InertDefs.v],
    [Proofs/InertSweep{None,Braces,All,Almost,After}.v] (finite sweeps over
    BOTH regenerated tables, one file per protection scheme),
    [Proofs/InertSweepActive.v], [Proofs/InertSweeps.v], [Proofs/InertTheorems.v].

    Model: [Enc/RoundTrip.v: encode_builtin xml p pol s] = the encoder with the
    'defaults' ([xml = false]) or 'unicode-xml' rule set, protection [p],
    unknown-character policy [pol] ([Enc/Encoder.v], [Enc/Builtin.v], tables
    [Gen/GenUni2Latex.v], [Gen/GenUni2LatexXml.v]); [parse_encoded t] = what the
    strict parse of [t] with the default walker database contains: [IParsed
    comments environments maths], or [IParseError].  Inputs are NFC strings.

    THEOREMS OVER ALL STRINGS: [C13_ascii], [C13_fail_iff],
    [C13_total_unless_fail], [C13_encoding_is_chunkwise].
    FINITE SWEEPS over the regenerated tables (bound in the statement):
    [C13_active_ascii_escaped] (10 characters x 2 tables x 5 schemes),
    [C13_single_characters_parse] (every key of either table x 5 schemes:
    1512 + 2233 entries today), [C13_known_findings_are_exact] /
    [C13_known_findings_fail] (the 13 known findings), and the
    bounded-exhaustive [C13_active_orderings_bounded] (every string of length
    <= 3 over the ten active characters, a letter and a space).
    THE CENTRAL CLAUSE OVER ALL STRINGS: [C13_parses_inert_unbounded] — for every
    string (no length bound), both tables, the four brace-protection schemes,
    the five named unknown-character policies: the output parses in strict
    mode and contains no comment, no environment, and math only from table
    entries that contain [$] (excluded: the 13 known findings).  Proofs in
    [Proofs/Unbounded*.v]: the follow-string factorisation of the side
    conditions of C02's extended grammar ([C13_side_conditions_factorise]),
    per-chunk sweeps over both tables, an assembler that cuts whitespace runs,
    paragraph breaks and specials sequences ACROSS chunk boundaries, C02's round
    trip [C02_parse_unparse2_partial].  Scheme 'none' is outside the theorem:
    [C13_scheme_none_counterexample] (a control word fuses with the letters that
    follow: documented as unsafe). *)
From Coq Require Import NArith List Bool Arith String.
Local Open Scope string_scope.
Local Open Scope list_scope.
From PLV Require Import Base.PyStr Enc.Encoder Enc.Builtin Enc.RoundTrip.
From PLV Require Import Proofs.EncBuiltinFacts Proofs.RoundTripDefs Proofs.InertDefs.
From PLV Require Import Proofs.InertSweeps Proofs.InertSweepActive Proofs.InertTheorems.
From PLV Require Import Gen.GenBaseline.
From PLV Require Import Tok.PState Parse.Parser Doc.DocGrammar2.
From PLV Require Import Proofs.UnboundedDefs Proofs.UnboundedFollow Proofs.UnboundedChunks Proofs.UnboundedTheorems.
Import ListNotations.
Local Open Scope N_scope.

(** ** The output, chunk by chunk (all strings, any protection, any policy) *)

(** [char_chunk xml p pol c]: the table replacement of [c] wrapped by the
    protection; or [c] itself in the ASCII pass-through range; or what the
    policy says ([inr ValueError] for 'fail') *)
Theorem C13_encoding_is_chunkwise : forall xml p pol s,
  encode (enc_cfg xml p pol) s = chunks xml p pol s.
Proof. exact encode_builtin_chunks. Qed.

(** ** ASCII-only when asked (all strings) *)
Theorem C13_ascii : forall xml p pol s t,
  In p all_prots -> In pol ascii_policies ->
  encode_builtin xml p pol s = EncOk t -> is_ascii_str t = true.
Proof. exact ascii_output. Qed.

(** the table obligation it rests on: every replacement string of both
    regenerated tables is ASCII (finite sweep) *)
Theorem C13_tables_ascii : table_ascii false = true /\ table_ascii true = true.
Proof. exact tables_ascii. Qed.

(** ** 'fail' raises exactly when some character has neither a rule nor is
    copied (all strings, any protection) *)
Theorem C13_fail_iff : forall xml p s,
  encode_builtin xml p UFail s = EncValueError <->
  exists c, In c s /\ ~ In c (map fst (table_of xml)) /\ passthrough c = false.
Proof. exact encode_builtin_fail_iff. Qed.

(** ... and no other policy raises *)
Theorem C13_total_unless_fail : forall xml p pol s, pol <> UFail ->
  exists t, encode_builtin xml p pol s = EncOk t.
Proof. exact encode_builtin_total. Qed.

(** ** The ten LaTeX-active ASCII characters are neutralised by the tables
    (finite sweep: 10 x 2 tables x 5 schemes).

    For [c] in [\ { } $ & # ^ _ ~ %] and BOTH tables: [c] is a key; its
    replacement is ONE control sequence optionally followed by [{}] (a control
    word, or a backslash and one non-letter: so the replacement contains no
    bare active character); and under every protection scheme the chunk parses
    strictly with no comment, no environment and no math. *)
Theorem C13_active_ascii_escaped : forall xml c p,
  In c active_ascii -> In p all_prots ->
  exists r, map_lookup (map_of xml) c = Some r /\ In (c, r) (table_of xml) /\
            single_control_sequence r = true /\
            parse_encoded (apply_protection p r) = IParsed 0 0 0.
Proof. exact active_ascii_escaped. Qed.

(** ** Every table entry alone parses inertly (finite sweep: every key of
    either table x 5 schemes), except the known findings of 'unicode-xml'.
    A math node appears only when the table's own replacement string contains
    [$] (today: U+03AC in 'unicode-xml', [\'{$\alpha$}]). *)
Theorem C13_single_characters_parse : forall xml p c r,
  In p all_prots -> map_lookup (map_of xml) c = Some r -> ~ In c (excluded xml) ->
  exists m, parse_encoded (apply_protection p r) = IParsed 0 0 m /\ (m <> O -> In 36 r).
Proof. exact single_characters_parse. Qed.

(** ** The known findings (F17) are exactly the failing keys.
    [known_xml_unparseable] is regenerated from known_findings.json. *)
Theorem C13_known_findings_fail : forall c p, In c known_xml_unparseable -> In p closing_prots ->
  exists r pos, map_lookup (map_of true) c = Some r /\
                parse_encoded (apply_protection p r) = IParseError pos.
Proof. exact known_findings_fail. Qed.

(** a key of 'unicode-xml' fails to parse alone under some scheme IFF it is
    listed: a NEW failing key breaks this theorem, and so does a listed key
    that has been repaired *)
Theorem C13_known_findings_are_exact : forall c r, map_lookup (map_of true) c = Some r ->
  ((exists p, In p all_prots /\ forall m, parse_encoded (apply_protection p r) <> IParsed 0 0 m)
   <-> In c known_xml_unparseable).
Proof. exact known_findings_are_exact. Qed.

(** ** Bounded-exhaustive over input STRINGS: every ordering of the active
    characters, a letter and a space up to length 3 (1885 strings x 2 tables x
    5 schemes, any policy): the output parses strictly and contains no comment,
    no environment, no math. *)
Theorem C13_active_orderings_bounded : forall xml p pol s,
  In p all_prots -> (List.length s <= 3)%nat -> (forall c, In c s -> In c active_alphabet) ->
  exists t, encode_builtin xml p pol s = EncOk t /\ parse_encoded t = IParsed 0 0 0.
Proof. exact active_orderings_bounded. Qed.

(** ** The unbounded statement for ONE-CHARACTER strings under all FIVE schemes
    (kept; superseded for the four brace schemes by [C13_parses_inert_unbounded]
    below; this one includes scheme 'none').  The obligations listed here are
    the ones [Proofs/Unbounded*.v] discharge for the brace schemes.

    DESIGN §6/C13:

      Theorem C13_parses_inert : forall xml p pol s t, In p all_prots -> pol <> UFail ->
        (forall c, In c s -> ~ In c (excluded xml)) ->
        encode_builtin xml p pol s = EncOk t ->
        exists m, parse_encoded t = IParsed 0 0 m /\ (maths only inside table replacements).

    By [C13_encoding_is_chunkwise] [t] is the concatenation of the chunks, each
    of which is known to parse inertly ALONE (theorems above, plus
    [copied_characters_parse] for pass-through ASCII).  Remaining obligations:
    (1) the compositional parser theorem: [parse_top (t1 ++ t2)] is the
        concatenation of the two node lists when [t1] is "closed" (balanced,
        ends outside a control word / comment / math) or the follow condition
        between the end of [t1] and the start of [t2] holds (C02's grammar);
    (2) every chunk is closed in that sense for the four brace schemes, and
        for 'none' the follow condition: a chunk ending in a control word
        followed by letters yields another (unknown) macro name — still inert,
        see [C13_active_orderings_nonvacuous] — and no chunk ends inside a comment or math;
    (3) policy chunks: 'keep' emits an arbitrary non-ASCII character (plain
        chars for the tokenizer: needs [py_isspace]/specials facts for every
        code point), 'unihex' emits [\ensuremath{\langle}\texttt{U+XXXX}...]
        for arbitrary hex digits.
    [C13_active_orderings_bounded] is the bounded-exhaustive instance on the
    strings where (2) matters most.

    The proved restriction: one-character strings. *)
Theorem C13_parses_inert_partial : forall xml p pol c,
  In p all_prots -> ~ In c (excluded xml) ->
  (In c (map fst (table_of xml)) \/ passthrough c = true) ->
  exists t m, encode_builtin xml p pol [c] = EncOk t /\ parse_encoded t = IParsed 0 0 m /\
              (m <> O -> exists r, In (c, r) (table_of xml) /\ In 36 r).
Proof. exact one_character_inert. Qed.

(** ** THE CENTRAL CLAUSE FOR EVERY STRING

    For every string [s] (any length), either table, each of the four
    brace-protection schemes, each of the five named unknown-character policies
    ([named_policy]: not an arbitrary callable; under 'fail' the hypothesis
    [EncOk] says that no character is unknown): if no character of [s] is one
    of the 13 known findings, the encoder output parses in STRICT mode (hence
    with balanced groups) and its tree contains NO comment node, NO environment
    node, and [m] math nodes where [m <> 0] only if [s] contains a character
    whose table replacement itself contains [$].

    How: the output is the concatenation of per-character chunks
    ([C13_encoding_is_chunkwise]).  Every chunk is read as atoms (top-level
    characters and structured items: groups, macro calls, [$]-math); the
    sweeps ([Proofs/UnboundedSweep*.v], every entry of both tables x 4 schemes)
    check that each structured item satisfies the side conditions of C02's
    extended grammar when followed by the rest of its chunk and is CLOSED — so,
    by the follow-string factorisation below, it satisfies them whatever
    follows the chunk.  The assembler ([UnboundedDefs.asm]) turns the atoms of
    the WHOLE output into one document of the grammar, cutting whitespace runs,
    paragraph breaks, text characters and specials sequences (two apostrophes,
    three hyphens) across chunk boundaries exactly as the tokenizer does; its
    side conditions are proved for every atom list ([UnboundedAsm.assemble]).
    C02's round trip gives the strict parse; [UnboundedCount.tree_kinds] counts
    the node kinds.  The policy chunks are proved for ARBITRARY code points
    ('keep': any character, blank or not; 'unihex': any number of hex digits). *)
Theorem C13_parses_inert_unbounded : forall xml p pol s t,
  In p brace_prots -> named_policy pol ->
  (forall c, In c s -> ~ In c (excluded xml)) ->
  encode_builtin xml p pol s = EncOk t ->
  exists m, parse_encoded t = IParsed 0 0 m /\
            (m <> O -> exists c r, In c s /\ In (c, r) (table_of xml) /\ In 36 r).
Proof. exact parses_inert_unbounded. Qed.

(** ** The follow-string factorisation of the side conditions of the extended
    document grammar (every context, state, item of the sub-grammar [subg]: text,
    groups, macro calls with any arguments, math, specials, paragraph breaks): the
    verdict of [ok_item2] depends on the follow string only up to its first
    STOPPER character ([stopper]: not whitespace, not a letter, not an
    environment-name character, not the escape character or an opening brace, in
    no specials sequence of the context — the closing brace and the dollar under
    the default context).  This is what makes a per-chunk check with the EMPTY
    follow string valid for every follow string. *)
Theorem C13_side_conditions_factorise : forall cx i ps ex (G Z Z' : str),
  subg i = true -> has_stopper cx G = true ->
  ok_item2 cx ps ex i (G ++ Z) = ok_item2 cx ps ex i (G ++ Z').
Proof. exact ok_item2_stopper. Qed.

(** ** Scheme 'none' is outside the theorem, and must be: the replacement [\l]
    of U+0142 followed by the letters [abel] is the control word [\label], whose
    mandatory argument is missing at the end of the input — a strict parse error
    (documented: "not recommended, will likely result in invalid LaTeX").  Under
    'braces' the same input gives [{\l}abel]. *)
Example C13_scheme_none_counterexample :
  encode_builtin false PNone UKeep [322; 97; 98; 101; 108] = EncOk (lit "\label") /\
  (forall c, In c [322; 97; 98; 101; 108] -> ~ In c (excluded false)) /\
  parse_encoded (lit "\label") = IParseError (Some 6%nat) /\
  encode_builtin false PBraces UKeep [322; 97; 98; 101; 108] = EncOk (lit "{\l}abel") /\
  parse_encoded (lit "{\l}abel") = IParsed 0 0 0.
Proof.
  split; [vm_compute; reflexivity|]. split; [intros c _ []|].
  split; [vm_compute; reflexivity|]. split; vm_compute; reflexivity.
Qed.

(** ** Non-vacuity *)

(** the string: a, percent, backslash, e-acute, blank, apostrophe, double quote, two
    newlines, dollar, blank, three hyphens, blank, tilde, x, U+4E2D, U+000B — active
    characters, an accent, an apostrophe followed by the double quote (whose
    replacement, two apostrophes, makes three, cut as two + one ACROSS the chunk
    boundary), a paragraph break, hyphens forming one specials sequence, an unknown
    character and an unknown BLANK under 'keep'; and under 'unicode-xml' with
    'unihex' the one entry with math, U+03AC *)
Example C13_parses_inert_unbounded_nonvacuous :
  let s := [97; 37; 92; 233; 32; 39; 34; 10; 10; 36; 32; 45; 45; 45; 32; 126; 120; 20013; 11] in
  let t := lit "a\%{\textbackslash}\'e '''" ++ [10; 10] ++ lit "\$ --- {\textasciitilde}x" ++ [20013; 11] in
  let t' := lit "\'{$\alpha$}\ensuremath{\langle}\texttt{U+4E2D}\ensuremath{\rangle}" in
  In PBraces brace_prots /\ named_policy UKeep /\ (forall c, In c s -> ~ In c (excluded false)) /\
  encode_builtin false PBraces UKeep s = EncOk t /\
  parse_encoded t = IParsed 0 0 0 /\
  encode_builtin true PBracesAfterMacro UUnihex [940; 20013] = EncOk t' /\
  parse_encoded t' = IParsed 0 0 1 /\
  In (940, lit "\'{$\alpha$}") (table_of true).
Proof.
  cbv zeta. split; [left; reflexivity|]. split; [exact I|].
  split; [intros c _ []|]. split; [vm_compute; reflexivity|]. split; [vm_compute; reflexivity|].
  split; [vm_compute; reflexivity|]. split; [vm_compute; reflexivity|].
  apply map_of_find. vm_compute. reflexivity.
Qed.

(** the factorisation is about real dependence: WITHOUT a stopper in the common prefix the
    verdict does change — [\alpha] followed by a closing brace is fine whatever comes then,
    followed by a letter it is not *)
Example C13_side_conditions_factorise_nonvacuous :
  let alpha := Mac2 [] (lit "alpha") [] [] in
  subg alpha = true /\ has_stopper Gen.GenWalkerCtx.default_ctx [125] = true /\
  ok_item2 Gen.GenWalkerCtx.default_ctx ps0 [] alpha ([125] ++ [120]) = true /\
  ok_item2 Gen.GenWalkerCtx.default_ctx ps0 [] alpha ([125] ++ []) = true /\
  ok_item2 Gen.GenWalkerCtx.default_ctx ps0 [] alpha [120] = false /\
  has_stopper Gen.GenWalkerCtx.default_ctx [120] = false.
Proof. vm_compute. repeat split. Qed.

Example C13_ascii_nonvacuous :
  In PBraces all_prots /\ In UUnihex ascii_policies /\
  encode_builtin false PBraces UUnihex [233; 20013; 128512]
  = EncOk (lit "\'e\ensuremath{\langle}\texttt{U+4E2D}\ensuremath{\rangle}\ensuremath{\langle}\texttt{U+1F600}\ensuremath{\rangle}") /\
  encode_builtin true PBracesAll UReplace [233; 20013] = EncOk (lit "{\'{e}}{\bfseries ?}") /\
  (exists t, encode_builtin false PBraces UKeep [20013] = EncOk t /\ is_ascii_str t = false).
Proof.
  split; [right; left; reflexivity|]. split; [right; right; left; reflexivity|].
  split; [vm_compute; reflexivity|]. split; [vm_compute; reflexivity|].
  eexists. split; vm_compute; reflexivity.
Qed.

Example C13_fail_iff_nonvacuous :
  encode_builtin false PBraces UFail [97; 7] = EncValueError /\
  no_rule false 7 /\ passthrough 7 = false /\
  encode_builtin false PBraces UFail [97; 233; 37] = EncOk (lit "a\'e\%").
Proof.
  split; [vm_compute; reflexivity|]. split; [|split; vm_compute; reflexivity].
  apply map_of_find_none. vm_compute. reflexivity.
Qed.

Example C13_active_ascii_escaped_nonvacuous :
  In 37 active_ascii /\ In PNone all_prots /\
  map_lookup (map_of false) 37 = Some (lit "\%") /\ map_lookup (map_of true) 94 = Some (lit "\^{}") /\
  parse_encoded [97; 37; 98] = IParsed 1 0 0 /\ parse_encoded [36; 97; 36] = IParsed 0 0 1 /\
  encode_builtin false PNone UKeep [97; 37; 98] = EncOk (lit "a\%b") /\
  parse_encoded (lit "a\%b") = IParsed 0 0 0.
Proof.
  split; [repeat (try (left; reflexivity); right)|]. split; [left; reflexivity|].
  split; [vm_compute; reflexivity|]. split; [vm_compute; reflexivity|].
  split; [vm_compute; reflexivity|]. split; [vm_compute; reflexivity|].
  split; vm_compute; reflexivity.
Qed.

Example C13_single_characters_parse_nonvacuous :
  map_lookup (map_of true) 940 = Some [92; 39; 123; 36; 92; 97; 108; 112; 104; 97; 36; 125] /\
  parse_encoded (apply_protection PBraces [92; 39; 123; 36; 92; 97; 108; 112; 104; 97; 36; 125]) = IParsed 0 0 1.
Proof. vm_compute. split; reflexivity. Qed.

Example C13_known_findings_nonvacuous :
  In 779 known_xml_unparseable /\ map_lookup (map_of true) 779 = Some (lit "\H") /\
  encode_builtin true PBraces UKeep [97; 779] = EncOk (lit "a{\H}") /\
  parse_encoded (lit "a{\H}") = IParseError (Some 4%nat) /\
  map_lookup (map_of false) 779 = None.
Proof.
  split; [apply (proj1 (mem_N_In 779 known_xml_unparseable)); vm_compute; reflexivity|].
  split; [vm_compute; reflexivity|]. split; [vm_compute; reflexivity|].
  split; vm_compute; reflexivity.
Qed.

Example C13_active_orderings_nonvacuous :
  In PBraces all_prots /\
  encode_builtin false PBraces UFail [92; 97; 37] = EncOk (lit "{\textbackslash}a\%") /\
  parse_encoded (lit "{\textbackslash}a\%") = IParsed 0 0 0 /\
  encode_builtin false PNone UFail [92; 97; 37] = EncOk (lit "\textbackslasha\%").
Proof.
  split; [right; left; reflexivity|]. split; [vm_compute; reflexivity|]. split; vm_compute; reflexivity.
Qed.

Print Assumptions C13_encoding_is_chunkwise.
Print Assumptions C13_ascii.
Print Assumptions C13_tables_ascii.
Print Assumptions C13_fail_iff.
Print Assumptions C13_total_unless_fail.
Print Assumptions C13_active_ascii_escaped.
Print Assumptions C13_single_characters_parse.
Print Assumptions C13_known_findings_fail.
Print Assumptions C13_known_findings_are_exact.
Print Assumptions C13_active_orderings_bounded.
Print Assumptions C13_parses_inert_partial.
Print Assumptions C13_parses_inert_unbounded.
Print Assumptions C13_side_conditions_factorise.
