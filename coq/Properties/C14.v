(** C14 — context database lookups follow category order under every build
    history.

    Statements only; proofs are in [Proofs/CtxRefine.v], [Proofs/CtxInv.v],
    [Proofs/CtxTheorems.v].  The model ([Ctx/CtxHeap.v]) is a heap machine
    that shares containers exactly where [LatexContextDb] does; the
    specification ([Ctx/CtxSpec.v]) is an ordered list of categories with
    their dicts.  [run ops] is the world after the history [ops]
    ([fold_left] of [db_step] from the empty world); histories are arbitrary
    lists of [new], [add_context_category] (append / prepend / insert_before /
    insert_after; explicit or auto-generated name), [set_unknown_*_spec],
    [freeze], [filtered_context], [extended_with] (both branches), over
    arbitrary names, specs and handles.  The model tracks /repo with
    fixes/C14-chainmap-index.diff and fixes/C14-filter-autogen.diff applied. *)
From Coq Require Import NArith ZArith List Arith.
From PLV Require Import Base.PyStr Base.Wire Ctx.CtxSpec Ctx.CtxHeap Entry.E14
     Proofs.CtxRefine Proofs.CtxInv Proofs.CtxTheorems.
Import ListNotations.

(** Refinement.  After every history, every live database has a meaning
    [abs] (read from [category_list] and [d] only) and answers every query —
    categories(), lookups through the chain maps (with and without
    raise_if_not_found), test_for_specials, iter_*_specs with and without a
    category list, frozen — exactly as the specification answers on that
    meaning: lookup = the first category in the reported order that defines
    the name, else the unknown-spec; test_for_specials = longest match, ties to
    the earlier category. *)
Theorem C14_refines : forall ops h, h < length (w_dbs (run ops)) ->
  exists s, abs (run ops) h = Some s /\
            forall q, run_query (run ops) h q = Some (spec_query s q).
Proof. exact refines. Qed.

(** The same on the text the wire entry prints and the harness compares with
    the real objects, for every query universe. *)
Theorem C14_refines_text : forall u ops h, h < length (w_dbs (run ops)) ->
  exists s, abs (run ops) h = Some s /\ observe u (run ops) h = observe_spec u s.
Proof. exact refines_text. Qed.

(** What the specification's lookup means: the answer comes from a category
    that defines the name and no earlier category defines it; if none does,
    the unknown-spec. *)
Theorem C14_lookup_is_first_category : forall s k n,
  (exists pre c post v, s_cats s = pre ++ c :: post /\ dict_get (sel k c) n = Some v /\
                        (forall c', In c' pre -> dict_get (sel k c') n = None) /\
                        s_lookup s k n = ALookup true (Some v))
  \/ ((forall c, In c (s_cats s) -> dict_get (sel k c) n = None) /\
      s_lookup s k n = ALookup false (s_unk k s)).
Proof. exact s_lookup_first. Qed.

(** What "longest, ties to the earlier" means: the chosen candidate is a
    member, every earlier candidate is strictly shorter, none is longer. *)
Theorem C14_specials_longest_first : forall l,
  match first_longest l with
  | None => l = []
  | Some y => exists pre post, l = pre ++ y :: post /\
                (forall x, In x pre -> length (fst x) < length (fst y)) /\
                (forall x, In x post -> length (fst x) <= length (fst y))
  end.
Proof. exact first_longest_spec. Qed.

(** Separation.  No operation changes the meaning of a database it does not
    mutate, and deriving a database (filtered_context, extended_with) changes
    the meaning of no existing database — the source included — although
    source and derived database share containers in the heap. *)
Theorem C14_sources_undisturbed : forall ops o h,
  h < length (w_dbs (run ops)) ->
  op_target o <> Some h \/ is_derive o = true ->
  abs (fst (db_step (run ops) o)) h = abs (run ops) h.
Proof. exact sources_undisturbed. Qed.

Theorem C14_answers_undisturbed : forall ops o h q,
  h < length (w_dbs (run ops)) ->
  op_target o <> Some h \/ is_derive o = true ->
  run_query (fst (db_step (run ops) o)) h q = run_query (run ops) h q.
Proof. exact answers_undisturbed. Qed.

(** A frozen database refuses modification: add_context_category and
    set_unknown_*_spec raise RuntimeError and leave the whole world — heap and
    all database objects — exactly as it was.  Holds in every world, in
    particular after every history. *)
Theorem C14_frozen_refuses : forall w o h d,
  nth_error (w_dbs w) h = Some d -> frozen d = true -> is_mutator_of h o ->
  db_step w o = (w, RRaise RuntimeError).
Proof. exact frozen_refuses. Qed.

Theorem C14_frozen_refuses_history : forall ops o h s,
  abs (run ops) h = Some s -> s_frozen s = true -> is_mutator_of h o ->
  db_step (run ops) o = (run ops, RRaise RuntimeError).
Proof. exact frozen_refuses_history. Qed.

Theorem C14_freeze_meaning : forall ops h s,
  abs (run ops) h = Some s ->
  abs (fst (db_step (run ops) (OFreeze h))) h =
  Some (mksdb (s_cats s) (s_unk_m s) (s_unk_e s) (s_unk_s s) true).
Proof. exact freeze_meaning. Qed.

(** Every location always holds the kind of object the code expects there
    (no operation of any history ends in the model's [RStuck]). *)
Theorem C14_never_stuck : forall ops o, snd (db_step (run ops) o) <> RStuck.
Proof. exact never_stuck. Qed.

(** add_context_category puts the category at the documented index of the
    reported order (prepend 0; before X = index of X, else 0; after X = index
    of X + 1, else the end; default the end), refuses duplicates and frozen
    databases, and when it raises it changes nothing. *)
Theorem C14_add_meaning : forall ops h c ms es ss pl w' r s,
  abs (run ops) h = Some s ->
  db_step (run ops) (OAdd h c ms es ss pl) = (w', r) ->
  match r with
  | ROk => s_frozen s = false /\
           exists c', ~ In c' (map sc_name (s_cats s)) /\
                      (c = Some c' \/ (c = None /\ exists n, c' = CAuto n)) /\
                      abs w' h = Some (s_add_cat s c' ms es ss pl)
  | RRaise _ => abs w' h = Some s
  | _ => False
  end.
Proof. exact add_meaning. Qed.

(** extended_with: a new frozen database whose meaning is the source's with
    the new category in front (or merged into the leading auto-generated
    category); only on frozen sources; the name must be new. *)
Theorem C14_extend_meaning : forall ops h c ms es ss um ue us w' r s,
  abs (run ops) h = Some s ->
  db_step (run ops) (OExtend h c ms es ss um ue us) = (w', r) ->
  match r with
  | RNew n => n = length (w_dbs (run ops)) /\ s_frozen s = true /\
              exists sn, abs w' n = Some sn /\ ext_meaning s c ms es ss um ue us sn
  | RRaise ValueError => exists c', c = Some c' /\ In c' (map sc_name (s_cats s))
  | RRaise RuntimeError => s_frozen s = false
  | _ => False
  end.
Proof. exact extend_meaning. Qed.

(** filtered_context: a new unfrozen database whose meaning is the selected
    categories of the source in the same order with rebuilt (or emptied)
    dicts; it never raises — in particular not on auto-generated category
    names (fixes/C14-filter-autogen). *)
Theorem C14_filter_meaning : forall ops h keep excl which w' r s,
  abs (run ops) h = Some s ->
  db_step (run ops) (OFilter h keep excl which) = (w', r) ->
  r = RNew (length (w_dbs (run ops))) /\
  abs w' (length (w_dbs (run ops))) = Some (s_filter s keep excl which).
Proof. exact filter_meaning. Qed.

(** The auto-generated category name is always new (the counter loop of
    [_get_new_autogen_category] terminates within [length cats + 1] rounds). *)
Theorem C14_autogen_name_fresh : forall cats n, ~ In (CAuto (fresh_auto cats n)) cats.
Proof. exact fresh_auto_fresh. Qed.

(** * Non-vacuity: concrete histories *)

Definition sp (c : N) (i : nat) : spec := mkspec [c] i.
Definition cA := CUser 0. Definition cB := CUser 1. Definition cC := CUser 2.

(** the history of defect F4: A, C appended, then B inserted after A *)
Definition hist_F4 : list op :=
  [ONew; OAdd 0 (Some cA) [sp 109 1] [] [] PAppend; OAdd 0 (Some cC) [sp 109 3] [] [] PAppend;
   OAdd 0 (Some cB) [sp 109 2] [] [] (PAfter cA)].

Example C14_refines_nonvacuous :
  length (w_dbs (run hist_F4)) = 1 /\
  run_query (run hist_F4) 0 QCats = Some (ACats [cA; cB; cC]) /\
  run_query (run hist_F4) 0 (QLookup KM [109%N]) = Some (ALookup true (Some (sp 109 1))).
Proof. vm_compute. repeat split. Qed.

(** derive, derive from the derived, filter the result, mutate the filtered
    copy: five live databases, the sources keep their answers *)
Definition hist_derive : list op :=
  hist_F4 ++
  [OSetUnk 0 KM (Some (sp 117 9)); OFreeze 0;
   OExtend 0 None [sp 110 5] [] [mkspec [45; 45]%N 6] None None None;
   OExtend 1 None [sp 109 7] [] [sp 45 8] (Some None) None None;
   OFilter 2 [] [cA] [KM; KS];
   OAdd 3 None [sp 109 10] [] [] PPrepend;
   OFreeze 3;
   OExtend 3 None [sp 110 11] [] [] None None None].

Example C14_sources_undisturbed_nonvacuous :
  length (w_dbs (run hist_derive)) = 5 /\
  run_query (run hist_derive) 0 QCats = Some (ACats [cA; cB; cC]) /\
  run_query (run hist_derive) 1 QCats = Some (ACats [CAuto 0; cA; cB; cC]) /\
  run_query (run hist_derive) 2 (QLookup KM [109%N]) = Some (ALookup true (Some (sp 109 7))) /\
  run_query (run hist_derive) 1 (QLookup KM [109%N]) = Some (ALookup true (Some (sp 109 1))) /\
  run_query (run hist_derive) 2 (QTest [97; 45; 45]%N 1) = Some (ATest (Some (mkspec [45; 45]%N 6))) /\
  run_query (run hist_derive) 2 (QLookup KM [122%N]) = Some (ALookup false None) /\
  run_query (run hist_derive) 1 (QLookup KM [122%N]) = Some (ALookup false (Some (sp 117 9))) /\
  run_query (run hist_derive) 3 QCats = Some (ACats [CAuto 1; CAuto 0; cB; cC]) /\
  run_query (run hist_derive) 4 QCats = Some (ACats [CAuto 1; CAuto 0; cB; cC]) /\
  run_query (run hist_derive) 4 (QIter KM None) =
    Some (AIter [sp 109 10; sp 110 11; sp 110 5; sp 109 7; sp 109 2; sp 109 3] false).
Proof. vm_compute. repeat split. Qed.

Example C14_frozen_refuses_nonvacuous :
  (exists s, abs (run hist_derive) 1 = Some s /\ s_frozen s = true) /\
  snd (db_step (run hist_derive) (OAdd 1 (Some cC) [] [] [] PAppend)) = RRaise RuntimeError /\
  snd (db_step (run hist_derive) (OSetUnk 2 KS None)) = RRaise RuntimeError.
Proof. vm_compute. split; [eexists; split; reflexivity | split; reflexivity]. Qed.

Example C14_filter_meaning_nonvacuous :
  (exists s, abs (run hist_derive) 2 = Some s) /\
  snd (db_step (run hist_derive) (OFilter 2 [CAuto 0; cC] [] [KM])) = RNew 5 /\
  run_query (fst (db_step (run hist_derive) (OFilter 2 [CAuto 0; cC] [] [KM]))) 5 QCats
    = Some (ACats [CAuto 0; cC]).
Proof. vm_compute. split; [eexists; reflexivity | split; reflexivity]. Qed.

Example C14_add_meaning_nonvacuous :
  snd (db_step (run hist_F4) (OAdd 0 None [sp 110 4] [] [] (PBefore cC))) = ROk /\
  snd (db_step (run hist_F4) (OAdd 0 (Some cB) [] [] [] PAppend)) = RRaise ValueError /\
  snd (db_step (run hist_derive) (OExtend 0 (Some cB) [] [] [] None None None)) = RRaise ValueError /\
  snd (db_step (run hist_F4) (OExtend 0 None [] [] [] None None None)) = RRaise RuntimeError.
Proof. vm_compute. repeat split. Qed.

Print Assumptions C14_refines.
Print Assumptions C14_refines_text.
Print Assumptions C14_lookup_is_first_category.
Print Assumptions C14_specials_longest_first.
Print Assumptions C14_sources_undisturbed.
Print Assumptions C14_answers_undisturbed.
Print Assumptions C14_frozen_refuses.
Print Assumptions C14_frozen_refuses_history.
Print Assumptions C14_freeze_meaning.
Print Assumptions C14_never_stuck.
Print Assumptions C14_add_meaning.
Print Assumptions C14_extend_meaning.
Print Assumptions C14_filter_meaning.
Print Assumptions C14_autogen_name_fresh.
