(** C14 placeholder while the model is validated. *)
From Coq Require Import List.
From PLV Require Import Ctx.CtxSpec Ctx.CtxHeap.
Theorem C14_placeholder : run nil = init_world.
Proof. reflexivity. Qed.
Print Assumptions C14_placeholder.
