(** C12 — latex2text content filters: comments, math modes, discards.

    Statements only ([exact] of lemmas of [Proofs/L2TFilters.v] and
    [Proofs/L2TFiltersCover.v]) followed by [Print Assumptions].

    [node_text src lt cx o sl st n] is the model of
    [LatexNodes2Text(options o).nodelist_to_text([n])] ([L2T/L2T.v]; validated against
    the real code on every run of the check): [src] the source string the tree
    was parsed from (only read for [math_mode='verbatim']), [lt] the latex2text
    spec database, [cx] the latexwalker database (slot counts), [o] the options,
    [sl] the current strict-latex-spaces policy, [st] the document state
    (\title ..., error flag).  The result is the text and the new state.

    Every theorem quantifies over ALL trees of the nested node type (bodies and
    arguments of any shape, including shapes no parser produces), ALL option
    records, ALL whitespace policies, ALL states, and ALL databases [lt], [cx]
    unless a hypothesis about [lt] is stated.

    The filters are stated as NON-INTERFERENCE: rewriting the filtered parts of
    the tree (the text of every comment node; the body of every math node and of
    every equation-like environment) does not change the result at all — neither
    the text nor the state — hence no character of those parts can reach the
    output.  [src] is a separate parameter: with [math_mode='verbatim'] the
    source slice of a formula is reproduced, comments that were written inside
    the formula included (the second clause of the property wins over the first;
    this is what the real code does); the non-interference statements hold for
    any fixed [src]. *)
From Coq Require Import NArith ZArith List Bool Arith.
From PLV Require Import Base.PyStr Tok.Tokenizer Parse.Nodes Parse.Parser L2T.L2T.
From PLV Require Import Proofs.L2TUnfold Proofs.L2TFilters Proofs.L2TFiltersCover.
From PLV Require Import L2T.L2TWire Doc.DocGrammar Proofs.ComposePos Proofs.ComposeComments.
From PLV Require Import Proofs.ComposeRel Proofs.ComposeCommentsV.
From PLV Require Gen.GenWalkerCtx Gen.GenL2TCtx.
Import ListNotations.

(** * The tree rewrites *)

(** [map_comment_text f n]: [n] with the text [c] of EVERY comment node, at any
    depth (items, bodies, arguments), replaced by [f c]. *)
Definition map_comment_text (f : str -> str) : node -> node :=
  xform f (fun _ => false) false (fun b => b).

Lemma map_comment_text_eqns : forall f,
  let T := map_comment_text f in
  let To := fun x : option node => match x with Some c => Some (T c) | None => None end in
  let Ta := fun a : option pargs => match a with Some (sp, l) => Some (sp, map To l) | None => None end in
  (forall p e m c, T (NChars p e m c) = NChars p e m c)
  /\ (forall p e m c ps, T (NComment p e m c ps) = NComment p e m (f c) ps)
  /\ (forall p e m dl dr b, T (NGroup p e m dl dr b) = NGroup p e m dl dr (To b))
  /\ (forall p e m nm ps a, T (NMacro p e m nm ps a) = NMacro p e m nm ps (Ta a))
  /\ (forall p e m nm a b, T (NEnv p e m nm a b) = NEnv p e m nm (Ta a) (To b))
  /\ (forall p e m ch a, T (NSpecials p e m ch a) = NSpecials p e m ch (Ta a))
  /\ (forall p e m d dl dr b, T (NMath p e m d dl dr b) = NMath p e m d dl dr (To b))
  /\ (forall p e l, T (NList p e l) = NList p e (map To l)).
Proof.
  intros f T To Ta. repeat split; intros; try reflexivity;
    destruct a as [[sp l]|]; reflexivity.
Qed.

(** [map_math_bodies lt g n]: [n] with the body [b] of EVERY math node and of
    EVERY environment that [lt] renders with [fmt_equation_environment]
    ([is_eqenv lt name]), at any depth, replaced by [g b] ([g] arbitrary: the
    new body need not even be a node list). *)
Definition map_math_bodies (lt : l2tctx) (g : option node -> option node) : node -> node :=
  xform (fun c => c) (is_eqenv lt) true g.

Lemma map_math_bodies_eqns : forall lt g,
  let T := map_math_bodies lt g in
  let To := fun x : option node => match x with Some c => Some (T c) | None => None end in
  let Ta := fun a : option pargs => match a with Some (sp, l) => Some (sp, map To l) | None => None end in
  (forall p e m c, T (NChars p e m c) = NChars p e m c)
  /\ (forall p e m c ps, T (NComment p e m c ps) = NComment p e m c ps)
  /\ (forall p e m dl dr b, T (NGroup p e m dl dr b) = NGroup p e m dl dr (To b))
  /\ (forall p e m nm ps a, T (NMacro p e m nm ps a) = NMacro p e m nm ps (Ta a))
  /\ (forall p e m nm a b, T (NEnv p e m nm a b) = NEnv p e m nm (Ta a) (if is_eqenv lt nm then g b else To b))
  /\ (forall p e m ch a, T (NSpecials p e m ch a) = NSpecials p e m ch (Ta a))
  /\ (forall p e m d dl dr b, T (NMath p e m d dl dr b) = NMath p e m d dl dr (g b))
  /\ (forall p e l, T (NList p e l) = NList p e (map To l)).
Proof.
  intros lt g T To Ta. repeat split; intros; try reflexivity;
    destruct a as [[sp l]|]; reflexivity.
Qed.

(** * Comments *)

(** Without [keep_comments] the output (text AND state) does not depend on the
    text of any comment node of the tree. *)
Theorem C12_comments_erased : forall src lt cx o sl st (f : str -> str) n,
  o_keep_comments o = false ->
  node_text src lt cx o sl st (map_comment_text f n) = node_text src lt cx o sl st n.
Proof.
  intros src lt cx o sl st f n Hk. unfold map_comment_text.
  apply xform_text; [now left | discriminate | discriminate].
Qed.
Print Assumptions C12_comments_erased.

(** ... and what a comment node renders as then: its trailing whitespace under
    the 'based-on-source' / 'macros' policies, nothing otherwise. *)
Theorem C12_comment_dropped_text : forall src lt cx o sl st p e m c ps,
  o_keep_comments o = false ->
  node_text src lt cx o sl st (NComment p e m c ps) = (if s_ac sl then [] else ps, st).
Proof. intros. now apply comment_text_dropped. Qed.
Print Assumptions C12_comment_dropped_text.

(** With [keep_comments] a comment node renders as ['%'] + its text + trailing
    whitespace (a single newline under the strict policies if there was any). *)
Theorem C12_comment_kept_text : forall src lt cx o sl st p e m c ps,
  o_keep_comments o = true ->
  node_text src lt cx o sl st (NComment p e m c ps)
  = (37%N :: c ++ (if s_ac sl then match ps with [] => [] | _ => [10%N] end else ps), st).
Proof. intros. now apply comment_text_kept. Qed.
Print Assumptions C12_comment_kept_text.

(** every comment that is a direct item of a rendered node list appears *)
Theorem C12_comments_kept_toplevel : forall src lt cx o sl st p e l p' e' m c ps,
  o_keep_comments o = true ->
  In (Some (NComment p' e' m c ps)) l ->
  infix (37%N :: c) (fst (node_text src lt cx o sl st (NList p e l))).
Proof. intros. now apply (kept_comment_item src lt cx o) with (p' := p') (e' := e') (m := m) (ps := ps). Qed.
Print Assumptions C12_comments_kept_toplevel.

(** ... and every comment at a [covered] position: reachable from the root through
    - items of node lists, items of group bodies,
    - items of the body of an environment whose text spec is absent or has no
      replacement and [discard=False] ([env_transparent]: itemize, center, unknown
      environments ...),
    - (items of) arguments of a macro / specials whose text spec has no
      replacement and [discard=False] ([macro_concat]: \textbf \emph \textit \text ...),
    - (items of) arguments of a macro / specials, items of the body of an
      environment, rendered through a POSITIONAL replacement template with exactly
      one [%s] per argument slot ([macro_tmpl_pos]: \url \underline \frac \hint ...;
      [env_tmpl_pos]: center, flushleft, flushright),
    - the argument with index [i] of a macro / specials rendered through a KEYED
      template that mentions [%(i+1)s] and only uses keys within the available
      slots ([macro_tmpl_key]: \footnote \sqrt \textcolor ...),
    - and, with [thru_math = true], items of the body of a math node or of an
      equation-like environment in the modes that render formula bodies
      ('text', 'with-delimiters'); this needs [solid ('%' ++ c)]: the comment text
      does not end with a blank (the body text goes through [strip()]) and
      contains no newline (display formulas are re-indented line by line).

    PARTIAL.  Full statement (not proved):
      [o_keep_comments o = true -> forall comment node of text c that is rendered
       at all, infix ('%' ++ c) (fst (node_text ... n))].
    Positions NOT covered: arguments handed to a replacement callable (\section,
    \href, \item[..], accents, math alphabets ... — several of these strip,
    re-case or re-style the text, so the infix statement is false for them),
    matrix cells, [%(body)s] of an environment template (none in the default
    database). *)
Theorem C12_comments_kept_covered_partial : forall src lt cx o thru_math c n,
  o_keep_comments o = true ->
  (thru_math = true -> solid (37%N :: c) = true) ->
  covered lt cx o thru_math (is_comment_with c) n ->
  forall sl st, infix (37%N :: c) (fst (node_text src lt cx o sl st n)).
Proof. intros src lt cx o tm c n Hk Hs Hc. now apply (kept_comment_covered src lt cx o Hk tm). Qed.
Print Assumptions C12_comments_kept_covered_partial.

(** * Math modes *)

(** [math_mode='remove'] (and also ['verbatim']): the output does not depend on
    the body of any math node nor on the body of any equation-like environment. *)
Theorem C12_math_remove : forall src lt cx o sl st g n,
  o_math o = MMRemove ->
  node_text src lt cx o sl st (map_math_bodies lt g n) = node_text src lt cx o sl st n.
Proof.
  intros src lt cx o sl st g n Hm. unfold map_math_bodies.
  apply xform_text; [now right | | ]; unfold math_blind; rewrite Hm; auto.
Qed.
Print Assumptions C12_math_remove.

Theorem C12_math_remove_text : forall src lt cx o sl st,
  o_math o = MMRemove ->
  (forall p e m d dl dr b, node_text src lt cx o sl st (NMath p e m d dl dr b) = ([], st))
  /\ (forall nm p e m a b, is_eqenv lt nm = true ->
        node_text src lt cx o sl st (NEnv p e m nm a b) = ([], st)).
Proof.
  intros src lt cx o sl st Hm. split; intros.
  - now apply math_text_remove.
  - now apply eqenv_text_remove.
Qed.
Print Assumptions C12_math_remove_text.

(** [math_mode='verbatim']: a math node renders as the source slice
    [src[pos:pos_end]] (on its own line when display), an equation-like
    environment as its source slice on its own line — whatever the tree below. *)
Theorem C12_math_verbatim : forall src lt cx o sl st,
  o_math o = MMVerbatim ->
  (forall p e m d dl dr b,
     node_text src lt cx o sl st (NMath p e m d dl dr b)
     = (if d then 10%N :: slice src p e ++ [10%N] else slice src p e, st))
  /\ (forall nm p e m a b, is_eqenv lt nm = true ->
        node_text src lt cx o sl st (NEnv p e m nm a b) = (10%N :: slice src p e ++ [10%N], st)).
Proof.
  intros src lt cx o sl st Hm. split; intros.
  - now apply math_text_verbatim.
  - now apply eqenv_text_verbatim.
Qed.
Print Assumptions C12_math_verbatim.

Theorem C12_math_verbatim_independent : forall src lt cx o sl st g n,
  o_math o = MMVerbatim ->
  node_text src lt cx o sl st (map_math_bodies lt g n) = node_text src lt cx o sl st n.
Proof.
  intros src lt cx o sl st g n Hm. unfold map_math_bodies.
  apply xform_text; [now right | | ]; unfold math_blind; rewrite Hm; auto.
Qed.
Print Assumptions C12_math_verbatim_independent.

(** the source of every math node at a [covered] position (see above) is in the
    output.  PARTIAL for the same reason as [C12_comments_kept_covered_partial]:
    full statement = the same for every math node that is rendered at all. *)
Theorem C12_math_verbatim_covered_partial : forall src lt cx o p e n,
  o_math o = MMVerbatim ->
  covered lt cx o false (is_math_at p e) n ->
  forall sl st, infix (slice src p e) (fst (node_text src lt cx o sl st n)).
Proof. intros src lt cx o p e n Hm Hc. now apply verbatim_math_covered. Qed.
Print Assumptions C12_math_verbatim_covered_partial.

(** [math_mode='with-delimiters']: a math node renders as its opening delimiter,
    the stripped text of its body (on its own line when display), its closing
    delimiter; an equation-like environment as [\begin{name}], the stripped body
    text on its own line, [\end{name}]. *)
Theorem C12_math_with_delimiters : forall src lt cx o sl st,
  o_math o = MMWithDelims ->
  (forall p e m d dl dr b,
     node_text src lt cx o sl st (NMath p e m d dl dr b)
     = (let c := py_strip (fst (body_text src lt cx o (push_eq sl) st b)) in
        dl ++ (if d then 10%N :: c ++ [10%N] else c) ++ dr,
        snd (body_text src lt cx o (push_eq sl) st b)))
  /\ (forall nm p e m a b, is_eqenv lt nm = true ->
        node_text src lt cx o sl st (NEnv p e m nm a b)
        = (begin_of nm ++ (10%N :: py_strip (fst (body_text src lt cx o (push_eq sl) st b)) ++ [10%N])
           ++ end_of nm,
           snd (body_text src lt cx o (push_eq sl) st b))).
Proof.
  intros src lt cx o sl st Hm. split; intros.
  - now apply math_text_with_delims.
  - now apply eqenv_text_with_delims.
Qed.
Print Assumptions C12_math_with_delimiters.

(** * Discarded constructs *)

(** A macro without a text spec, or whose text spec has no replacement (or the
    empty replacement string) and [discard=True], renders as [''] whatever its
    arguments; the same for an environment / specials WITH such a text spec
    (an environment without a text spec renders its body). *)
Theorem C12_discard : forall src lt cx o sl st,
  (forall nm p e m ps a, macro_discarded lt nm = true ->
     node_text src lt cx o sl st (NMacro p e m nm ps a) = ([], st))
  /\ (forall nm p e m a b, env_discarded lt nm = true ->
        node_text src lt cx o sl st (NEnv p e m nm a b) = ([], st))
  /\ (forall ch p e m a, specials_discarded lt ch = true ->
        node_text src lt cx o sl st (NSpecials p e m ch a) = ([], st)).
Proof.
  intros src lt cx o sl st. repeat split; intros.
  - now apply macro_discard.
  - now apply env_discard.
  - now apply specials_discard.
Qed.
Print Assumptions C12_discard.

(** * The general statement all the non-interference theorems are instances of *)
Theorem C12_noninterference : forall src lt cx o (fc : str -> str) (rb : str -> bool) (rm : bool)
    (g : option node -> option node),
  (o_keep_comments o = false \/ forall c, fc c = c) ->
  (rm = true -> math_blind o = true) ->
  (forall nm, rb nm = true -> is_eqenv lt nm = true /\ math_blind o = true) ->
  forall n sl st,
  node_text src lt cx o sl st (xform fc rb rm g n) = node_text src lt cx o sl st n.
Proof. exact xform_text. Qed.
Print Assumptions C12_noninterference.

(** * Non-vacuity: concrete trees under the generated default databases *)
Section Examples.
  Let lt := Gen.GenL2TCtx.default_l2tctx.
  Let cx := Gen.GenWalkerCtx.default_ctx.
  Let m0 := text_mode.
  Let o_of (mm : mathmode) (kc : bool) : opts :=
    {| o_math := mm; o_keep_comments := kc; o_sls := sls_bos; o_kbg := false; o_kbg_minlen := 0 |}.
  (* a%SECRET\n \textbf{b%INNER\n} $x$ \begin{equation}y\end{equation} *)
  Let secret : str := [83;69;67]%N.
  Let inner : str := [73;78;78]%N.
  Let textbf : str := [116;101;120;116;98;102]%N.
  Let equation : str := [101;113;117;97;116;105;111;110]%N.
  Let label : str := [108;97;98;101;108]%N.
  Let doc : node :=
    NList (Some 0) (Some 60)
      [Some (NChars 0 1 m0 [97%N]);
       Some (NComment 1 5 m0 secret [10%N]);
       Some (NMacro 6 20 m0 textbf []
               (Some ([[123%N]], [Some (NGroup 13 20 m0 [123%N] [125%N]
                    (Some (NList (Some 14) (Some 19)
                       [Some (NChars 14 15 m0 [98%N]); Some (NComment 15 19 m0 inner [10%N])])))])));
       Some (NMath 21 24 m0 false [36%N] [36%N]
               (Some (NList (Some 22) (Some 23) [Some (NChars 22 23 m0 [120%N])])));
       Some (NEnv 25 55 m0 equation (Some ([], []))
               (Some (NList (Some 41) (Some 42) [Some (NChars 41 42 m0 [121%N])])));
       Some (NMacro 56 60 m0 label [] (Some ([[123%N]], [Some (NChars 58 59 m0 [122%N])])))].
  Let src0 : str := repeat 46%N 60.
  Let f : str -> str := fun _ => [88;88;88]%N.
  Let g : option node -> option node := fun _ => Some (NChars 0 0 m0 [81;81]%N).

  (** the rewrites do change the tree ... *)
  Example C12_rewrites_nontrivial :
    map_comment_text f doc <> doc /\ map_math_bodies lt g doc <> doc.
  Proof. split; intros H; vm_compute in H; discriminate. Qed.

  (** ... the hypotheses are necessary: with [keep_comments] / in 'text' mode the output changes *)
  Example C12_comments_erased_nonvacuous :
    node_text src0 lt cx (o_of MMText false) sls_bos d0 (map_comment_text f doc)
    = node_text src0 lt cx (o_of MMText false) sls_bos d0 doc
    /\ node_text src0 lt cx (o_of MMText true) sls_bos d0 (map_comment_text f doc)
       <> node_text src0 lt cx (o_of MMText true) sls_bos d0 doc.
  Proof. split; [now apply C12_comments_erased | intros H; vm_compute in H; discriminate]. Qed.

  Example C12_math_remove_nonvacuous :
    is_eqenv lt equation = true
    /\ node_text src0 lt cx (o_of MMRemove false) sls_bos d0 (map_math_bodies lt g doc)
       = node_text src0 lt cx (o_of MMRemove false) sls_bos d0 doc
    /\ node_text src0 lt cx (o_of MMText false) sls_bos d0 (map_math_bodies lt g doc)
       <> node_text src0 lt cx (o_of MMText false) sls_bos d0 doc.
  Proof.
    split; [vm_compute; reflexivity|]. split; [now apply C12_math_remove|].
    intros H; vm_compute in H; discriminate.
  Qed.

  (** the comments of [doc] sit at covered positions: top-level, inside \textbf{...}, and
      (doc2) inside a formula *)
  Let mcom : str := [77;67]%N.
  Let doc2 : node :=
    NList (Some 0) (Some 9)
      [Some (NMath 0 9 m0 false [36%N] [36%N]
               (Some (NList (Some 1) (Some 8)
                  [Some (NChars 1 2 m0 [120%N]); Some (NComment 2 6 m0 mcom [10%N]);
                   Some (NChars 6 8 m0 [121;32]%N)])))].
  Let center : str := [99;101;110;116;101;114]%N.
  Let doc3 : node :=
    NEnv 0 30 m0 center (Some ([], []))
      (Some (NList (Some 14) (Some 20) [Some (NChars 14 15 m0 [97%N]); Some (NComment 15 19 m0 mcom [10%N])])).
  Example C12_comments_kept_template_nonvacuous :
    env_tmpl_pos lt center = true
    /\ infix (37%N :: mcom) (fst (node_text src0 lt cx (o_of MMText true) sls_bos d0 doc3)).
  Proof.
    split; [vm_compute; reflexivity|].
    apply (C12_comments_kept_covered_partial src0 lt cx (o_of MMText true) false); [reflexivity | discriminate |].
    eapply cov_env_tmpl; [vm_compute; reflexivity | right; left; reflexivity |].
    apply cov_leaf. now exists 15, 19, m0, [10%N].
  Qed.

  Let footnote : str := [102;111;111;116;110;111;116;101]%N.
  Let doc4 : node :=
    NMacro 0 30 m0 footnote []
      (Some ([[91%N]; [123%N]],
             [None; Some (NGroup 9 20 m0 [123%N] [125%N]
                            (Some (NList (Some 10) (Some 19)
                               [Some (NChars 10 11 m0 [97%N]); Some (NComment 11 15 m0 mcom [10%N])])))])).
  Example C12_comments_kept_keyed_template_nonvacuous :
    macro_tmpl_key lt cx footnote 2 1 = true
    /\ infix (37%N :: mcom) (fst (node_text src0 lt cx (o_of MMText true) sls_bos d0 doc4)).
  Proof.
    split; [vm_compute; reflexivity|].
    apply (C12_comments_kept_covered_partial src0 lt cx (o_of MMText true) false); [reflexivity | discriminate |].
    eapply (cov_macro_key lt cx _ false _ _ _ _ _ _ _ _ 1); [vm_compute; reflexivity | reflexivity |].
    eapply cov_group; [right; left; reflexivity|].
    apply cov_leaf. now exists 11, 15, m0, [10%N].
  Qed.

  Example C12_comments_kept_nonvacuous :
    covered lt cx (o_of MMText true) false (is_comment_with secret) doc
    /\ infix (37%N :: inner) (fst (node_text src0 lt cx (o_of MMText true) sls_bos d0 doc))
    /\ infix (37%N :: mcom) (fst (node_text src0 lt cx (o_of MMWithDelims true) sls_bos d0 doc2)).
  Proof.
    split; [|split].
    - eapply cov_list; [right; left; reflexivity|]. apply cov_leaf. now exists 1, 5, m0, [10%N].
    - apply (C12_comments_kept_covered_partial src0 lt cx (o_of MMText true) false); [reflexivity | discriminate |].
      eapply cov_list; [right; right; left; reflexivity|].
      eapply cov_macro; [vm_compute; reflexivity | left; reflexivity |].
      eapply cov_group; [right; left; reflexivity|].
      apply cov_leaf. now exists 15, 19, m0, [10%N].
    - apply (C12_comments_kept_covered_partial src0 lt cx (o_of MMWithDelims true) true);
        [reflexivity | intros _; vm_compute; reflexivity |].
      eapply cov_list; [left; reflexivity|].
      eapply cov_math; [reflexivity | reflexivity | right; left; reflexivity |].
      apply cov_leaf. now exists 2, 6, m0, [10%N].
  Qed.

  Example C12_discard_nonvacuous :
    macro_discarded lt label = true
    /\ fst (node_text src0 lt cx (o_of MMText false) sls_bos d0 doc)
       = [97; 10; 98; 10; 120; 10; 32; 32; 32; 32; 121; 10]%N.
  Proof. split; vm_compute; reflexivity. Qed.
End Examples.

(** * Source level (composition with C02): [C12_source_level]

    The theorems above are about TREES.  [Properties/C02.v:
    C02_parse_unparse_partial] says which tree the strict parser returns for a
    written document of the core grammar ([Doc/DocGrammar.v]: text, groups,
    macros with mandatory braced arguments, inline / display math, comments,
    paragraph breaks; [ok_doc] = the side conditions that make the written form
    unambiguous).  Composed:

    two documents [d], [d'] of that grammar that differ ONLY in the text of their
    comments ([same_but_comments]: same items, same whitespace fields, same
    comment post-space; comments at any depth — in groups, macro arguments,
    formulas) are converted to the SAME text (and document state) by
    [latex_to_text] with the default databases whenever [keep_comments] is off
    and the math mode is 'text', 'with-delimiters' or 'remove'.

    With [math_mode='verbatim'] the statement is false for comments inside a
    formula (the formula's source is reproduced, second clause of the property;
    see [C12_source_level_nonvacuous]); that mode is excluded here.

    The glue between the two properties is [C12_positions_irrelevant]: the
    comment texts have different lengths, so every later position (and the
    source string) differs between the two trees — outside verbatim mode the
    renderer reads neither.

    PARTIAL: the core grammar of C02 only (no environments, optional / star
    arguments, specials other than the paragraph break, [$$..$$], verbatim).
    The verbatim math mode, with the exclusion of comments inside formulas, is
    [C12_source_level_all_modes_partial] below. *)

(** [repos n] = [n] with every position zeroed *)
Theorem C12_positions_irrelevant : forall src src' lt cx o,
  o_math o <> MMVerbatim ->
  forall n sl st, node_text src' lt cx o sl st (repos n) = node_text src lt cx o sl st n.
Proof. exact repos_text. Qed.
Print Assumptions C12_positions_irrelevant.

(** the meanings of the two documents are equal up to positions and comment
    texts ([E] = [repos] then every comment text replaced by the empty string):
    any context, any parsing state, any offsets *)
Theorem C12_trees_same_but_comments : forall cx ps pos pos' d d',
  same_but_comments d d' ->
  map (fun x => match x with Some c => Some (map_comment_text (fun _ => []) (repos c)) | None => None end)
      (fst (tree_of cx ps pos d))
  = map (fun x => match x with Some c => Some (map_comment_text (fun _ => []) (repos c)) | None => None end)
        (fst (tree_of cx ps pos' d')).
Proof. exact tree_sbc. Qed.
Print Assumptions C12_trees_same_but_comments.

Theorem C12_source_level_partial : forall o d d',
  same_but_comments d d' ->
  ok_doc Gen.GenWalkerCtx.default_ctx d = true -> ok_doc Gen.GenWalkerCtx.default_ctx d' = true ->
  o_keep_comments o = false -> o_math o <> MMVerbatim ->
  exists r, latex_to_text o (unparse d) false = Some r /\ latex_to_text o (unparse d') false = Some r.
Proof. exact source_level. Qed.
Print Assumptions C12_source_level_partial.

(** non-vacuity: [a %SEC\n\textbf{b%INN\n }  $x %MC\ny$\n\nz\n] and the same document with the
    comment texts [XXXXXX], (empty), [Q{$]: different sources, both satisfy the side
    conditions, same output [a \nb\n x \ny\n\nz\n]; with [keep_comments] the outputs differ, and
    in verbatim mode they differ too (the comment inside the formula is reproduced) *)
Section SourceExample.
  Open Scope N_scope.
  Let mkd (c1 c2 c3 : str) : doc :=
    {| d_items :=
         [Text [] [97];
          Cmt [32] c1 [10];
          Mac [] [116;101;120;116;98;102] [] [Grp [] [Text [] [98]; Cmt [] c2 [10; 32]] []];
          Math [32] MDollar [Text [] [120]; Cmt [32] c3 [10]; Text [] [121]] [];
          Par [] [];
          Text [] [122]];
       d_trail := [10] |}.
  Let dA := mkd [83;69;67] [73;78;78] [77;67].
  Let dB := mkd [88;88;88;88;88;88] [] [81;123;36].
  Let o_of (mm : mathmode) (kc : bool) : opts :=
    {| o_math := mm; o_keep_comments := kc; o_sls := sls_bos; o_kbg := false; o_kbg_minlen := 0 |}.
  Example C12_source_level_nonvacuous :
    same_but_comments dA dB
    /\ ok_doc Gen.GenWalkerCtx.default_ctx dA = true /\ ok_doc Gen.GenWalkerCtx.default_ctx dB = true
    /\ unparse dA <> unparse dB
    /\ option_map fst (latex_to_text (o_of MMText false) (unparse dA) false)
       = Some [97; 32; 10; 98; 10; 32; 120; 32; 10; 121; 10; 10; 122; 10]
    /\ latex_to_text (o_of MMText false) (unparse dA) false = latex_to_text (o_of MMText false) (unparse dB) false
    /\ latex_to_text (o_of MMWithDelims false) (unparse dA) false
       = latex_to_text (o_of MMWithDelims false) (unparse dB) false
    /\ latex_to_text (o_of MMText true) (unparse dA) false <> latex_to_text (o_of MMText true) (unparse dB) false
    /\ latex_to_text (o_of MMVerbatim false) (unparse dA) false
       <> latex_to_text (o_of MMVerbatim false) (unparse dB) false.
  Proof.
    split; [unfold same_but_comments; cbn; repeat split|].
    split; [vm_compute; reflexivity|]. split; [vm_compute; reflexivity|].
    split; [vm_compute; discriminate|]. split; [vm_compute; reflexivity|].
    assert (W : same_but_comments dA dB) by (unfold same_but_comments; cbn; repeat split).
    split; [|split; [|split]].
    - assert (H : exists r, latex_to_text (o_of MMText false) (unparse dA) false = Some r
                            /\ latex_to_text (o_of MMText false) (unparse dB) false = Some r)
        by (apply C12_source_level_partial;
            [exact W | vm_compute; reflexivity | vm_compute; reflexivity | reflexivity | discriminate]).
      destruct H as (r & A & B). congruence.
    - assert (H : exists r, latex_to_text (o_of MMWithDelims false) (unparse dA) false = Some r
                            /\ latex_to_text (o_of MMWithDelims false) (unparse dB) false = Some r)
        by (apply C12_source_level_partial;
            [exact W | vm_compute; reflexivity | vm_compute; reflexivity | reflexivity | discriminate]).
      destruct H as (r & A & B). congruence.
    - vm_compute. discriminate.
    - vm_compute. discriminate.
  Qed.
End SourceExample.

(** * Source level, ALL math modes (verbatim included)

    With [math_mode='verbatim'] the source of a formula is reproduced, comments
    written inside it included (second clause of the property).  Excluding those:
    [same_but_comments_outside_math d d'] = same items, same whitespace, comment
    texts free EXCEPT that formulas ([Math] items) are identical.  Then the two
    documents are converted to the same text for EVERY option record with
    [keep_comments] off — all four math modes.

    The tree-level glue is the relational form of non-interference,
    [C12_relational]: [vrel src src' kc vb n n'] ([Proofs/ComposeRel.v]) relates
    two trees of the same shape that agree on everything the renderer reads
    (characters, names, delimiters, post-spaces, argument specs; comment texts
    only if [kc]; the source slices [slice src p e] / [slice src' p' e'] of
    formulas and environments only if [vb]) — positions, recorded modes and the
    two source strings are otherwise unrelated.  It subsumes
    [C12_positions_irrelevant] and [C12_comments_erased]. *)
Theorem C12_relational : forall src src' lt cx o n n',
  vrel src src' (o_keep_comments o) (match o_math o with MMVerbatim => true | _ => false end) n n' ->
  forall sl st, node_text src lt cx o sl st n = node_text src' lt cx o sl st n'.
Proof. exact vrel_text. Qed.
Print Assumptions C12_relational.

(** the meanings of the two documents are related: same shape and characters,
    and the source slice of every formula is its written form in both sources
    (any context, any parsing state) *)
Theorem C12_trees_same_but_comments_outside_math : forall cx vb ps d d',
  same_but_comments_outside_math d d' ->
  ok_doc cx d = true -> ok_doc cx d' = true ->
  vall2 (unparse d) (unparse d') false vb (fst (tree_of cx ps 0 d)) (fst (tree_of cx ps 0 d')).
Proof.
  intros cx vb ps d d' W O O'.
  exact (tree_sbcv cx (unparse d) (unparse d') vb ps d d' W (ok_doc_nows cx d O) (ok_doc_nows cx d' O') eq_refl eq_refl).
Qed.
Print Assumptions C12_trees_same_but_comments_outside_math.

Theorem C12_source_level_all_modes_partial : forall o d d',
  same_but_comments_outside_math d d' ->
  ok_doc Gen.GenWalkerCtx.default_ctx d = true -> ok_doc Gen.GenWalkerCtx.default_ctx d' = true ->
  o_keep_comments o = false ->
  exists r, latex_to_text o (unparse d) false = Some r /\ latex_to_text o (unparse d') false = Some r.
Proof. exact source_level_all_modes. Qed.
Print Assumptions C12_source_level_all_modes_partial.

(** non-vacuity: [a %SEC\n\textbf{b%INN\n }  $x y\text{p%Q\n}$\n\nz\n] vs. the same with other comment texts
    at top level and in the [\textbf] argument (the formula, which contains a comment inside a [\text]
    argument, is identical): same output in verbatim mode *)
Section SourceExampleV.
  Open Scope N_scope.
  Let mkd (c1 c2 : str) : doc :=
    {| d_items :=
         [Text [] [97];
          Cmt [32] c1 [10];
          Mac [] [116;101;120;116;98;102] [] [Grp [] [Text [] [98]; Cmt [] c2 [10; 32]] []];
          Math [32] MDollar [Text [] [120]; Text [32] [121];
                             Mac [] [116;101;120;116] [] [Grp [] [Text [] [112]; Cmt [] [81] [10]] []]] [];
          Par [] [];
          Text [] [122]];
       d_trail := [10] |}.
  Let dA := mkd [83;69;67] [73;78;78].
  Let dB := mkd [88;88;88;88;88;88] [].
  Let o_of (mm : mathmode) : opts :=
    {| o_math := mm; o_keep_comments := false; o_sls := sls_bos; o_kbg := false; o_kbg_minlen := 0 |}.
  Example C12_source_level_all_modes_nonvacuous :
    same_but_comments_outside_math dA dB
    /\ ok_doc Gen.GenWalkerCtx.default_ctx dA = true /\ ok_doc Gen.GenWalkerCtx.default_ctx dB = true
    /\ unparse dA <> unparse dB
    /\ option_map fst (latex_to_text (o_of MMVerbatim) (unparse dA) false)
       = Some [97; 32; 10; 98; 10; 32; 36; 120; 32; 121; 92; 116; 101; 120; 116; 123; 112; 37; 81; 10; 125; 36;
               10; 10; 122; 10]
    /\ latex_to_text (o_of MMVerbatim) (unparse dA) false = latex_to_text (o_of MMVerbatim) (unparse dB) false.
  Proof.
    assert (W : same_but_comments_outside_math dA dB) by (unfold same_but_comments_outside_math; cbn; repeat split).
    split; [exact W|]. split; [vm_compute; reflexivity|]. split; [vm_compute; reflexivity|].
    split; [vm_compute; discriminate|]. split; [vm_compute; reflexivity|].
    assert (H : exists r, latex_to_text (o_of MMVerbatim) (unparse dA) false = Some r
                          /\ latex_to_text (o_of MMVerbatim) (unparse dB) false = Some r)
      by (apply C12_source_level_all_modes_partial;
          [exact W | vm_compute; reflexivity | vm_compute; reflexivity | reflexivity]).
    destruct H as (r & A & B). congruence.
  Qed.
End SourceExampleV.
Print Assumptions C12_source_level_all_modes_nonvacuous.

(** * Source level over the EXTENDED document grammar (composition with [C02_parse_unparse2_partial])

    [Doc/DocGrammar2.v]: the core grammar plus environments (arguments, math
    bodies), [$$ .. $$], specials, optional delimited arguments / star written or
    absent, single-token mandatory arguments, verbatim macro / environments /
    arguments, and COMMENTS IN FRONT OF ARGUMENTS ([Pre2 ws text post a]).

    [sbc2 vb eqn i i'] ([Proofs/Compose2Comments.v]): same constructors, same
    whitespace / name / post-space / delimiter / verbatim-text fields everywhere;
    comment texts ([Cmt2], [Pre2]) free; and when [vb]: formulas ([Math2]) are
    identical, environments whose name satisfies [eqn] are identical.
    - [same_but_comments2 := sbc_doc2 false _]: comments free EVERYWHERE;
    - [same_but_comments_outside_math2 lt := sbc_doc2 true (is_eqenv lt)]: comments
      free everywhere except inside formulas and equation environments (the
      environments rendered by [fmt_equation_environment], whose SOURCE is
      reproduced in verbatim mode) — in particular free inside every other
      environment (center, itemize, tabular ...). *)
From PLV Require Import Doc.DocGrammar2 Proofs.Compose2Rel Proofs.Compose2Comments.

(** the tree-level glue, refined: as [C12_relational] but the source slice of an
    environment has to agree only for equation environments.  [vbr] / [eqn] may be
    stronger than what the options / the database need. *)
Theorem C12_relational2 : forall src src' lt cx o vbr eqn,
  (match o_math o with MMVerbatim => true | _ => false end = true -> vbr = true) ->
  (match o_math o with MMVerbatim => true | _ => false end = true -> forall nm, is_eqenv lt nm = true -> eqn nm = true) ->
  forall n n', vrelq src src' (o_keep_comments o) vbr eqn n n' ->
  forall sl st, node_text src lt cx o sl st n = node_text src' lt cx o sl st n'.
Proof. exact vrelq_text_gen. Qed.
Print Assumptions C12_relational2.

(** the meanings of two such documents are related (any context, any parsing state, any [vb] / [eqn]) *)
Theorem C12_trees_same_but_comments2 : forall cx vb eqn ps d d',
  sbc_doc2 vb eqn d d' -> ok_doc2 cx d = true -> ok_doc2 cx d' = true ->
  vallq (unparse2 d) (unparse2 d') false vb eqn (fst (tree_of2 cx ps 0 d)) (fst (tree_of2 cx ps 0 d')).
Proof.
  intros cx vb eqn ps d d' W O O'.
  exact (tree_sbc2 cx (unparse2 d) (unparse2 d') vb eqn ps d d' W (ok_doc_arity2 cx d O) (ok_doc_arity2 cx d' O')
           eq_refl eq_refl).
Qed.
Print Assumptions C12_trees_same_but_comments2.

(** two documents of the extended grammar that differ only in the text of their
    comments — anywhere: top level, groups, arguments, in front of arguments,
    environment bodies, formulas — are converted to the same text when
    [keep_comments] is off and the math mode is not verbatim.

    PARTIAL: the extended grammar of [C02_parse_unparse2_partial] (see notes/C02.md for what it leaves out). *)
Theorem C12_source_level2_partial : forall o d d',
  same_but_comments2 d d' ->
  ok_doc2 Gen.GenWalkerCtx.default_ctx d = true -> ok_doc2 Gen.GenWalkerCtx.default_ctx d' = true ->
  o_keep_comments o = false -> o_math o <> MMVerbatim ->
  exists r, latex_to_text o (unparse2 d) false = Some r /\ latex_to_text o (unparse2 d') false = Some r.
Proof. exact source_level2. Qed.
Print Assumptions C12_source_level2_partial.

(** ALL four math modes: formulas and equation environments identical *)
Theorem C12_source_level2_all_modes_partial : forall o d d',
  same_but_comments_outside_math2 Gen.GenL2TCtx.default_l2tctx d d' ->
  ok_doc2 Gen.GenWalkerCtx.default_ctx d = true -> ok_doc2 Gen.GenWalkerCtx.default_ctx d' = true ->
  o_keep_comments o = false ->
  exists r, latex_to_text o (unparse2 d) false = Some r /\ latex_to_text o (unparse2 d') false = Some r.
Proof. exact source_level_all_modes2. Qed.
Print Assumptions C12_source_level2_all_modes_partial.

(** non-vacuity:
    [a %c1\n\begin{center}b%c2\n\end{center}\textbf%c3\n{c}\sqrt[2%c4\n]{x} $x%c5\n$\begin{equation}y\end{equation}z\n]
    — comments at top level, in an environment body, IN FRONT OF the argument of [\textbf], inside an
    optional argument, inside a formula.  [dA], [dB] differ in c1..c4 (same formula): same output in
    verbatim mode (the comment inside the formula is reproduced in both); [dA], [dC] differ in all
    five: same output in text mode, different output in verbatim mode (so the hypothesis of the
    all-modes theorem is needed) *)
Section SourceExample2.
  Open Scope N_scope.
  Let mkd (c1 c2 c3 c4 c5 : str) : doc2 :=
    {| d_items2 :=
      [Text2 [] [97]; Cmt2 [32] c1 [10];
       Env2 [] [] [99;101;110;116;101;114] [] [Text2 [] [98]; Cmt2 [] c2 [10]] [] [];
       Mac2 [] [116;101;120;116;98;102] [] [Pre2 [] c3 [10] (Grp2 [] [Text2 [] [99]] [])];
       Mac2 [] [115;113;114;116] [] [Brk2 [] 91 93 [Text2 [] [50]; Cmt2 [] c4 [10]] []; Grp2 [] [Text2 [] [120]] []];
       Math2 [32] MDollar [Text2 [] [120]; Cmt2 [] c5 [10]] [];
       Env2 [] [] [101;113;117;97;116;105;111;110] [] [Text2 [] [121]] [] [];
       Text2 [] [122]];
     d_trail2 := [10] |}.
  Let dA := mkd [83] [73;78] [65] [66;66] [81].
  Let dB := mkd [88;88;88] [] [] [67] [81].
  Let dC := mkd [88;88;88] [] [] [67] [].
  Let o_of (mm : mathmode) : opts :=
    {| o_math := mm; o_keep_comments := false; o_sls := sls_bos; o_kbg := false; o_kbg_minlen := 0 |}.
  Let cx0 := Gen.GenWalkerCtx.default_ctx.
  Example C12_source_level2_nonvacuous :
    same_but_comments2 dA dC /\ same_but_comments_outside_math2 Gen.GenL2TCtx.default_l2tctx dA dB
    /\ ok_doc2 cx0 dA = true /\ ok_doc2 cx0 dB = true /\ ok_doc2 cx0 dC = true
    /\ length (unparse2 dA) = 104%nat /\ unparse2 dA <> unparse2 dB /\ unparse2 dA <> unparse2 dC
    (* text mode: [a \n\nb\n\nc√(x)x\n    y\nz\n] for all three *)
    /\ option_map fst (latex_to_text (o_of MMText) (unparse2 dA) false)
       = Some [97; 32; 10; 10; 98; 10; 10; 99; 8730; 40; 120; 41; 120; 10; 32; 32; 32; 32; 121; 10; 122; 10]
    /\ latex_to_text (o_of MMText) (unparse2 dA) false = latex_to_text (o_of MMText) (unparse2 dC) false
    (* verbatim mode: [a \n\nb\n\nc√(x)$x%Q\n$\n\begin{equation}y\end{equation}\nz\n] *)
    /\ option_map fst (latex_to_text (o_of MMVerbatim) (unparse2 dA) false)
       = Some [97; 32; 10; 10; 98; 10; 10; 99; 8730; 40; 120; 41; 36; 120; 37; 81; 10; 36; 10; 92; 98; 101; 103; 105;
               110; 123; 101; 113; 117; 97; 116; 105; 111; 110; 125; 121; 92; 101; 110; 100; 123; 101; 113; 117; 97;
               116; 105; 111; 110; 125; 10; 122; 10]
    /\ latex_to_text (o_of MMVerbatim) (unparse2 dA) false = latex_to_text (o_of MMVerbatim) (unparse2 dB) false
    /\ latex_to_text (o_of MMVerbatim) (unparse2 dA) false <> latex_to_text (o_of MMVerbatim) (unparse2 dC) false.
  Proof.
    assert (W1 : same_but_comments2 dA dC)
      by (unfold same_but_comments2, sbc_doc2; cbn; repeat split; discriminate).
    assert (W2 : same_but_comments_outside_math2 Gen.GenL2TCtx.default_l2tctx dA dB)
      by (unfold same_but_comments_outside_math2, sbc_doc2; cbn; repeat split; try discriminate;
          try (intros _ Q; vm_compute in Q; discriminate)).
    split; [exact W1|]. split; [exact W2|].
    split; [vm_compute; reflexivity|]. split; [vm_compute; reflexivity|]. split; [vm_compute; reflexivity|].
    split; [vm_compute; reflexivity|]. split; [vm_compute; discriminate|]. split; [vm_compute; discriminate|].
    split; [vm_compute; reflexivity|].
    split.
    { assert (H : exists r, latex_to_text (o_of MMText) (unparse2 dA) false = Some r
                            /\ latex_to_text (o_of MMText) (unparse2 dC) false = Some r)
        by (apply C12_source_level2_partial;
            [exact W1 | vm_compute; reflexivity | vm_compute; reflexivity | reflexivity | discriminate]).
      destruct H as (r & A & B). congruence. }
    split; [vm_compute; reflexivity|].
    split.
    { assert (H : exists r, latex_to_text (o_of MMVerbatim) (unparse2 dA) false = Some r
                            /\ latex_to_text (o_of MMVerbatim) (unparse2 dB) false = Some r)
        by (apply C12_source_level2_all_modes_partial;
            [exact W2 | vm_compute; reflexivity | vm_compute; reflexivity | reflexivity]).
      destruct H as (r & A & B). congruence. }
    vm_compute. discriminate.
  Qed.
End SourceExample2.
Print Assumptions C12_source_level2_nonvacuous.

(** * Covered positions, extended ([Proofs/Covered2.v])

    [covered2 lt cx o thru_strip leaf n]: the positions of [covered] plus
    - the arguments of the replacement CALLABLES that pass an argument's text through
      unchanged or wrapped: both arguments of [\href] ([CHref]), the optional argument of
      [\item] ([CItem]), the title argument of [\subsection] / [\subsubsection] /
      [\paragraph] / [\subparagraph] ([CSection _ false] — not [\part] / [\chapter] /
      [\section], which upper-case it), both arguments of [CUebung], the rendered argument of
      [\texorpdfstring] ([CTexorpdf]);
    - matrix cells: every body item other than [&] / [\\] of an environment rendered by
      [CMatrix] (array, pmatrix, bmatrix, ...), for a marker that is [solid] (the cell text
      is [strip()]ped, right-justified and joined).
    [covered ⊆ covered2] ([C12_covered_positions_extend]). *)
From PLV Require Import Proofs.Covered2.

Theorem C12_covered2_infix : forall src lt cx o thru_strip (leaf : node -> Prop) w,
  (thru_strip = true -> solid w = true) ->
  (forall x, leaf x -> forall sl st,
     infix w (fst (node_text src lt cx o sl st x))
     /\ infix w (fst (arg_text_g (node_text src lt cx o) sl st (Some x)))) ->
  forall n, covered2 lt cx o thru_strip leaf n ->
  (forall sl st, infix w (fst (node_text src lt cx o sl st n)))
  /\ (forall sl st, infix w (fst (arg_text_g (node_text src lt cx o) sl st (Some n)))).
Proof. exact covered2_infix. Qed.
Print Assumptions C12_covered2_infix.

Theorem C12_covered_positions_extend : forall lt cx o thru (leaf : node -> Prop) n,
  covered lt cx o thru leaf n -> covered2 lt cx o thru leaf n.
Proof. exact covered_covered2. Qed.
Print Assumptions C12_covered_positions_extend.

(** every kept comment at a [covered2] position is present in the output.
    PARTIAL (positions): false — witnesses below — for accents, math alphabets, upper-casing
    section macros, [\title]-like macros, arguments a template does not mention, arguments of
    environments, and comments in front of an argument (not in the tree at all). *)
Theorem C12_comments_kept_covered2_partial : forall src lt cx o,
  o_keep_comments o = true -> forall tm c n,
  (tm = true -> solid (37%N :: c) = true) ->
  covered2 lt cx o tm (is_comment_with c) n ->
  forall sl st, infix (37%N :: c) (fst (node_text src lt cx o sl st n)).
Proof. exact kept_comment_covered2. Qed.
Print Assumptions C12_comments_kept_covered2_partial.

(** the source of every verbatim formula at a [covered2] position is present in the output
    (through [strip()] — formula bodies, matrix cells — when it is [solid]) *)
Theorem C12_math_verbatim_covered2_partial : forall src lt cx o,
  o_math o = MMVerbatim -> forall tm p e n,
  (tm = true -> solid (slice src p e) = true) ->
  covered2 lt cx o tm (is_math_at p e) n ->
  forall sl st, infix (slice src p e) (fst (node_text src lt cx o sl st n)).
Proof. exact verbatim_math_covered2. Qed.
Print Assumptions C12_math_verbatim_covered2_partial.

Section Covered2Examples.
  Open Scope N_scope.
  Let lt0 := Gen.GenL2TCtx.default_l2tctx.
  Let cx0 := Gen.GenWalkerCtx.default_ctx.

  (** the callables of the default database (regenerated from /repo on every run) that the
      new positions are about *)
  Example C12_default_callables :
    macro_callable lt0 [105;116;101;109] = Some CItem /\ macro_callable lt0 [104;114;101;102] = Some CHref
    /\ macro_callable lt0 [116;101;120;111;114;112;100;102;115;116;114;105;110;103] = Some CTexorpdf
    /\ (exists pr, macro_callable lt0 [115;117;98;115;101;99;116;105;111;110] = Some (CSection pr false))
    /\ (exists pr, macro_callable lt0 [115;117;98;115;117;98;115;101;99;116;105;111;110] = Some (CSection pr false))
    /\ (exists pr, macro_callable lt0 [112;97;114;97;103;114;97;112;104] = Some (CSection pr false))
    /\ (exists pr, macro_callable lt0 [115;117;98;112;97;114;97;103;114;97;112;104] = Some (CSection pr false))
    /\ (exists pr, macro_callable lt0 [115;101;99;116;105;111;110] = Some (CSection pr true))
    /\ (exists pr, macro_callable lt0 [99;104;97;112;116;101;114] = Some (CSection pr true))
    /\ (exists pr, macro_callable lt0 [112;97;114;116] = Some (CSection pr true))
    /\ forallb (fun e => match env_callable lt0 e with Some CMatrix => true | _ => false end)
         [[97;114;114;97;121]; [112;109;97;116;114;105;120]; [98;109;97;116;114;105;120]; [115;109;97;108;108;109;97;116;114;105;120]; [112;115;109;97;108;108;109;97;116;114;105;120]; [98;115;109;97;108;108;109;97;116;114;105;120]] = true.
  Proof. vm_compute. repeat split; eexists; reflexivity. Qed.

  (** non-vacuity: [\item[x%A\n] \subsection{a%B\n}\texorpdfstring{a}{b%C\n}\begin{pmatrix}a%D\n&b\end{pmatrix}] parsed under the default context; the four comments [%A] (optional
      argument of [\item]), [%B] (title of [\subsection]), [%C] (second argument of
      [\texorpdfstring]), [%D] (matrix cell) are at [covered2] positions — none of them at a
      [covered] position of the earlier theorem — and the output, evaluated independently, is
      [\n  x%A\n\n\n §.§ a%B\n\nb%C\n[ a%D   b ]] (blank text nodes dropped under this whitespace policy) *)
  Let s0 : str := [92;105;116;101;109;91;120;37;65;10;93;32;92;115;117;98;115;101;99;116;105;111;110;123;97;37;66;10;125;92;116;101;120;111;114;112;100;102;115;116;114;105;110;103;123;97;125;123;98;37;67;10;125;92;98;101;103;105;110;123;112;109;97;116;114;105;120;125;97;37;68;10;38;98;92;101;110;100;123;112;109;97;116;114;105;120;125].
  Let tr : node := match parse_top s0 false cx0 (Parse.ParseWire.walker_state cx0) with
                   | Ok (ONode (Some n)) _ => n | _ => NList None None [] end.
  Let okc : opts := {| o_math := MMText; o_keep_comments := true; o_sls := sls_bos; o_kbg := false; o_kbg_minlen := 0 |}.
  Example C12_comments_kept_covered2_nonvacuous :
    covered2 lt0 cx0 okc false (is_comment_with [65]) tr
    /\ covered2 lt0 cx0 okc false (is_comment_with [66]) tr
    /\ covered2 lt0 cx0 okc false (is_comment_with [67]) tr
    /\ covered2 lt0 cx0 okc true (is_comment_with [68]) tr /\ solid [37; 68] = true
    /\ fst (node_text s0 lt0 cx0 okc sls_bos d0 tr) = [10;32;32;120;37;65;10;10;10;32;167;46;167;32;97;37;66;10;10;98;37;67;10;91;32;97;37;68;32;32;32;98;32;93].
  Proof.
    assert (T : tr = ltac:(let t := eval vm_compute in tr in exact t)) by (vm_compute; reflexivity).
    rewrite T. clear T. split; [|split; [|split; [|split; [|split]]]].
    - eapply cov2_list; [left; reflexivity|].
      eapply cov2_item with (i := 0%nat); [vm_compute; reflexivity | vm_compute; reflexivity | reflexivity |].
      eapply cov2_group; [right; left; reflexivity|]. apply cov2_leaf. repeat eexists.
    - eapply cov2_list; [right; right; left; reflexivity|].
      eapply cov2_section; [vm_compute; reflexivity | reflexivity |].
      eapply cov2_group; [right; left; reflexivity|]. apply cov2_leaf. repeat eexists.
    - eapply cov2_list; [right; right; right; left; reflexivity|].
      eapply cov2_texorpdf; [vm_compute; reflexivity | vm_compute; reflexivity |].
      eapply cov2_group; [right; left; reflexivity|]. apply cov2_leaf. repeat eexists.
    - eapply cov2_list; [right; right; right; right; left; reflexivity|].
      eapply cov2_matrix; [reflexivity | vm_compute; reflexivity | right; left; reflexivity | reflexivity | reflexivity |].
      apply cov2_leaf. repeat eexists.
    - vm_compute. reflexivity.
    - vm_compute. reflexivity.
  Qed.

  (** WITNESSES: positions where presence is FALSE of the model (and of the real code: each
      input was replayed with [LatexNodes2Text(keep_comments=True).latex_to_text]): the kept
      comment [%c] is not a substring of the output. *)
  Let lost (s : str) : option bool :=
    option_map (fun r => infixb [37; 99] (fst r)) (latex_to_text okc s false).
  Example C12_comments_kept_not_covered_witness :
    (* accent: \'{e%c\n} *)
    lost [92;39;123;101;37;99;10;125] = Some false
    /\     (* math alphabet: \mathbf{x%c\n} *)
    lost [92;109;97;116;104;98;102;123;120;37;99;10;125] = Some false
    /\     (* upper-casing section: \section{a%c\n} *)
    lost [92;115;101;99;116;105;111;110;123;97;37;99;10;125] = Some false
    /\     (* title without maketitle: \title{a%c\n}b *)
    lost [92;116;105;116;108;101;123;97;37;99;10;125;98] = Some false
    /\     (* argument not in the template: \footnote[%c\n1]{x} *)
    lost [92;102;111;111;116;110;111;116;101;91;37;99;10;49;93;123;120;125] = Some false
    /\     (* argument not in the template (sqrt): \sqrt[3%c\n]{x} *)
    lost [92;115;113;114;116;91;51;37;99;10;93;123;120;125] = Some false
    /\     (* environment argument: \begin{tabular}{c%c\n}x\end{tabular} *)
    lost [92;98;101;103;105;110;123;116;97;98;117;108;97;114;125;123;99;37;99;10;125;120;92;101;110;100;123;116;97;98;117;108;97;114;125] = Some false
    /\     (* comment in front of an argument: \textbf%c\n{x} *)
    lost [92;116;101;120;116;98;102;37;99;10;123;120;125] = Some false.
  Proof. vm_compute. repeat split. Qed.

  (** the same for verbatim formulas: [$x$] is not a substring of the output *)
  Let okv : opts := {| o_math := MMVerbatim; o_keep_comments := false; o_sls := sls_bos; o_kbg := false; o_kbg_minlen := 0 |}.
  Let lostv (w s : str) : option bool :=
    option_map (fun r => infixb w (fst r)) (latex_to_text okv s false).
  Example C12_math_verbatim_not_covered_witness :
    (* accent: \'{$x$} *)
    lostv [36;120;36] [92;39;123;36;120;36;125] = Some false
    /\     (* math alphabet: \mathbf{$x$} *)
    lostv [36;120;36] [92;109;97;116;104;98;102;123;36;120;36;125] = Some false
    /\     (* upper-casing section: \section{$x$} *)
    lostv [36;120;36] [92;115;101;99;116;105;111;110;123;36;120;36;125] = Some false
    /\     (* title without maketitle: \title{$x$}b *)
    lostv [36;120;36] [92;116;105;116;108;101;123;36;120;36;125;98] = Some false
    /\     (* argument not in the template: \footnote[$x$]{y} *)
    lostv [36;120;36] [92;102;111;111;116;110;111;116;101;91;36;120;36;93;123;121;125] = Some false.
  Proof. vm_compute. repeat split. Qed.
End Covered2Examples.
Print Assumptions C12_default_callables.
Print Assumptions C12_comments_kept_covered2_nonvacuous.
Print Assumptions C12_comments_kept_not_covered_witness.
Print Assumptions C12_math_verbatim_not_covered_witness.

(** [infixb] decides [infix]: the witnesses above are statements about [infix] *)
Theorem C12_infixb_sound : forall a b, infixb a b = false -> ~ infix a b.
Proof. exact infixb_false. Qed.
Print Assumptions C12_infixb_sound.

(** the source-level theorems over the extended grammar subsume those over the core grammar
    (with [C02_core_grammar_embeds]: [ok_doc d -> ok_doc2 (up_doc d)], same written form) *)
From PLV Require Import Proofs.Compose2CommentsEmbed.
Theorem C12_same_but_comments_embeds : forall d d',
  same_but_comments d d' -> same_but_comments2 (up_doc d) (up_doc d').
Proof. exact same_but_comments_up. Qed.
Theorem C12_same_but_comments_outside_math_embeds : forall lt d d',
  same_but_comments_outside_math d d' -> same_but_comments_outside_math2 lt (up_doc d) (up_doc d').
Proof. exact same_but_comments_outside_math_up. Qed.
Print Assumptions C12_same_but_comments_embeds.
Print Assumptions C12_same_but_comments_outside_math_embeds.

(** * Source level over the THIRD document grammar (composition with [C02_parse_unparse3_partial])

    [Doc/DocGrammar3.v]: the extended grammar plus [WPar3] (a whitespace run with two or more
    newlines in a context without the paragraph specials: pending characters, like text),
    [PArg3] (a paragraph break as the single-token argument of a call: a [\n\n] specials node
    without arguments, or a characters node) and [BGrp3 ws oc cc body tr] (a delimited group
    written directly in the body of a delimited argument; its body [bitem*]: text [BText],
    COMMENTS [BCmt ws text post] and nested groups [BGrp]).

    [sbc3 vb eqn i i'] ([Proofs/Compose3Comments.v]): as [sbc2] on the constructors of the
    extended grammar; [WPar3] / [PArg3] identical; [BGrp3]: same whitespace, delimiters and
    trailing whitespace, bodies related by [sbcb_items] (same constructors and whitespace /
    character / post-space fields; the texts of the [BCmt] comments free).
    - [same_but_comments3 := sbc_doc3 false _]: comment texts ([Cmt3], [Pre3], [BCmt]) free everywhere;
    - [same_but_comments_outside_math3 lt := sbc_doc3 true (is_eqenv lt)]: free everywhere except
      inside formulas and equation environments. *)
From PLV Require Import Doc.DocGrammar3 Proofs.Compose3Comments Proofs.Compose3CommentsEmbed.

(** the meanings of two such documents are related (any context — with or without the
    paragraph specials —, any parsing state, any [vb] / [eqn]) *)
Theorem C12_trees_same_but_comments3 : forall cx vb eqn ps d d',
  sbc_doc3 vb eqn d d' -> ok_doc3 cx d = true -> ok_doc3 cx d' = true ->
  vallq (unparse3 d) (unparse3 d') false vb eqn (fst (tree_of3 cx ps 0 d)) (fst (tree_of3 cx ps 0 d')).
Proof.
  intros cx vb eqn ps d d' W O O'.
  exact (tree_sbc3 cx (unparse3 d) (unparse3 d') vb eqn ps d d' W (ok_doc_arity3 cx d O) (ok_doc_arity3 cx d' O')
           eq_refl eq_refl).
Qed.
Print Assumptions C12_trees_same_but_comments3.

(** two documents of the third grammar that differ only in the text of their comments —
    anywhere, including inside the groups written directly in a delimited argument — are
    converted to the same text when [keep_comments] is off and the math mode is not verbatim.

    PARTIAL: the third grammar of [C02_parse_unparse3_partial] (see notes/C02.md for what it
    leaves out).  Under the default context (which has the paragraph specials) no document
    with a [WPar3] item satisfies [ok_doc3]; that item kind is covered at tree level, for
    every context, by [C12_trees_same_but_comments3] + [C12_relational2]. *)
Theorem C12_source_level3_partial : forall o d d',
  same_but_comments3 d d' ->
  ok_doc3 Gen.GenWalkerCtx.default_ctx d = true -> ok_doc3 Gen.GenWalkerCtx.default_ctx d' = true ->
  o_keep_comments o = false -> o_math o <> MMVerbatim ->
  exists r, latex_to_text o (unparse3 d) false = Some r /\ latex_to_text o (unparse3 d') false = Some r.
Proof. exact source_level3. Qed.
Print Assumptions C12_source_level3_partial.

(** ALL four math modes: formulas and equation environments identical *)
Theorem C12_source_level3_all_modes_partial : forall o d d',
  same_but_comments_outside_math3 Gen.GenL2TCtx.default_l2tctx d d' ->
  ok_doc3 Gen.GenWalkerCtx.default_ctx d = true -> ok_doc3 Gen.GenWalkerCtx.default_ctx d' = true ->
  o_keep_comments o = false ->
  exists r, latex_to_text o (unparse3 d) false = Some r /\ latex_to_text o (unparse3 d') false = Some r.
Proof. exact source_level_all_modes3. Qed.
Print Assumptions C12_source_level3_all_modes_partial.

(** the theorems over the extended grammar are instances: related documents of the extended
    grammar are, embedded by [up2_doc] (same side conditions, written form and meaning:
    [C02_extended_grammar_embeds]), related documents of the third *)
Theorem C12_same_but_comments2_embeds : forall vb eqn d d',
  sbc_doc2 vb eqn d d' -> sbc_doc3 vb eqn (up2_doc d) (up2_doc d').
Proof. exact sbc_doc_up2. Qed.
Print Assumptions C12_same_but_comments2_embeds.

(** non-vacuity:
    [a %c1\n\item[see [1 %c2\n] x]\textbf\n\ny $\sqrt[n[%c3\n]]{x}$\n]
    — a comment at top level, a comment INSIDE a group written directly in the optional argument
    of [\item] ([BGrp3] / [BCmt]), a paragraph break as the argument of [\textbf] ([PArg3]), a
    comment inside such a group inside a formula.  [dA], [dB] differ in c1, c2 (same formula): same
    output in verbatim mode; [dA], [dC] differ in all three: same output in text mode, different
    output in verbatim mode *)
Section SourceExample3.
  Open Scope N_scope.
  Let mkd (c1 c2 c3 : str) : doc3 :=
    {| d_items3 :=
      [Text3 [] [97]; Cmt3 [32] c1 [10];
       Mac3 [] [105;116;101;109] []
         [Brk3 [] 91 93 [Text3 [] [115;101;101]; BGrp3 [32] 91 93 [BText [] [49]; BCmt [32] c2 [10]] []; Text3 [32] [120]] []];
       Mac3 [] [116;101;120;116;98;102] [] [PArg3 [] []]; Text3 [] [121];
       Math3 [32] MDollar
         [Mac3 [] [115;113;114;116] []
            [Brk3 [] 91 93 [Text3 [] [110]; BGrp3 [] 91 93 [BCmt [] c3 [10]] []] []; Grp3 [] [Text3 [] [120]] []]] []];
     d_trail3 := [10] |}.
  Let dA := mkd [83] [73;78] [81].
  Let dB := mkd [88;88;88] [] [81].
  Let dC := mkd [88;88;88] [] [].
  Let o_of (mm : mathmode) : opts :=
    {| o_math := mm; o_keep_comments := false; o_sls := sls_bos; o_kbg := false; o_kbg_minlen := 0 |}.
  Let cx0 := Gen.GenWalkerCtx.default_ctx.
  Example C12_source_level3_nonvacuous :
    same_but_comments3 dA dC /\ same_but_comments_outside_math3 Gen.GenL2TCtx.default_l2tctx dA dB
    /\ ok_doc3 cx0 dA = true /\ ok_doc3 cx0 dB = true /\ ok_doc3 cx0 dC = true
    /\ length (unparse3 dA) = 56%nat /\ unparse3 dA <> unparse3 dB /\ unparse3 dA <> unparse3 dC
    (* text mode: [a \n\n  see 1 \n x\n\ny √(x)] for all three *)
    /\ option_map fst (latex_to_text (o_of MMText) (unparse3 dA) false)
       = Some [97; 32; 10; 10; 32; 32; 115; 101; 101; 32; 49; 32; 10; 32; 120; 10; 10; 121; 32; 8730; 40; 120; 41]
    /\ latex_to_text (o_of MMText) (unparse3 dA) false = latex_to_text (o_of MMText) (unparse3 dC) false
    (* verbatim mode: [a \n\n  see 1 \n x\n\ny $\sqrt[n[%Q\n]]{x}$] *)
    /\ option_map fst (latex_to_text (o_of MMVerbatim) (unparse3 dA) false)
       = Some [97; 32; 10; 10; 32; 32; 115; 101; 101; 32; 49; 32; 10; 32; 120; 10; 10; 121; 32; 36; 92; 115; 113; 114;
               116; 91; 110; 91; 37; 81; 10; 93; 93; 123; 120; 125; 36]
    /\ latex_to_text (o_of MMVerbatim) (unparse3 dA) false = latex_to_text (o_of MMVerbatim) (unparse3 dB) false
    /\ latex_to_text (o_of MMVerbatim) (unparse3 dA) false <> latex_to_text (o_of MMVerbatim) (unparse3 dC) false.
  Proof.
    assert (W1 : same_but_comments3 dA dC)
      by (unfold same_but_comments3, sbc_doc3; cbn; repeat split; discriminate).
    assert (W2 : same_but_comments_outside_math3 Gen.GenL2TCtx.default_l2tctx dA dB)
      by (unfold same_but_comments_outside_math3, sbc_doc3; cbn; repeat split; try discriminate;
          try (intros _ Q; vm_compute in Q; discriminate)).
    split; [exact W1|]. split; [exact W2|].
    split; [vm_compute; reflexivity|]. split; [vm_compute; reflexivity|]. split; [vm_compute; reflexivity|].
    split; [vm_compute; reflexivity|]. split; [vm_compute; discriminate|]. split; [vm_compute; discriminate|].
    split; [vm_compute; reflexivity|].
    split.
    { assert (H : exists r, latex_to_text (o_of MMText) (unparse3 dA) false = Some r
                            /\ latex_to_text (o_of MMText) (unparse3 dC) false = Some r)
        by (apply C12_source_level3_partial;
            [exact W1 | vm_compute; reflexivity | vm_compute; reflexivity | reflexivity | discriminate]).
      destruct H as (r & A & B). congruence. }
    split; [vm_compute; reflexivity|].
    split.
    { assert (H : exists r, latex_to_text (o_of MMVerbatim) (unparse3 dA) false = Some r
                            /\ latex_to_text (o_of MMVerbatim) (unparse3 dB) false = Some r)
        by (apply C12_source_level3_all_modes_partial;
            [exact W2 | vm_compute; reflexivity | vm_compute; reflexivity | reflexivity]).
      destruct H as (r & A & B). congruence. }
    vm_compute. discriminate.
  Qed.

  (** tree level, a context WITHOUT the paragraph specials ([\m] with one mandatory argument):
      [a\n\n%c\nb\m\n\n] — a [WPar3] run next to a comment, a [PArg3] argument that is a characters
      node; the two meanings are related *)
  Let bare : context :=
    {| cx_macros := [([109], {| sp_args := APStd [{| a_spec := [123]; a_kind := AKExpr true; a_delta := ADNone |}];
                              sp_body_math := false |})];
       cx_envs := []; cx_specials := []; cx_unk_macro := None; cx_unk_env := None |}.
  Let mkw (c : str) : doc3 :=
    {| d_items3 := [Text3 [] [97]; WPar3 [] []; Cmt3 [] c [10]; Text3 [] [98]; Mac3 [] [109] [] [PArg3 [] []]];
       d_trail3 := [] |}.
  Example C12_trees_same_but_comments3_nonvacuous :
    same_but_comments3 (mkw [83]) (mkw [88;88]) /\ ok_doc3 bare (mkw [83]) = true /\ ok_doc3 bare (mkw [88;88]) = true
    /\ unparse3 (mkw [83]) = [97;10;10;37;83;10;98;92;109;10;10]
    /\ parse_top (unparse3 (mkw [83])) false bare (Parse.ParseWire.walker_state bare) = doc_result3 bare (mkw [83])
    /\ length (fst (tree_of3 bare (Parse.ParseWire.walker_state bare) 0 (mkw [83]))) = 4%nat.
  Proof.
    split; [unfold same_but_comments3, sbc_doc3; cbn; repeat split|].
    vm_compute. repeat split.
  Qed.
End SourceExample3.
Print Assumptions C12_source_level3_nonvacuous.
Print Assumptions C12_trees_same_but_comments3_nonvacuous.
