(** C17 — a derived parsing state behaves exactly like a freshly built one.
    Statements only; proofs in [Proofs/PStateProofs.v]. *)
From Coq Require Import NArith List Bool.
From PLV Require Import Base.PyStr Tok.PState Tok.Tokenizer Proofs.PStateProofs.
From PLV Require Import Tok.Delta Proofs.DeltaProofs.
Import ListNotations.

(** For every base field assignment and EVERY chain of [sub_context] calls
    (each call changing any subset of the fields), the cached lookup tables of
    the derived state are exactly the tables computed from its own fields. *)
Theorem C17_caches_fresh : forall f0 chain,
  let d := fold_left sub_context chain (fresh f0) in
  ps_c d = compute_caches (ps_f d).
Proof. exact derived_caches_fresh. Qed.

(** Hence the derived state is, as a value, the state constructed directly
    with the same field values ... *)
Theorem C17_derived_is_fresh : forall f0 chain,
  let d := fold_left sub_context chain (fresh f0) in
  d = fresh (ps_f d).
Proof. exact derived_is_fresh. Qed.

(** ... so that it tokenizes every input identically (and likewise any other
    function of a parsing state: the parsers of the model take the state as a
    value). *)
Theorem C17_same_tokens : forall f0 chain s pos,
  let d := fold_left sub_context chain (fresh f0) in
  impl_peek d s pos = impl_peek (fresh (ps_f d)) s pos.
Proof. intros f0 chain s pos d. unfold d. rewrite <- derived_is_fresh. reflexivity. Qed.

Theorem C17_same_read_all : forall f0 chain s tol,
  let d := fold_left sub_context chain (fresh f0) in
  read_all d s tol = read_all (fresh (ps_f d)) s tol.
Proof. intros f0 chain s tol d. unfold d. rewrite <- derived_is_fresh. reflexivity. Qed.

(** Non-vacuity, and the history that failed before fix b1e7f19 (F8): entering
    math mode with delimiter [$] and then changing the inline delimiter list to
    [($,!)] must expect [!] as the closing delimiter. *)
Example C17_nonvacuous :
  let d := fold_left sub_context
             [[UInMath true; UMathDelim (Some [36%N])];
              [UInlineDelims [([36%N], [33%N])]]] (fresh default_fields) in
  c_expect_close (ps_c d) = Some ([33%N], TkMathInline)
  /\ f_in_math (ps_f d) = true.
Proof. vm_compute. split; reflexivity. Qed.

Print Assumptions C17_caches_fresh.
Print Assumptions C17_derived_is_fresh.
Print Assumptions C17_same_tokens.
Print Assumptions C17_same_read_all.

(** * The public parsing-state DELTA objects ([Tok/Delta.v], proofs in
    [Proofs/DeltaProofs.v]): [ParsingStateDelta(set_attributes=...)],
    [ParsingStateDeltaEnterMathMode] / [LeaveMathMode] through the default walker
    event handler, [ParsingStateDeltaChained] (with [None] entries), nested at will. *)

(** [ParsingStateDeltaChained(l)] is the left fold of its entries. *)
Theorem C17_delta_chain_is_fold : forall l ps,
  apply_delta ps (DChain l) = fold_left apply_delta l ps.
Proof. exact delta_chain_is_fold. Qed.

(** A chain of a concatenation acts as the second chain after the first ... *)
Theorem C17_delta_chain_app : forall l1 l2 ps,
  apply_delta ps (DChain (l1 ++ l2)) = apply_delta (apply_delta ps (DChain l1)) (DChain l2).
Proof. exact delta_chain_app. Qed.

(** ... a chain nested in a chain acts as the chain with its entries spliced in ... *)
Theorem C17_delta_chain_nested : forall l1 m l2 ps,
  apply_delta ps (DChain (l1 ++ DChain m :: l2)) = apply_delta ps (DChain (l1 ++ m ++ l2)).
Proof. exact delta_chain_nested. Qed.

(** ... a one-entry chain acts as its entry, [None] is the identity and may be
    dropped from a chain ... *)
Theorem C17_delta_chain_singleton : forall d ps, apply_delta ps (DChain [d]) = apply_delta ps d.
Proof. exact delta_chain_singleton. Qed.

Theorem C17_delta_none_identity : forall ps, apply_delta ps DNone = ps.
Proof. exact delta_none_identity. Qed.

Theorem C17_delta_chain_skip_none : forall l1 l2 ps,
  apply_delta ps (DChain (l1 ++ DNone :: l2)) = apply_delta ps (DChain (l1 ++ l2)).
Proof. exact delta_chain_skip_none. Qed.

(** ... and a delta of ANY nesting acts as the flat chain of its atomic deltas
    (no chain, no [None] among them), in order. *)
Theorem C17_delta_flatten : forall d ps,
  Forall atomic (flatten d)
  /\ apply_delta ps d = fold_left apply_delta (flatten d) ps
  /\ apply_delta ps d = apply_delta ps (DChain (flatten d)).
Proof. exact delta_flatten. Qed.

(** Every delta is a chain of [sub_context] calls ([steps d]: one keyword set per
    atomic delta that has one). *)
Theorem C17_delta_is_sub_context_chain : forall d ps,
  apply_delta ps d = fold_left sub_context (steps d) ps.
Proof. exact delta_is_sub_context_chain. Qed.

(** The invariant "cached tables = tables computed from the fields, fields
    normalised" survives every delta ... *)
Theorem C17_delta_preserves_inv : forall d ps, Inv ps -> Inv (apply_delta ps d).
Proof. exact delta_preserves_inv. Qed.

(** ... so the C17 claim holds for delta objects: the state obtained from a
    directly constructed state through any chain of [sub_context] calls followed
    by any delta (of any nesting; by [DChain] and [DSet] this covers every
    interleaving of deltas and [sub_context] calls) is, as a value, the state
    constructed directly with its own field values ... *)
Theorem C17_delta_state_is_fresh : forall f0 chain d,
  let r := apply_delta (fold_left sub_context chain (fresh f0)) d in
  r = fresh (ps_f r).
Proof. exact delta_state_is_fresh. Qed.

Theorem C17_delta_sequence_is_fresh : forall f0 ds,
  let r := fold_left apply_delta ds (fresh f0) in
  r = fresh (ps_f r).
Proof. exact delta_sequence_is_fresh. Qed.

Theorem C17_delta_caches_fresh : forall f0 chain d,
  let r := apply_delta (fold_left sub_context chain (fresh f0)) d in
  ps_c r = compute_caches (ps_f r).
Proof. exact delta_caches_fresh. Qed.

(** ... and tokenizes every input identically. *)
Theorem C17_delta_same_tokens : forall f0 chain d s pos,
  let r := apply_delta (fold_left sub_context chain (fresh f0)) d in
  impl_peek r s pos = impl_peek (fresh (ps_f r)) s pos.
Proof. exact delta_same_tokens. Qed.

Theorem C17_delta_same_read_all : forall f0 chain d s tol,
  let r := apply_delta (fold_left sub_context chain (fresh f0)) d in
  read_all r s tol = read_all (fresh (ps_f r)) s tol.
Proof. exact delta_same_read_all. Qed.

(** The two walker events set exactly the two math fields (all other fields
    are those of the state the delta is applied to). *)
Theorem C17_delta_enter_math_fields : forall ps md,
  ps_f (apply_delta ps (DEnterMath md)) = set_math (ps_f ps) true md.
Proof. exact enter_math_fields. Qed.

Theorem C17_delta_leave_math_fields : forall ps,
  ps_f (apply_delta ps DLeaveMath) = set_math (ps_f ps) false None.
Proof. exact leave_math_fields. Qed.

(** [apply_delta] is a function of the VALUE of the state it is applied to (the
    state cannot be altered: immutability is by construction in the model, as for
    [sub_context]; on the real objects it is checked by the correspondence).  The
    analogue of [sub_context_keeps_unlisted_fields]: a delta none of whose steps
    names the group delimiters keeps them. *)
Theorem C17_delta_keeps_unlisted_fields : forall d ps,
  names_group d = false ->
  f_group_delims (ps_f (apply_delta ps d)) = f_group_delims (ps_f ps).
Proof. exact delta_keeps_unlisted_fields. Qed.

(** Non-vacuity: a nested chain that enters math mode with [$], switches
    comments off (inside an inner chain with a [None] entry) and leaves math mode
    again: inside, [$] is expected as the closing delimiter; afterwards the state
    is the directly constructed default state with comments off. *)
Definition C17_delta_example_inner : delta :=
  DChain [DEnterMath (Some [36%N]); DChain [DNone; DSet [UEnComments false]; DChain []]].
Definition C17_delta_example : delta := DChain [C17_delta_example_inner; DNone; DLeaveMath].

Example C17_delta_nonvacuous :
  let mid := apply_delta (fresh default_fields) C17_delta_example_inner in
  let r := apply_delta (fresh default_fields) C17_delta_example in
  c_expect_close (ps_c mid) = Some ([36%N], TkMathInline)
  /\ f_in_math (ps_f mid) = true /\ f_en_comments (ps_f mid) = false
  /\ r = fresh (apply_update default_fields (UEnComments false))
  /\ r <> fresh default_fields
  /\ flatten C17_delta_example = [DEnterMath (Some [36%N]); DSet [UEnComments false]; DLeaveMath]
  /\ names_group C17_delta_example = false.
Proof. vm_compute. repeat split; try reflexivity. discriminate. Qed.

Print Assumptions C17_delta_chain_is_fold.
Print Assumptions C17_delta_chain_app.
Print Assumptions C17_delta_chain_nested.
Print Assumptions C17_delta_chain_singleton.
Print Assumptions C17_delta_none_identity.
Print Assumptions C17_delta_chain_skip_none.
Print Assumptions C17_delta_flatten.
Print Assumptions C17_delta_is_sub_context_chain.
Print Assumptions C17_delta_preserves_inv.
Print Assumptions C17_delta_state_is_fresh.
Print Assumptions C17_delta_sequence_is_fresh.
Print Assumptions C17_delta_caches_fresh.
Print Assumptions C17_delta_same_tokens.
Print Assumptions C17_delta_same_read_all.
Print Assumptions C17_delta_enter_math_fields.
Print Assumptions C17_delta_leave_math_fields.
Print Assumptions C17_delta_keeps_unlisted_fields.
