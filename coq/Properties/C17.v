(** C17 — a derived parsing state behaves exactly like a freshly built one.
    Statements only; proofs in [Proofs/PStateProofs.v]. *)
From Coq Require Import NArith List Bool.
From PLV Require Import Base.PyStr Tok.PState Tok.Tokenizer Proofs.PStateProofs.
Import ListNotations.

(** For every base field assignment and EVERY chain of [sub_context] calls
    (each call changing any subset of the fields), the cached lookup tables of
    the derived state are exactly the tables computed from its own fields. *)
Theorem C17_caches_fresh : forall f0 chain,
  let d := fold_left sub_context chain (fresh f0) in
  ps_c d = compute_caches (ps_f d).
Proof. exact derived_caches_fresh. Qed.

(** Hence the derived state is, as a value, the state constructed directly
    with the same field values ... *)
Theorem C17_derived_is_fresh : forall f0 chain,
  let d := fold_left sub_context chain (fresh f0) in
  d = fresh (ps_f d).
Proof. exact derived_is_fresh. Qed.

(** ... so that it tokenizes every input identically (and likewise any other
    function of a parsing state: the parsers of the model take the state as a
    value). *)
Theorem C17_same_tokens : forall f0 chain s pos,
  let d := fold_left sub_context chain (fresh f0) in
  impl_peek d s pos = impl_peek (fresh (ps_f d)) s pos.
Proof. intros f0 chain s pos d. unfold d. rewrite <- derived_is_fresh. reflexivity. Qed.

Theorem C17_same_read_all : forall f0 chain s tol,
  let d := fold_left sub_context chain (fresh f0) in
  read_all d s tol = read_all (fresh (ps_f d)) s tol.
Proof. intros f0 chain s tol d. unfold d. rewrite <- derived_is_fresh. reflexivity. Qed.

(** Non-vacuity, and the history that failed before fix b1e7f19 (F8): entering
    math mode with delimiter [$] and then changing the inline delimiter list to
    [($,!)] must expect [!] as the closing delimiter. *)
Example C17_nonvacuous :
  let d := fold_left sub_context
             [[UInMath true; UMathDelim (Some [36%N])];
              [UInlineDelims [([36%N], [33%N])]]] (fresh default_fields) in
  c_expect_close (ps_c d) = Some ([33%N], TkMathInline)
  /\ f_in_math (ps_f d) = true.
Proof. vm_compute. split; reflexivity. Qed.

Print Assumptions C17_caches_fresh.
Print Assumptions C17_derived_is_fresh.
Print Assumptions C17_same_tokens.
Print Assumptions C17_same_read_all.
