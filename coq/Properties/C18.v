From Coq Require Import List.
From PLV Require Import Tree.Split.
Theorem C18_placeholder : True. Proof. exact I. Qed.
Print Assumptions C18_placeholder.
