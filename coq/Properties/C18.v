(** C18 — node-list splitting and key-value parsing are order-preserving
    partitions.  Statements only; proofs are in [Proofs/SplitProofs.v], the
    model in [Tree/Split.v] (it tracks /repo with fixes/C18-*.diff applied).

    Conventions: a node list is [items = list (option node)]; [vb] is the
    (arbitrary, injected) source text of non-chars nodes and the text of a
    chars node is its [chars]; [verb_part vb part] is the text of a returned
    list; all theorems quantify over every list (no well-formedness needed
    unless stated), every matcher / option. *)
From Coq Require Import NArith ZArith List Bool Arith Lia.
From PLV Require Import Base.PyStr Base.Wire Parse.Nodes Tree.Split Proofs.SplitProofs.
Import ListNotations.

(** ** split_at_chars *)

(** keep_empty, literal separator (any [max_split], any [skip_none]):
    intercalating the separator between the texts of the parts gives back the
    text of the list. *)
Theorem C18_split_joins : forall (vb : node -> str) sep ms skipnone lm list_end l parts,
  split_at_chars (m_lit sep) ms true skipnone lm list_end l = Ok parts ->
  join sep (map (verb_part vb) parts) = verb vb l.
Proof. exact split_joins_literal. Qed.

(** the same for ANY matcher (regular expression, callable): the parts
    interleaved with the texts the matcher matched are the text of the list.
    (Non-empty matches are enforced by the code itself after fix
    C18-empty-separator: otherwise the result is [Exn EValue], not [Ok].) *)
Theorem C18_matcher : forall (vb : node -> str) m ms skipnone lm list_end l parts,
  split_at_chars m ms true skipnone lm list_end l = Ok parts ->
  exists seps, length parts = S (length seps) /\ Forall (is_match m) seps /\
    weave (map (verb_part vb) parts) seps = verb vb l.
Proof. exact split_joins_matcher. Qed.

(** keep_empty only decides whether empty parts are kept (max_split=None;
    exceptions included). *)
Theorem C18_drop_empty : forall m skipnone lm list_end l,
  split_at_chars m None false skipnone lm list_end l =
  res_map (filter ne_part) (split_at_chars m None true skipnone lm list_end l).
Proof. exact split_drop_empty. Qed.

(** ... but NOT when max_split is given: max_split counts the parts that are
    kept (like [str.split(None, n)]), so [",a,,b,"] with max_split=1 gives
    [a | ,b,] without and [ | a,,b,] with keep_empty. *)
Theorem C18_drop_empty_maxsplit_refuted : exists m ms skipnone lm list_end l,
  split_at_chars m ms false skipnone lm list_end l <>
  res_map (filter ne_part) (split_at_chars m ms true skipnone lm list_end l).
Proof. do 6 eexists. exact drop_empty_maxsplit_witness. Qed.

(** max_split = n: at most n splits, for every matcher and option. *)
Theorem C18_max_split : forall m keep skipnone lm list_end n l parts,
  split_at_chars m (Some n) keep skipnone lm list_end l = Ok parts -> length parts <= S n.
Proof. exact split_max_count. Qed.

(** ... the first n parts are those of the unlimited split and there is one
    more part exactly when the unlimited split has more than n parts
    (keep_empty) ... *)
Theorem C18_max_split_prefix : forall m skipnone lm list_end n l rn rf,
  split_at_chars m (Some n) true skipnone lm list_end l = Ok rn ->
  split_at_chars m None true skipnone lm list_end l = Ok rf ->
  firstn n rn = firstn n rf /\ length rn = Nat.min (length rf) (S n).
Proof. exact split_max_prefix. Qed.

(** ... and that last part is the remainder, unsplit: its text is the rest of
    the unlimited split joined with the separator again. *)
Theorem C18_max_split_remainder : forall (vb : node -> str) sep n skipnone lm list_end l rn rf,
  split_at_chars (m_lit sep) (Some n) true skipnone lm list_end l = Ok rn ->
  split_at_chars (m_lit sep) None true skipnone lm list_end l = Ok rf ->
  n < length rf ->
  exists rem, rn = firstn n rf ++ [rem] /\
              verb_part vb rem = join sep (map (verb_part vb) (skipn n rf)).
Proof. exact split_max_remainder. Qed.

(** every returned entry is an entry of the list itself or a chars node
    [NChars (p+a) (p+b) _ (chars[a:b])] cut out of a chars node
    [NChars p _ _ chars] of the list, [a < b <= len chars]. *)
Theorem C18_positions : forall m ms keep skipnone lm list_end l parts,
  matcher_ok m ->
  split_at_chars m ms keep skipnone lm list_end l = Ok parts ->
  Forall (fun part => Forall (piece_of lm l) (node_items part)) parts.
Proof. exact split_pieces. Qed.

(** hence: if the chars nodes of the list agree with the source text (C01),
    every returned chars node does: [chars = src[pos:pos_end]]. *)
Theorem C18_positions_source : forall src m ms keep skipnone lm list_end l parts,
  matcher_ok m ->
  (forall o, In o l -> chars_agrees src o) ->
  split_at_chars m ms keep skipnone lm list_end l = Ok parts ->
  Forall (fun part => Forall (chars_agrees src) (node_items part)) parts.
Proof. exact split_positions. Qed.

(** Spans of the returned lists: if the nodes of the list tile [a, b) (each
    node starts where the previous one ended — C01 — and chars nodes are as
    long as their text; [None] entries transparent) and [pos_end = b], then
    every returned list [NList ps pe items] has [pe = Some b'], its [items]
    tile [a', b') and [ps = Some a'] (unless it holds [None] entries only). *)
Theorem C18_list_spans : forall m ms keep skipnone lm a b l parts,
  matcher_ok m -> tiled a b l ->
  split_at_chars m ms keep skipnone lm (Some b) l = Ok parts ->
  Forall part_tiled parts.
Proof. exact split_list_spans. Qed.

(** Adjacency of consecutive returned lists.  FULL STATEMENT (not proved):
    [pos] of part k+1 = [pos_end] of part k + length of the separator matched
    there, first part starts at [pos] of the list (keep_empty).  PROVED: every
    returned list is [flush items pe] where [pe] is the start of a separator
    match inside a top-level chars node of the list, or the end of the list
    (for the last one).  The textual form of the full statement is
    [C18_matcher]; the positional form is checked on the real values by the
    oracle only. *)
Theorem C18_part_adjacency_partial : forall m ms keep skipnone lm list_end l parts,
  split_at_chars m ms keep skipnone lm list_end l = Ok parts ->
  Forall (part_span m list_end l) parts.
Proof. exact split_part_spans. Qed.

(** separators inside non-chars nodes never split: changing the inside of the
    non-chars nodes in any way (keeping class and span) changes the result only
    by that same change. *)
Theorem C18_children_opaque : forall (f : node -> node),
  (forall p e md c, f (NChars p e md c) = NChars p e md c) ->
  (forall n, match n with
             | NChars _ _ _ _ => True
             | NList _ _ _ => match f n with NList _ _ _ => True | _ => False end
             | _ => match f n with NChars _ _ _ _ | NList _ _ _ => False | _ => True end
             end) ->
  (forall n, node_pos (f n) = node_pos n) ->
  (forall n, node_end (f n) = node_end n) ->
  forall m ms keep skipnone lm list_end l,
  split_at_chars m ms keep skipnone lm list_end (map (fo f) l) =
  res_map (map (fpart f)) (split_at_chars m ms keep skipnone lm list_end l).
Proof. exact split_opaque. Qed.

(** in particular a list without top-level chars nodes is never split *)
Theorem C18_no_chars_no_split : forall m ms keep skipnone lm list_end l,
  forallb opaque_item l = true ->
  split_at_chars m ms keep skipnone lm list_end l =
  Ok (if nonempty (live skipnone l) || keep then [flush (live skipnone l) list_end] else []).
Proof. exact split_no_chars. Qed.

(** the separator matchers of the harness satisfy [matcher_ok] (literal shown
    here; the theorem needs nothing else) *)
Theorem C18_literal_matcher_ok : forall sep, sep <> [] -> matcher_ok (m_lit sep).
Proof. exact m_lit_ok. Qed.

(** ** split_at_node *)

Theorem C18_split_at_node_keep : forall pred skipnone ms l,
  concat (map node_items (split_at_node pred skipnone true ms l)) = live skipnone l.
Proof. exact split_at_node_partition_keep. Qed.

Theorem C18_split_at_node : forall pred skipnone ms l,
  exists seps, length (split_at_node pred skipnone false ms l) = S (length seps) /\
    Forall (fun o => pred o = true) seps /\
    wv (map node_items (split_at_node pred skipnone false ms l)) seps = live skipnone l.
Proof. exact split_at_node_partition. Qed.

Theorem C18_split_at_node_max : forall pred skipnone keepsep n l,
  length (split_at_node pred skipnone keepsep (Some n) l) <= S n.
Proof. exact split_at_node_max. Qed.

Theorem C18_split_at_node_all : forall pred skipnone l,
  Forall (fun part => Forall (fun o => pred o = false) (node_items part))
         (split_at_node pred skipnone false None l).
Proof. exact split_at_node_all_split. Qed.

(** "exactly min(n, #separators) splits" does NOT hold: the code compares the
    number of PARTS with max_split, so max_split = n >= 2 performs n-1 splits
    ("at most n", the clause of the property, is the theorem above). *)
Theorem C18_split_at_node_exact_count_refuted : exists pred l,
  length (split_at_node pred true false (Some 2) l) = 2 /\
  length (split_at_node pred true false None l) = 4.
Proof. do 2 eexists. exact split_at_node_count_witness. Qed.

(** ** filter *)
Theorem C18_filter : forall pred skipnone skipcomments skipws p e l r,
  filter_list pred skipnone skipcomments skipws (NList p e l) = Ok r ->
  node_items r = filter (keepb pred skipnone skipcomments skipws) l /\
  (filter (keepb pred skipnone skipcomments skipws) l = [] -> r = NList e e []).
Proof. exact filter_list_spec. Qed.

(** ** parse_keyval_content

    succeeds exactly when the comma split succeeds, every part yields (or
    skips) a key/value through the [=] split with max_split=1, and — policy
    'error' — no key repeats; the result is then the fold of the policy's
    combination ([comb]: first = stored value, last = new value, concatenate =
    node lists appended) over those pairs, keys in order of first occurrence. *)
Theorem C18_keyval : forall mcomma meq pol dflt extract lm nl d,
  parse_keyval_content mcomma meq pol dflt extract lm nl = Ok d <->
  exists parts po,
    split_list_at_chars mcomma None false true lm nl = Ok parts /\
    mapM (kv_pair meq dflt extract lm) parts = Ok po /\
    keys_fresh pol [] (somes po) /\
    d = fold_left (kv_add pol) (somes po) [].
Proof. exact parse_keyval_spec. Qed.

(** what that fold stores under a key, per policy ([values_of k ps]: the values
    given for [k], in order): first / last value; all entries concatenated *)
Theorem C18_keyval_first : forall k ps,
  kv_lookup k (fold_left (kv_add PFirst) ps []) = hd_error (values_of k ps).
Proof. exact kv_first_spec. Qed.

Theorem C18_keyval_last : forall k ps,
  kv_lookup k (fold_left (kv_add PLast) ps []) = hd_error (rev (values_of k ps)).
Proof. exact kv_last_spec. Qed.

Theorem C18_keyval_concat : forall k ps,
  opt_items (kv_lookup k (fold_left (kv_add PConcat) ps [])) = concat (map node_items (values_of k ps)) /\
  (kv_lookup k (fold_left (kv_add PConcat) ps []) = None <-> values_of k ps = []).
Proof. exact kv_concat_spec. Qed.

(** ** Non-vacuity and the F10 witness (fixed behaviour) *)

Definition c (p : nat) (s : str) : option node := Some (NChars p (p + length s) text_mode s).
Definition g (p e : nat) (body : items) : option node :=
  Some (NGroup p e text_mode [123%N] [125%N] (Some (NList (Some (p + 1)) (Some (e - 1)) body))).

(** [a,{x,y},,b%c\n,] style list: chars, a group holding a separator, a
    comment, adjacent and trailing separators *)
Definition ex_list : items :=
  [c 0 [97; 44]%N; g 2 7 [c 3 [120; 44; 121]%N]; c 7 [44; 44; 98]%N;
   Some (NComment 10 13 text_mode [99%N] [10%N]); c 13 [44%N]].

Example C18_split_nonvacuous :
  (exists parts, split_at_chars (m_lit [44%N]) None true true text_mode (Some 14) ex_list = Ok parts
                 /\ length parts = 5) /\
  (exists parts, split_at_chars (m_lit [44%N]) (Some 2) true true text_mode (Some 14) ex_list = Ok parts
                 /\ length parts = 3) /\
  (exists parts, split_at_chars (m_lit [44%N]) None false true text_mode (Some 14) ex_list = Ok parts
                 /\ length parts = 3) /\
  matcher_ok (m_lit [44%N]) /\ tiled 0 14 ex_list /\
  split_at_chars (m_lit []) None true true text_mode (Some 14) ex_list = Exn EValue.
Proof.
  split; [eexists; split; [vm_compute; reflexivity | reflexivity]|].
  split; [eexists; split; [vm_compute; reflexivity | reflexivity]|].
  split; [eexists; split; [vm_compute; reflexivity | reflexivity]|].
  split; [apply m_lit_ok; discriminate|].
  split; [|vm_compute; reflexivity].
  unfold ex_list, c, g. cbn.
  repeat match goal with
         | |- _ /\ _ => split
         | |- exists _, _ => eexists
         | |- _ = _ => reflexivity
         | |- _ <= _ => lia
         | |- True => exact I
         end.
Qed.

(** [a=1,a=2,a=3] under every policy: 'first' keeps the first value as a node
    list (F10: the unfixed code raised AttributeError here), 'error' raises *)
Definition ex_kv : node := NList (Some 0) (Some 11)
  [c 0 [97; 61; 49; 44; 97; 61; 50; 44; 97; 61; 51]%N].

Example C18_keyval_nonvacuous :
  parse_keyval_content (m_lit [44%N]) (m_lit [61%N]) PFirst None true text_mode ex_kv
    = Ok [([97%N], NList (Some 2) (Some 3) [Some (NChars 2 3 text_mode [49%N])])] /\
  parse_keyval_content (m_lit [44%N]) (m_lit [61%N]) PLast None true text_mode ex_kv
    = Ok [([97%N], NList (Some 10) (Some 11) [Some (NChars 10 11 text_mode [51%N])])] /\
  parse_keyval_content (m_lit [44%N]) (m_lit [61%N]) PConcat None true text_mode ex_kv
    = Ok [([97%N], NList (Some 2) (Some 11) [Some (NChars 2 3 text_mode [49%N]);
                                             Some (NChars 6 7 text_mode [50%N]);
                                             Some (NChars 10 11 text_mode [51%N])])] /\
  parse_keyval_content (m_lit [44%N]) (m_lit [61%N]) PError None true text_mode ex_kv = Exn EValue.
Proof. vm_compute. repeat split; reflexivity. Qed.

Print Assumptions C18_split_joins.
Print Assumptions C18_matcher.
Print Assumptions C18_drop_empty.
Print Assumptions C18_drop_empty_maxsplit_refuted.
Print Assumptions C18_max_split.
Print Assumptions C18_max_split_prefix.
Print Assumptions C18_max_split_remainder.
Print Assumptions C18_positions.
Print Assumptions C18_positions_source.
Print Assumptions C18_list_spans.
Print Assumptions C18_part_adjacency_partial.
Print Assumptions C18_children_opaque.
Print Assumptions C18_no_chars_no_split.
Print Assumptions C18_literal_matcher_ok.
Print Assumptions C18_split_at_node_keep.
Print Assumptions C18_split_at_node.
Print Assumptions C18_split_at_node_max.
Print Assumptions C18_split_at_node_all.
Print Assumptions C18_split_at_node_exact_count_refuted.
Print Assumptions C18_filter.
Print Assumptions C18_keyval.
Print Assumptions C18_keyval_first.
Print Assumptions C18_keyval_last.
Print Assumptions C18_keyval_concat.
