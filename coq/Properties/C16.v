(** C16 — the pylatexenc-2 compatible API gives the same results as the new parsers.
    Statements only (closed by [exact]) and their [Print Assumptions]; the
    proofs are in [Proofs/LegacyProofs.v] and [Proofs/LegacyArgs.v]; the model
    of the legacy layer is [Parse/Legacy.v], built on the frozen parser model.

    Reading guide: [new_api s tol cx task] is
    [LatexWalker(s, tolerant_parsing=tol, latex_context=cx).parse_content(parser,
    token_reader at pos, parsing_state)] for the pylatexenc-3 parser object that
    [task] stands for ([new_*_task], defined in the proofs file independently of
    the legacy model); [*_spec] is the post-processing of its outcome. *)
From Coq Require Import NArith ZArith List Bool Arith.
From PLV Require Import Base.PyStr Tok.PState Tok.Tokenizer Parse.Nodes Parse.Parser Parse.ParseWire
     Parse.Legacy Proofs.LegacyProofs Proofs.LegacyArgs Proofs.ComposeLegacy
     Proofs.ParserTerm Proofs.PremisesReader Proofs.PremisesStar Proofs.PremisesEquiv.
From PLV Require Gen.GenWalkerCtx.
Import ListNotations.

(** ** The six legacy methods *)

(** get_token: one [peek_token] at [pos] under the state built by
    [sub_context(latex_group_delimiters = old + include_brace_chars (+ [ ]),
    enable_environments = ...)]; end of stream and token errors are passed on. *)
Theorem C16_get_token : forall s tol ps pos incl bac envs,
  legacy_get_token s tol ps pos incl bac envs
  = token_spec (peek_tok s tol (token_spec_state ps (token_extra incl bac) envs) pos).
Proof. exact get_token_is_peek. Qed.

Theorem C16_get_token_brackets : forall s tol ps pos envs,
  legacy_get_token s tol ps pos None (Some false) envs
  = legacy_get_token s tol ps pos (Some [([91%N], [93%N])]) None envs.
Proof. exact get_token_brackets. Qed.

(** get_latex_nodes: the general-nodes parser with the legacy stop conditions
    under the state to which the delimiter pair has been added; the result is
    [(nodes, nodes.pos, reader position - nodes.pos)]; every failure class is
    the failure class of the new parser. *)
Theorem C16_get_latex_nodes : forall s tol cx ps pos b e m mx,
  legacy_get_latex_nodes s tol cx ps pos b e m mx =
  match b with
  | None => nodes_spec (new_api s tol cx (new_nodes_task ps None e m mx pos))
  | Some bb =>
      match brace_promotion bb with
      | Some (Some o, c) =>
          nodes_spec (new_api s tol cx (new_nodes_task (ps_add_group ps [o] [c]) (Some [c]) e m mx pos))
      | _ => LExn 0
      end
  end.
Proof. exact get_latex_nodes_is_post. Qed.

Theorem C16_get_latex_nodes_one_char : forall s tol cx ps pos o c e m mx,
  opener_of c = Some o ->
  legacy_get_latex_nodes s tol cx ps pos (Some [c]) e m mx
  = legacy_get_latex_nodes s tol cx ps pos (Some [o; c]) e m mx.
Proof. exact get_latex_nodes_one_char. Qed.

Theorem C16_get_latex_nodes_fails_iff : forall s tol cx ps pos o c e m mx,
  let new := new_api s tol cx (new_nodes_task (ps_add_group ps [o] [c]) (Some [c]) e m mx pos) in
  (exists ep, legacy_get_latex_nodes s tol cx ps pos (Some [o; c]) e m mx = LErr ep)
  <-> (exists er p, new = PErr er p).
Proof. exact get_latex_nodes_fails_iff. Qed.

Theorem C16_get_latex_nodes_len : forall s tol cx ps pos b e m mx n p l,
  legacy_get_latex_nodes s tol cx ps pos b e m mx
  = LOk {| lt_node := Some n; lt_pos := Some p; lt_len := Some l |} ->
  exists ps' c pend,
    new_api s tol cx (new_nodes_task ps' c e m mx pos) = Ok (ONode (Some n)) pend
    /\ node_pos n = Some p /\ (Z.of_nat p + l = Z.of_nat pend)%Z.
Proof. exact get_latex_nodes_len. Qed.

(** the delimiter promotion *)
Theorem C16_promotion_adds_pair : forall ps o c,
  pair_in o c (f_group_delims (ps_f (ps_add_group ps o c))) = true.
Proof. exact promotion_adds_pair. Qed.
Theorem C16_promotion_idempotent : forall ps o c,
  pair_in o c (f_group_delims (ps_f ps)) = true -> ps_add_group ps o c = ps.
Proof. exact promotion_idempotent. Qed.

(** the legacy stop conditions are those of the pylatexenc-3 group /
    environment-body / math parsers *)
Theorem C16_stop_brace : forall c t,
  stop_matches (SLegacy (Some c) None None) t = stop_matches (SBraceClose c) t.
Proof. exact stop_legacy_brace. Qed.
Theorem C16_stop_env : forall n t,
  stop_matches (SLegacy None (Some n) None) t = stop_matches (SEndEnv n) t.
Proof. exact stop_legacy_env. Qed.
Theorem C16_stop_math : forall d t,
  stop_matches (SLegacy None None (Some d)) t
  = stop_matches (SMathClose TkMathInline d) t || stop_matches (SMathClose TkMathDisplay d) t.
Proof. exact stop_legacy_math. Qed.

(** get_latex_expression, modulo the documented normalisations N1 ([nodeargd =
    None]) and N2 (closing-brace error swallowed unless [strict_braces]; dummy
    empty chars node), which [expr_spec] spells out. *)
Theorem C16_get_latex_expression : forall s tol cx ps pos sb,
  legacy_get_latex_expression s tol cx ps pos sb
  = expr_spec tol ps pos sb (new_api s tol cx (new_expr_task tol ps pos)).
Proof. exact get_latex_expression_is_post. Qed.

Theorem C16_get_latex_braced_group : forall s tol cx ps pos bt,
  legacy_get_latex_braced_group s tol cx ps pos bt =
  match brace_pair bt with
  | Some (o, c) => group_spec pos (new_api s tol cx (new_group_task ps o c pos))
  | None => LExn 5
  end.
Proof. exact get_latex_braced_group_is_post. Qed.

Theorem C16_get_latex_environment : forall s tol cx ps pos name,
  legacy_get_latex_environment s tol cx ps pos name
  = env_spec name (new_api s tol cx (new_single_task ps pos)).
Proof. exact get_latex_environment_is_post. Qed.

Theorem C16_get_latex_maybe_optional_arg : forall s tol cx ps pos,
  legacy_get_latex_maybe_optional_arg s tol cx ps pos
  = optarg_spec (new_api s tol cx (new_optarg_task ps pos)).
Proof. exact get_latex_maybe_optional_arg_is_post. Qed.

(** ** The spellings *)

(** bounded statement of the property: all 121 argument strings over [*[{] up
    to length 4, through each of the 8 spellings *)
Theorem C16_args_spellings : forall a, In a (strings_upto arg_alphabet 4) ->
  forall sp, In sp all_spellings ->
    exists p, spell sp a = Some p /\ parser_argspec p = spec_chars a.
Proof. exact spellings_agree_upto4. Qed.

(** general statement, all lengths; and which arguments parser each spelling builds *)
Theorem C16_args_spellings_all : forall a, forallb argchar_ok a = true ->
  forall sp, In sp all_spellings ->
    exists p, spell sp a = Some p /\ parser_argspec p = spec_chars a
      /\ match sp with
         | SpLegacyKw | SpLegacyKwArgspec | SpLegacyPositional =>
             p = PWrap {| lo_argspec := a; lo_noopt := false; lo_amm := None |}
         | _ => p = match a with [] => PNoArgs | _ => PNew (map std_spec a) end
         end.
Proof. exact spellings_agree_all. Qed.

Theorem C16_std_macro_optnum : forall o n,
  std_macro (SAOptNum o n)
  = spell SpPositional ((if truthy_ob o then [91%N] else []) ++ repeat 123%N n).
Proof. exact std_macro_optnum. Qed.

(** ** Non-vacuity *)
Example C16_nonvacuous :
  length (strings_upto arg_alphabet 4) = 121
  /\ In [42; 91; 123; 123]%N (strings_upto arg_alphabet 4)
  /\ (let s := [97; 32; 91; 120; 93; 123; 121; 125; 125; 122]%N in        (* "a [x]{y}}z" *)
      let cx := Gen.GenWalkerCtx.default_ctx in
      let ps := walker_state cx in
      (* get_latex_nodes(1, stop_upon_closing_brace='}'): nodes 1..8, len 8 includes the brace *)
      (exists n, legacy_get_latex_nodes s false cx ps 1 (Some [125%N]) None None None
                 = LOk {| lt_node := Some n; lt_pos := Some 1; lt_len := Some 8%Z |})
      (* get_latex_maybe_optional_arg(1) skips the space: group at 2, length 3 *)
      /\ (exists n, legacy_get_latex_maybe_optional_arg s false cx ps 1
                    = LOk (Some {| lt_node := Some n; lt_pos := Some 2; lt_len := Some 3%Z |}))
      (* get_latex_expression at the closing brace: error in strict_braces mode, dummy node otherwise *)
      /\ legacy_get_latex_expression s false cx ps 8 (Some true) = LErr (Some 8)
      /\ legacy_get_latex_expression s false cx ps 8 (Some false)
         = LOk {| lt_node := Some (NChars 8 8 text_mode []); lt_pos := Some 8; lt_len := Some 0%Z |}).
Proof.
  split; [vm_compute; reflexivity|]. split; [vm_compute; tauto|].
  cbv zeta. split; [|split; [|split]].
  - eexists. vm_compute. reflexivity.
  - eexists. vm_compute. reflexivity.
  - vm_compute. reflexivity.
  - vm_compute. reflexivity.
Qed.

(** ** The legacy argument algorithm vs. the pylatexenc-3 arguments parser (strict mode)

    Full statement aimed at (DESIGN 6/C16):
      forall cx s pos a, a over {*,[,{} ->
        legacy_parse_args a cx s pos  ~  run (TArgs (map std_spec a)) at pos
      (same argument nodes, same end position, fail iff fail).
    As stated it is FALSE of the code by design of the compatibility layer (N1: single-token
    macro arguments get nodeargd = None; N2: the legacy algorithm swallows the "unexpected
    closing brace" error and goes on with an empty chars node), so the relation [agree] is
    modulo N1 / N2 / N4.  Proved:
    - [C16_legacy_args_equiv_fold]: the legacy loop against the pylatexenc-3 arguments parser
      written as the fold of standard-argument parsers it is ([new_args_loop]; every argument
      with the same fuel), for ALL argument strings over the three characters, all strings, all
      positions, by induction over the argument string; it rests on [expr_shape] /
      [group_shape] (a parsed expression / group ends exactly at the reader position — the
      content of "re-tokenizing from p = np + nl is threading one reader") and on the
      single-token premise [star_premises] (the reader premises are discharged:
      [C16_reader_premises]);
    - [C16_legacy_args_equiv_run_two_fuels], [C16_legacy_args_equiv_parse_fuel]: the same against
      [run (TArgs ...)] itself ([C16_fuel_monotone]);
    - [C16_star_premises]: [star_premises] from the decidable context hypothesis
      [star_free cx = true];
    - [C16_legacy_args_equiv] (+ [_any_state], [_math]): the equivalence with only
      [star_free cx = true] left.
    Token parse errors of the look-ahead are not compared (see [agree]). *)
(** (this statement replaces [C16_legacy_args_equiv_partial], which carried the additional
    premise [reader_premises s cx ps]; that premise is now a theorem, [C16_reader_premises]) *)
Theorem C16_legacy_args_equiv_fold : forall s cx ps,
  star_premises s cx ps ->
  forall F a p, forallb argchar_ok a = true ->
    agree (new_args_loop s cx F ps a p [])
          (legacy_parse_args_f s false cx F ps a false None p).
Proof. exact legacy_args_equiv_fold_sp. Qed.

(** Fuel monotonicity of the frozen parser model — formerly an explicit premise
    of [C16_legacy_args_equiv_run_partial] — holds of every string and every
    context: it is [Proofs/ParserMono.v: run_mono] (composition with C06). *)
Theorem C16_fuel_monotone : forall s cx f f' t,
  f <= f' -> run s false cx f t <> OutOfFuel -> run s false cx f' t = run s false cx f t.
Proof. exact fuel_monotone_holds. Qed.

(** hence the pylatexenc-3 arguments parser [run (TArgs ...)] IS the fold of
    standard-argument parsers [new_args_loop], for any fuels with which neither
    runs out (no premise) *)
Theorem C16_args_fold_is_run : forall s cx a F F' ps p acc,
  new_args_loop s cx F ps a p acc <> OutOfFuel ->
  run s false cx F' (TArgs ps (map std_spec a) acc p) <> OutOfFuel ->
  run s false cx F' (TArgs ps (map std_spec a) acc p) = new_args_loop s cx F ps a p acc.
Proof. exact args_fold_is_run_all. Qed.

(** ... and the legacy algorithm against [run (TArgs ...)] itself, any two fuels with
    which neither side runs out (these two statements replace
    [C16_legacy_args_equiv_run_partial] / [C16_legacy_args_equiv_parse_fuel_partial], which
    carried the additional premise [reader_premises s cx ps], now the theorem
    [C16_reader_premises]; [star_premises] is characterised by [C16_star_premises] below) *)
Theorem C16_legacy_args_equiv_run_two_fuels : forall s cx ps,
  star_premises s cx ps ->
  forall F F' a p, forallb argchar_ok a = true ->
    new_args_loop s cx F ps a p [] <> OutOfFuel ->
    run s false cx F' (TArgs ps (map std_spec a) [] p) <> OutOfFuel ->
    agree (run s false cx F' (TArgs ps (map std_spec a) [] p))
          (legacy_parse_args_f s false cx F ps a false None p).
Proof. exact legacy_args_equiv_run_sp. Qed.

Theorem C16_legacy_args_equiv_parse_fuel : forall s cx ps,
  star_premises s cx ps ->
  forall a p, forallb argchar_ok a = true ->
    new_args_loop s cx (parse_fuel s cx) ps a p [] <> OutOfFuel ->
    run s false cx (parse_fuel s cx) (TArgs ps (map std_spec a) [] p) <> OutOfFuel ->
    agree (run s false cx (parse_fuel s cx) (TArgs ps (map std_spec a) [] p))
          (legacy_parse_args s false cx ps a false None p).
Proof. exact legacy_args_equiv_parse_fuel_sp. Qed.

(** ** The premises, discharged

    [reader_premises] ("a strict expression parse never yields 'no node'; an absent
    optional group leaves the reader in place") holds of EVERY string, context and
    parsing state, with no well-formedness assumption ([Proofs/PremisesReader.v]). *)
Theorem C16_reader_premises : forall s cx ps, reader_premises s cx ps.
Proof. exact reader_premises_hold. Qed.

(** [star_premises] holds of every state that tokenizes like the walker's default
    state (the legacy algorithm reads the star WITHOUT the parsing state), provided
    no specials of the context IS the string [*] ([star_free cx = true]; implied by
    "no specials starts with [*]", [star_prefix_free]; necessary:
    [C16_star_premises_context_dependent]; true of the regenerated default context). *)
Theorem C16_star_premises : forall s cx ps, star_free cx = true ->
  (forall p, peek_tok s false ps p = peek_tok s false (walker_state cx) p) ->
  star_premises s cx ps.
Proof. exact star_premises_hold. Qed.

Theorem C16_star_prefix_free_star_free : forall cx, star_prefix_free cx = true -> star_free cx = true.
Proof. exact star_prefix_free_star_free. Qed.

Example C16_star_free_default :
  star_free Gen.GenWalkerCtx.default_ctx = true /\ star_prefix_free Gen.GenWalkerCtx.default_ctx = true.
Proof. split; vm_compute; reflexivity. Qed.

(** the [in_math_mode=True] sub-context of the default state (the second state of the
    harness domain) tokenizes like the default state *)
Theorem C16_math_state_same_tokens : forall s cx p,
  peek_tok s false (sub_context (walker_state cx) [UInMath true]) p
  = peek_tok s false (walker_state cx) p.
Proof.
  intros s cx p. rewrite !Proofs.ParserSpansTok.peek_tok_strict. exact (impl_peek_walker_math cx s p).
Qed.

(** ** The equivalence with only [star_free cx = true] left

    For every string, every context with [star_free cx = true], every argument string
    over [*[{], every start position and every fuel (the SAME on both sides; no premise
    about fuel: [agree] holds trivially when the pylatexenc-3 side runs out of fuel,
    which [C16_legacy_args_run_terminates] excludes at the model's own fuel), in strict
    mode, under every state that tokenizes like the walker's default state:
    [run (TArgs (map std_spec a))] succeeds => the legacy algorithm succeeds with the same
    nodes modulo N1 and the same end position; it fails => the legacy algorithm fails,
    except for the closing-brace error (N2) and token parse errors (N4), which [agree]
    does not compare.  No [_partial]: nothing but the (necessary) context hypothesis is
    left of the premises; what the relation [agree] leaves out is by design of the
    compatibility layer (N1, N2, N4). *)
Theorem C16_legacy_args_equiv_any_state : forall s cx, star_free cx = true ->
  forall ps, (forall p, peek_tok s false ps p = peek_tok s false (walker_state cx) p) ->
  forall F a p, forallb argchar_ok a = true ->
    agree (run s false cx F (TArgs ps (map std_spec a) [] p))
          (legacy_parse_args_f s false cx F ps a false None p).
Proof. exact legacy_args_equiv_run_star_free. Qed.

(** the executable entry points (fuel [parse_fuel s]) under the walker's default state ... *)
Theorem C16_legacy_args_equiv : forall s cx, star_free cx = true ->
  forall a p, forallb argchar_ok a = true ->
    agree (run s false cx (parse_fuel s cx) (TArgs (walker_state cx) (map std_spec a) [] p))
          (legacy_parse_args s false cx (walker_state cx) a false None p).
Proof. exact legacy_args_equiv_star_free. Qed.

(** ... and under its [in_math_mode=True] sub-context *)
Theorem C16_legacy_args_equiv_math : forall s cx, star_free cx = true ->
  forall a p, forallb argchar_ok a = true ->
    agree (run s false cx (parse_fuel s cx) (TArgs (sub_context (walker_state cx) [UInMath true]) (map std_spec a) [] p))
          (legacy_parse_args s false cx (sub_context (walker_state cx) [UInMath true]) a false None p).
Proof. exact legacy_args_equiv_star_free_math. Qed.

(** [run (TArgs ...)] is the fold of standard-argument parsers whenever it does not run
    out of fuel (no premise on the fold: it gives every argument at least as much fuel) *)
Theorem C16_args_run_is_fold : forall s cx a F F' ps p acc, F' <= F ->
  run s false cx F' (TArgs ps (map std_spec a) acc p) <> OutOfFuel ->
  run s false cx F' (TArgs ps (map std_spec a) acc p) = new_args_loop s cx F ps a p acc.
Proof. exact args_run_is_fold. Qed.

(** the pylatexenc-3 side does not run out of the model's own fuel [parse_fuel s cx =
    length s * (8 + max_args cx) + 40 + max_args cx], in EVERY context, for argument strings
    of up to [37 + max_args cx] characters (the legacy argument string is a parameter of the
    call, not part of the context from which the fuel is computed) *)
Theorem C16_legacy_args_run_terminates : forall s cx a p,
  p <= length s -> length a <= 37 + max_args cx ->
  run s false cx (parse_fuel s cx) (TArgs (walker_state cx) (map std_spec a) [] p) <> OutOfFuel.
Proof. exact legacy_args_run_terminates. Qed.

(** why the context hypothesis [star_free] is needed: [star_premises] does not hold of every
    context — under a context that declares [*] as a specials, the token read at
    a [*] is a specials token with text [*] (so the legacy algorithm, which tests
    for a chars token, and the pylatexenc-3 star argument may differ) *)
Example C16_star_premises_context_dependent :
  ~ star_premises [42%N] star_ctx (walker_state star_ctx).
Proof. exact star_premises_context_dependent. Qed.

(** a parsed expression / group ends exactly where the reader stands *)
Theorem C16_expr_ends_at_reader : forall s cx f ps acc pos n p,
  run s false cx f (TExpr ps true true false true acc pos) = Ok (ONode (Some n)) p ->
  (forall x, In (Some x) acc -> is_nlist x = false) ->
  is_nlist n = false /\ node_end n = Some p /\ exists np, node_pos n = Some np.
Proof. exact expr_shape. Qed.
Theorem C16_group_ends_at_reader : forall s cx f ps d opt aps pos n p,
  run s false cx f (TGroup ps d opt aps pos) = Ok (ONode (Some n)) p ->
  exists p0 m od cd body, n = NGroup p0 p m od cd body.
Proof. exact group_shape. Qed.

(** non-vacuity of the argument equivalence: "*[x]\bar{y}z" with the argument string *[{{ —
    the run of the real arguments parser, the fold and the legacy algorithm, evaluated:
    same four argument nodes modulo N1 (the macro \bar given as a single token), same end 11 *)
Example C16_legacy_args_nonvacuous :
  let s := [42; 91; 120; 93; 92; 98; 97; 114; 123; 121; 125; 122]%N in
  let cx := Gen.GenWalkerCtx.default_ctx in
  let ps := walker_state cx in
  let a := [42; 91; 123; 123]%N in
  exists nodes,
    run s false cx (parse_fuel s cx) (TArgs ps (map std_spec a) [] 0) = Ok (OArgs (Some ([], nodes))) 11
    /\ new_args_loop s cx (parse_fuel s cx) ps a 0 [] = Ok (OArgs (Some ([], nodes))) 11
    /\ legacy_parse_args s false cx ps a false None 0 = LOk (map norm_arg nodes, 11)
    /\ map norm_arg nodes <> nodes /\ length nodes = 4.
Proof.
  cbv zeta. eexists. split; [vm_compute; reflexivity|].
  split; [vm_compute; reflexivity|]. split; [vm_compute; reflexivity|].
  split; [vm_compute; discriminate | vm_compute; reflexivity].
Qed.

(** non-vacuity of the [star_free] theorems: the hypotheses hold of the default context, and
    the conclusion is the agreement of two successful, non-trivial runs under the
    [in_math_mode=True] sub-context ("*[x]\bar{y}z", argument string *[{{) *)
Example C16_legacy_args_star_free_nonvacuous :
  let s := [42; 91; 120; 93; 92; 98; 97; 114; 123; 121; 125; 122]%N in
  let cx := Gen.GenWalkerCtx.default_ctx in
  let ps := sub_context (walker_state cx) [UInMath true] in
  let a := [42; 91; 123; 123]%N in
  star_free cx = true /\ forallb argchar_ok a = true /\ length a <= 37 + max_args cx /\
  exists nodes,
    run s false cx (parse_fuel s cx) (TArgs ps (map std_spec a) [] 0) = Ok (OArgs (Some ([], nodes))) 11
    /\ legacy_parse_args s false cx ps a false None 0 = LOk (map norm_arg nodes, 11)
    /\ map norm_arg nodes <> nodes /\ length nodes = 4.
Proof.
  cbv zeta. split; [vm_compute; reflexivity|]. split; [vm_compute; reflexivity|].
  split; [apply Nat.leb_le; vm_compute; reflexivity|].
  eexists. split; [vm_compute; reflexivity|]. split; [vm_compute; reflexivity|].
  split; [vm_compute; discriminate | vm_compute; reflexivity].
Qed.

Print Assumptions C16_get_token.
Print Assumptions C16_get_token_brackets.
Print Assumptions C16_get_latex_nodes.
Print Assumptions C16_get_latex_nodes_one_char.
Print Assumptions C16_get_latex_nodes_fails_iff.
Print Assumptions C16_get_latex_nodes_len.
Print Assumptions C16_promotion_adds_pair.
Print Assumptions C16_promotion_idempotent.
Print Assumptions C16_stop_brace.
Print Assumptions C16_stop_env.
Print Assumptions C16_stop_math.
Print Assumptions C16_get_latex_expression.
Print Assumptions C16_get_latex_braced_group.
Print Assumptions C16_get_latex_environment.
Print Assumptions C16_get_latex_maybe_optional_arg.
Print Assumptions C16_args_spellings.
Print Assumptions C16_args_spellings_all.
Print Assumptions C16_std_macro_optnum.
Print Assumptions C16_legacy_args_equiv_fold.
Print Assumptions C16_fuel_monotone.
Print Assumptions C16_args_fold_is_run.
Print Assumptions C16_legacy_args_equiv_run_two_fuels.
Print Assumptions C16_legacy_args_equiv_parse_fuel.
Print Assumptions C16_reader_premises.
Print Assumptions C16_star_premises.
Print Assumptions C16_star_prefix_free_star_free.
Print Assumptions C16_star_free_default.
Print Assumptions C16_math_state_same_tokens.
Print Assumptions C16_legacy_args_equiv_any_state.
Print Assumptions C16_legacy_args_equiv.
Print Assumptions C16_legacy_args_equiv_math.
Print Assumptions C16_args_run_is_fold.
Print Assumptions C16_legacy_args_run_terminates.
Print Assumptions C16_star_premises_context_dependent.
Print Assumptions C16_expr_ends_at_reader.
Print Assumptions C16_group_ends_at_reader.
