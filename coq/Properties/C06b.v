(** C06 (clause "if the same input parses in strict mode the two trees are
    identical") — statements only; proofs in [Proofs/ParserAgree.v].  To be
    merged into [Properties/C06.v]. *)
From Coq Require Import NArith List Bool.
From PLV Require Import Base.PyStr Tok.PState Tok.Tokenizer Parse.Nodes Parse.Parser Parse.ParseWire
                        Gen.GenWalkerCtx Proofs.ParserAgree.
Import ListNotations.

(** For EVERY string, EVERY context database (no well-formedness needed),
    EVERY task of the parser stack (any parser, started in any parsing state at
    any position, with any accumulated nodes) and EVERY fuel: when the strict
    run returns a value, the tolerant run returns the same value and leaves the
    reader at the same position.  (Nothing is assumed about termination: an
    out-of-fuel strict run is not a value.) *)
Theorem C06_agrees : forall s cx f t o p,
  run s false cx f t = Ok o p -> run s true cx f t = Ok o p.
Proof. exact run_agree_ok. Qed.

(** The same for a strict run that meets the end of the stream (the callers
    turn it into "no node"): the simulation needs it, and it is what makes the
    statement compose through [parse_content]. *)
Theorem C06_agrees_eos : forall s cx f t p,
  run s false cx f t = REOS p -> run s true cx f t = REOS p.
Proof. exact run_agree_eos. Qed.

(** [LatexWalker(s, tolerant_parsing=False).parse_content(LatexGeneralNodesParser())]
    returned [o] (a tree) => the tolerant walker returns the identical tree and
    final position; for any initial parsing state. *)
Theorem C06_agrees_top : forall s cx ps o p,
  parse_top s false cx ps = Ok o p -> parse_top s true cx ps = Ok o p.
Proof. exact parse_top_agree. Qed.

(** Non-vacuity: [a{b}$c$\textbf{d}] parses in strict mode under the default
    context (so the hypothesis is satisfiable with groups, math and a macro
    with an argument) ... *)
Example C06_agrees_nonvacuous :
  let s := [97;123;98;125;36;99;36;92;116;101;120;116;98;102;123;100;125]%N in
  exists o p, parse_top s false default_ctx (walker_state default_ctx) = Ok o p
           /\ parse_top s true default_ctx (walker_state default_ctx) = Ok o p
           /\ p = length s.
Proof. vm_compute. eexists. eexists. repeat split. Qed.

(** ... and the two modes are really different functions: on [a}] strict
    parsing raises, tolerant parsing returns a tree. *)
Example C06_modes_differ :
  let s := [97;125]%N in
  (exists e p, parse_top s false default_ctx (walker_state default_ctx) = PErr e p)
  /\ (exists o p, parse_top s true default_ctx (walker_state default_ctx) = Ok o p).
Proof. vm_compute. split; eexists; eexists; reflexivity. Qed.

Print Assumptions C06_agrees.
Print Assumptions C06_agrees_eos.
Print Assumptions C06_agrees_top.
