(** C01 — the node tree is a lossless, exactly positioned cover of the source.

    Statements only ([exact] of lemmas of [Proofs/ParserSpans*.v]) followed by
    [Print Assumptions].  The model is [Parse/Parser.v] (one fuelled [run]);
    [parse_top s tol cx (walker_state cx)] is
    [LatexWalker(s, latex_context=cx, tolerant_parsing=tol).parse_content(LatexGeneralNodesParser())].

    All strict theorems hold for EVERY string [s] and EVERY context [cx]; only
    the clause "a chars node's text is its source slice" needs
    [ctx_ok cx = true] (the marker of an optional-chars argument [*], [s],
    [t<c>] is a single character — the only form the argument-specification
    strings of pylatexenc and the context translator of the harness produce;
    proved for the generated default context below; shown necessary by
    [C01_chars_text_needs_ctx_ok]).  The proofs go through a per-task
    postcondition for every task of [run] and every fuel
    ([ParserSpansStrict.run_post]).

    Definitions ([Proofs/ParserSpansDefs.v]):
    - [nspan n]      the pair (pos, pos_end) when both are present;
    - [tiles x y l]  every item of [l] is a node, the spans are consecutive
                     from [x] to [y]: no gap, no overlap;
    - [chain lo hi l] the present nodes of [l] all have a span, lie inside
                     [lo, hi], in increasing order, pairwise non-overlapping
                     ([None] slots are skipped);
    - [wf_node tx s n] (recursive over the whole tree below [n]; [tx = false]
                     drops the chars-text clause)
                     [pos <= pos_end <= |s|]; the children — arguments in order,
                     then body items — are a [chain] inside the node's span; a
                     body node list lies inside the node's span; a chars node's
                     text is [slice s pos pos_end]; a comment node's
                     ['%' ++ comment ++ post_space] is its slice; a group or
                     math node whose body is present has its opening delimiter
                     as a prefix and its closing delimiter as a suffix of its
                     slice; a node list has both ends (and then
                     [pos <= pos_end <= |s|] with its items a [chain] inside)
                     or is the empty list without positions;
    - [in_tree m n]  [m] is [n] or occurs below it (argument slot, body, list item);
    - [verbatim s n] [slice s pos pos_end] — the model of [latex_verbatim()]. *)
From Coq Require Import NArith List Bool Arith Lia.
From PLV Require Import Base.PyStr Tok.PState Tok.Tokenizer Parse.Nodes Parse.Parser Parse.ParseWire
  Proofs.ParserSpansDefs Proofs.ParserSpansTok Proofs.ParserSpansStrict Proofs.ParserSpansTol
  Proofs.ParserSpansTolerant.
From PLV Require Gen.GenWalkerCtx.
Import ListNotations.

(** The top-level node list of a strict parse spans the whole input, the
    reader ends at the end of the input, and the top-level nodes tile the
    input: each starts where the previous one ended, the first at 0, the last
    ends at [|s|].  Every string, EVERY context. *)
Theorem C01_strict_tiles : forall s cx a b items p,
  parse_top s false cx (walker_state cx) = Ok (ONode (Some (NList a b items))) p ->
  a = Some 0 /\ b = Some (length s) /\ p = length s /\ tiles 0 (length s) items.
Proof. exact parse_top_strict_tiles. Qed.

(** For the empty input the list is empty with span (0,0) (both modes, every context). *)
Theorem C01_empty_input : forall tol cx,
  parse_top [] tol cx (walker_state cx) = Ok (ONode (Some (NList (Some 0) (Some 0) []))) 0.
Proof. exact parse_top_empty. Qed.

(** Every node of the returned tree is well formed: in range, children inside
    the span in document order without overlap, chars / comment text equal to
    the source slice, delimiters of closed groups and math at the span ends.
    ([wf_node true]: with the text clause of chars nodes; needs [ctx_ok].) *)
Theorem C01_wf_nodes : forall s cx a b items p, ctx_ok cx = true ->
  parse_top s false cx (walker_state cx) = Ok (ONode (Some (NList a b items))) p ->
  forall m, in_tree m (NList a b items) -> wf_node true s m.
Proof.
  intros s cx a b items p CX H m I. eapply wf_in_tree; [exact I|].
  eapply parse_top_strict_wf; eauto.
Qed.

(** The same for EVERY context, without the text clause of chars nodes
    ([wf_node false]: everything else — ranges, nesting and order of children,
    comment text, delimiters). *)
Theorem C01_wf_nodes_any_ctx : forall s cx a b items p,
  parse_top s false cx (walker_state cx) = Ok (ONode (Some (NList a b items))) p ->
  forall m, in_tree m (NList a b items) -> wf_node false s m.
Proof.
  intros s cx a b items p H m I. eapply wf_in_tree; [exact I|].
  eapply parse_top_strict_wf_any; eauto.
Qed.

(** Concatenating the verbatim source of the top-level nodes reproduces the
    input character for character; so does the verbatim of the list itself.
    Every string, EVERY context. *)
Theorem C01_verbatim_concat : forall s cx a b items p,
  parse_top s false cx (walker_state cx) = Ok (ONode (Some (NList a b items))) p ->
  concat (map (verbatim_o s) items) = s /\ verbatim s (NList a b items) = s.
Proof. exact parse_top_strict_verbatim. Qed.

(** Whatever a strict parse returns IS such a node list (never [None], never a
    lone node): the theorems above cover every strict [Ok] outcome. *)
Theorem C01_strict_shape : forall s cx o p,
  parse_top s false cx (walker_state cx) = Ok o p ->
  exists items, o = ONode (Some (NList (Some 0) (Some (length s)) items)).
Proof. exact parse_top_strict_shape. Qed.

(** The same for every fuel (not only [parse_fuel]): the invariant does not
    depend on how much fuel the run was given.  ([tx = true]: with chars text,
    under the context condition; [tx = false]: every context.) *)
Theorem C01_strict_any_fuel : forall s cx tx, (tx = true -> ctx_ok cx = true) -> forall fuel a b items p,
  parse_content false (run s false cx fuel (TGeneral (walker_state cx) top_opts 0))
    = Ok (ONode (Some (NList a b items))) p ->
  a = Some 0 /\ b = Some (length s) /\ p = length s /\ tiles 0 (length s) items /\ wf_items tx s items.
Proof. exact top_strict. Qed.

(** The generated default context satisfies the context condition. *)
Theorem C01_default_ctx_ok : ctx_ok Gen.GenWalkerCtx.default_ctx = true.
Proof. vm_compute. reflexivity. Qed.

(** The context condition is needed: with a two-character optional-chars
    marker ["\n\n"] that is also a specials sequence, the paragraph token spans
    ["\n \n"] but the chars node made from the marker carries ["\n\n"].
    (Not reachable through pylatexenc's argument-specification strings.) *)
Definition cx_twochar_marker : context :=
  {| cx_macros := [([44%N], {| sp_args := APStd [{| a_spec := [42%N];
                                                     a_kind := AKChars [10; 10]%N false false;
                                                     a_delta := ADNone |}];
                               sp_body_math := false |})];
     cx_envs := [];
     cx_specials := [([10; 10]%N, {| sp_args := APStd []; sp_body_math := false |})];
     cx_unk_macro := None; cx_unk_env := None |}.

Theorem C01_chars_text_needs_ctx_ok :
  let s := [92; 44; 10; 32; 10; 120]%N in                      (* \,<nl><space><nl>x *)
  exists m args rest,
    parse_top s false cx_twochar_marker (walker_state cx_twochar_marker)
    = Ok (ONode (Some (NList (Some 0) (Some 6)
           (Some (NMacro 0 5 m [44%N] [] (Some (args, [Some (NChars 2 5 m [10; 10]%N)]))) :: rest)))) 6
    /\ slice s 2 5 = [10; 32; 10]%N.
Proof. vm_compute. eexists _, _, _. split; reflexivity. Qed.

(** Tolerant mode, the clause of the property text (DESIGN 6/C01): for
    whatever tolerant mode returns, for EVERY string and EVERY context, every
    node of the tree has [pos <= pos_end <= |s|] and its children that have a
    span (arguments, body items, list items) lie inside its span
    ([ParserSpansTol.in_range_nested], a structural recursion over the whole
    tree).  This clause used to be refuted ([\, x] with [\,] taking [r()] gave
    [M(0,2, args=[L(3,3,[])])]): the recovery of a missing required delimited
    argument placed the empty placeholder list after the whitespace in front
    of the offending token while the reader is rewound to before it.  Since
    repo fix d89cd3a (tracked by the model) the placeholder sits where the
    reader is rewound to and the clause holds. *)
Theorem C01_tolerant_nested : forall s cx n p,
  parse_top s true cx (walker_state cx) = Ok (ONode (Some n)) p -> in_range_nested s n.
Proof. exact parse_top_tolerant_nested. Qed.

(** The stronger structural statement the clause is derived from, for every
    string and EVERY context, proved through the same per-task induction as
    strict mode with postconditions for recovered parse errors
    ([ParserSpansTolerant.run_post_t]): a tolerant parse that returns returns
    a node (never [None]), the reader stays inside the input, and every node
    [m] of the tree satisfies [tol_node s m]:
    - [pos <= pos_end <= |s|] (node lists: both ends present with
      [pos <= pos_end <= |s|], or both absent);
    - the arguments of a macro, environment or specials node, the body of a
      group, math or environment node and the items of every node list are a
      [chain] inside the node's span: each present child has a span, they are
      in document order and pairwise non-overlapping.
    No text equalities (tolerant placeholders drop characters). *)
Theorem C01_tolerant_ordered : forall s cx o p,
  parse_top s true cx (walker_state cx) = Ok o p ->
  p <= length s /\ exists n, o = ONode (Some n) /\ forall m, in_tree m n -> tol_node s m.
Proof.
  intros s cx o p H. apply parse_top_tolerant in H. destruct H as (A & n & E & T).
  split; [exact A|]. exists n. split; [exact E|]. intros m I. eapply tol_in_tree; eauto.
Qed.

(** Non-vacuity of [C01_tolerant_nested] on the former counterexample: [\, x]
    with [\,] taking [r()], whitespace allowed: the placeholder of the missing
    argument is the empty list (2,2) inside the macro (0,2). *)
Example C01_tolerant_nested_nonvacuous :
  exists items p,
    parse_top s_required true cx_required (walker_state cx_required)
      = Ok (ONode (Some (NList (Some 0) (Some 4) items))) p /\
    exists m po, nth_error items 0 = Some (Some (NMacro 0 2 m [44%N] po
                                     (Some ([[114; 40; 41]%N], [Some (NList (Some 2) (Some 2) [])])))).
Proof. exact tolerant_nested_former_witness. Qed.

(** The in-range half of the tolerant clause, spelled out for every node. *)
Theorem C01_tolerant_in_range : forall s cx n p,
  parse_top s true cx (walker_state cx) = Ok (ONode (Some n)) p ->
  forall m a b, in_tree m n -> nspan m = Some (a, b) -> a <= b /\ b <= length s.
Proof. exact parse_top_tolerant_in_range. Qed.

(** Non-vacuity of the tolerant theorems: an unclosed group inside an
    unclosed math inside a macro argument is recovered from. *)
Example C01_tolerant_nonvacuous :
  let s := [92; 116; 101; 120; 116; 98; 102; 123; 97; 36; 123; 98; 32; 125; 125; 32; 99]%N in
  (* \textbf{a${b }} c *)
  exists n p, parse_top s true Gen.GenWalkerCtx.default_ctx (walker_state Gen.GenWalkerCtx.default_ctx)
              = Ok (ONode (Some n)) p /\ p = length s.
Proof. vm_compute. eexists _, _. split; reflexivity. Qed.

(** Non-vacuity: a document with a macro with arguments, math, a comment, an
    environment and a group parses strictly under the default context, and the
    theorems apply to it. *)
Example C01_nonvacuous :
  let s := [97; 32; 92; 116; 101; 120; 116; 98; 102; 123; 98; 125; 36; 120; 36; 37; 99; 10;
            92; 98; 101; 103; 105; 110; 123; 99; 101; 110; 116; 101; 114; 125; 123; 121; 125;
            92; 101; 110; 100; 123; 99; 101; 110; 116; 101; 114; 125]%N in
  (* a \textbf{b}$x$%c<nl>\begin{center}{y}\end{center} *)
  exists a b items p,
    parse_top s false Gen.GenWalkerCtx.default_ctx (walker_state Gen.GenWalkerCtx.default_ctx)
      = Ok (ONode (Some (NList a b items))) p /\ length items = 5 /\ length s = 47.
Proof. vm_compute. eexists _, _, _, _. split; [reflexivity|]. split; reflexivity. Qed.

Print Assumptions C01_strict_tiles.
Print Assumptions C01_empty_input.
Print Assumptions C01_wf_nodes.
Print Assumptions C01_wf_nodes_any_ctx.
Print Assumptions C01_verbatim_concat.
Print Assumptions C01_strict_shape.
Print Assumptions C01_strict_any_fuel.
Print Assumptions C01_default_ctx_ok.
Print Assumptions C01_chars_text_needs_ctx_ok.
Print Assumptions C01_tolerant_nested.
Print Assumptions C01_tolerant_ordered.
Print Assumptions C01_tolerant_in_range.
