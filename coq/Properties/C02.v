(** C02 — parsing recovers the structure a well-formed document was written
    with.  Statements only (each closed by [exact] of a lemma of
    [Proofs/RoundTrip*.v]) with their [Print Assumptions], and non-vacuity
    examples.

    Three grammars, ALL documents of each (unbounded depth and size), ALL contexts.

    (1) The CORE grammar of [Doc/DocGrammar.v] (stages (a)-(d), (e2) of the plan;
        theorems [C02_..._partial] without "2", first half of this file):

      item ::= Text ws cs          whitespace, then a non-empty run of inert characters
             | Grp ws body tr      ws { body tr }
             | Mac ws name post args   ws \name post {arg}…{arg}  (macro known to the context or
                                   covered by its unknown-macro fallback, [APStd] signature made only
                                   of mandatory [{] arguments ([AKExpr]), any [a_delta]; control word
                                   with post-space, or control symbol)
             | Math ws k body tr   ws $ body tr $  |  \( \)  |  \[ \]  |  $$ $$
                                   (only where the parsing state is not in math mode)
             | Cmt ws text post    ws % text post   (text without newline; post = the newline and the
                                   whitespace after it)
             | Par ws mid          ws newline mid newline   (a whitespace run with two or more
                                   newlines that ends with its last newline, in a context that has
                                   the [\n\n] specials without arguments; [ws] without newline)
      doc  ::= item* tr            (tr: whitespace before the end of input)
    with [ws], [tr], [post] whitespace runs containing at most one newline.

    (2) The EXTENDED grammar of [Doc/DocGrammar2.v] (stages (e1)-(e7); theorems
        [C02_...2..._partial], second half of this file; the core grammar embeds:
        [C02_core_grammar_embeds]).  Side conditions are evaluated against the
        FOLLOW STRING of each item.  The above, with
          - text characters = every character that is not whitespace, not [\ $ % { }] and at
            which no specials sequence of the context matches ([a-b], [don't] are text);
          - a comment may also end with the input, or stand before a paragraph break;
          - a paragraph break may be followed by indentation and may come directly after a
            control word / a comment (whose post-space then stops before its first newline);
        plus
             | Env2 ws bws name args body tr ews
                                   ws \begin bws {name} args body tr \end ews {name}   (body in math mode
                                   when the environment is declared so)
             | Spc2 ws chars args  ws chars args   (the specials sequences of the context, longest match)
             | Vrb2 ws name post dc text      ws \name post dc text dc   (the verbatim macro)
             | VEnv2 ws bws name oarg text    ws \begin bws {name} [oarg] text \end{name}   (verbatim
                                   environments; optional argument written or absent)
        and ARGUMENTS written per slot of the declared signature of the macro / environment /
        specials:
             mandatory slot        a braced group [Grp2 ws …], or ONE TOKEN: a character [Text2 ws [c]], a
                                   control sequence [Mac2 ws name post []] (its own arguments are not
                                   parsed), a specials sequence [Spc2 ws chars []]; whitespace [ws] and
                                   comments [Pre2 ws text post a] in front where the slot allows it
             delimited slot        [Brk2 ws oc cc body tr] = ws [ body tr ] (any pair of single-character
                                   delimiters), or [Abs2] when optional and not written
             marker slot           [Text2 ws [*]] or [Abs2]
             verbatim slot         [Vba2 ws od cd text]
        with: an absent argument is not followed (after whitespace) by its opening character nor
        by a malformed escape sequence; the two delimiter characters are not text DIRECTLY in
        the body of a delimited argument (they are inside its braced children).  (No bound on
        the number of absent arguments: the model's fuel [parse_fuel s cx = |s| * (8 + max_args
        cx) + 40 + max_args cx] pays for every argument slot of every specification of [cx].)

    (3) The THIRD grammar of [Doc/DocGrammar3.v] (theorems [C02_...3..._partial], last part
        of this file; the extended grammar embeds: [C02_extended_grammar_embeds], with EQUAL
        side conditions, written form and meaning).  The above, plus
             | WPar3 ws mid        ws newline mid newline, a whitespace run with two or more newlines in a
                                   context WITHOUT the [\n\n] specials: the tokenizer yields one character
                                   token, the collector adds it to the pending characters like text
             | PArg3 ws mid        ARGUMENT position (mandatory slot): a paragraph break as the single-token
                                   argument — a [\n\n] specials node WITHOUT arguments where the context
                                   has these specials (whatever their signature), a characters node elsewhere
             | BGrp3 ws oc cc body tr   ws oc body tr cc written DIRECTLY in the body of a delimited argument
                                   [oc … cc] ([\item[see [1]]]): a group; its body [bitem*] is made of text,
                                   comments and nested groups of the same kind (all read in the extended
                                   state, where [oc] and [cc] are group delimiters)

    STILL PARTIAL (hence the names): not in any theorem are
      - inside a delimited group written directly in the body of a delimited argument: macro
        calls, environments, math, braced groups, specials, paragraph breaks (there the parser reads
        ALL children in the extended state, which is not a state of the grammar),
      - a whitespace run with two or more newlines where the [\n\n] specials takes arguments.
    These stay covered by the differential correspondence and the structure oracle only.

    Full statement (kept for reference, not proved):
      forall ctx d, ctx_wf ctx = true -> ok_doc ctx d = true ->
        parse strict ctx (unparse d) = Ok (tree_of ctx 0 d)
    for [doc] the whole grammar of DESIGN §6/C02.

    No side condition on the context turned out to be necessary
    ([ctx_side_conditions] would be vacuous): everything the proof needs from
    the context is a condition on the DOCUMENT and is part of [ok_doc] / [ok_doc2]. *)
From Coq Require Import NArith List Bool Arith.
From PLV Require Import Base.PyStr Tok.PState Tok.Tokenizer Parse.Nodes Parse.Parser Parse.ParseWire
                        Gen.GenWalkerCtx Doc.DocGrammar Doc.DocGrammar2
                        Proofs.RoundTripTok Proofs.RoundTripRules Proofs.RoundTrip Proofs.RoundTripWs
                        Proofs.RoundTrip2 Proofs.RoundTrip2Ws Proofs.RoundTrip2Embed
                        Doc.DocGrammar3 Proofs.RoundTrip3 Proofs.RoundTrip3Embed.
Import ListNotations.

(** ** The round trip: the strict parser, run with its own fuel on the written
    form of a document that satisfies the side conditions, returns EXACTLY the
    tree the document means — node kinds, names, delimiters, argument slots,
    parsing-state modes, every position, whitespace attributed as the collector
    does it — and leaves the reader at the end of the input. *)
Theorem C02_parse_unparse_partial : forall cx d,
  ok_doc cx d = true ->
  parse_top (unparse d) false cx (walker_state cx)
  = Ok (ONode (Some (gen_nodelist 0 (fst (tree_of cx (walker_state cx) 0 d))))) (length (unparse d)).
Proof. exact parse_unparse. Qed.
Print Assumptions C02_parse_unparse_partial.

(** ** The simulation behind it, for reuse (C03, C08, C10, C12, C13): in any
    state of the grammar ([Std]: the walker's state up to math mode /
    enable-environments), for any collector of the grammar ([opts_ok]), at any
    offset of any input [s] whose suffix there is [unparse_items l ++ fol], if
    the collector continued after the items returns [r] with fuel [k], then
    started before them it returns [r] with fuel [k + 8 * |unparse_items l|]. *)
Theorem C02_items_simulation_partial : forall s cx l ps o st pos fol k r,
  Std cx ps -> opts_ok ps o -> r <> OutOfFuel ->
  ok_items cx ps l (hd_error fol) = true ->
  skipn pos s = unparse_items l ++ fol ->
  run s false cx k (TCollect ps o (fst (absorb cx ps pos st l)) (pos + length (unparse_items l))) = r ->
  run s false cx (k + 8 * length (unparse_items l)) (TCollect ps o st pos) = r.
Proof. intros s cx l. exact (items_sim s cx (lsize l) l (le_n _)). Qed.
Print Assumptions C02_items_simulation_partial.

(** ** Whitespace never changes the structure: two documents that differ only
    in the amount of whitespace (each whitespace field replaced by a whitespace
    run that is empty exactly when the original is; [ok_doc] keeps both free of
    paragraph breaks) parse to trees with the same [structure] (positions and
    whitespace erased, as [harness/docast.py: struct]). *)
Corollary C02_whitespace_irrelevant_partial : forall cx d d',
  ws_variant d d' -> ok_doc cx d = true -> ok_doc cx d' = true ->
  exists n n' p p',
    parse_top (unparse d) false cx (walker_state cx) = Ok (ONode (Some n)) p /\
    parse_top (unparse d') false cx (walker_state cx) = Ok (ONode (Some n')) p' /\
    structure n = structure n'.
Proof. exact whitespace_irrelevant. Qed.
Print Assumptions C02_whitespace_irrelevant_partial.

(** the same at the level of the meaning function (no side condition at all) *)
Theorem C02_tree_whitespace_irrelevant_partial : forall cx ps pos pos' d d',
  ws_variant d d' ->
  structure_items (fst (tree_of cx ps pos d)) = structure_items (fst (tree_of cx ps pos' d')).
Proof. exact tree_ws_variant. Qed.
Print Assumptions C02_tree_whitespace_irrelevant_partial.

(** ** Non-vacuity *)
Open Scope N_scope.

(** [ab {c %x{$\n \textbf{x $y$} }\alpha z\n\n\(q\)\n\frac{1}{ } ] — nested groups, a comment, a paragraph break, a
    one-argument macro whose argument contains inline math, a zero-argument
    control word with post-space, [\( \)], a two-argument macro, trailing
    whitespace — under the generated default context *)
Definition c02_doc : doc :=
  {| d_items :=
       [Text [] [97;98];
        Grp [32] [Text [] [99];
                  Cmt [32] [120;123;36] [10;32];
                  Mac [] [116;101;120;116;98;102] []
                      [Grp [] [Text [] [120]; Math [32] MDollar [Text [] [121]] []] []]] [32];
        Mac [] [97;108;112;104;97] [32] [];
        Text [] [122];
        Par [] [];
        Math [] MParen [Text [] [113]] [];
        Mac [10] [102;114;97;99] [] [Grp [] [Text [] [49]] []; Grp [] [] [32]]];
     d_trail := [32] |}.

Example C02_parse_unparse_nonvacuous :
  ok_doc default_ctx c02_doc = true /\
  unparse c02_doc = [97;98;32;123;99;32;37;120;123;36;10;32;92;116;101;120;116;98;102;123;120;32;36;121;36;125;32;125;
                     92;97;108;112;104;97;32;122;10;10;92;40;113;92;41;10;92;102;114;97;99;123;49;125;123;32;125;32] /\
  (* the theorem's conclusion, checked independently by evaluation *)
  parse_top (unparse c02_doc) false default_ctx (walker_state default_ctx)
  = Ok (ONode (Some (gen_nodelist 0 (fst (tree_of default_ctx (walker_state default_ctx) 0 c02_doc)))))
       (length (unparse c02_doc)) /\
  (* and it is a non-trivial tree: nine top-level nodes, 56 characters *)
  length (fst (tree_of default_ctx (walker_state default_ctx) 0 c02_doc)) = 9%nat.
Proof. vm_compute. repeat split. Qed.

(** the side conditions are not vacuous: a document violating one really
    parses differently.  [\alpha] directly followed by the text [x] (a control
    word followed by a letter) is the macro [\alphax]; [$$] with an empty body
    is the display delimiter; a text run containing [%] starts a comment. *)
Example C02_side_conditions_needed :
  let bad1 := {| d_items := [Mac [] [97;108;112;104;97] [] []; Text [] [120]]; d_trail := [] |} in
  let bad2 := {| d_items := [Math [] MDollar [] []; Text [] [120]]; d_trail := [] |} in
  let bad3 := {| d_items := [Text [] [97;37;98]]; d_trail := [] |} in
  let differs d := match parse_top (unparse d) false default_ctx (walker_state default_ctx) with
                   | Ok (ONode (Some (NList _ _ l))) _ =>
                       negb (Nat.eqb (length l) (length (fst (tree_of default_ctx (walker_state default_ctx) 0 d))))
                   | _ => true end in
  (ok_doc default_ctx bad1 = false /\ differs bad1 = true) /\
  (ok_doc default_ctx bad2 = false /\ differs bad2 = true) /\
  (ok_doc default_ctx bad3 = false /\ differs bad3 = true).
Proof. vm_compute. repeat split. Qed.

(** a whitespace variant of [c02_doc]: [ab  {c\t%x{$\n\textbf{x\t$y$}\n}\alpha\nz\n \n\t\n\(q\) \frac{1}{  }\n] *)
Definition c02_doc' : doc :=
  {| d_items :=
       [Text [] [97;98];
        Grp [32;32] [Text [] [99];
                  Cmt [9] [120;123;36] [10];
                  Mac [] [116;101;120;116;98;102] []
                      [Grp [] [Text [] [120]; Math [9] MDollar [Text [] [121]] []] []]] [10];
        Mac [] [97;108;112;104;97] [10] [];
        Text [] [122];
        Par [] [32;10;9];
        Math [] MParen [Text [] [113]] [];
        Mac [32] [102;114;97;99] [] [Grp [] [Text [] [49]] []; Grp [] [] [32;32]]];
     d_trail := [10] |}.

Example C02_whitespace_irrelevant_nonvacuous :
  ws_variant c02_doc c02_doc' /\ ok_doc default_ctx c02_doc' = true /\
  unparse c02_doc <> unparse c02_doc' /\
  structure_res (parse_top (unparse c02_doc) false default_ctx (walker_state default_ctx))
  = structure_res (parse_top (unparse c02_doc') false default_ctx (walker_state default_ctx)) /\
  structure_res (parse_top (unparse c02_doc) false default_ctx (walker_state default_ctx)) <> None.
Proof.
  split; [|split; [vm_compute; reflexivity|split; [vm_compute; discriminate|split; [vm_compute; reflexivity|vm_compute; discriminate]]]].
  unfold ws_variant, wse. cbn. vm_compute. intuition (try discriminate; try reflexivity).
Qed.

(** [$$ … $$] (stage (e2)) is the fourth [mathkind] of the core grammar:
    [a $$ b\frac{1}{} $$$d$ $$$$] — display math, then inline math directly
    after it, then an empty display formula *)
Example C02_dollars_nonvacuous :
  let d := {| d_items := [Text [] [97];
                          Math [32] MDollars [Text [32] [98]; Mac [] [102;114;97;99] [] [Grp [] [Text [] [49]] []; Grp [] [] []]] [32];
                          Math [] MDollar [Text [] [100]] []; Math [32] MDollars [] []];
              d_trail := [] |} in
  ok_doc default_ctx d = true /\
  parse_top (unparse d) false default_ctx (walker_state default_ctx)
  = Ok (ONode (Some (gen_nodelist 0 (fst (tree_of default_ctx (walker_state default_ctx) 0 d))))) (length (unparse d)) /\
  length (fst (tree_of default_ctx (walker_state default_ctx) 0 d)) = 5%nat.
Proof. vm_compute. repeat split. Qed.

Close Scope N_scope.

(** * The extended grammar of [Doc/DocGrammar2.v] (stage (e))

      item2 ::= Text2 | Grp2 | Mac2 | Math2 | Cmt2 | Par2          (as the core grammar)
              | Env2 ws bws name args body tr ews
                      ws \begin bws {name} {arg}…{arg} body tr \end ews {name}
                      (environment known to the context or covered by its unknown-environment
                      fallback, standard signature made of mandatory brace arguments; the body is
                      parsed in math mode when the environment is declared so; [bws], [ews] any
                      whitespace; only where the state has environments enabled)
              | Spc2 ws chars args          ws chars {arg}…{arg}   (a specials sequence of the context)
              | Vrb2 ws name post dc text | VEnv2 ws bws name oarg text   (verbatim macro / environments)
              | Brk2 ws oc cc body tr | Abs2   (argument position only: a delimited argument, an absent one)

    The side conditions [ok_item2] see the whole FOLLOW STRING of an item.  In
    particular a TEXT character of the extended grammar is any character that is not
    whitespace, not [\ $ % { }] and at which NO specials sequence of the context matches
    what is written from there on ([char_ok]) — so [a-b], [don't], [Hi!] are text under
    the default context; the core grammar's [inert] excludes every character that merely
    starts a specials sequence. *)

(** ** The round trip for the extended grammar *)
Theorem C02_parse_unparse2_partial : forall cx d,
  ok_doc2 cx d = true ->
  parse_top (unparse2 d) false cx (walker_state cx)
  = Ok (ONode (Some (gen_nodelist 0 (fst (tree_of2 cx (walker_state cx) 0 d))))) (length (unparse2 d)).
Proof. exact parse_unparse2. Qed.
Print Assumptions C02_parse_unparse2_partial.

(** the same in BOTH parsing modes (strict and tolerant): the strict parse of a
    document of the grammar raises no error, and then the tolerant parser returns the
    same tree (C06's strict/tolerant agreement) *)
Theorem C02_parse_unparse2_modes_partial : forall cx d tol,
  ok_doc2 cx d = true ->
  parse_top (unparse2 d) tol cx (walker_state cx)
  = Ok (ONode (Some (gen_nodelist 0 (fst (tree_of2 cx (walker_state cx) 0 d))))) (length (unparse2 d)).
Proof. exact parse_unparse2_modes. Qed.
Print Assumptions C02_parse_unparse2_modes_partial.

(** ** The simulation behind it (any [Std] state, any collector with
    [opts_ok], any offset of any input, any follow string).  Fuel: [U] units per
    written character, for ANY [U >= 8] that exceeds the number of argument slots of
    every specification of the context by four (an absent optional argument costs one
    unit and writes no character; [U = 8] when no specification has more than four
    slots); [C02_fuel_unit_ok]: the unit [fuel_unit cx = 8 + max_args cx] of the model's
    own fuel is such a [U], for every context. *)
Theorem C02_items_simulation2_partial : forall s cx U l ps o st pos fol k r,
  8 <= U -> max_args cx + 4 <= U ->
  Std cx ps -> opts_ok ps o -> r <> OutOfFuel ->
  ok_items2 cx ps [] l fol = true ->
  skipn pos s = unparse_items2 l ++ fol ->
  run s false cx k (TCollect ps o (fst (absorb2 cx ps pos st l)) (pos + length (unparse_items2 l))) = r ->
  run s false cx (k + U * length (unparse_items2 l)) (TCollect ps o st pos) = r.
Proof. exact items_sim2_std. Qed.
Print Assumptions C02_items_simulation2_partial.

Theorem C02_fuel_unit_ok : forall cx, 8 <= fuel_unit cx /\ max_args cx + 4 <= fuel_unit cx.
Proof. intros cx. exact (conj (fuel_unit_ge8 cx) (fuel_unit_slots cx)). Qed.
Print Assumptions C02_fuel_unit_ok.

(** ** Whitespace never changes the structure (extended grammar) *)
Corollary C02_whitespace_irrelevant2_partial : forall cx d d',
  ws_variant2 d d' -> ok_doc2 cx d = true -> ok_doc2 cx d' = true ->
  exists n n' p p',
    parse_top (unparse2 d) false cx (walker_state cx) = Ok (ONode (Some n)) p /\
    parse_top (unparse2 d') false cx (walker_state cx) = Ok (ONode (Some n')) p' /\
    structure n = structure n'.
Proof. exact whitespace_irrelevant2. Qed.
Print Assumptions C02_whitespace_irrelevant2_partial.

Theorem C02_tree_whitespace_irrelevant2_partial : forall cx ps pos pos' d d',
  ws_variant2 d d' ->
  structure_items (fst (tree_of2 cx ps pos d)) = structure_items (fst (tree_of2 cx ps pos' d')).
Proof. exact tree_ws_variant2. Qed.
Print Assumptions C02_tree_whitespace_irrelevant2_partial.

(** ** Non-vacuity (extended grammar) *)
Open Scope N_scope.

(** [a \begin{center}\nb \begin {equation}x\alpha\n\end{equation} \end \n{center}\begin{tabular}{c}1$2$\end{tabular}\n\begin{z*}\end{z*} ]
    — an environment without arguments containing a math environment (whitespace
    inside [\begin {…}] / [\end {…}]), an environment with one argument, an unknown
    environment (fallback) with an empty body *)
Definition c02_doc2 : doc2 :=
  {| d_items2 :=
       [Text2 [] [97];
        Env2 [32] [] [99;101;110;116;101;114] []
             [Text2 [10] [98];
              Env2 [32] [32] [101;113;117;97;116;105;111;110] []
                   [Text2 [] [120]; Mac2 [] [97;108;112;104;97] [10] []] [] []] [32] [32;10];
        Env2 [] [] [116;97;98;117;108;97;114] [Grp2 [] [Text2 [] [99]] []]
             [Text2 [] [49]; Math2 [] MDollar [Text2 [] [50]] []] [] [];
        Env2 [10] [] [122;42] [] [] [] []];
     d_trail2 := [32] |}.

Example C02_parse_unparse2_nonvacuous :
  ok_doc2 default_ctx c02_doc2 = true /\
  parse_top (unparse2 c02_doc2) false default_ctx (walker_state default_ctx)
  = Ok (ONode (Some (gen_nodelist 0 (fst (tree_of2 default_ctx (walker_state default_ctx) 0 c02_doc2)))))
       (length (unparse2 c02_doc2)) /\
  length (unparse2 c02_doc2) = 128%nat /\
  length (fst (tree_of2 default_ctx (walker_state default_ctx) 0 c02_doc2)) = 6%nat.
Proof. vm_compute. repeat split. Qed.

(** the side conditions are not vacuous: an environment name the tokenizer does
    not accept ([\begin{a#}]) is a token error *)
Example C02_side_conditions2_needed :
  let bad := {| d_items2 := [Env2 [] [] [97;35] [] [] [] []]; d_trail2 := [] |} in
  ok_doc2 default_ctx bad = false /\
  match parse_top (unparse2 bad) false default_ctx (walker_state default_ctx) with Ok _ _ => false | _ => true end = true.
Proof. vm_compute. repeat split. Qed.

(** a whitespace variant of [c02_doc2] *)
Definition c02_doc2' : doc2 :=
  {| d_items2 :=
       [Text2 [] [97];
        Env2 [10] [32;32] [99;101;110;116;101;114] []
             [Text2 [32] [98];
              Env2 [9] [] [101;113;117;97;116;105;111;110] []
                   [Text2 [] [120]; Mac2 [] [97;108;112;104;97] [32] []] [] [10;10]] [10] [];
        Env2 [] [32] [116;97;98;117;108;97;114] [Grp2 [] [Text2 [] [99]] []]
             [Text2 [] [49]; Math2 [] MDollar [Text2 [] [50]] []] [] [];
        Env2 [32;32] [] [122;42] [] [] [] []];
     d_trail2 := [10] |}.

Example C02_whitespace_irrelevant2_nonvacuous :
  ws_variant2 c02_doc2 c02_doc2' /\ ok_doc2 default_ctx c02_doc2' = true /\
  unparse2 c02_doc2 <> unparse2 c02_doc2' /\
  structure_res (parse_top (unparse2 c02_doc2) false default_ctx (walker_state default_ctx))
  = structure_res (parse_top (unparse2 c02_doc2') false default_ctx (walker_state default_ctx)) /\
  structure_res (parse_top (unparse2 c02_doc2) false default_ctx (walker_state default_ctx)) <> None.
Proof.
  split; [|split; [vm_compute; reflexivity|split; [vm_compute; discriminate|split; [vm_compute; reflexivity|vm_compute; discriminate]]]].
  unfold ws_variant2, wse. cbn. vm_compute. intuition (try discriminate; try reflexivity).
Qed.

(** specials (stage (e3)): [a~b -- c---d&\alpha~$x''$\n--] under the default
    context — [--] before a space, [---], [''] in math mode, [--] at the end of
    input; [----] written as two [--] violates the longest-match side condition
    and really is [---] followed by [-]; and a specials sequence WITH an argument
    (in math mode) under a hand-made context: [a !!{x! }! b] *)
Example C02_specials_nonvacuous :
  let d := {| d_items2 := [Text2 [] [97]; Spc2 [] [126] []; Text2 [] [98]; Spc2 [32] [45;45] []; Text2 [32] [99];
                           Spc2 [] [45;45;45] []; Text2 [] [100]; Spc2 [] [38] []; Mac2 [] [97;108;112;104;97] [] [];
                           Spc2 [] [126] []; Math2 [] MDollar [Text2 [] [120]; Spc2 [] [39;39] []] [];
                           Spc2 [10] [45;45] []];
              d_trail2 := [] |} in
  let bad := {| d_items2 := [Spc2 [] [45;45] []; Spc2 [] [45;45] []]; d_trail2 := [] |} in
  let cx1 := {| cx_macros := []; cx_envs := []; cx_unk_macro := None; cx_unk_env := None;
                cx_specials := [([33;33], {| sp_args := APStd [{| a_spec := [123]; a_kind := AKExpr false;
                                                                  a_delta := ADEnterMath |}];
                                             sp_body_math := false |});
                                ([33], {| sp_args := APStd []; sp_body_math := false |})] |} in
  let d3 := {| d_items2 := [Text2 [] [97]; Spc2 [32] [33;33] [Grp2 [] [Text2 [] [120]; Spc2 [] [33] []] [32]];
                            Spc2 [] [33] []; Text2 [32] [98]];
               d_trail2 := [] |} in
  (ok_doc2 default_ctx d = true /\
   parse_top (unparse2 d) false default_ctx (walker_state default_ctx) = doc_result2 default_ctx d /\
   length (fst (tree_of2 default_ctx (walker_state default_ctx) 0 d)) = 13%nat) /\
  (ok_doc2 default_ctx bad = false /\
   parse_top (unparse2 bad) false default_ctx (walker_state default_ctx) <> doc_result2 default_ctx bad) /\
  (ok_doc2 cx1 d3 = true /\ parse_top (unparse2 d3) false cx1 (walker_state cx1) = doc_result2 cx1 d3).
Proof. vm_compute. repeat split. discriminate. Qed.

(** optional arguments (stage (e4)):
    [\section*[a]{b}\n\section {c}\item[x{]}\alpha ]y \sqrt[3] {\sqrt {}}\\ *[1]\item\n]
    — star and bracket argument written / absent, a closing bracket inside a braced
    child of a bracket argument, a macro call inside a bracket argument, whitespace in
    front of a braced and of a star argument, an absent bracket argument at the end of
    the input *)
Definition c02_doc4 : doc2 :=
  {| d_items2 :=
       [Mac2 [] [115;101;99;116;105;111;110] []
             [Text2 [] [42]; Brk2 [] 91 93 [Text2 [] [97]] []; Grp2 [] [Text2 [] [98]] []];
        Mac2 [10] [115;101;99;116;105;111;110] [32] [Abs2; Abs2; Grp2 [] [Text2 [] [99]] []];
        Mac2 [] [105;116;101;109] []
             [Brk2 [] 91 93 [Text2 [] [120]; Grp2 [] [Text2 [] [93]] []; Mac2 [] [97;108;112;104;97] [32] []] []];
        Text2 [] [121];
        Mac2 [32] [115;113;114;116] []
             [Brk2 [] 91 93 [Text2 [] [51]] [];
              Grp2 [32] [Mac2 [] [115;113;114;116] [32] [Abs2; Grp2 [] [] []]] []];
        Mac2 [] [92] [] [Text2 [32] [42]; Brk2 [] 91 93 [Text2 [] [49]] []];
        Mac2 [] [105;116;101;109] [10] [Abs2]];
     d_trail2 := [] |}.

(** a whitespace variant of it *)
Definition c02_doc4' : doc2 :=
  {| d_items2 :=
       [Mac2 [] [115;101;99;116;105;111;110] []
             [Text2 [] [42]; Brk2 [] 91 93 [Text2 [] [97]] []; Grp2 [] [Text2 [] [98]] []];
        Mac2 [32;32] [115;101;99;116;105;111;110] [10] [Abs2; Abs2; Grp2 [] [Text2 [] [99]] []];
        Mac2 [] [105;116;101;109] []
             [Brk2 [] 91 93 [Text2 [] [120]; Grp2 [] [Text2 [] [93]] []; Mac2 [] [97;108;112;104;97] [10] []] []];
        Text2 [] [121];
        Mac2 [10] [115;113;114;116] []
             [Brk2 [] 91 93 [Text2 [] [51]] [];
              Grp2 [9;9] [Mac2 [] [115;113;114;116] [32;32] [Abs2; Grp2 [] [] []]] []];
        Mac2 [] [92] [] [Text2 [10] [42]; Brk2 [] 91 93 [Text2 [] [49]] []];
        Mac2 [] [105;116;101;109] [32] [Abs2]];
     d_trail2 := [] |}.

Example C02_optional_arguments_nonvacuous :
  (ok_doc2 default_ctx c02_doc4 = true /\
   parse_top (unparse2 c02_doc4) false default_ctx (walker_state default_ctx) = doc_result2 default_ctx c02_doc4 /\
   length (unparse2 c02_doc4) = 80%nat /\
   length (fst (tree_of2 default_ctx (walker_state default_ctx) 0 c02_doc4)) = 8%nat) /\
  (ws_variant2 c02_doc4 c02_doc4' /\ ok_doc2 default_ctx c02_doc4' = true /\
   unparse2 c02_doc4 <> unparse2 c02_doc4' /\
   structure_res (parse_top (unparse2 c02_doc4) false default_ctx (walker_state default_ctx))
   = structure_res (parse_top (unparse2 c02_doc4') false default_ctx (walker_state default_ctx))).
Proof.
  split; [vm_compute; repeat split|].
  split; [|split; [vm_compute; reflexivity|split; [vm_compute; discriminate|vm_compute; reflexivity]]].
  unfold ws_variant2, wse. cbn. vm_compute. intuition (try discriminate; try reflexivity).
Qed.

(** the side conditions on optional arguments are not vacuous: [\item [] with the
    bracket meant as text (an absent optional argument followed by [[]) is a parse
    error; a closing bracket written as text directly inside a bracket argument
    ([\item[a]]]) ends the argument; [\\ [1]] — the bracket argument of [\\] does not
    allow whitespace in front of it — is [\\] without argument followed by text *)
Example C02_optional_arguments_side_conditions_needed :
  let bad1 := {| d_items2 := [Mac2 [] [105;116;101;109] [32] [Abs2]; Text2 [] [91]]; d_trail2 := [] |} in
  let bad2 := {| d_items2 := [Mac2 [] [105;116;101;109] [] [Brk2 [] 91 93 [Text2 [] [97;93]] []]]; d_trail2 := [] |} in
  let bad3 := {| d_items2 := [Mac2 [] [92] [] [Abs2; Brk2 [32] 91 93 [Text2 [] [49]] []]]; d_trail2 := [] |} in
  let differs d := match parse_top (unparse2 d) false default_ctx (walker_state default_ctx) with
                   | Ok (ONode (Some (NList _ _ l))) _ =>
                       negb (Nat.eqb (length l) (length (fst (tree_of2 default_ctx (walker_state default_ctx) 0 d))))
                   | _ => true end in
  (ok_doc2 default_ctx bad1 = false /\ differs bad1 = true) /\
  (ok_doc2 default_ctx bad2 = false /\ differs bad2 = true) /\
  (ok_doc2 default_ctx bad3 = false /\ differs bad3 = true).
Proof. vm_compute. repeat split. Qed.

(** single-token arguments (stage (e5)):
    [\textbf a\frac12 \textbf\alpha b\textbf ~\frac \alpha\beta\sqrt x\frac{1} 2\textbf\frac12$\frac a\n&$]
    — a character, two characters for two slots, a control sequence (with its
    post-space), a specials sequence, an absent bracket argument followed by a character,
    a group then a character with whitespace in front, a control sequence whose own
    arguments are NOT parsed ([\textbf\frac12]: the argument is [\frac] alone), and in
    math mode a specials sequence on the next line *)
Example C02_single_token_arguments_nonvacuous :
  let textbf := [116;101;120;116;98;102] in let frac := [102;114;97;99] in
  let alpha := [97;108;112;104;97] in let sqrt := [115;113;114;116] in
  let d := {| d_items2 :=
       [Mac2 [] textbf [32] [Text2 [] [97]];
        Mac2 [] frac [] [Text2 [] [49]; Text2 [] [50]];
        Mac2 [32] textbf [] [Mac2 [] alpha [32] []];
        Text2 [] [98];
        Mac2 [] textbf [32] [Spc2 [] [126] []];
        Mac2 [] frac [32] [Mac2 [] alpha [] []; Mac2 [] [98;101;116;97] [] []];
        Mac2 [] sqrt [32] [Abs2; Text2 [] [120]];
        Mac2 [] frac [] [Grp2 [] [Text2 [] [49]] []; Text2 [32] [50]];
        Mac2 [] textbf [] [Mac2 [] frac [] []]; Text2 [] [49;50];
        Math2 [] MDollar [Mac2 [] frac [32] [Text2 [] [97]; Spc2 [10] [38] []]] []];
     d_trail2 := [] |} in
  let bad := {| d_items2 := [Mac2 [] textbf [] [Mac2 [] alpha [] []]; Text2 [] [98]]; d_trail2 := [] |} in
  (ok_doc2 default_ctx d = true /\
   parse_top (unparse2 d) false default_ctx (walker_state default_ctx) = doc_result2 default_ctx d /\
   length (unparse2 d) = 100%nat /\
   length (fst (tree_of2 default_ctx (walker_state default_ctx) 0 d)) = 12%nat) /\
  (* [\textbf\alpha] directly followed by the letter [b] is [\textbf\alphab] *)
  (ok_doc2 default_ctx bad = false /\
   parse_top (unparse2 bad) false default_ctx (walker_state default_ctx) <> doc_result2 default_ctx bad).
Proof. vm_compute. repeat split. discriminate. Qed.

(** stage (e6): [a \n\t\n  b{c\n\n }\n\n\n\t%x {] — a paragraph break followed by an indented
    line, one before a closing brace, one followed by an indented comment that ends with
    the input (and contains a brace); a paragraph break whose follower starts on a
    new line is rejected (the real paragraph token is longer); a comment without
    newline inside a group swallows the closing brace *)
Example C02_comment_eof_par_indent_nonvacuous :
  let d := {| d_items2 := [Text2 [] [97]; Par2 [32] [9]; Text2 [32;32] [98];
                           Grp2 [] [Text2 [] [99]; Par2 [] []] [32]; Par2 [] [10]; Cmt2 [9] [120;32;123] []];
              d_trail2 := [] |} in
  let bad1 := {| d_items2 := [Text2 [] [97]; Par2 [32] [9]; Text2 [10] [98]]; d_trail2 := [] |} in
  let bad2 := {| d_items2 := [Grp2 [] [Cmt2 [] [120] []] []]; d_trail2 := [] |} in
  (ok_doc2 default_ctx d = true /\
   parse_top (unparse2 d) false default_ctx (walker_state default_ctx) = doc_result2 default_ctx d /\
   length (unparse2 d) = 22%nat /\
   length (fst (tree_of2 default_ctx (walker_state default_ctx) 0 d)) = 7%nat) /\
  (ok_doc2 default_ctx bad1 = false /\
   parse_top (unparse2 bad1) false default_ctx (walker_state default_ctx) <> doc_result2 default_ctx bad1) /\
  (ok_doc2 default_ctx bad2 = false /\
   parse_top (unparse2 bad2) false default_ctx (walker_state default_ctx) <> doc_result2 default_ctx bad2).
Proof. vm_compute. repeat split; discriminate. Qed.

(** verbatim (stage (e7)):
    [a\verb|x{\%|b \verb +$+\begin{verbatim} \x{ %\end {v}\end{verbatim}\n\begin {lstlisting}[a=b]c\end{lstlisting}\begin{lstlisting} q\end{lstlisting}\begin{lstlisting}q[\end{lstlisting}]
    — [\verb] with two delimiters (active characters inside), a verbatim environment
    whose text contains [\end {v}], [lstlisting] with its optional argument written,
    absent before a blank, absent before a character; [\verb|x||] (the delimiter in the
    text) and [\begin{lstlisting}[q…] (an absent optional argument followed by [[]) are
    rejected and really parse differently *)
Example C02_verbatim_nonvacuous :
  let verb := [118;101;114;98] in let verbatim := [118;101;114;98;97;116;105;109] in
  let lstlisting := [108;115;116;108;105;115;116;105;110;103] in
  let d := {| d_items2 :=
       [Text2 [] [97]; Vrb2 [] verb [] 124 [120;123;92;37]; Text2 [] [98];
        Vrb2 [32] verb [32] 43 [36];
        VEnv2 [] [] verbatim [] [32;92;120;123;32;37;92;101;110;100;32;123;118;125];
        VEnv2 [10] [32] lstlisting [Brk2 [] 91 93 [Text2 [] [97;61;98]] []] [99];
        VEnv2 [] [] lstlisting [Abs2] [32;113];
        VEnv2 [] [] lstlisting [Abs2] [113;91]];
     d_trail2 := [] |} in
  let bad1 := {| d_items2 := [Vrb2 [] verb [] 124 [120;124]]; d_trail2 := [] |} in
  let bad2 := {| d_items2 := [VEnv2 [] [] lstlisting [Abs2] [91;113]]; d_trail2 := [] |} in
  (ok_doc2 default_ctx d = true /\
   parse_top (unparse2 d) false default_ctx (walker_state default_ctx) = doc_result2 default_ctx d /\
   length (unparse2 d) = 181%nat /\
   length (fst (tree_of2 default_ctx (walker_state default_ctx) 0 d)) = 9%nat) /\
  (ok_doc2 default_ctx bad1 = false /\
   parse_top (unparse2 bad1) false default_ctx (walker_state default_ctx) <> doc_result2 default_ctx bad1) /\
  (ok_doc2 default_ctx bad2 = false /\
   parse_top (unparse2 bad2) false default_ctx (walker_state default_ctx) <> doc_result2 default_ctx bad2).
Proof. vm_compute. repeat split; discriminate. Qed.

(** the verbatim ARGUMENT kind (custom signatures): under a context whose macro [\v]
    takes a verbatim argument with automatic delimiters and one delimited by [< >]:
    [\v {a{\}b}<x<%>>y  \v|$|\n <>] — nested braces are counted, active characters are
    text, whitespace in front of the argument is skipped *)
Example C02_verbatim_argument_nonvacuous :
  let cxv := {| cx_macros := [([118], {| sp_args := APStd [{| a_spec := [118]; a_kind := AKVerb None; a_delta := ADNone |};
                                                         {| a_spec := [118]; a_kind := AKVerb (Some ([60],[62])); a_delta := ADNone |}];
                                        sp_body_math := false |})];
                cx_envs := []; cx_specials := []; cx_unk_macro := None; cx_unk_env := None |} in
  let d := {| d_items2 := [Mac2 [] [118] [32] [Vba2 [] 123 125 [97;123;92;125;98]; Vba2 [] 60 62 [120;60;37;62]];
                           Text2 [] [121];
                           Mac2 [32;32] [118] [] [Vba2 [] 124 124 [36]; Vba2 [10;32] 60 62 []]];
              d_trail2 := [] |} in
  let bad := {| d_items2 := [Mac2 [] [118] [] [Vba2 [] 123 125 [123]; Vba2 [] 60 62 []]]; d_trail2 := [] |} in
  (ok_doc2 cxv d = true /\ parse_top (unparse2 d) false cxv (walker_state cxv) = doc_result2 cxv d /\
   length (unparse2 d) = 28%nat) /\
  (* an unbalanced opening delimiter in the text: the parser's scan ends later *)
  (ok_doc2 cxv bad = false /\ parse_top (unparse2 bad) false cxv (walker_state cxv) <> doc_result2 cxv bad).
Proof. vm_compute. repeat split. discriminate. Qed.

(** a paragraph break directly after a control word / a comment:
    [\alpha \n\n x\item\n \n%c\n\n\textbf\alpha\n\n\n] — the post-space of the control word
    (of the comment) stops before the first newline of the paragraph break, also when
    the control word has an absent optional argument or is itself an argument *)
Example C02_par_after_control_word_nonvacuous :
  let alpha := [97;108;112;104;97] in
  let d := {| d_items2 := [Mac2 [] alpha [32] []; Par2 [] []; Text2 [32] [120];
                           Mac2 [] [105;116;101;109] [] [Abs2]; Par2 [] [32];
                           Cmt2 [] [99] []; Par2 [] [];
                           Mac2 [] [116;101;120;116;98;102] [] [Mac2 [] alpha [] []]; Par2 [] [10]];
              d_trail2 := [] |} in
  ok_doc2 default_ctx d = true /\
  parse_top (unparse2 d) false default_ctx (walker_state default_ctx) = doc_result2 default_ctx d /\
  length (unparse2 d) = 39%nat /\
  length (fst (tree_of2 default_ctx (walker_state default_ctx) 0 d)) = 9%nat.
Proof. vm_compute. repeat split. Qed.

(** comments in front of a mandatory argument (where the slot allows whitespace):
    [\section%c\n{a}\frac{1} %x\n %y\n 2\frac%\n\alpha%z\n~] — the star and bracket
    arguments of [\section] are absent (the next token is a comment), two comments before a
    one-character argument, an empty comment before a control-sequence argument *)
Example C02_comment_before_argument_nonvacuous :
  let d := {| d_items2 :=
       [Mac2 [] [115;101;99;116;105;111;110] [] [Abs2; Abs2; Pre2 [] [99] [10] (Grp2 [] [Text2 [] [97]] [])];
        Mac2 [] [102;114;97;99] [] [Grp2 [] [Text2 [] [49]] [];
                                    Pre2 [32] [120] [10;32] (Pre2 [] [121] [10;32] (Text2 [] [50]))];
        Mac2 [] [102;114;97;99] [] [Pre2 [] [] [10] (Mac2 [] [97;108;112;104;97] [] []);
                                    Pre2 [] [122] [10] (Spc2 [] [126] [])]];
     d_trail2 := [] |} in
  ok_doc2 default_ctx d = true /\
  parse_top (unparse2 d) false default_ctx (walker_state default_ctx) = doc_result2 default_ctx d /\
  length (unparse2 d) = 49%nat /\
  length (fst (tree_of2 default_ctx (walker_state default_ctx) 0 d)) = 3%nat.
Proof. vm_compute. repeat split. Qed.

Close Scope N_scope.

(** ** The core grammar is a sub-grammar of the extended one: [up_doc] keeps the
    side conditions, the written form and the meaning — so
    [C02_parse_unparse_partial] is an instance of [C02_parse_unparse2_partial]
    ([Proofs/RoundTrip2Embed.v: parse_unparse_from_extended]). *)
Theorem C02_core_grammar_embeds : forall cx d,
  ok_doc cx d = true ->
  ok_doc2 cx (up_doc d) = true /\ unparse2 (up_doc d) = unparse d /\
  tree_of2 cx (walker_state cx) 0 (up_doc d) = tree_of cx (walker_state cx) 0 d.
Proof. exact core_embeds. Qed.
Print Assumptions C02_core_grammar_embeds.

Open Scope N_scope.
(** text characters that only START a specials sequence are text:
    [don't a-b! ok?--x- $a-b$ \textbf-] — apostrophe, hyphen, [!], [?] in text (the default
    context has the specials [''], [--], [---], [!`], [?`]), next to a real [--]; [a--b]
    written as ONE text run (or as the runs [a-] and [-b]) is rejected and really parses
    differently *)
Example C02_text_characters_nonvacuous :
  let d := {| d_items2 := [Text2 [] [100;111;110;39;116]; Text2 [32] [97;45;98;33]; Text2 [32] [111;107;63];
                           Spc2 [] [45;45] []; Text2 [] [120;45];
                           Math2 [32] MDollar [Text2 [] [97;45;98]] [];
                           Mac2 [32] [116;101;120;116;98;102] [] [Text2 [] [45]]];
              d_trail2 := [] |} in
  let bad1 := {| d_items2 := [Text2 [] [97;45;45;98]]; d_trail2 := [] |} in
  let bad2 := {| d_items2 := [Text2 [] [97;45]; Text2 [] [45;98]]; d_trail2 := [] |} in
  (ok_doc2 default_ctx d = true /\
   parse_top (unparse2 d) false default_ctx (walker_state default_ctx) = doc_result2 default_ctx d /\
   length (unparse2 d) = 33%nat) /\
  (ok_doc2 default_ctx bad1 = false /\
   parse_top (unparse2 bad1) false default_ctx (walker_state default_ctx) <> doc_result2 default_ctx bad1) /\
  (ok_doc2 default_ctx bad2 = false /\
   parse_top (unparse2 bad2) false default_ctx (walker_state default_ctx) <> doc_result2 default_ctx bad2).
Proof. vm_compute. repeat split; discriminate. Qed.

Close Scope N_scope.

(** * The third grammar of [Doc/DocGrammar3.v]

      item3 ::= (the constructors of the extended grammar, with the same side conditions and meaning)
              | WPar3 ws mid               ws newline mid newline   (context WITHOUT the paragraph specials)
              | PArg3 ws mid               the same as the single-token argument of a mandatory slot
              | BGrp3 ws oc cc body tr     ws oc body tr cc   (only directly in the body of a delimited argument
                                           [oc … cc]; body = a list of BText ws cs | BCmt ws text post | BGrp ws body tr) *)

(** ** The round trip for the third grammar *)
Theorem C02_parse_unparse3_partial : forall cx d,
  ok_doc3 cx d = true ->
  parse_top (unparse3 d) false cx (walker_state cx)
  = Ok (ONode (Some (gen_nodelist 0 (fst (tree_of3 cx (walker_state cx) 0 d))))) (length (unparse3 d)).
Proof. exact parse_unparse3. Qed.
Print Assumptions C02_parse_unparse3_partial.

(** in BOTH parsing modes *)
Theorem C02_parse_unparse3_modes_partial : forall cx d tol,
  ok_doc3 cx d = true ->
  parse_top (unparse3 d) tol cx (walker_state cx)
  = Ok (ONode (Some (gen_nodelist 0 (fst (tree_of3 cx (walker_state cx) 0 d))))) (length (unparse3 d)).
Proof. exact parse_unparse3_modes. Qed.
Print Assumptions C02_parse_unparse3_modes_partial.

(** ** The simulation behind it (same shape and fuel accounting as [C02_items_simulation2_partial]) *)
Theorem C02_items_simulation3_partial : forall s cx U l ps o st pos fol k r,
  8 <= U -> max_args cx + 4 <= U ->
  Std cx ps -> opts_ok ps o -> r <> OutOfFuel ->
  ok_items3 cx ps [] l fol = true ->
  skipn pos s = unparse_items3 l ++ fol ->
  run s false cx k (TCollect ps o (fst (absorb3 cx ps pos st l)) (pos + length (unparse_items3 l))) = r ->
  run s false cx (k + U * length (unparse_items3 l)) (TCollect ps o st pos) = r.
Proof. exact items_sim3_std. Qed.
Print Assumptions C02_items_simulation3_partial.

(** ** The extended grammar is a sub-grammar of the third one: [up2_doc] keeps the side
    conditions (the two predicates are EQUAL on embedded documents), the written form and
    the meaning (in every state, at every offset) — so [C02_parse_unparse2_partial] is an
    instance of [C02_parse_unparse3_partial] ([Proofs/RoundTrip3Embed.v:
    parse_unparse2_from_third]), and with [C02_core_grammar_embeds] so is
    [C02_parse_unparse_partial]. *)
Theorem C02_extended_grammar_embeds : forall cx d,
  ok_doc3 cx (up2_doc d) = ok_doc2 cx d /\ unparse3 (up2_doc d) = unparse2 d /\
  (forall ps pos, tree_of3 cx ps pos (up2_doc d) = tree_of2 cx ps pos d).
Proof. exact grammar2_embeds. Qed.
Print Assumptions C02_extended_grammar_embeds.

(** ** Non-vacuity (third grammar) *)
Open Scope N_scope.

(** a context WITHOUT the paragraph specials: the macro [\m] with one mandatory argument
    (whitespace allowed in front of it), [\n] with two, the second of which does not allow
    whitespace in front of it, the specials [~] *)
Definition c02_bare_ctx : context :=
  {| cx_macros := [([109], {| sp_args := APStd [{| a_spec := [123]; a_kind := AKExpr true; a_delta := ADNone |}];
                            sp_body_math := false |});
                   ([110], {| sp_args := APStd [{| a_spec := [123]; a_kind := AKExpr true; a_delta := ADNone |};
                                                {| a_spec := [123]; a_kind := AKExpr false; a_delta := ADNone |}];
                            sp_body_math := false |})];
     cx_envs := []; cx_specials := [([126], {| sp_args := APStd []; sp_body_math := false |})];
     cx_unk_macro := None; cx_unk_env := None |}.

(** (b) [a \n \n  b{c\n\n}$x\n\n$\m{y}\n\n\n%z] under that context — whitespace runs with two or
    more newlines between text (followed by indentation), before a closing brace, in math
    mode, after a call, before a comment: ONE characters node [a \n \n  b], … ; the same
    document is rejected under the default context (which has the paragraph specials)
    and really parses differently there *)
Example C02_newlines_without_paragraph_specials_nonvacuous :
  let d := {| d_items3 := [Text3 [] [97]; WPar3 [32] [32]; Text3 [32;32] [98];
                           Grp3 [] [Text3 [] [99]; WPar3 [] []] [];
                           Math3 [] MDollar [Text3 [] [120]; WPar3 [] []] [];
                           Mac3 [] [109] [] [Grp3 [] [Text3 [] [121]] []]; WPar3 [] [10]; Cmt3 [] [122] []];
              d_trail3 := [] |} in
  let bad := {| d_items3 := [Text3 [] [97]; WPar3 [] []; Text3 [] [98]]; d_trail3 := [] |} in
  (ok_doc3 c02_bare_ctx d = true /\
   parse_top (unparse3 d) false c02_bare_ctx (walker_state c02_bare_ctx) = doc_result3 c02_bare_ctx d /\
   length (unparse3 d) = 28%nat /\
   length (fst (tree_of3 c02_bare_ctx (walker_state c02_bare_ctx) 0 d)) = 6%nat) /\
  (ok_doc3 default_ctx bad = false /\
   parse_top (unparse3 bad) false default_ctx (walker_state default_ctx) <> doc_result3 default_ctx bad).
Proof. vm_compute. repeat split. discriminate. Qed.

(** (c) [\textbf\n\nx\frac{1} \n\n x\textbf \n \ny] under the default context — a paragraph
    break as the only argument directly after the control word, as the second argument
    with whitespace in front of it, after the post-space of the control word: the argument
    is the specials node [\n\n] without arguments; and [\m\n\nx\m \n \ny] under the context
    without paragraph specials: the argument is the characters node [\n\n] / [\n \n];
    [\n{} \n\n] (the second slot of [\n] does not allow whitespace in front of a character
    token) is rejected and really is a parse error *)
Example C02_paragraph_break_argument_nonvacuous :
  let textbf := [116;101;120;116;98;102] in
  let d := {| d_items3 := [Mac3 [] textbf [] [PArg3 [] []]; Text3 [] [120];
                           Mac3 [] [102;114;97;99] [] [Grp3 [] [Text3 [] [49]] []; PArg3 [32] []]; Text3 [32] [120];
                           Mac3 [] textbf [32] [PArg3 [] [32]]; Text3 [] [121]];
              d_trail3 := [] |} in
  let d' := {| d_items3 := [Mac3 [] [109] [] [PArg3 [] []]; Text3 [] [120];
                            Mac3 [] [109] [32] [PArg3 [] [32]]; Text3 [] [121]];
               d_trail3 := [] |} in
  let bad := {| d_items3 := [Mac3 [] [110] [] [Grp3 [] [] []; PArg3 [32] []]]; d_trail3 := [] |} in
  let good := {| d_items3 := [Mac3 [] [110] [] [Grp3 [] [] []; PArg3 [] []]]; d_trail3 := [] |} in
  (ok_doc3 default_ctx d = true /\
   parse_top (unparse3 d) false default_ctx (walker_state default_ctx) = doc_result3 default_ctx d /\
   length (unparse3 d) = 35%nat /\
   length (fst (tree_of3 default_ctx (walker_state default_ctx) 0 d)) = 6%nat) /\
  (ok_doc3 c02_bare_ctx d' = true /\
   parse_top (unparse3 d') false c02_bare_ctx (walker_state c02_bare_ctx) = doc_result3 c02_bare_ctx d') /\
  (ok_doc3 c02_bare_ctx bad = false /\
   match parse_top (unparse3 bad) false c02_bare_ctx (walker_state c02_bare_ctx) with Ok _ _ => false | _ => true end = true) /\
  (ok_doc3 c02_bare_ctx good = true /\
   parse_top (unparse3 good) false c02_bare_ctx (walker_state c02_bare_ctx) = doc_result3 c02_bare_ctx good).
Proof. vm_compute. repeat split. Qed.

(** (a') [\item[see [1, [2]] %x]\n ok]\sqrt[a[b]]{k}] under the default context — groups written
    directly in the body of a bracket argument, nested, next to a comment that contains a
    closing bracket; the same group written at top level, and one whose text contains the
    closing delimiter, are rejected and really parse differently *)
Example C02_groups_in_delimited_argument_nonvacuous :
  let item := [105;116;101;109] in
  let d := {| d_items3 := [Mac3 [] item []
                             [Brk3 [] 91 93 [Text3 [] [115;101;101];
                                             BGrp3 [32] 91 93 [BText [] [49;44]; BGrp [32] [BText [] [50]] []] [];
                                             Cmt3 [32] [120;93] [10;32]; Text3 [] [111;107]] []];
                           Mac3 [] [115;113;114;116] []
                             [Brk3 [] 91 93 [Text3 [] [97]; BGrp3 [] 91 93 [BText [] [98]] []] [];
                              Grp3 [] [Text3 [] [107]] []]];
              d_trail3 := [] |} in
  let bad1 := {| d_items3 := [Text3 [] [97]; BGrp3 [] 91 93 [BText [] [98]] []]; d_trail3 := [] |} in
  let bad2 := {| d_items3 := [Mac3 [] item [] [Brk3 [] 91 93 [BGrp3 [] 91 93 [BText [] [98;93]] []] []]]; d_trail3 := [] |} in
  (ok_doc3 default_ctx d = true /\
   parse_top (unparse3 d) false default_ctx (walker_state default_ctx) = doc_result3 default_ctx d /\
   length (unparse3 d) = 41%nat) /\
  (ok_doc3 default_ctx bad1 = false /\
   parse_top (unparse3 bad1) false default_ctx (walker_state default_ctx) <> doc_result3 default_ctx bad1) /\
  (ok_doc3 default_ctx bad2 = false /\
   parse_top (unparse3 bad2) false default_ctx (walker_state default_ctx) <> doc_result3 default_ctx bad2).
Proof. vm_compute. repeat split; discriminate. Qed.

(** the embedding is not vacuous: the embedded [c02_doc4] (optional arguments) satisfies the
    side conditions of the third grammar and means the same tree *)
Example C02_extended_grammar_embeds_nonvacuous :
  ok_doc3 default_ctx (up2_doc c02_doc4) = true /\
  parse_top (unparse3 (up2_doc c02_doc4)) false default_ctx (walker_state default_ctx) = doc_result2 default_ctx c02_doc4.
Proof. vm_compute. repeat split. Qed.

Close Scope N_scope.
