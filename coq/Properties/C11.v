(** C11 — the tokenizer is lossless, always advances, and peeking has no
    effect.  Statements only; proofs in [Proofs/TokProofs.v]. *)
From Coq Require Import NArith List Bool Arith.
From PLV Require Import Base.PyStr Tok.PState Tok.Tokenizer Proofs.TokProofs Proofs.PStateProofs.
Import ListNotations.

(** For EVERY parsing state whose math delimiters are non-empty ([ps_wf], the
    assumption the source states), with or without a context database, strict
    or tolerant reader, and EVERY string: reading all tokens reproduces the
    input — leading whitespace + source slice of each token, in order, plus the
    trailing whitespace reported at end of stream — and takes at most
    [len s] reads. *)
Theorem C11_lossless_and_count : forall ps s tol ts fin, ps_wf ps = true ->
  read_all ps s tol = inl (Some (ts, fin)) ->
  concat (map (fun t => tpre t ++ slice s (tpos t) (tend t)) ts) ++ fin = s /\
  length ts <= length s.
Proof. exact read_all_lossless. Qed.

(** [len s + 1] reads always suffice (the fuel of [read_all] never runs out). *)
Theorem C11_terminates : forall ps s tol, ps_wf ps = true -> read_all ps s tol <> inl None.
Proof. exact read_all_terminates. Qed.

(** Every successful read moves the position strictly forward, to the end of
    the token, which starts (after its leading whitespace) where the reader
    stood and lies inside the input. *)
Theorem C11_progress : forall ps r t r', ps_wf ps = true -> r_pos r <= length (r_s r) ->
  next_token ps r = (TokOk t, r') ->
  r_pos r < r_pos r' /\ r_pos r' = tend t /\ tend t <= length (r_s r) /\
  tpos t = r_pos r + length (tpre t) /\ tpre t = slice (r_s r) (r_pos r) (tpos t) /\
  tpos t < tend t.
Proof.
  intros ps r t r' WF H N.
  destruct (next_token_progress ps r t r' WF H N) as (P1 & _ & _ & _ & P5 & (A & B & C & D)).
  repeat split; assumption.
Qed.

(** Peeking never moves the reader (strict or tolerant, token, error or end of
    stream) and returns the token a read would return. *)
Theorem C11_peek_pure : forall ps r, snd (peek_token ps r) = r.
Proof. exact peek_pure. Qed.
Theorem C11_peek_is_next : forall ps r t r',
  next_token ps r = (TokOk t, r') -> peek_token ps r = (TokOk t, r).
Proof. exact peek_is_next. Qed.

(** Going back to a token and reading again gives the same token and the same
    position. *)
Theorem C11_rewind : forall ps r t r', ps_wf ps = true -> r_pos r <= length (r_s r) ->
  next_token ps r = (TokOk t, r') ->
  move_to_token r' t = r /\ next_token ps (move_to_token r' t) = (TokOk t, r').
Proof. exact next_token_rewind. Qed.

(** In tolerant mode tokenizing never fails: a token list and final space for
    every string. *)
Theorem C11_tolerant_total : forall ps s, ps_wf ps = true ->
  exists ts fin, read_all ps s true = inl (Some (ts, fin)).
Proof. exact read_all_tolerant_total. Qed.

(** [ps_wf] holds for every state built from fields with non-empty math
    delimiters — in particular for every state derived by [sub_context] (C17:
    a derived state is the fresh state of its own fields). *)
Theorem C11_wf_states : forall f, fields_wf f = true -> ps_wf (fresh f) = true.
Proof. exact fields_wf_ps_wf. Qed.
Theorem C11_wf_derived : forall f0 chain,
  let d := fold_left sub_context chain (fresh f0) in
  fields_wf (ps_f d) = true -> ps_wf d = true.
Proof.
  intros f0 chain d H. unfold d. rewrite derived_is_fresh. apply fields_wf_ps_wf. exact H.
Qed.

(** Non-vacuity: the default state is well formed and a string with every
    token kind reads back losslessly (strict), and the trailing-escape input
    that used to loop (F1) now terminates in tolerant mode. *)
Example C11_nonvacuous :
  ps_wf (fresh default_fields) = true /\
  (let s := [32;92;97;32;123;37;99;10;36;125;92;98;101;103;105;110;123;101;125]%N in
   match read_all (fresh default_fields) s false with
   | inl (Some (ts, fin)) => length ts = 6
   | _ => False end) /\
  (match read_all (fresh default_fields) [97;92]%N true with
   | inl (Some (ts, fin)) => length ts = 2
   | _ => False end).
Proof. vm_compute. repeat split. Qed.

Print Assumptions C11_lossless_and_count.
Print Assumptions C11_terminates.
Print Assumptions C11_progress.
Print Assumptions C11_peek_pure.
Print Assumptions C11_peek_is_next.
Print Assumptions C11_rewind.
Print Assumptions C11_tolerant_total.
Print Assumptions C11_wf_states.
Print Assumptions C11_wf_derived.
