(** C03 — latex2text renders the core sublanguage by its documented rules,
    compositionally: theorems about the latex2text MODEL ([L2T/L2T.v:
    node_text], validated against the real [LatexNodes2Text] on every check) on
    TREES.  (That the parser produces these trees for the documents of the core
    grammar is the parser builders' obligation; [C03_doc_end_to_end] shows the
    two halves composed on one document.)

    Statements only ([exact] of lemmas of [Proofs/Render*.v]) followed by
    [Print Assumptions].

    The specification is [L2T/Render.v]: [core] (the constructs), [render] (the
    documented rules, 45 lines), [abstract src lt n = Some k] ("under the text
    database [lt], the node [n] is the core construct [k]": a chars / comment /
    braced-group node; a macro with a transparent text spec — [t_repl = RNone]
    or [''], [t_discard = false] — and exactly one braced argument; a macro
    without argument nodes whose text spec is a replacement string without [%]
    (or no replacement, or no spec at all: the empty string); specials with a
    non-empty replacement string without [%], or absent from the table — the
    paragraph break; a math node; an environment without text spec or with a
    transparent one, or whose replacement is a template [pre%spost] — center;
    [\item] without its optional argument: a bare macro standing for
    ["\n  * "]), [abstract_items] for node lists.

    Accent macros with one argument ([KAccent]) are core as well; the accent goes
    over the argument's CONTENTS: the braces of a braced argument are argument
    delimiters and are never kept, whatever [keep_braced_groups] says
    ([C03_rules], [C03_accent_over_kept_group]; pylatexenc accented the kept
    braces too: defect repaired by [fixes/C03-accent-kept-group.diff]).

    Not covered by these theorems (%-templates over macro arguments, the
    optional argument of [\item]): [\frac], [\sqrt], [\item[..]] — they are
    covered by the correspondence and by the Python renderer only. *)
From Coq Require Import NArith ZArith List Bool Arith.
From PLV Require Import Base.PyStr Tok.Tokenizer Parse.Nodes Parse.Parser Parse.ParseWire.
From PLV Require Import L2T.L2T L2T.L2TWire L2T.Render.
From PLV Require Import Doc.DocGrammar.
From PLV Require Import Proofs.RenderModel Proofs.RenderProofs Proofs.RenderCompose Proofs.RenderDefaults.
From PLV Require Import Proofs.ComposeRender Proofs.ComposeRenderSpace.
Import ListNotations.

(** * The implementation model equals the specification on every core tree

    for every source string, every pair of databases, EVERY option set (all
    [strict_latex_spaces] policies including custom dictionaries, 4 math modes,
    [keep_braced_groups] with any minimum length, [keep_comments]), every
    incoming document state; the state is returned unchanged. *)
Theorem C03_tree_level :
  forall (src : str) (lt : l2tctx) (cx : context) (o : opts) (items : list (option node)) (ks : list core),
  abstract_items src lt items = Some ks ->
  forall (sl : sls) (st : dstate) (p e : option nat),
  node_text src lt cx o sl st (NList p e items) = (render (nfc_accent lt) o sl ks, st).
Proof. exact tree_level. Qed.

(** one node *)
Theorem C03_node_level :
  forall (src : str) (lt : l2tctx) (cx : context) (o : opts) (n : node) (k : core),
  abstract src lt n = Some k ->
  forall (sl : sls) (st : dstate), node_text src lt cx o sl st n = (render1 (nfc_accent lt) o sl k, st).
Proof. exact abstract_sound. Qed.

(** [nodelist_to_text] of a parser result *)
Theorem C03_l2t_nodes :
  forall src lt cx o items ks p e, abstract_items src lt items = Some ks ->
  l2t_nodes src lt cx o (Some (NList p e items)) = (render (nfc_accent lt) o (o_sls o) ks, d0).
Proof. exact l2t_nodes_core. Qed.

(** the same in terms of the canonical embedding [embed] of core items into
    nodes; [cores_ok] = the hypotheses on the databases, item by item
    ([Render.core_ok]) *)
Theorem C03_tree_level_embed :
  forall src lt cx fmt_name env_name wrap_name acc_name sym_name spc_chars verb_pos o sl st p e items,
  cores_ok src lt fmt_name env_name wrap_name acc_name sym_name spc_chars verb_pos items ->
  node_text src lt cx o sl st (NList p e (embed_items fmt_name env_name wrap_name acc_name sym_name spc_chars verb_pos items))
  = (render (nfc_accent lt) o sl items, st).
Proof. exact tree_level_embed. Qed.

Theorem C03_abstract_embed :
  forall src lt fmt_name env_name wrap_name acc_name sym_name spc_chars verb_pos k,
  core_ok src lt fmt_name env_name wrap_name acc_name sym_name spc_chars verb_pos k ->
  abstract src lt (embed fmt_name env_name wrap_name acc_name sym_name spc_chars verb_pos k) = Some k.
Proof. exact abstract_embed. Qed.

(** the documented rules, one by one, as equations of the specification *)
Theorem C03_rules : forall (acc : N -> N -> str) (o : opts) (sl : sls),
  (forall c, is_blank c = false -> render1 acc o sl (KText c) = c)
  /\ (forall c, is_blank c = true -> render1 acc o sl (KText c) = if s_blc sl then c else [])
  /\ (forall c p, o_keep_comments o = false -> render1 acc o sl (KComment c p) = if s_ac sl then [] else p)
  /\ (forall b, o_kbg o = false -> render1 acc o sl (KGroup b) = render acc o sl b)
  /\ (forall b, render1 acc o sl (KTransparent b) = render acc o sl b)
  /\ (forall b, render1 acc o sl (KEnvBody b) = render acc o sl b)
  /\ (forall pre post b, render1 acc o sl (KEnvWrap pre post b) = pre ++ render acc o sl b ++ post)
  /\ (forall r p, render1 acc o sl (KSymbol r p) = r) /\ (forall r, render1 acc o sl (KSpecials r) = r)
  (* accents: every character of the stripped text of the argument's contents gets the combining mark: a braced
     argument contributes the rendering of its BODY (its braces are argument delimiters: never kept, whatever
     keep_braced_groups says), any other argument (a single token) its own rendering *)
  /\ (forall comb b, render1 acc o sl (KAccent comb (KGroup b))
                     = flat_map (fun ch => acc ch comb) (py_strip (render acc o sl b)))
  /\ (forall comb k, (forall b, k <> KGroup b) ->
                     render1 acc o sl (KAccent comb k)
                     = flat_map (fun ch => acc ch comb) (py_strip (render1 acc o sl k)))
  /\ (forall dl dr v b, o_math o = MMText ->
        render1 acc o sl (KMath false dl dr v b) = py_strip (render acc o (push_eq sl) b)
        /\ render1 acc o sl (KMath true dl dr v b) = indent_block (py_strip (render acc o (push_eq sl) b)))
  /\ (forall r p c k, render acc o sl [KSymbol r p; KText c]
                      = r ++ (if s_bmc sl then [] else p) ++ render1 acc o sl (KText c)
                      /\ (is_text k = false -> render acc o sl [KSymbol r p; k] = r ++ render1 acc o sl k)).
Proof. exact render_rules. Qed.

(** * Compositionality

    The ONLY interaction between neighbouring items is the junction: the
    post-space of a bare symbol macro at the end of [a], emitted when [b] starts
    with text and the policy is not strict between-macro-and-chars. *)
Theorem C03_compositional : forall (acc : N -> N -> str) (o : opts) (sl : sls) (a b : list core),
  render acc o sl (a ++ b) = render acc o sl a ++ junction sl a b ++ render acc o sl b
  /\ (junction sl a b = [] <->
      s_bmc sl = true \/ ends_with_spaced_symbol a = false \/ starts_with_text b = false).
Proof. intros acc o sl a b. split; [exact (render_app acc o sl a b) | apply (junction_nil_iff acc)]. Qed.

(** hence plain concatenation exactly under that side condition *)
Theorem C03_compositional_free : forall (acc : N -> N -> str) o sl a b,
  s_bmc sl = true \/ ends_with_spaced_symbol a = false \/ starts_with_text b = false ->
  render acc o sl (a ++ b) = render acc o sl a ++ render acc o sl b.
Proof. exact render_app_free. Qed.
Theorem C03_compositional_exact : forall (acc : N -> N -> str) o sl a b,
  s_bmc sl = false -> ends_with_spaced_symbol a = true -> starts_with_text b = true ->
  render acc o sl (a ++ b) <> render acc o sl a ++ render acc o sl b.
Proof. exact render_app_not_free. Qed.

(** two blocks joined by a paragraph break: NO side condition *)
Theorem C03_compositional_par : forall (acc : N -> N -> str) o sl a b,
  render acc o sl (a ++ [KPar] ++ b) = render acc o sl a ++ [10; 10]%N ++ render acc o sl b.
Proof. exact compositional_par. Qed.

(** two blocks, the first ending with the text [t], the second starting with
    the text [u], joined by the characters [ws] (spaces, a newline): in the tree
    [t ++ ws ++ u] is ONE character node.  [text_kept sl t]: [t] is not
    whitespace-only, or the policy is strict between-latex-constructs. *)
Theorem C03_compositional_space : forall (acc : N -> N -> str) o sl a0 t ws u b0,
  text_kept sl t -> text_kept sl u ->
  render acc o sl (a0 ++ [KText (t ++ ws ++ u)] ++ b0)
  = render acc o sl (a0 ++ [KText t]) ++ ws ++ render acc o sl (KText u :: b0).
Proof. exact compositional_space. Qed.

(** paragraph break with whitespace around it: the whitespace [pre] in front of
    the first newline belongs to the text before, [tail] after the last newline
    to the text after *)
Theorem C03_compositional_par_text : forall (acc : N -> N -> str) o sl a0 t pre tail u b0,
  text_kept sl t -> text_kept sl u ->
  render acc o sl ((a0 ++ [KText (t ++ pre)]) ++ [KPar] ++ (KText (tail ++ u) :: b0))
  = render acc o sl (a0 ++ [KText t]) ++ pre ++ [10; 10]%N ++ tail ++ render acc o sl (KText u :: b0).
Proof. exact compositional_par_text. Qed.

(** ... and therefore for the implementation model: the text of the joined tree
    is the join of the texts of the two trees ([text_of sl l] = the text
    [node_text] gives for the node list [l]) *)
Theorem C03_model_compositional_par :
  forall src lt cx o sl st p e na nb a b par,
  abstract_items src lt na = Some a -> abstract_items src lt nb = Some b -> abstract src lt par = Some KPar ->
  node_text src lt cx o sl st (NList p e (na ++ [Some par] ++ nb))
  = (text_of src lt cx o sl na ++ [10; 10]%N ++ text_of src lt cx o sl nb, st).
Proof. exact model_compositional_par. Qed.

Theorem C03_model_compositional_space :
  forall src lt cx o sl st p e na0 nb0 a0 b0 t ws u p1 e1 m1 p2 e2 m2 p3 e3 m3,
  abstract_items src lt na0 = Some a0 -> abstract_items src lt nb0 = Some b0 ->
  text_kept sl t -> text_kept sl u ->
  node_text src lt cx o sl st (NList p e (na0 ++ [Some (NChars p1 e1 m1 (t ++ ws ++ u))] ++ nb0))
  = (text_of src lt cx o sl (na0 ++ [Some (NChars p2 e2 m2 t)]) ++ ws
     ++ text_of src lt cx o sl (Some (NChars p3 e3 m3 u) :: nb0), st).
Proof. exact model_compositional_space. Qed.

(** * The default databases (regenerated from /repo on every check)

    Every macro / specials / environment name the document generator of
    [harness/props/c03.py] uses is core: FMT = textbf emph textit text textrm
    textsc mathrm are transparent and take one braced argument; SYM = alpha
    beta Gamma infty times ldots S ae LaTeX zzunknown cdot to phi ell epsilon
    are bare symbol macros; SPC = ~ -- --- `` '' & are replaced specials; ENV = itemize
    enumerate zzunknownenv render their body; the paragraph break is not in the
    text table; ACC = the accent macros ' ` dieresis ^ ~ c v hat bar vec dot tilde
    are accent formatters with one braced argument; center wraps its body in newlines; [\item] is the item
    formatter and its only argument is the optional [\[..\]]. *)
Theorem C03_default_tables_core :
  forallb (fun nm => transparent_macro lt0 nm && one_braced_arg nm) FMT = true
  /\ forallb (fun nm => is_some (symbol_repl lt0 nm) && no_args nm) SYM = true
  /\ forallb (fun ch => is_some (specials_repl lt0 ch) && is_some (get_specials_spec cx0 ch)) SPC = true
  /\ forallb (transparent_env lt0) ENV = true
  /\ assoc (lt_specials lt0) [10; 10]%N = None /\ is_some (get_specials_spec cx0 [10; 10]%N) = true
  /\ forallb (fun nm => is_some (accent_macro lt0 nm) && one_braced_arg nm) ACC = true
  /\ wrap_env lt0 [99;101;110;116;101;114]%N = Some ([10%N], [10%N])                 (* center *)
  /\ item_macro lt0 [105;116;101;109]%N = true                                        (* \item *)
  /\ match get_macro_spec cx0 [105;116;101;109]%N with
     | Some {| sp_args := APStd [a] |} => str_eqb (a_spec a) [91%N]
     | _ => false
     end = true.
Proof. exact default_tables_core. Qed.

(** * Non-vacuity *)

(** a nested item list (formatting macro with a symbol and a group inside,
    specials, a comment, an unknown macro, a paragraph break, inline and display
    math, an environment), embedded with the default tables: the hypotheses
    hold, the model text is the specification's for every option set, and both
    are the expected strings for concrete option sets *)
Example C03_tree_level_nonvacuous :
  cores_ok ex_src lt0 [116;101;120;116;98;102]%N [105;116;101;109;105;122;101]%N (fun _ _ => [99;101;110;116;101;114]%N) (fun _ => [39%N]) ex_sym ex_spc (fun _ => (0, 5)) ex_items
  /\ (forall o sl st,
        node_text ex_src lt0 cx0 o sl st (NList None None (ex_embed ex_items)) = (render (nfc_accent lt0) o sl ex_items, st))
  /\ fst (node_text ex_src lt0 cx0 (ex_opts MMText sls_macros false false) sls_macros d0
                    (NList None None (ex_embed ex_items)))
     = [97;32;98;945;99;945;100;160;8211;32;10;32;121;10;10;113;945;32;114;32;10;32;32;32;32;117;10;32;32;32;32;118;10;10;119;10;233;243]%N
  /\ fst (node_text ex_src lt0 cx0 (ex_opts MMWithDelims sls_alltrue true true) sls_alltrue d0
                    (NList None None (ex_embed ex_items)))
     = [97;32;98;945;99;945;100;160;8211;32;37;32;99;10;121;10;10;92;40;113;945;114;92;41;32;92;91;10;117;10;118;10;92;93;10;119;10;233;243]%N.
Proof.
  split; [exact ex_items_ok|]. split; [exact ex_tree_level|]. vm_compute. split; reflexivity.
Qed.

(** a document PARSED by the parser model with the default databases: its tree
    is core, and for EVERY option set [latex_to_text] is [render] of its items *)
Example C03_doc_end_to_end :
  match parsed_items (parse_top doc false cx0 (walker_state cx0)) with
  | Some l => abstract_items doc lt0 l
  | None => None
  end = Some doc_core
  /\ forall o, latex_to_text o doc false = Some (render (nfc_accent lt0) o (o_sls o) doc_core, d0).
Proof. split; [exact doc_parses_to_core | exact doc_end_to_end]. Qed.

(** the junction matters exactly where stated; the space join's hypotheses are satisfiable *)
Example C03_compositional_nonvacuous :
  let o := ex_opts MMText sls_bos false false in
  let acc := nfc_accent lt0 in
  let a := [KText [97]%N; KSymbol [945%N] [32%N]] in
  let b := [KText [120]%N] in
  render acc o sls_bos (a ++ b) = [97; 945; 32; 120]%N
  /\ render acc o sls_bos a ++ render acc o sls_bos b = [97; 945; 120]%N
  /\ render acc o sls_macros (a ++ b) = render acc o sls_macros a ++ render acc o sls_macros b
  /\ text_kept sls_bos [97; 98]%N /\ text_kept sls_macros [32]%N /\ ~ text_kept sls_bos [32]%N
  /\ render acc o sls_bos ([KSymbol [945%N] [32%N]] ++ [KText ([97; 98] ++ [32; 32] ++ [99])] ++ [KSpecials [160%N]])%N
     = render acc o sls_bos ([KSymbol [945%N] [32%N]] ++ [KText [97; 98]%N]) ++ [32; 32]%N
       ++ render acc o sls_bos (KText [99]%N :: [KSpecials [160%N]]).
Proof.
  vm_compute. repeat split; try reflexivity.
  - right; reflexivity.
  - left; reflexivity.
  - intros [H|H]; discriminate H.
Qed.

(** an accent over a braced argument under [keep_braced_groups] with minimum length 0:
    [\vec{ab}] is [a⃗b⃗] (97 8407 98 8407) -- the argument's braces are not a group to keep (the
    unrepaired code gave [{⃗a⃗b⃗}⃗]) -- for the parsed document through the model, for the tree
    through the specification, for every option set with or without [keep_braced_groups]; a
    free-standing group [{ab}] keeps its braces under the same options *)
Example C03_accent_over_kept_group :
  let o := {| o_math := MMText; o_keep_comments := false; o_sls := sls_macros; o_kbg := true; o_kbg_minlen := 0 |} in
  let vec_ab := [92; 118; 101; 99; 123; 97; 98; 125]%N in            (* \vec{ab} *)
  latex_to_text o vec_ab false = Some ([97; 8407; 98; 8407]%N, d0)
  /\ match parsed_items (parse_top vec_ab false cx0 (walker_state cx0)) with
     | Some l => abstract_items vec_ab lt0 l
     | None => None
     end = Some [KAccent 8407 (KGroup [KText [97; 98]%N])]
  /\ (forall o' sl,
        render (nfc_accent lt0) o' sl [KAccent 8407 (KGroup [KText [97; 98]%N])] = [97; 8407; 98; 8407]%N)
  /\ latex_to_text o [123; 97; 98; 125]%N false = Some ([123; 97; 98; 125]%N, d0).
Proof.
  split; [vm_compute; reflexivity|]. split; [vm_compute; reflexivity|]. split; [|vm_compute; reflexivity].
  intros o' sl. unfold render. cbn [render_from glue render1 app is_blank].
  destruct (s_blc sl); vm_compute; reflexivity.
Qed.

Print Assumptions C03_tree_level.
Print Assumptions C03_node_level.
Print Assumptions C03_l2t_nodes.
Print Assumptions C03_tree_level_embed.
Print Assumptions C03_abstract_embed.
Print Assumptions C03_rules.
Print Assumptions C03_compositional.
Print Assumptions C03_compositional_free.
Print Assumptions C03_compositional_exact.
Print Assumptions C03_compositional_par.
Print Assumptions C03_compositional_space.
Print Assumptions C03_compositional_par_text.
Print Assumptions C03_model_compositional_par.
Print Assumptions C03_model_compositional_space.
Print Assumptions C03_default_tables_core.
Print Assumptions C03_tree_level_nonvacuous.
Print Assumptions C03_doc_end_to_end.
Print Assumptions C03_compositional_nonvacuous.
Print Assumptions C03_accent_over_kept_group.

(** * End to end (composition with C02): the parser half

    [Properties/C02.v: C02_parse_unparse_partial] says which tree the strict
    parser returns for a written document of the core document grammar
    [Doc/DocGrammar.v] (text, braced groups, macros with mandatory braced
    arguments, [$..$] [\(..\)] [\[..\]], comments, paragraph breaks; [ok_doc] =
    the side conditions that make the written form unambiguous).  Composed with
    [C03_l2t_nodes]:

    [doc_cores lt cx d : option (list core)] ([Proofs/ComposeRender.v]) is the
    decidable side condition on the DOCUMENT and at the same time computes the
    core items it stands for (whitespace attributed to character items exactly
    as the nodes collector does it): every macro call of [d], at any depth, is
    either a macro without arguments ([APStd []] in the parser database) with
    [symbol_repl lt name = Some r] ([KSymbol r post]), or a macro with exactly one
    [{]-argument written as a braced group that is an accent macro
    ([accent_macro], [KAccent]) or transparent ([transparent_macro],
    [KTransparent]) in the text database; the paragraph-break specials is absent
    from the text table; groups, formulas (with their source text as [verb]),
    comments are always core.  [None] otherwise ([\frac], [\sqrt], [\section] ...).

    PARTIAL: the core document grammar of C02 only (no environments, specials
    other than the paragraph break, optional arguments, single-token arguments). *)

(** the meaning of a core document is a core tree with the computed items:
    any databases, any parsing state, any string [s] in which the document is
    written at offset [pos] (the source slices of its formulas are read from [s]) *)
Theorem C03_doc_tree_core_partial : forall lt cx s ps pos fol (d : DocGrammar.doc) ks,
  doc_cores lt cx d = Some ks -> skipn pos s = unparse d ++ fol ->
  abstract_items s lt (fst (tree_of cx ps pos d)) = Some ks.
Proof. exact tree_cores. Qed.

Theorem C03_end_to_end_partial : forall (d : DocGrammar.doc) ks,
  ok_doc cx0 d = true -> doc_cores lt0 cx0 d = Some ks ->
  forall o, latex_to_text o (unparse d) false = Some (render (nfc_accent lt0) o (o_sls o) ks, d0).
Proof. exact end_to_end. Qed.

(** the core items of two documents joined by a paragraph break (the whitespace
    [ws] in front of the break is the trailing whitespace of the first block) *)
Theorem C03_doc_cores_par_partial : forall lt cx l1 ws mid l2 tr ks1 ks2,
  core_of lt cx (Par ws mid) = Some KPar ->
  doc_cores lt cx {| d_items := l1; d_trail := ws |} = Some ks1 ->
  doc_cores lt cx {| d_items := l2; d_trail := tr |} = Some ks2 ->
  doc_cores lt cx {| d_items := l1 ++ Par ws mid :: l2; d_trail := tr |} = Some (ks1 ++ [KPar] ++ ks2).
Proof. exact doc_cores_par. Qed.

(** the compositional rule at STRING level: two core documents joined by a
    paragraph break [ws newline mid newline] — the written form is the
    concatenation of the two written forms around [newline mid newline], and the
    text is the two texts around a blank line; for every option record *)
Theorem C03_compositional_par_source_partial : forall o l1 ws mid l2 tr ks1 ks2,
  let d1 := {| d_items := l1; d_trail := ws |} in
  let d2 := {| d_items := l2; d_trail := tr |} in
  let d := {| d_items := l1 ++ Par ws mid :: l2; d_trail := tr |} in
  ok_doc cx0 d1 = true -> ok_doc cx0 d2 = true -> ok_doc cx0 d = true ->
  doc_cores lt0 cx0 d1 = Some ks1 -> doc_cores lt0 cx0 d2 = Some ks2 ->
  unparse d = unparse d1 ++ [10%N] ++ mid ++ [10%N] ++ unparse d2
  /\ exists t1 t2,
       latex_to_text o (unparse d1) false = Some (t1, d0)
       /\ latex_to_text o (unparse d2) false = Some (t2, d0)
       /\ latex_to_text o (unparse d) false = Some (t1 ++ [10; 10]%N ++ t2, d0).
Proof. exact compositional_par_source. Qed.

(** non-vacuity: [ab {c %x{$\n \textbf{x $y\alpha$} }\'{e} ] and
    [\alpha z\n\[ q\times\nr \] \zzunk\n] (a comment, nested group, transparent macro with inline
    math inside, an accent, bare symbol macros with post-space, display math, an unknown
    macro), and their join by the paragraph break [space newline tab newline] *)
Section EndToEndExample.
  Open Scope N_scope.
  Let l1 : list item :=
    [Text [] [97;98];
     Grp [32] [Text [] [99]; Cmt [32] [120;123;36] [10;32];
               Mac [] [116;101;120;116;98;102] []
                   [Grp [] [Text [] [120];
                            Math [32] MDollar [Text [] [121]; Mac [] [97;108;112;104;97] [] []] []] []]] [32];
     Mac [] [39] [] [Grp [] [Text [] [101]] []]].
  Let l2 : list item :=
    [Mac [] [97;108;112;104;97] [32] []; Text [] [122];
     Math [10] MBracket [Text [32] [113]; Mac [] [116;105;109;101;115] [10] []; Text [] [114]] [32];
     Mac [32] [122;122;117;110;107] [10] []].
  Let d1 : DocGrammar.doc := {| d_items := l1; d_trail := [32] |}.
  Let d2 : DocGrammar.doc := {| d_items := l2; d_trail := [] |}.
  Let dj : DocGrammar.doc := {| d_items := l1 ++ Par [32] [9] :: l2; d_trail := [] |}.
  Let ks1 : list core :=
    [KText [97; 98; 32];
     KGroup [KText [99; 32]; KComment [120; 123; 36] [10; 32];
             KTransparent [KText [120; 32];
                           KMath false [36] [36] [36; 121; 92; 97; 108; 112; 104; 97; 36]
                                 [KText [121]; KSymbol [945] []]];
             KText [32]];
     KAccent 769 (KGroup [KText [101]]); KText [32]].
  Let ks2 : list core :=
    [KSymbol [945] [32]; KText [122; 10];
     KMath true [92; 91] [92; 93] [92; 91; 32; 113; 92; 116; 105; 109; 101; 115; 10; 114; 32; 92; 93]
           [KText [32; 113]; KSymbol [215] [10]; KText [114; 32]];
     KText [32]; KSymbol [] [10]].
  Example C03_end_to_end_nonvacuous :
    ok_doc cx0 d1 = true /\ ok_doc cx0 d2 = true /\ ok_doc cx0 dj = true
    /\ doc_cores lt0 cx0 d1 = Some ks1 /\ doc_cores lt0 cx0 d2 = Some ks2
    /\ doc_cores lt0 cx0 dj = Some (ks1 ++ [KPar] ++ ks2)
    /\ (forall o, latex_to_text o (unparse dj) false
                  = Some (render (nfc_accent lt0) o (o_sls o) (ks1 ++ [KPar] ++ ks2), d0))
    /\ option_map fst (latex_to_text (ex_opts MMText sls_bos false false) (unparse dj) false)
       = Some [97; 98; 32; 99; 32; 10; 32; 120; 32; 121; 945; 233; 10; 10; 945; 32; 122; 10; 10; 32; 32; 32; 32;
               113; 215; 10; 32; 32; 32; 32; 114; 10]
    /\ option_map fst (latex_to_text {| o_math := MMVerbatim; o_keep_comments := true; o_sls := sls_macros;
                                      o_kbg := true; o_kbg_minlen := 0 |} (unparse dj) false)
       = Some [97; 98; 32; 123; 99; 32; 37; 120; 123; 36; 10; 32; 120; 32; 36; 121; 92; 97; 108; 112; 104; 97; 36;
               32; 125; 233; 32; 10; 10; 945; 122; 10; 10; 92; 91; 32; 113; 92; 116; 105; 109;
               101; 115; 10; 114; 32; 92; 93; 10; 32]   (* [\'{e}] is [é]: the argument's braces are not kept *)
    (* a document that is well-formed but not core: \frac{1}{2} *)
    /\ (let df := {| d_items := [Mac [] [102;114;97;99] [] [Grp [] [Text [] [49]] []; Grp [] [Text [] [50]] []]];
                     d_trail := [] |} in
        ok_doc cx0 df = true /\ doc_cores lt0 cx0 df = None).
  Proof.
    assert (O1 : ok_doc cx0 d1 = true) by (vm_compute; reflexivity).
    assert (O2 : ok_doc cx0 d2 = true) by (vm_compute; reflexivity).
    assert (OJ : ok_doc cx0 dj = true) by (vm_compute; reflexivity).
    assert (C1 : doc_cores lt0 cx0 d1 = Some ks1) by (vm_compute; reflexivity).
    assert (C2 : doc_cores lt0 cx0 d2 = Some ks2) by (vm_compute; reflexivity).
    assert (CJ : doc_cores lt0 cx0 dj = Some (ks1 ++ [KPar] ++ ks2)) by (vm_compute; reflexivity).
    repeat (split; [assumption|]).
    split; [exact (C03_end_to_end_partial dj _ OJ CJ)|].
    split; [vm_compute; reflexivity|]. split; [vm_compute; reflexivity|].
    split; vm_compute; reflexivity.
  Qed.

  Example C03_compositional_par_source_nonvacuous : forall o,
    exists t1 t2,
      latex_to_text o (unparse d1) false = Some (t1, d0)
      /\ latex_to_text o (unparse d2) false = Some (t2, d0)
      /\ latex_to_text o (unparse d1 ++ [10; 9; 10] ++ unparse d2) false = Some (t1 ++ [10; 10] ++ t2, d0).
  Proof.
    intros o.
    destruct (C03_compositional_par_source_partial o l1 [32] [9] l2 [] ks1 ks2) as (U & t1 & t2 & A & B & C);
      try (vm_compute; reflexivity).
    exists t1, t2. split; [exact A|]. split; [exact B|]. fold d1 d2 in U. fold dj in C, U.
    change (unparse d1 ++ [10; 9; 10] ++ unparse d2) with (unparse d1 ++ [10] ++ [9] ++ [10] ++ unparse d2).
    rewrite <- U. exact C.
  Qed.
End EndToEndExample.

(** the SPACE join at string level: a core document ending with the text run [t], the
    whitespace [ws] (spaces, at most one newline: [ok_doc] of the joined document), a core
    document starting with the text run [u] — the written form is the concatenation of the
    two written forms around [ws], and the text is the two texts around [ws], for every
    option record (in the tree, [t], [ws], [u] and the text / whitespace that follows [u]
    form ONE character node; text runs of [ok_doc] documents are never blank, which is the
    [text_kept] hypothesis of [C03_compositional_space]) *)
Theorem C03_compositional_space_source_partial : forall o l1 w1 t ws u l2 tr ks1 ks2,
  let d1 := {| d_items := l1 ++ [Text w1 t]; d_trail := [] |} in
  let d2 := {| d_items := Text [] u :: l2; d_trail := tr |} in
  let d := {| d_items := l1 ++ Text w1 t :: Text ws u :: l2; d_trail := tr |} in
  ok_doc cx0 d1 = true -> ok_doc cx0 d2 = true -> ok_doc cx0 d = true ->
  doc_cores lt0 cx0 d1 = Some ks1 -> doc_cores lt0 cx0 d2 = Some ks2 ->
  unparse d = unparse d1 ++ ws ++ unparse d2
  /\ exists t1 t2,
       latex_to_text o (unparse d1) false = Some (t1, d0)
       /\ latex_to_text o (unparse d2) false = Some (t2, d0)
       /\ latex_to_text o (unparse d) false = Some (t1 ++ ws ++ t2, d0).
Proof. exact compositional_space_source. Qed.

(** non-vacuity: [{c}\alpha ab] joined by [space newline] with [cd e $y$\n] *)
Example C03_compositional_space_source_nonvacuous : forall o,
  let l1 := [Grp [] [Text [] [99%N]] []; Mac [] [97;108;112;104;97]%N [32%N] []] in
  let l2 := [Text [32%N] [101%N]; Math [32%N] MDollar [Text [] [121%N]] []] in
  let d1 := {| d_items := l1 ++ [Text [] [97;98]%N]; d_trail := [] |} in
  let d2 := {| d_items := Text [] [99;100]%N :: l2; d_trail := [10%N] |} in
  unparse d1 = [123; 99; 125; 92; 97; 108; 112; 104; 97; 32; 97; 98]%N
  /\ unparse d2 = [99; 100; 32; 101; 32; 36; 121; 36; 10]%N
  /\ exists t1 t2,
      latex_to_text o (unparse d1) false = Some (t1, d0)
      /\ latex_to_text o (unparse d2) false = Some (t2, d0)
      /\ latex_to_text o (unparse d1 ++ [32; 10]%N ++ unparse d2) false = Some (t1 ++ [32; 10]%N ++ t2, d0).
Proof.
  intros o l1 l2 d1 d2. split; [vm_compute; reflexivity|]. split; [vm_compute; reflexivity|].
  destruct (C03_compositional_space_source_partial o l1 [] [97;98]%N [32;10]%N [99;100]%N l2 [10%N]
              [KGroup [KText [99%N]]; KSymbol [945%N] [32%N]; KText [97; 98]%N]
              [KText [99; 100; 32; 101; 32]%N; KMath false [36%N] [36%N] [36; 121; 36]%N [KText [121%N]]; KText [10%N]])
    as (U & t1 & t2 & A & B & C); try (vm_compute; reflexivity).
  exists t1, t2. split; [exact A|]. split; [exact B|]. fold d1 d2 in U. rewrite <- U. exact C.
Qed.

Print Assumptions C03_doc_tree_core_partial.
Print Assumptions C03_compositional_space_source_partial.
Print Assumptions C03_compositional_space_source_nonvacuous.
Print Assumptions C03_end_to_end_partial.
Print Assumptions C03_doc_cores_par_partial.
Print Assumptions C03_compositional_par_source_partial.
Print Assumptions C03_end_to_end_nonvacuous.
Print Assumptions C03_compositional_par_source_nonvacuous.

(** * C03 over the EXTENDED document grammar ([Proofs/Compose2Render.v])

    [abstract2 src lt cx kbg n] recognises MORE nodes than [abstract] and maps them into the
    SAME specification language [core] — the specification [render] is unchanged:
    - a macro whose replacement is a %-template ([\frac] = [%s/%s], [\sqrt] = [√(%(2)s)],
      [\footnote] = [[%(2)s]], [\url], [\underline], [\textcolor] ...) with whatever arguments
      were parsed (braced groups, optional [[..]] groups, absent optional arguments, single
      tokens) is the transparent item [KTransparent [..]] made of the template's literal
      characters ([KSpecials [c]]) and, for every [%s] / [%(i)s], the transparent contents
      [KTransparent arg] of the corresponding argument: [\frac{a}{b}] renders like [a/b],
      [\sqrt[n]{x}] like [√(x)];
    - [\item[label]], when [keep_braced_groups] is off ([kbg = false]; with it the label is
      rendered with its brackets, which [core] cannot say), is
      [KTransparent [KSpecials "\n  "; KTransparent label]];
    - everything [abstract] recognises (these allowed inside all bodies): text, comments,
      groups, formatting macros, symbols, accents, specials, the paragraph break, the four
      kinds of formulas ([$$ .. $$] included), transparent / wrapping environments. *)
From PLV Require Import Doc.DocGrammar2 Proofs.Compose2Render.

Theorem C03_tree_level2 : forall src lt cx o items ks,
  abstract2_items src lt cx (o_kbg o) items = Some ks ->
  forall sl st p e, node_text src lt cx o sl st (NList p e items) = (render (nfc_accent lt) o sl ks, st).
Proof. exact tree_level2. Qed.

Theorem C03_node_level2 : forall src lt cx o n k,
  abstract2 src lt cx (o_kbg o) n = Some k ->
  forall sl st, node_text src lt cx o sl st n = (render1 (nfc_accent lt) o sl k, st).
Proof. exact abstract2_sound. Qed.

(** END TO END over the extended grammar: for every document [d] of [Doc/DocGrammar2.v]
    satisfying [ok_doc2] (environments with arguments and math bodies, [$$..$$], specials,
    optional / star / single-token / verbatim arguments, comments before arguments) whose
    MEANING [tree_of2 d] — a function of the document alone — is recognised by [abstract2]
    under the default tables ([doc_tree_cores2 kbg d = Some ks], decidable, computes [ks]),
    the string-level conversion is the specification's rendering of [ks].

    PARTIAL: the extended grammar is not all of LaTeX; [\item[..]] only with
    [keep_braced_groups] off; a template macro without argument nodes is not recognised. *)
Theorem C03_end_to_end2_partial : forall (d : doc2) o ks,
  ok_doc2 cx0 d = true -> doc_tree_cores2 (o_kbg o) d = Some ks ->
  latex_to_text o (unparse2 d) false = Some (render (nfc_accent lt0) o (o_sls o) ks, d0).
Proof. exact end_to_end2. Qed.

Section EndToEnd2Example.
  Open Scope N_scope.
  (** the templates of the default database (regenerated from /repo on every run) *)
  Example C03_default_templates :
    macro_template lt0 [102;114;97;99] = Some [FPos; FLit 47; FPos]                       (* \frac: %s/%s *)
    /\ macro_template lt0 [115;113;114;116] = Some [FLit 8730; FLit 40; FKey [50]; FLit 41]   (* \sqrt: √(%(2)s) *)
    /\ macro_template lt0 [102;111;111;116;110;111;116;101] = Some [FLit 91; FKey [50]; FLit 93]   (* \footnote: [%(2)s] *)
    /\ item_macro lt0 [105;116;101;109] = true.
  Proof. vm_compute. repeat split. Qed.

  (** [\frac{1}{2}\sqrt[3]{x}\begin{itemize}\item[a] b\item c\end{itemize}\begin{center}x~y\end{center}$$z$$] *)
  Let d1 : doc2 := {| d_items2 :=
    [Mac2 [] [102;114;97;99] [] [Grp2 [] [Text2 [] [49]] []; Grp2 [] [Text2 [] [50]] []];
     Mac2 [] [115;113;114;116] [] [Brk2 [] 91 93 [Text2 [] [51]] []; Grp2 [] [Text2 [] [120]] []];
     Env2 [] [] [105;116;101;109;105;122;101] [Abs2]
       [Mac2 [] [105;116;101;109] [] [Brk2 [] 91 93 [Text2 [] [97]] []]; Text2 [32] [98];
        Mac2 [] [105;116;101;109] [32] [Abs2]; Text2 [] [99]] [] [];
     Env2 [] [] [99;101;110;116;101;114] [] [Text2 [] [120]; Spc2 [] [126] []; Text2 [] [121]] [] [];
     Math2 [] MDollars [Text2 [] [122]] []]; d_trail2 := [] |}.
  Let ks1 : list core :=
    [KTransparent [KTransparent [KText [49]]; KSpecials [47]; KTransparent [KText [50]]];
     KTransparent [KSpecials [8730]; KSpecials [40]; KTransparent [KText [120]]; KSpecials [41]];
     KEnvBody [KTransparent [KSpecials [10; 32; 32]; KTransparent [KText [97]]]; KText [32; 98];
               KSymbol [10; 32; 32; 42; 32] [32]; KText [99]];
     KEnvWrap [10] [10] [KText [120]; KSpecials [160]; KText [121]];
     KMath true [36; 36] [36; 36] [36; 36; 122; 36; 36] [KText [122]]].
  Let o1 : opts := {| o_math := MMText; o_keep_comments := false; o_sls := sls_bos; o_kbg := false; o_kbg_minlen := 0 |}.
  Let o2 : opts := {| o_math := MMVerbatim; o_keep_comments := true; o_sls := sls_bos; o_kbg := false; o_kbg_minlen := 0 |}.
  (** [\frac1{{2}}\sqrt{x}]: a single-token argument, a nested group, an absent optional argument; no
      [\item[..]], so [keep_braced_groups] may be on *)
  Let d3 : doc2 := {| d_items2 :=
    [Mac2 [] [102;114;97;99] [] [Text2 [] [49]; Grp2 [] [Grp2 [] [Text2 [] [50]] []] []];
     Mac2 [] [115;113;114;116] [] [Abs2; Grp2 [] [Text2 [] [120]] []]]; d_trail2 := [] |}.
  Let ks3 : list core :=
    [KTransparent [KTransparent [KText [49]]; KSpecials [47]; KTransparent [KGroup [KText [50]]]];
     KTransparent [KSpecials [8730]; KSpecials [40]; KTransparent [KText [120]]; KSpecials [41]]].
  Let o3 : opts := {| o_math := MMText; o_keep_comments := false; o_sls := sls_bos; o_kbg := true; o_kbg_minlen := 0 |}.

  Example C03_end_to_end2_nonvacuous :
    ok_doc2 cx0 d1 = true /\ length (unparse2 d1) = 101%nat
    /\ doc_tree_cores2 false d1 = Some ks1 /\ doc_tree_cores2 true d1 = None
    /\ (forall o, o_kbg o = false ->
        latex_to_text o (unparse2 d1) false = Some (render (nfc_accent lt0) o (o_sls o) ks1, d0))
    (* [1/2√(x)\n  a b\n  *  c\nx y\n\n    z\n] ([~] is U+00A0) *)
    /\ render (nfc_accent lt0) o1 (o_sls o1) ks1
       = [49; 47; 50; 8730; 40; 120; 41; 10; 32; 32; 97; 32; 98; 10; 32; 32; 42; 32; 32; 99; 10; 120; 160; 121;
          10; 10; 32; 32; 32; 32; 122; 10]
    /\ render (nfc_accent lt0) o2 (o_sls o2) ks1
       = [49; 47; 50; 8730; 40; 120; 41; 10; 32; 32; 97; 32; 98; 10; 32; 32; 42; 32; 32; 99; 10; 120; 160; 121;
          10; 10; 36; 36; 122; 36; 36; 10]
    /\ ok_doc2 cx0 d3 = true /\ unparse2 d3 = [92;102;114;97;99;49;123;123;50;125;125;92;115;113;114;116;123;120;125]
    /\ (forall o, latex_to_text o (unparse2 d3) false = Some (render (nfc_accent lt0) o (o_sls o) ks3, d0))
    /\ render (nfc_accent lt0) o3 (o_sls o3) ks3 = [49; 47; 123; 50; 125; 8730; 40; 120; 41].
  Proof.
    assert (O1 : ok_doc2 cx0 d1 = true) by (vm_compute; reflexivity).
    assert (C1 : doc_tree_cores2 false d1 = Some ks1) by (vm_compute; reflexivity).
    assert (O3 : ok_doc2 cx0 d3 = true) by (vm_compute; reflexivity).
    split; [exact O1|]. split; [vm_compute; reflexivity|]. split; [exact C1|]. split; [vm_compute; reflexivity|].
    split; [intros o K; apply C03_end_to_end2_partial; [exact O1|rewrite K; exact C1]|].
    split; [vm_compute; reflexivity|]. split; [vm_compute; reflexivity|].
    split; [exact O3|]. split; [vm_compute; reflexivity|].
    split; [|vm_compute; reflexivity].
    intros o. apply C03_end_to_end2_partial; [exact O3|]. destruct (o_kbg o); vm_compute; reflexivity.
  Qed.
End EndToEnd2Example.

Print Assumptions C03_tree_level2.
Print Assumptions C03_node_level2.
Print Assumptions C03_end_to_end2_partial.
Print Assumptions C03_default_templates.
Print Assumptions C03_end_to_end2_nonvacuous.

(** * End to end over the extended grammar with a SYNTACTIC side condition ([Proofs/Compose2RenderDoc.v])

    [doc_cores2 lt cx kbg d : option (list core)] is computed from the document alone, without
    positions or the collector (the accumulator of [doc_cores]: finished items, pending
    characters).  [core_of2] per item: comment, paragraph break, group, formula (four kinds),
    environment rendered as its body or wrapped ([transparent_env] / [wrap_env]; whatever its
    arguments), specials, bare symbol macro, formatting / accent macro with ONE argument — a
    braced group, possibly after comments, for accents also a one-character token —, [\item]
    with its optional argument absent or (when [kbg = false]) written, and every %-template
    macro with as many arguments as slots, each a braced group, an optional group written or
    absent, a one-character token, possibly after comments.  Not core: the verbatim
    constructs, control-sequence / specials tokens as arguments, callables other than accents
    and [\item]. *)
From PLV Require Import Proofs.Compose2RenderDoc.

(** the meaning of such a document is recognised by [abstract2], with exactly the computed
    items: any databases, any parsing state, any string [s] in which the document is written at
    offset [pos] *)
Theorem C03_doc_tree_core2_partial : forall lt cx kbg s ps pos fol (d : doc2) ks,
  ok_doc2 cx d = true -> doc_cores2 lt cx kbg d = Some ks -> skipn pos s = unparse2 d ++ fol ->
  abstract2_items s lt cx kbg (fst (tree_of2 cx ps pos d)) = Some ks.
Proof.
  intros lt cx kbg s ps pos fol d ks O C SK.
  exact (tree_cores2 lt cx kbg s ps pos fol d ks C (Proofs.Compose2Comments.ok_doc_arity2 cx d O) SK).
Qed.

Theorem C03_end_to_end2_doc_partial : forall (d : doc2) o ks,
  ok_doc2 cx0 d = true -> doc_cores2 lt0 cx0 (o_kbg o) d = Some ks ->
  latex_to_text o (unparse2 d) false = Some (render (nfc_accent lt0) o (o_sls o) ks, d0).
Proof. exact end_to_end2_doc. Qed.

Section EndToEnd2DocExample.
  Open Scope N_scope.
  (** [\'e \textbf%c\n{x}\footnote{a $b$}]: an accent with a one-character token, a formatting
      macro whose argument is preceded by a comment, a keyed template with an absent optional
      argument and a formula inside its argument *)
  Let d4 : doc2 := {| d_items2 :=
    [Mac2 [] [39] [] [Text2 [] [101]];
     Mac2 [32] [116;101;120;116;98;102] [] [Pre2 [] [99] [10] (Grp2 [] [Text2 [] [120]] [])];
     Mac2 [] [102;111;111;116;110;111;116;101] []
          [Abs2; Grp2 [] [Text2 [] [97]; Math2 [32] MDollar [Text2 [] [98]] []] []]]; d_trail2 := [] |}.
  Let ks4 : list core :=
    [KAccent 769 (KText [101]); KText [32]; KTransparent [KText [120]];
     KTransparent [KSpecials [91];
                   KTransparent [KText [97; 32]; KMath false [36] [36] [36; 98; 36] [KText [98]]];
                   KSpecials [93]]].
  (** [\frac{1}{2}\sqrt[3]{x}\begin{itemize}\item[a] b\item c\end{itemize}\begin{center}x~y\end{center}$$z$$] *)
  Let d1 : doc2 := {| d_items2 :=
    [Mac2 [] [102;114;97;99] [] [Grp2 [] [Text2 [] [49]] []; Grp2 [] [Text2 [] [50]] []];
     Mac2 [] [115;113;114;116] [] [Brk2 [] 91 93 [Text2 [] [51]] []; Grp2 [] [Text2 [] [120]] []];
     Env2 [] [] [105;116;101;109;105;122;101] [Abs2]
       [Mac2 [] [105;116;101;109] [] [Brk2 [] 91 93 [Text2 [] [97]] []]; Text2 [32] [98];
        Mac2 [] [105;116;101;109] [32] [Abs2]; Text2 [] [99]] [] [];
     Env2 [] [] [99;101;110;116;101;114] [] [Text2 [] [120]; Spc2 [] [126] []; Text2 [] [121]] [] [];
     Math2 [] MDollars [Text2 [] [122]] []]; d_trail2 := [] |}.
  (** [\verb|x|]: well-formed, not core *)
  Let dv : doc2 := {| d_items2 := [Vrb2 [] [118;101;114;98] [] 124 [120]]; d_trail2 := [] |}.

  Example C03_end_to_end2_doc_nonvacuous :
    ok_doc2 cx0 d4 = true
    /\ unparse2 d4 = [92;39;101;32;92;116;101;120;116;98;102;37;99;10;123;120;125;92;102;111;111;116;110;111;116;101;
                      123;97;32;36;98;36;125]
    /\ (forall kbg, doc_cores2 lt0 cx0 kbg d4 = Some ks4)
    /\ (forall o, latex_to_text o (unparse2 d4) false = Some (render (nfc_accent lt0) o (o_sls o) ks4, d0))
    (* [éx[a b]] (the blank text node between two constructs is dropped under this policy) *)
    /\ render (nfc_accent lt0)
              {| o_math := MMText; o_keep_comments := true; o_sls := sls_bos; o_kbg := false; o_kbg_minlen := 0 |}
              sls_bos ks4 = [233; 120; 91; 97; 32; 98; 93]
    (* the syntactic computation agrees with the reading of the meaning tree *)
    /\ doc_cores2 lt0 cx0 false d1 = doc_tree_cores2 false d1 /\ doc_cores2 lt0 cx0 true d1 = None
    /\ (exists ks, doc_cores2 lt0 cx0 false d1 = Some ks /\ length ks = 5%nat)
    /\ ok_doc2 cx0 dv = true /\ doc_cores2 lt0 cx0 false dv = None.
  Proof.
    assert (O4 : ok_doc2 cx0 d4 = true) by (vm_compute; reflexivity).
    assert (C4 : forall kbg, doc_cores2 lt0 cx0 kbg d4 = Some ks4) by (intros [|]; vm_compute; reflexivity).
    split; [exact O4|]. split; [vm_compute; reflexivity|]. split; [exact C4|].
    split; [intros o; exact (C03_end_to_end2_doc_partial d4 o ks4 O4 (C4 _))|].
    split; [vm_compute; reflexivity|]. split; [vm_compute; reflexivity|]. split; [vm_compute; reflexivity|].
    split; [eexists; split; vm_compute; reflexivity|].
    split; vm_compute; reflexivity.
  Qed.
End EndToEnd2DocExample.

Print Assumptions C03_doc_tree_core2_partial.
Print Assumptions C03_end_to_end2_doc_partial.
Print Assumptions C03_end_to_end2_doc_nonvacuous.

(** the extended theorem subsumes the one of the core grammar: a core document that is core for
    [doc_cores] is, embedded by [up_doc] ([C02_core_grammar_embeds]: same written form, [ok_doc2]),
    core for [doc_cores2] with the same items — so [C03_end_to_end_partial] is an instance of
    [C03_end_to_end2_doc_partial] ([Proofs/Compose2RenderEmbed.v: end_to_end_from_extended]) *)
From PLV Require Import Proofs.Compose2RenderEmbed.
Theorem C03_doc_cores_embeds : forall lt cx kbg (d : DocGrammar.doc) ks,
  doc_cores lt cx d = Some ks -> doc_cores2 lt cx kbg (up_doc d) = Some ks.
Proof. exact doc_cores_embed. Qed.
Print Assumptions C03_doc_cores_embeds.
