(** C04 — encoder output equals the documented rule semantics.
    Statements only; proofs are in [Proofs/EncoderProofs.v],
    [Proofs/PartialProofs.v], [Proofs/FamilyProofs.v], [Proofs/HelperProofs.v].

    Model: [Enc/Encoder.v] ([encode] = the fuelled [while] loop of
    [unicode_to_latex], [encode_spec] = the declarative left-to-right
    "first rule that answers" function), [Enc/Partial.v]
    ([PartialLatexToLatexEncoder]), [Enc/Builtin.v] (built-in tables, cached
    module-level helper), [Enc/Family.v] (concrete rule family).  Inputs are
    NFC-normalised strings.  The model tracks /repo WITH
    fixes/C04-partial-token-error.diff and fixes/C04-non-ascii-only-del.diff. *)
From Coq Require Import NArith List Bool Arith.
From Coq Require Import String.
Local Open Scope string_scope.
Local Open Scope list_scope.
From PLV Require Import Base.PyStr Enc.Encoder Enc.Builtin Enc.Partial Enc.Family.
From PLV Require Import Proofs.EncoderProofs Proofs.PartialProofs Proofs.FamilyProofs Proofs.HelperProofs.
Import ListNotations.

(** ** The loop is the specification *)

(** For every configuration whose rules consume at least one character when
    they match (at positions inside the string) and every string, the loop run
    with fuel |s|+1 equals the declarative specification. *)
Theorem C04_loop_is_spec : forall cfg s, rules_consume_pos cfg ->
  encode_loop (S (List.length s)) cfg s 0 [] = encode_spec cfg s.
Proof. exact encode_is_spec. Qed.

(** ... and so does any larger fuel; the loop never runs out. *)
Theorem C04_loop_fuel_independent : forall cfg s fuel, rules_consume_pos cfg ->
  List.length s < fuel -> encode_loop fuel cfg s 0 [] = encode_spec cfg s.
Proof. exact encode_loop_enough_fuel. Qed.

Theorem C04_loop_terminates : forall cfg s, rules_consume_pos cfg -> encode cfg s <> OutOfFuel.
Proof. exact encode_never_out_of_fuel. Qed.

(** What "first rule that answers" means in [encode_spec]: rule [a] decides at
    a position iff it answers there and every rule before it in the list does
    not. *)
Theorem C04_first_rule_wins : forall (rs : list rule) s pos a b,
  first_some (fun r => rule_answer r s pos) rs = Some (a, b) <->
  exists l1 l2, rs = l1 ++ a :: l2 /\ rule_answer a s pos = Some b /\
                forall x, In x l1 -> rule_answer x s pos = None.
Proof. intros rs s pos a b. exact (first_some_spec (fun r => rule_answer r s pos) rs a b). Qed.

(** The boolean side condition on the concrete family implies the semantic one. *)
Theorem C04_family_consumes : forall c, sconfig_consumes c = true -> rules_consume_pos (den_config c).
Proof. exact sconfig_consumes_sound. Qed.
Theorem C04_family_no_raise : forall c, sconfig_no_raise c = true -> no_rule_raises (den_config c).
Proof. exact sconfig_no_raise_sound. Qed.
Theorem C04_family_per_char : forall c, sconfig_per_char c = true -> per_char_rules (den_config c).
Proof. exact sconfig_per_char_sound. Qed.

(** ** Concatenation (per-character rules, e.g. any list of dictionary rules) *)
Theorem C04_concat : forall cfg a b, per_char_rules cfg ->
  encode cfg (a ++ b) = res_app (encode cfg a) (encode cfg b).
Proof. exact encode_concat. Qed.

Theorem C04_concat_str : forall cfg a b x y, per_char_rules cfg ->
  encode cfg a = Ok x -> encode cfg b = Ok y ->
  res_map flatten (encode cfg (a ++ b)) = Ok (flatten x ++ flatten y).
Proof. exact encode_concat_str. Qed.

(** ** Exceptions of the plain encoder *)

(** The only exception is the [ValueError] of policy 'fail', at a position the
    scan reaches where nothing applies. *)
Theorem C04_only_valueerror : forall cfg s e,
  rules_consume_pos cfg -> no_rule_raises cfg ->
  encode cfg s = Exn e ->
  e = ValueError /\ upolicy cfg = UFail /\
  exists pos, pos < List.length s /\ reached cfg s pos /\ unmatched_at cfg s pos.
Proof. exact encode_only_valueerror. Qed.

(** Exactly when. *)
Theorem C04_valueerror_iff : forall cfg s,
  rules_consume_pos cfg -> no_rule_raises cfg -> upolicy cfg = UFail ->
  (encode cfg s = Exn ValueError <->
   exists pos, pos < List.length s /\ reached cfg s pos /\ unmatched_at cfg s pos).
Proof. exact encode_valueerror_iff. Qed.

Theorem C04_total_unless_fail : forall cfg s,
  rules_consume_pos cfg -> no_rule_raises cfg -> upolicy cfg <> UFail ->
  exists chunks, encode cfg s = Ok chunks.
Proof. exact encode_total_unless_fail. Qed.

(** With per-character rules: exactly when the string contains a character
    that no rule matches and that is not copied. *)
Theorem C04_valueerror_per_char : forall cfg s,
  per_char_rules cfg -> upolicy cfg = UFail ->
  (encode cfg s = Exn ValueError <-> exists c, In c s /\ unmatched_char cfg c).
Proof. exact encode_valueerror_per_char. Qed.

(** ** The partial encoder *)

(** It equals the specification of the plain encoder with one extra
    highest-priority rule ... *)
Theorem C04_partial : forall keep cfg s, rules_consume_pos cfg ->
  partial_encode keep cfg s = encode_spec (with_keep_rule keep cfg) s.
Proof. exact partial_is_spec. Qed.

(** ... which answers only at a keep character, consumes >= 1 and at most the
    remaining characters, and whose replacement is exactly the consumed input
    (the token is copied through; protection 'none' by construction). *)
Theorem C04_partial_keep_copies : forall keep s pos n repl,
  keep_rule keep s pos = CMatch n repl ->
  mem_c (nth pos s 0%N) keep = true /\ 1 <= n /\ pos + n <= List.length s /\
  repl = slice s pos (pos + n) /\ List.length repl = n.
Proof. exact keep_rule_copies. Qed.

Theorem C04_partial_without_keep_chars : forall keep cfg s,
  (forall c, In c s -> mem_c c keep = false) -> partial_encode keep cfg s = encode cfg s.
Proof. exact partial_without_keep_chars. Qed.

(** The (fixed) partial encoder raises nothing but the 'fail' [ValueError]. *)
Theorem C04_partial_only_valueerror : forall keep cfg s e,
  rules_consume_pos cfg -> no_rule_raises cfg ->
  partial_encode keep cfg s = Exn e ->
  e = ValueError /\ upolicy cfg = UFail.
Proof.
  intros keep cfg s e HC HN H.
  destruct (encode_only_valueerror (with_keep_rule keep cfg) s e
              (with_keep_consume keep cfg HC) (with_keep_no_raise keep cfg HN) H) as (He & Hf & _).
  split; [exact He | exact Hf].
Qed.

(** F9 (documentation of the defect the fix removes): the rule as it was lets
    [LatexWalkerTokenParseError] escape on ["a\\"] and ["\\begin x"]. *)
Theorem C04_partial_unfixed_raises :
  partial_encode_unfixed default_keep bare_config [97; 92]%N = Exn TokenParseError /\
  partial_encode_unfixed default_keep bare_config [92; 98; 101; 103; 105; 110; 32; 120]%N = Exn TokenParseError /\
  partial_encode default_keep bare_config [97; 92]%N = Ok [[97]; [92]]%N.
Proof. exact partial_unfixed_raises. Qed.

(** ** The cached module-level helper *)
Theorem C04_cache_transparent : forall h k s,
  snd (helper_call (fst (helper_run [] h)) k s) = fresh_call k s.
Proof. exact helper_transparent. Qed.

Theorem C04_cache_history : forall h,
  snd (helper_run [] h) = map (fun ks => fresh_call (fst ks) (snd ks)) h.
Proof. intros h. apply helper_run_fresh. intros ? ? []. Qed.

(** ** Regenerated tables: the dictionary the model looks up IS the table *)
Theorem C04_tables_faithful :
  (forallb (fun kv => opt_eqb str_eqb (map_lookup uni2latex_map (fst kv)) (Some (snd kv)))
           Gen.GenUni2Latex.table = true /\
   N.of_nat (List.length Gen.GenUni2Latex.table) = Gen.GenUni2Latex.table_size /\
   N.of_nat (FMapPositive.PositiveMap.cardinal uni2latex_map) = Gen.GenUni2Latex.table_size) /\
  (forallb (fun kv => opt_eqb str_eqb (map_lookup uni2latex_xml_map (fst kv)) (Some (snd kv)))
           Gen.GenUni2LatexXml.table = true /\
   N.of_nat (List.length Gen.GenUni2LatexXml.table) = Gen.GenUni2LatexXml.table_size /\
   N.of_nat (FMapPositive.PositiveMap.cardinal uni2latex_xml_map) = Gen.GenUni2LatexXml.table_size).
Proof. split; [exact uni2latex_map_faithful | exact uni2latex_xml_map_faithful]. Qed.

(** ** Non-vacuity *)

Definition sc_default (p : sprot) (u : spolicy) : sconfig :=
  {| s_rules := [ {| sr_body := SBDict SDDefaults; sr_prot := None |} ];
     s_gprot := p; s_policy := u; s_nao := false |}.

(** the default configuration (and 'unicode-xml') satisfy every side condition *)
Example C04_default_rules_ok :
  sconfig_consumes (sc_default SPBraces SUKeep) = true /\
  sconfig_no_raise (sc_default SPBraces SUKeep) = true /\
  sconfig_per_char (sc_default SPBraces SUKeep) = true /\
  rules_consume_pos (den_config (sc_default SPBraces SUKeep)) /\
  per_char_rules {| rules := rules_defaults ++ rules_unicode_xml; gprot := PBraces;
                    upolicy := UFail; non_ascii_only := true |}.
Proof.
  repeat split; try reflexivity.
  - apply sconfig_consumes_sound. reflexivity.
  - repeat constructor; apply dict_rule_per_char.
Qed.

(** the example of the class documentation: "é → α" with protection 'none',
    chunk by chunk *)
Example C04_loop_is_spec_nonvacuous :
  let cfg := den_config (sc_default SPNone SUKeep) in
  encode cfg [233; 32; 8594; 32; 945]%N
  = Ok [ lit "\'e"; lit " "; lit "\textrightarrow"; lit " "; lit "\ensuremath{\alpha}" ]
  /\ encode_spec cfg [233; 32; 8594; 32; 945]%N = encode cfg [233; 32; 8594; 32; 945]%N.
Proof. vm_compute. split; reflexivity. Qed.

(** a mixed configuration inside the hypotheses: regex rules ([A-Z]{2,} with
    group 0 echoed, \.{3}, a capture group echoed back with a per-rule
    protection), the look-behind callable, then the defaults; overlapping
    matches and multi-character consumption; "The ABC... <em> "x" é" *)
Definition sc_mixed : sconfig :=
  {| s_rules :=
       [ {| sr_body := SBRegex [ (RxClassMin 65 90 2, SRTempl [TLit [123]%N; TGroup0; TLit [125]%N]);
                                 (RxRep 46 3, SRTempl [TLit (lit "\ldots")]) ];
            sr_prot := None |};
         {| sr_body := SBRegex [ (RxGroup [60]%N 97 122 [62]%N, SRTempl [TLit (lit "\emph "); TGroup1]) ];
            sr_prot := Some SPBracesAll |};
         {| sr_body := SBCallable SCQuote; sr_prot := Some SPNone |};
         {| sr_body := SBDict SDDefaults; sr_prot := None |} ];
     s_gprot := SPBraces; s_policy := SUFail; s_nao := false |}.

Example C04_mixed_nonvacuous :
  sconfig_consumes sc_mixed = true /\ sconfig_no_raise sc_mixed = true /\
  res_map flatten (encode (den_config sc_mixed) (lit "ABC... <em> ""x"" " ++ [233]%N))
  = Ok (lit "{ABC}{\ldots} {\emph em} ``x'' \'e") /\
  encode (den_config sc_mixed) [97; 7]%N = Exn ValueError /\
  unmatched_at (den_config sc_mixed) [97; 7]%N 1.
Proof.
  split; [reflexivity|]. split; [reflexivity|]. split; [vm_compute; reflexivity|].
  split; [vm_compute; reflexivity|].
  split; [reflexivity|]. split; [|reflexivity].
  intros r Hr. cbn [den_config rules sc_mixed s_rules map] in Hr.
  repeat (destruct Hr as [<-|Hr]; [vm_compute; reflexivity|]). destruct Hr.
Qed.

(** the partial encoder keeps tokens and encodes the rest *)
Example C04_partial_nonvacuous :
  res_map flatten (partial_encode default_keep (den_config (sc_default SPBraces SUKeep))
                     (lit "\'{e} & $x^2$ \alpha  " ++ [233; 92]%N))
  = Ok (lit "\'{e} \& $x^2$ \alpha  \'e{\textbackslash}").
Proof. vm_compute. reflexivity. Qed.

(** the helper: a history with a repeated key, an invalid name and 'fail' *)
Example C04_cache_nonvacuous :
  let k1 := {| k_nao := false; k_prot := lit "braces"; k_policy := lit "keep"; k_warn := true |} in
  let k2 := {| k_nao := false; k_prot := lit "braces-all"; k_policy := lit "fail"; k_warn := false |} in
  let k3 := {| k_nao := false; k_prot := lit "bogus"; k_policy := lit "keep"; k_warn := true |} in
  let '(c, rs) := helper_run [] [(k1, [233]%N); (k2, [233; 7]%N); (k3, []); (k1, [8594]%N)] in
  List.length c = 2 /\
  map (res_map flatten) rs = [Ok (lit "\'e"); Exn ValueError; Exn BadOption; Ok (lit "{\textrightarrow}")].
Proof. vm_compute. split; reflexivity. Qed.

Print Assumptions C04_loop_is_spec.
Print Assumptions C04_loop_fuel_independent.
Print Assumptions C04_loop_terminates.
Print Assumptions C04_first_rule_wins.
Print Assumptions C04_family_consumes.
Print Assumptions C04_family_no_raise.
Print Assumptions C04_family_per_char.
Print Assumptions C04_concat.
Print Assumptions C04_concat_str.
Print Assumptions C04_only_valueerror.
Print Assumptions C04_valueerror_iff.
Print Assumptions C04_total_unless_fail.
Print Assumptions C04_valueerror_per_char.
Print Assumptions C04_partial.
Print Assumptions C04_partial_keep_copies.
Print Assumptions C04_partial_without_keep_chars.
Print Assumptions C04_partial_only_valueerror.
Print Assumptions C04_partial_unfixed_raises.
Print Assumptions C04_cache_transparent.
Print Assumptions C04_cache_history.
Print Assumptions C04_tables_faithful.
