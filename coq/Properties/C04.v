(** C04 placeholder (work in progress) *)
From PLV Require Import Enc.Encoder.
Theorem C04_placeholder : True. Proof. exact I. Qed.
Print Assumptions C04_placeholder.
