(** C15 — \input never reads outside the configured directory in strict mode.
    Statements only; proofs are in [Proofs/FsProofs.v], [Proofs/InputProofs.v],
    [Proofs/InputExamples.v].

    The theorems are about the file-system MODEL of [FS/FsModel.v] (finite tree
    of directories, files and symbolic links; CPython's [realpath] and the
    kernel's path walk as two fuelled walkers) and about the model of
    [read_latex_file] WITH the fix [fixes/C15-strict-input-containment.diff]
    applied.  [Loop] is the model running out of fuel (symlink loop): every
    statement is about runs that return ([Ret]), for every amount of fuel, and
    [C15_fuel_independent] says that such a return value is the same under any
    larger fuel. *)
From Coq Require Import NArith List Bool Arith.
From PLV Require Import Base.PyStr FS.FsModel FS.InputFile
     Proofs.FsProofs Proofs.InputProofs Proofs.InputExamples.
Import ListNotations.

(** Containment.  For every file system [root] (whose root is not itself a
    link), every real current directory [cwd], every configured directory
    string [dir] (absolute or relative, any spelling), every requested name
    [fn]: if strict mode returns a non-empty content [c], then the configured
    directory resolves to a real path [d], the path the function settled on
    (after the implicit extension) resolves to a real path [p], [p] is a regular
    file with content [c], no prefix of [p] is a link ([canonical]: [p] IS the
    real path of that file), and [d] is a COMPONENT-wise prefix of [p]. *)
Theorem C15_contained : forall root cwd,
  (forall t, root <> Symlink t) -> canonical root cwd -> Forall proper cwd ->
  forall fuel dir fn c,
  read_latex_file fuel root cwd dir true fn = Ret c -> c <> [] ->
  exists d p s,
    realpath_c fuel root cwd dir = Some d /\
    candidate fuel root cwd dir fn = Some s /\ realpath_c fuel root cwd s = Some p /\
    canonical root d /\ canonical root p /\ Forall proper d /\ Forall proper p /\
    lookup root p = Some (File c) /\ is_prefix d p.
Proof. exact contained. Qed.

(** Names that resolve inside are read: if the path the function settles on
    resolves to a regular file whose real path is component-wise inside the
    real path of the directory, strict mode returns exactly its content. *)
Theorem C15_inside_is_read : forall root cwd,
  (forall t, root <> Symlink t) -> canonical root cwd -> Forall proper cwd ->
  forall fuel es dir fn s d p c,
  root = Dir es ->
  candidate fuel root cwd dir fn = Some s ->
  realpath_c fuel root cwd s = Some p -> realpath_c fuel root cwd dir = Some d ->
  is_prefix d p -> lookup root p = Some (File c) ->
  read_latex_file fuel root cwd dir true fn = Ret c.
Proof. exact inside_is_read. Qed.

(** Which path the function settles on: the real path of the joined name if it
    exists, else that + ".tex" if that exists, else that + ".latex" if that
    exists, else the real path of the joined name. *)
Theorem C15_candidate_cases : forall root cwd fuel dir fn s,
  candidate fuel root cwd dir fn = Some s ->
  exists s0, realpath fuel root cwd (os_path_join dir fn) = Some s0 /\
   ((path_exists fuel root cwd s0 = Some true /\ s = s0) \/
    (path_exists fuel root cwd s0 = Some false /\ path_exists fuel root cwd (s0 ++ ext_tex) = Some true
       /\ s = s0 ++ ext_tex) \/
    (path_exists fuel root cwd s0 = Some false /\ path_exists fuel root cwd (s0 ++ ext_tex) = Some false
       /\ path_exists fuel root cwd (s0 ++ ext_latex) = Some true /\ s = s0 ++ ext_latex) \/
    (path_exists fuel root cwd s0 = Some false /\ path_exists fuel root cwd (s0 ++ ext_tex) = Some false
       /\ path_exists fuel root cwd (s0 ++ ext_latex) = Some false /\ s = s0)).
Proof. exact candidate_cases. Qed.

(** The string test of the fixed code is component-wise containment on real paths. *)
Theorem C15_is_within_componentwise : forall d p, Forall proper d -> Forall proper p ->
  (is_within (render d) (render p) = true <-> is_prefix d p).
Proof.
  intros d p Hd Hp. split; [exact (is_within_prefix d p Hd Hp) | exact (prefix_is_within d p Hd)].
Qed.

(** [realpath] returns a real path: none of its prefixes is a link, and each
    component is a proper name (non-empty, no slash, not "." or ".."). *)
Theorem C15_realpath_is_real : forall root cwd fuel s p,
  (forall t, root <> Symlink t) -> canonical root cwd -> Forall proper cwd ->
  realpath_c fuel root cwd s = Some p -> canonical root p /\ Forall proper p.
Proof. intros root cwd fuel s p H1 H2 H3. exact (realpath_c_real root cwd H1 H2 H3 fuel s p). Qed.

(** ... and the kernel's own walk ([stat]/[open]) along the string of a real
    path ends at that very path: the file opened is the file checked. *)
Theorem C15_open_opens_checked_path : forall root cwd fuel p r,
  canonical root p -> Forall proper p -> kstat fuel root cwd (render p) = KOk r -> r = p.
Proof. intros root cwd fuel p r. exact (kstat_render root cwd fuel p r). Qed.

(** No directory set: nothing is read, whatever the file system. *)
Theorem C15_no_directory : forall fuel root root' cwd cwd' strict fn,
  read_input_file fuel root cwd None strict fn = Ret [] /\
  read_input_file fuel root cwd None strict fn = read_input_file fuel root' cwd' None strict fn.
Proof. exact no_directory. Qed.

(** A returned value does not depend on the fuel. *)
Theorem C15_fuel_independent : forall root cwd f f' dir strict fn c, f <= f' ->
  read_latex_file f root cwd dir strict fn = Ret c -> read_latex_file f' root cwd dir strict fn = Ret c.
Proof. exact read_latex_file_mono. Qed.

(** The code BEFORE the fix violates containment (findings F7a, F7b, F7c):
    each is a concrete file system, directory and name on which strict mode
    returns the content of a file whose real path is not under the directory. *)
Theorem C15_prefix_code_escapes_by_string_prefix : escapes read_latex_file_orig.
Proof. exact orig_escapes_string_prefix. Qed.
Theorem C15_prefix_code_escapes_by_late_extension : escapes read_latex_file_orig.
Proof. exact orig_escapes_extension_after_check. Qed.
Theorem C15_prefix_code_escapes_by_missing_directory : escapes read_latex_file_orig.
Proof. exact orig_escapes_missing_directory. Qed.

(** Non-vacuity: the hypotheses of [C15_contained] hold of a concrete world in
    which the directory is given through a link and the name walks through
    directory links out of and back into the directory, a "..", and the
    implicit extension; the hypotheses of [C15_inside_is_read] hold of a
    concrete name; and the fixed model refuses the three escapes above. *)
Example C15_contained_nonvacuous :
  (forall t, world <> Symlink t) /\ canonical world [] /\ Forall proper (@nil comp) /\
  read_latex_file 60 world [] s_blink true n_through = Ret c_in1 /\ c_in1 <> [].
Proof.
  split; [exact world_not_link|]. split; [exact canonical_root_nil|]. split; [constructor|]. exact ex_through.
Qed.

Example C15_inside_is_read_nonvacuous :
  candidate 60 world [] s_base n_in = Some s_in_tex /\
  realpath_c 60 world [] s_in_tex = Some p_in /\ realpath_c 60 world [] s_base = Some p_base /\
  is_prefix p_base p_in /\ lookup world p_in = Some (File c_in1).
Proof. exact ex_inside_hyps. Qed.

Example C15_fixed_code_refuses_the_escapes :
  read_latex_file 60 world [] s_base true n_evil = Ret [] /\
  read_latex_file 60 world [] s_base true n_lnk = Ret [] /\
  read_latex_file 60 world [] s_nodir true [] = Ret [].
Proof. exact ex_fixed_refuses. Qed.

Print Assumptions C15_contained.
Print Assumptions C15_inside_is_read.
Print Assumptions C15_candidate_cases.
Print Assumptions C15_is_within_componentwise.
Print Assumptions C15_realpath_is_real.
Print Assumptions C15_open_opens_checked_path.
Print Assumptions C15_no_directory.
Print Assumptions C15_fuel_independent.
Print Assumptions C15_prefix_code_escapes_by_string_prefix.
Print Assumptions C15_prefix_code_escapes_by_late_extension.
Print Assumptions C15_prefix_code_escapes_by_missing_directory.
