(** C10 — each node's math/text mode is the one implied by the enclosing structure.

    Statements only ([exact] of lemmas of [Proofs/ParserModes*.v]) followed by
    [Print Assumptions].  The parser is the frozen model [Parse/Parser.v]
    (one fuelled [run] over tasks, strict and tolerant mode); [walker_state cx]
    is the parsing state a [LatexWalker] starts with for the context [cx].

    The specification ([Proofs/ParserModesSpec.v], a 40-line structural
    recursion [impliedb cx m n], never mentioning the parser; the same as
    inference rules [Implied] in [Proofs/ParserModesDecl.v]): at a place where
    the enclosing constructs imply mode [m],
    - a characters / comment / group / macro / environment / specials / math
      node records exactly [m];
    - a group's body inherits [m]; a node list passes [m] to its items;
    - the body of a math node is in mode [{in_math := true; math_delim := Some dl}]
      where [dl] is the node's opening delimiter; the node's display flag is
      [is_display_open dl] ([$$] and [\[]) and [(dl, dr)] is one of the pairs of
      the default delimiter lists ([$ $], [\( \)], [$$ $$], [\[ \]]);
    - the i-th argument of a macro / environment / specials node whose spec
      (looked up in [cx] by the node's name) has a standard argument list is in
      mode [delta_mode m d_i], [d_i] the i-th argument's parsing-state delta
      ([ADEnterMath]: math without delimiter, [ADLeaveMath]: text, [ADNone] and
      beyond the list: [m]); legacy verbatim arguments inherit [m];
    - an environment's body is math without delimiter if its spec has
      [sp_body_math], else [m]. *)
From Coq Require Import NArith ZArith List Bool Arith.
From PLV Require Import Base.PyStr Tok.PState Tok.Tokenizer Parse.Nodes Parse.Parser Parse.ParseWire
                        Gen.GenWalkerCtx.
From PLV Require Import Proofs.PStateProofs Proofs.ParserModesSpec Proofs.ParserModesDecl
                        Proofs.ParserModesState Proofs.ParserModes Proofs.ParserModesDollars
                        Proofs.ParserModesDollarsBounded.
From PLV Require Import Doc.DocGrammar Proofs.ComposeDollars.
Import ListNotations.

(** * The specification *)

(** the executable spec decides the rule system *)
Theorem C10_spec_is_rules : forall cx m n, implied cx m n <-> Implied cx m n.
Proof. exact implied_iff_rules. Qed.

(** a node that is implied w.r.t. [m] records [m] *)
Theorem C10_spec_node_mode : forall cx m n m', implied cx m n -> node_mode n = Some m' -> m' = m.
Proof. exact implied_node_mode. Qed.

(** * C10_modes: ALL strings, ALL contexts, strict AND tolerant *)

(** Every tree handed back by a top-level parse is implied w.r.t. text mode.
    In tolerant mode this includes the trees assembled from recovery nodes. *)
Theorem C10_modes : forall (s : str) (tol : bool) (cx : context) (nl : node) (p : nat),
  parse_top s tol cx (walker_state cx) = Ok (ONode (Some nl)) p ->
  implied cx text_mode nl.
Proof. exact parse_top_modes. Qed.

Theorem C10_modes_rules : forall (s : str) (tol : bool) (cx : context) (nl : node) (p : nat),
  parse_top s tol cx (walker_state cx) = Ok (ONode (Some nl)) p ->
  Implied cx text_mode nl.
Proof. intros s tol cx nl p H. apply implied_iff_rules. exact (parse_top_modes s tol cx nl p H). Qed.

(** The same for EVERY fuel and every starting state satisfying the
    reachable-state invariant [good] (caches = function of the fields,
    default math delimiter lists), w.r.t. the mode of that state. *)
Theorem C10_modes_every_fuel : forall s tol cx fuel ps n p, good ps ->
  parse_content tol (run s tol cx fuel (TGeneral ps top_opts 0)) = Ok (ONode n) p ->
  oimpliedb cx (ps_mode ps) n = true.
Proof. exact parse_top_modes_fuel. Qed.

(** The generalised statement the induction is on: for every fuel and EVERY
    task.  [post tol cx t r] reads, by cases on the task [t] run with state
    [ps] (all under [good ps]; a collector's child-state policy must satisfy
    [child_ok]: its states are good and have the collector's mode):
    node-returning tasks: the returned node is implied w.r.t. [ps_mode ps];
    [TCollect]: if the nodes collected so far are implied, so are all collected
    nodes of the result; [TArgs]: the new arguments are implied argument-wise
    w.r.t. the deltas of the remaining specs; [TLegacyArgs]: all arguments are
    implied w.r.t. [ps_mode ps]; [TCall] (for the spec the context gives for the
    token): the call node is implied; and for every task, in tolerant mode, the
    recovery nodes carried by a [PErr] are implied w.r.t. [ps_mode ps]. *)
Theorem C10_modes_every_task : forall s tol cx fuel t, post tol cx t (run s tol cx fuel t).
Proof. exact run_post. Qed.

(** read off for the node-returning tasks, through [parse_content] *)
Theorem C10_modes_tasks : forall s tol cx fuel t n p,
  match t with
  | TGroup ps _ _ _ _ | TMath ps _ _ | TEnvBody ps _ _ | TChars ps _ _ _ _ | TVerbDelim ps _ _
  | TStdArg ps _ _ => good ps
  | TGeneral ps o _ => good ps /\ child_ok ps (g_child o)
  | TExpr ps _ _ _ _ acc _ => good ps /\ all_impliedb cx (ps_mode ps) acc = true
  | TCall ps t sp _ => good ps /\ call_spec cx (tk t) (targ t) = Some sp
  | _ => False
  end ->
  parse_content tol (run s tol cx fuel t) = Ok (ONode n) p ->
  oimpliedb cx (match t with
                | TCollect ps _ _ _ | TGeneral ps _ _ | TGroup ps _ _ _ _ | TMath ps _ _ | TEnvBody ps _ _
                | TExpr ps _ _ _ _ _ _ | TChars ps _ _ _ _ | TVerbDelim ps _ _ | TStdArg ps _ _
                | TArgs ps _ _ _ | TLegacyArgs ps _ _ | TCall ps _ _ _ => ps_mode ps end) n = true.
Proof. exact task_modes. Qed.

(** * How the mode is threaded through the parsing states *)

(** the state constructors of [run]: group delimiters and [enable_environments]
    do not touch the mode; entering math sets it; leaving math clears the
    delimiter; an argument delta acts as the spec's [delta_mode] *)
Theorem C10_state_modes : forall ps, good ps ->
  (forall o c, ps_mode (ps_add_group ps o c) = ps_mode ps)
  /\ (forall d, ps_mode (sub_context ps [UGroupDelims d]) = ps_mode ps)
  /\ ps_mode (sub_context ps [UEnEnvs false]) = ps_mode ps
  /\ (forall d, ps_mode (ps_enter_math ps d) = math_mode d)
  /\ ps_mode (ps_leave_math ps) = text_mode
  /\ (forall d, ps_mode (apply_adelta ps d) = delta_mode (ps_mode ps) d).
Proof.
  intros ps G. repeat split; intros.
  - apply ps_mode_add_group; exact G.
  - apply ps_mode_group_delims; exact G.
  - apply ps_mode_no_envs; exact G.
  - apply ps_mode_enter_math.
  - apply ps_mode_leave_math.
  - apply ps_mode_apply_adelta.
Qed.

(** [good] is an invariant of those constructors, and holds of every walker state *)
Theorem C10_good_invariant : forall ps, good ps ->
  (forall o c, good (ps_add_group ps o c)) /\ good (sub_context ps [UEnEnvs false])
  /\ (forall d, good (ps_enter_math ps d)) /\ good (ps_leave_math ps)
  /\ (forall d, good (apply_adelta ps d)).
Proof.
  intros ps G. split; [|split; [|split; [|split]]]; intros.
  - apply good_add_group; exact G.
  - apply good_no_envs; exact G.
  - apply good_enter_math; exact G.
  - apply good_leave_math; exact G.
  - apply good_apply_adelta; exact G.
Qed.
Theorem C10_good_walker_state : forall cx, good (walker_state cx) /\ ps_mode (walker_state cx) = text_mode.
Proof. intros cx. split; [apply good_walker_state | apply ps_mode_walker_state]. Qed.

(** the display flag and closing delimiter of a math node: a math-delimiter
    token read under a good state, whose text is an opening delimiter of the
    default tables with expected closing delimiter [cd] *)
Theorem C10_math_token : forall s tol ps pos t cd k, good ps ->
  next_tok s tol ps pos = TokOk t -> mode_of_tok t = true ->
  dict_get default_by_open (targ t) = Some (cd, k) ->
  math_delims_ok (tokkind_eqb (tk t) TkMathDisplay) (targ t) cd = true.
Proof. exact math_token_delims_ok. Qed.

(** * C10_dollars

    Full statement of DESIGN section 6 (it needs the grammar round trip C02
    for dollar documents; now proved for the dollar documents of the core
    document grammar, all sizes: see [C10_dollars_grammar_partial] at the end of
    this file):

      Theorem C10_dollars : forall d, ok_doc ctx0 d = true -> dollar_doc d ->
        math_nodes (parse strict ctx0 (unparse d)) = math_nodes_of d.

    Proved instead: the tokenizer facts that decide how a run of dollar signs
    is split, for every input and every good state ([_partial]); the
    agreement of the whole parser with an independent reading of dollar runs
    for ALL strings up to a length bound ([C10_dollars_bounded*], the bound is
    in the statement); the two instances of the property text. *)

(** in math mode the expected closing delimiter is matched BEFORE the
    longest-match table *)
Theorem C10_dollars_closing_first_partial : forall ps rest pos pre cd k,
  f_in_math (ps_f ps) = true -> c_expect_close (ps_c ps) = Some (cd, k) ->
  startswith rest cd = true ->
  read_math ps rest pos pre = Some (mk k cd pos (pos + length cd) pre []).
Proof. exact read_math_expected_first. Qed.

(** the instance named in the property: expecting [$], a [$] is the closing
    inline token even when another [$] follows *)
Theorem C10_dollars_read_math_partial : forall ps r pos pre,
  f_in_math (ps_f ps) = true -> c_expect_close (ps_c ps) = Some ([36%N], TkMathInline) ->
  read_math ps (36%N :: r) pos pre = Some (mk TkMathInline [36%N] pos (pos + 1) pre []).
Proof. exact read_math_dollar_closes. Qed.

(** a [$] at the reader position, every continuation, every good state with
    math enabled: inside [$..$] it closes (inline, one character); inside
    [$$..$$] a [$$] closes (display); outside math [$$] opens display math and
    a single [$] inline math *)
Theorem C10_dollars_token_partial : forall s tol ps pos r, good ps -> f_en_math (ps_f ps) = true ->
  skipn pos s = 36%N :: r ->
  (ps_mode ps = math_mode (Some [36%N]) ->
   next_tok s tol ps pos = TokOk (mk TkMathInline [36%N] pos (pos + 1) [] []))
  /\ (ps_mode ps = math_mode (Some [36%N; 36%N]) -> forall r', r = 36%N :: r' ->
      next_tok s tol ps pos = TokOk (mk TkMathDisplay [36%N; 36%N] pos (pos + 2) [] []))
  /\ (in_math (ps_mode ps) = false -> forall r', r = 36%N :: r' ->
      next_tok s tol ps pos = TokOk (mk TkMathDisplay [36%N; 36%N] pos (pos + 2) [] []))
  /\ (in_math (ps_mode ps) = false -> startswith r [36%N] = false ->
      next_tok s tol ps pos = TokOk (mk TkMathInline [36%N] pos (pos + 1) [] [])).
Proof. exact dollar_token. Qed.

(** [$a$$b$]: two inline formulas (strict and tolerant) *)
Example C10_dollars_two_inline : forall tol,
  parse_top [36;97;36;36;98;36]%N tol default_ctx (walker_state default_ctx) =
  Ok (ONode (Some (NList (Some 0) (Some 6)
    [Some (NMath 0 3 text_mode false [36%N] [36%N]
             (Some (NList (Some 1) (Some 2) [Some (NChars 1 2 (math_mode (Some [36%N])) [97%N])])));
     Some (NMath 3 6 text_mode false [36%N] [36%N]
             (Some (NList (Some 4) (Some 5) [Some (NChars 4 5 (math_mode (Some [36%N])) [98%N])])))]))) 6.
Proof. intros [|]; vm_compute; reflexivity. Qed.

(** [$$a$$]: one display formula *)
Example C10_dollars_one_display : forall tol,
  parse_top [36;36;97;36;36]%N tol default_ctx (walker_state default_ctx) =
  Ok (ONode (Some (NList (Some 0) (Some 5)
    [Some (NMath 0 5 text_mode true [36%N; 36%N] [36%N; 36%N]
             (Some (NList (Some 2) (Some 3) [Some (NChars 2 3 (math_mode (Some [36%N; 36%N])) [97%N])])))]))) 5.
Proof. intros [|]; vm_compute; reflexivity. Qed.

(** Bounded-exhaustive: ALL strings over {[$], [a]} up to length 14 (and over
    {[$], [a], [b]} up to length 9), strict and tolerant, default context.
    [dollar_agrees tol s]: if the independent reading [dollar_ref] of [s]
    ([$$..$$] display, [$..$] inline, text runs between; [None] if unbalanced
    or nested) accepts [s], then [parse_top] succeeds and its top-level items
    are exactly those formulas (kind and contents) and text runs. *)
Theorem C10_dollars_bounded : forall tol s,
  length s <= 14 -> Forall (fun c => In c [36; 97]%N) s -> dollar_agrees tol s = true.
Proof. exact dollars_bounded_2. Qed.

Theorem C10_dollars_bounded_two_letters : forall tol s,
  length s <= 9 -> Forall (fun c => In c [36; 97; 98]%N) s -> dollar_agrees tol s = true.
Proof. exact dollars_bounded_3. Qed.

(** the reference reads [$a$$b$] as two inline and [$$a$$] as one display
    formula, rejects [$a$$], and accepts 485 of the 2047 strings to length 10 *)
Example C10_dollars_reference_nonvacuous :
  dollar_ref 7 [36;97;36;36;98;36]%N = Some [(DInline, [97%N]); (DInline, [98%N])]
  /\ dollar_ref 6 [36;36;97;36;36]%N = Some [(DDisplay, [97%N])]
  /\ dollar_ref 8 [97;36;36;36;36;98;98]%N = Some [(DChars, [97%N]); (DDisplay, []); (DChars, [98%N; 98%N])]
  /\ dollar_ref 5 [36;97;36;36]%N = None
  /\ N.of_nat (length (filter (fun s => match dollar_ref (S (length s)) s with Some _ => true | None => false end)
                              (enum [36; 97]%N 10))) = 485%N.
Proof. exact dollar_ref_examples. Qed.

(** * Non-vacuity *)

(** [$a\text{b $c$}$ \begin{equation}x\ensuremath{y}\end{equation}]: math,
    text in math, math in text in math, a math environment and a math-mode
    argument; the strict parse succeeds, consumes the 61 characters, and the
    tree is implied *)
Definition C10_ex1 : str :=
  [36;97;92;116;101;120;116;123;98;32;36;99;36;125;36;32;92;98;101;103;105;110;123;101;113;117;97;
   116;105;111;110;125;120;92;101;110;115;117;114;101;109;97;116;104;123;121;125;92;101;110;100;123;
   101;113;117;97;116;105;111;110;125]%N.
Example C10_modes_nonvacuous :
  match parse_top C10_ex1 false default_ctx (walker_state default_ctx) with
  | Ok (ONode (Some nl)) p => impliedb default_ctx text_mode nl && Nat.eqb p 61
  | _ => false
  end = true.
Proof. vm_compute. reflexivity. Qed.

(** tolerant mode with a recovered error ([\text{$a} b]: the closing brace
    arrives inside the formula): the strict parse fails, the tolerant one
    returns a tree built from recovery nodes, and that tree is implied *)
Definition C10_ex2 : str := [92;116;101;120;116;123;36;97;125;32;98]%N.
Example C10_modes_tolerant_nonvacuous :
  match parse_top C10_ex2 false default_ctx (walker_state default_ctx),
        parse_top C10_ex2 true default_ctx (walker_state default_ctx) with
  | PErr _ _, Ok (ONode (Some nl)) p => impliedb default_ctx text_mode nl && Nat.eqb p 11
  | _, _ => false
  end = true.
Proof. vm_compute. reflexivity. Qed.

(** the specification discriminates: the tree of [$a$] with the body recorded
    in text mode, with the wrong delimiter, as display math, or with [\)] as
    closing delimiter is rejected; so is a [\text] argument left in math mode *)
Example C10_spec_discriminates :
  let tree m d cl := NList (Some 0) (Some 3)
       [Some (NMath 0 3 text_mode d [36%N] cl
                (Some (NList (Some 1) (Some 2) [Some (NChars 1 2 m [97%N])])))] in
  let txt m := NMacro 0 7 (math_mode None) [116;101;120;116]%N []
       (Some ([[123%N]], [Some (NGroup 5 7 m [123%N] [125%N] None)])) in
  map (impliedb default_ctx text_mode)
      [tree (math_mode (Some [36%N])) false [36%N]; tree text_mode false [36%N];
       tree (math_mode None) false [36%N]; tree (math_mode (Some [36%N])) true [36%N];
       tree (math_mode (Some [36%N])) false [92;41]%N]
  = [true; false; false; false; false]
  /\ map (fun m => impliedb default_ctx (math_mode None) (txt m)) [text_mode; math_mode None]
  = [true; false].
Proof. vm_compute. split; reflexivity. Qed.

(** the clauses of the property text that are facts about the DEFAULT context
    (regenerated from /repo on every run): the argument of the [\text]-like
    macros is in text mode, the argument of [\ensuremath] in math mode, the
    bodies of the math environments in math mode; other macros / environments
    (here [\emph], [\mathrm], [enumerate]) inherit *)
Example C10_default_context_modes :
  forallb (fun nm => match arg_deltas (get_macro_spec default_ctx nm) with [ADLeaveMath] => true | _ => false end)
    [[109;98;111;120]%N;
     [116;101;120;116;114;109]%N;
     [116;101;120;116;105;116]%N;
     [116;101;120;116;98;102]%N;
     [116;101;120;116;109;100]%N;
     [116;101;120;116;115;99]%N;
     [116;101;120;116;115;102]%N;
     [116;101;120;116;115;108]%N;
     [116;101;120;116;116;116]%N;
     [116;101;120;116;117;112]%N;
     [116;101;120;116]%N] = true
  /\ arg_deltas (get_macro_spec default_ctx [101;110;115;117;114;101;109;97;116;104]%N) = [ADEnterMath]
  /\ forallb (fun nm => nmode_eqb (body_mode (get_env_spec default_ctx nm) text_mode) (math_mode None))
    [[101;113;117;97;116;105;111;110]%N;
     [101;113;117;97;116;105;111;110;42]%N;
     [101;113;110;97;114;114;97;121]%N;
     [101;113;110;97;114;114;97;121;42]%N;
     [97;108;105;103;110]%N;
     [97;108;105;103;110;42]%N;
     [103;97;116;104;101;114]%N;
     [103;97;116;104;101;114;42]%N;
     [102;108;97;108;105;103;110]%N;
     [102;108;97;108;105;103;110;42]%N;
     [109;117;108;116;108;105;110;101]%N;
     [109;117;108;116;108;105;110;101;42]%N;
     [97;108;105;103;110;97;116]%N;
     [97;108;105;103;110;97;116;42]%N;
     [115;112;108;105;116]%N] = true
  /\ arg_deltas (get_macro_spec default_ctx [101;109;112;104]%N) = [ADNone]
  /\ arg_deltas (get_macro_spec default_ctx [109;97;116;104;114;109]%N) = [ADNone]
  /\ body_mode (get_env_spec default_ctx [101;110;117;109;101;114;97;116;101]%N) text_mode = text_mode.
Proof. vm_compute. repeat split; reflexivity. Qed.

(** the hypotheses of the token theorem are satisfiable: the state inside
    [$...$] under the default context *)
Example C10_dollars_token_nonvacuous :
  let ps := ps_enter_math (walker_state default_ctx) (Some [36%N]) in
  f_en_math (ps_f ps) = true /\ ps_mode ps = math_mode (Some [36%N])
  /\ next_tok [36;97;36;36;98;36]%N false ps 2 = TokOk (mk TkMathInline [36%N] 2 3 [] []).
Proof. vm_compute. repeat split; reflexivity. Qed.

Print Assumptions C10_spec_is_rules.
Print Assumptions C10_spec_node_mode.
Print Assumptions C10_modes.
Print Assumptions C10_modes_rules.
Print Assumptions C10_modes_every_fuel.
Print Assumptions C10_modes_every_task.
Print Assumptions C10_modes_tasks.
Print Assumptions C10_state_modes.
Print Assumptions C10_good_invariant.
Print Assumptions C10_good_walker_state.
Print Assumptions C10_math_token.
Print Assumptions C10_dollars_closing_first_partial.
Print Assumptions C10_dollars_read_math_partial.
Print Assumptions C10_dollars_token_partial.
Print Assumptions C10_dollars_bounded.
Print Assumptions C10_dollars_bounded_two_letters.
Print Assumptions C10_dollars_reference_nonvacuous.
Print Assumptions C10_dollars_two_inline.
Print Assumptions C10_dollars_one_display.
Print Assumptions C10_modes_nonvacuous.
Print Assumptions C10_modes_tolerant_nonvacuous.
Print Assumptions C10_spec_discriminates.
Print Assumptions C10_default_context_modes.
Print Assumptions C10_dollars_token_nonvacuous.

(** * C10_dollars for ALL dollar documents of the core grammar (composition with C02)

    [Properties/C02.v: C02_parse_unparse_partial] gives the tree the strict
    parser returns for every written document of the core document grammar
    ([Doc/DocGrammar.v]) that satisfies [ok_doc].  A DOLLAR document
    ([dollar_doc]) is a sequence of text runs [Text ws cs] and inline formulas
    [Math ws MDollar body tr] (written [ws $ body tr $]) whose bodies are text
    runs; [ok_doc] demands of it that no formula body is empty or begins with
    [$] (an empty [$$] is the display delimiter) and that text characters are
    inert.  For EVERY context and EVERY such document, of any size:

    the parse succeeds, consumes the input, and the [dview] of its items (kind,
    recorded mode, display flag, delimiters, characters; positions dropped) is
    [dollar_spec d]: every maximal text run is one chars node in TEXT mode;
    every formula is one math node recorded in TEXT mode, inline, delimiters
    [$] [$], whose body is one chars node in MATH mode with delimiter [$]
    carrying the body's characters.  Hence ([C10_dollars_math_nodes_partial])
    the math nodes of the parse are exactly the formulas of the document, in
    order — [$a$$b$] is two inline formulas, whatever comes before or after.

    PARTIAL with respect to the DESIGN statement: the core grammar has no
    [$$ .. $$] display item (those stay covered by [C10_dollars_bounded*] and
    the token theorems), and formula bodies are text only. *)
Theorem C10_dollars_grammar_partial : forall cx d, ok_doc cx d = true -> dollar_doc d = true ->
  exists p e items,
    parse_top (unparse d) false cx (walker_state cx) = Ok (ONode (Some (NList p e items))) (length (unparse d))
    /\ map dviewo items = dollar_spec d.
Proof. exact dollars_grammar. Qed.

Theorem C10_dollars_math_nodes_partial : forall cx d, ok_doc cx d = true -> dollar_doc d = true ->
  exists p e items,
    parse_top (unparse d) false cx (walker_state cx) = Ok (ONode (Some (NList p e items))) (length (unparse d))
    /\ filter is_dmath (map dviewo items)
       = map (fun t => VMath text_mode false [36%N] [36%N] [VChars (math_mode (Some [36%N])) t])
             (formulas (d_items d))
    /\ Forall (fun t => t <> []) (formulas (d_items d)).
Proof. exact dollars_math_nodes. Qed.

(** the same at the level of the meaning function: any parsing state in text mode, any offset *)
Theorem C10_dollars_tree_partial : forall cx ps pos d, ps_mode ps = text_mode -> dollar_doc d = true ->
  map dviewo (fst (tree_of cx ps pos d)) = dollar_spec d.
Proof. exact dollar_tree. Qed.

(** C10's per-node specification instantiated on the meaning [tree_of] of EVERY
    document of the core grammar (groups, macros with their argument deltas,
    [$..$] [\(..\)] [\[..\]], comments, paragraph breaks): the tree is implied
    w.r.t. text mode *)
Theorem C10_modes_grammar : forall cx d, ok_doc cx d = true ->
  implied cx text_mode (gen_nodelist 0 (fst (tree_of cx (walker_state cx) 0 d))).
Proof. exact grammar_modes. Qed.

(** non-vacuity: [$a$$b$] as a dollar document (two formulas, no text), and
    [x $a b $ yz$\nc$\n] (text with whitespace on both sides, a formula with inner and trailing
    whitespace, two adjacent text runs merged, a formula starting with a newline); [$$a$$]
    is not a dollar document satisfying [ok_doc] (its first formula would be empty) *)
Section DollarExample.
  Open Scope N_scope.
  Let dd : doc := {| d_items := [Math [] MDollar [Text [] [97]] []; Math [] MDollar [Text [] [98]] []];
                     d_trail := [] |}.
  Let de : doc := {| d_items := [Text [] [120]; Math [32] MDollar [Text [] [97]; Text [32] [98]] [32];
                                 Text [32] [121]; Text [] [122]; Math [] MDollar [Text [10] [99]] []];
                     d_trail := [10] |}.
  Let bad : doc := {| d_items := [Math [] MDollar [] []; Text [] [97]; Math [] MDollar [] []]; d_trail := [] |}.
  Example C10_dollars_grammar_nonvacuous :
    ok_doc default_ctx dd = true /\ dollar_doc dd = true /\ unparse dd = [36;97;36;36;98;36]
    /\ dollar_spec dd = [VMath text_mode false [36] [36] [VChars (math_mode (Some [36])) [97]];
                         VMath text_mode false [36] [36] [VChars (math_mode (Some [36])) [98]]]
    /\ ok_doc default_ctx de = true /\ dollar_doc de = true
    /\ unparse de = [120; 32; 36; 97; 32; 98; 32; 36; 32; 121; 122; 36; 10; 99; 36; 10]
    /\ dollar_spec de = [VChars text_mode [120; 32];
                         VMath text_mode false [36] [36] [VChars (math_mode (Some [36])) [97; 32; 98; 32]];
                         VChars text_mode [32; 121; 122];
                         VMath text_mode false [36] [36] [VChars (math_mode (Some [36])) [10; 99]];
                         VChars text_mode [10]]
    /\ formulas (d_items de) = [[97; 32; 98; 32]; [10; 99]]
    (* the theorem's conclusion checked independently by evaluation *)
    /\ match parse_top (unparse de) false default_ctx (walker_state default_ctx) with
       | Ok (ONode (Some (NList _ _ l))) p => Some (map dviewo l, p)
       | _ => None end = Some (dollar_spec de, 16%nat)
    /\ unparse bad = [36;36;97;36;36] /\ dollar_doc bad = true /\ ok_doc default_ctx bad = false.
  Proof. vm_compute. repeat split. Qed.
End DollarExample.

Print Assumptions C10_dollars_grammar_partial.
Print Assumptions C10_dollars_math_nodes_partial.
Print Assumptions C10_dollars_tree_partial.
Print Assumptions C10_modes_grammar.
Print Assumptions C10_dollars_grammar_nonvacuous.

(** * C10 over the EXTENDED document grammar (composition with [C02_parse_unparse2_partial])

    [Doc/DocGrammar2.v]: the core grammar plus environments with arguments and
    math bodies, [$$ .. $$], specials with arguments, optional delimited
    arguments / star written or absent, single-token mandatory arguments,
    verbatim macro / environments / arguments, comments in front of arguments. *)
From PLV Require Import Doc.DocGrammar2 Proofs.Compose2Dollars.

(** the tree that EVERY document of the extended grammar means — which is the
    tree the strict (and the tolerant) parser returns for its written form,
    [C02_parse_unparse2_partial] — satisfies C10's implied-mode specification
    w.r.t. text mode: every node records the mode implied by its enclosing
    constructs (math environments, leave-math / enter-math argument deltas,
    the four math delimiter pairs).  ALL contexts, ALL documents. *)
Theorem C10_modes_grammar2 : forall cx d, ok_doc2 cx d = true ->
  implied cx text_mode (gen_nodelist 0 (fst (tree_of2 cx (walker_state cx) 0 d))).
Proof. exact grammar_modes2. Qed.

(** C10_dollars for dollar documents WITH display formulas: [dollar_doc2 d] —
    every item is a text run [Text2 ws cs], an inline formula
    [Math2 ws MDollar body tr] (written [ws $ body tr $]) or a display formula
    [Math2 ws MDollars body tr] (written [ws $$ body tr $$]), bodies made of text
    runs.  For EVERY context and EVERY such document satisfying [ok_doc2]: the
    parse succeeds, consumes the input, and the [dview] of its items is
    [dollar_spec2 d]: one chars node in text mode per maximal text run; one math
    node per formula, recorded in text mode, [display = false] and delimiters
    [$] [$] for an inline formula, [display = true] and delimiters [$$] [$$] for
    a display formula, whose body is one chars node in math mode with the
    opening delimiter recorded.

    PARTIAL with respect to the DESIGN statement only in that formula bodies
    are text (bodies with macros, groups, environments are covered, for the
    modes, by [C10_modes_grammar2]). *)
Theorem C10_dollars_grammar2_partial : forall cx d, ok_doc2 cx d = true -> dollar_doc2 d = true ->
  exists p e items,
    parse_top (unparse2 d) false cx (walker_state cx) = Ok (ONode (Some (NList p e items))) (length (unparse2 d))
    /\ map dviewo items = dollar_spec2 d.
Proof. exact dollars_grammar2. Qed.

(** the math nodes of the parse are exactly the formulas of the document, in
    order, each inline / display as written; no inline formula is empty *)
Theorem C10_dollars_math_nodes2_partial : forall cx d, ok_doc2 cx d = true -> dollar_doc2 d = true ->
  exists p e items,
    parse_top (unparse2 d) false cx (walker_state cx) = Ok (ONode (Some (NList p e items))) (length (unparse2 d))
    /\ filter is_dmath (map dviewo items) = map (fun kt => vmath_of (fst kt) (snd kt)) (formulas2 (d_items2 d))
    /\ Forall (fun kt => fst kt = MDollar -> snd kt <> []) (formulas2 (d_items2 d)).
Proof. exact dollars_math_nodes2. Qed.

(** the same at the level of the meaning function: any parsing state in text mode, any offset *)
Theorem C10_dollars_tree2_partial : forall cx ps pos d, ps_mode ps = text_mode -> dollar_doc2 d = true ->
  map dviewo (fst (tree_of2 cx ps pos d)) = dollar_spec2 d.
Proof. exact dollar_tree2. Qed.

Section DollarExample2.
  Open Scope N_scope.
  (** the property's own examples are instances: [$a$$b$] is the dollar document of two
      inline formulas, [$$a$$] the dollar document of one display formula *)
  Let dd : doc2 := {| d_items2 := [Math2 [] MDollar [Text2 [] [97]] []; Math2 [] MDollar [Text2 [] [98]] []];
                      d_trail2 := [] |}.
  Let d1 : doc2 := {| d_items2 := [Math2 [] MDollars [Text2 [] [97]] []]; d_trail2 := [] |}.
  Example C10_dollars_two_inline_instance :
    ok_doc2 default_ctx dd = true /\ dollar_doc2 dd = true /\ unparse2 dd = [36;97;36;36;98;36]
    /\ dollar_spec2 dd = [VMath text_mode false [36] [36] [VChars (math_mode (Some [36])) [97]];
                          VMath text_mode false [36] [36] [VChars (math_mode (Some [36])) [98]]].
  Proof. vm_compute. repeat split. Qed.
  Example C10_dollars_one_display_instance :
    ok_doc2 default_ctx d1 = true /\ dollar_doc2 d1 = true /\ unparse2 d1 = [36;36;97;36;36]
    /\ dollar_spec2 d1 = [VMath text_mode true [36;36] [36;36] [VChars (math_mode (Some [36;36])) [97]]].
  Proof. vm_compute. repeat split. Qed.

  (** [x $$a b $$$c$ y$$$$\n$d$\n]: display formula, inline formula directly after it, text,
      an empty display formula, a formula after a newline; the conclusion of the theorem is
      also checked independently by evaluation of the parser *)
  Let de : doc2 := {| d_items2 := [Text2 [] [120]; Math2 [32] MDollars [Text2 [] [97]; Text2 [32] [98]] [32];
                                   Math2 [] MDollar [Text2 [] [99]] []; Text2 [32] [121];
                                   Math2 [] MDollars [] []; Math2 [10] MDollar [Text2 [] [100]] []];
                      d_trail2 := [10] |}.
  Example C10_dollars_grammar2_nonvacuous :
    ok_doc2 default_ctx de = true /\ dollar_doc2 de = true
    /\ unparse2 de = [120;32;36;36;97;32;98;32;36;36;36;99;36;32;121;36;36;36;36;10;36;100;36;10]
    /\ dollar_spec2 de = [VChars text_mode [120; 32];
                          VMath text_mode true [36;36] [36;36] [VChars (math_mode (Some [36;36])) [97;32;98;32]];
                          VMath text_mode false [36] [36] [VChars (math_mode (Some [36])) [99]];
                          VChars text_mode [32; 121];
                          VMath text_mode true [36;36] [36;36] [];
                          VChars text_mode [10];
                          VMath text_mode false [36] [36] [VChars (math_mode (Some [36])) [100]];
                          VChars text_mode [10]]
    /\ formulas2 (d_items2 de) = [(MDollars, [97;32;98;32]); (MDollar, [99]); (MDollars, []); (MDollar, [100])]
    /\ match parse_top (unparse2 de) false default_ctx (walker_state default_ctx) with
       | Ok (ONode (Some (NList _ _ l))) p => Some (map dviewo l, p)
       | _ => None end = Some (dollar_spec2 de, 24%nat).
  Proof. vm_compute. repeat split. Qed.

  (** [\begin{equation}x\text{a $b$}\end{equation}\ensuremath{y}$$z$$]: a document of the
      extended grammar with a math environment, a leave-math argument inside it containing an
      inline formula, an enter-math argument and a display formula; the recorded modes of its
      character leaves *)
  Let dm : doc2 := {| d_items2 :=
    [Env2 [] [] [101;113;117;97;116;105;111;110] []
       [Text2 [] [120];
        Mac2 [] [116;101;120;116] [] [Grp2 [] [Text2 [] [97]; Math2 [32] MDollar [Text2 [] [98]] []] []]] [] [];
     Mac2 [] [101;110;115;117;114;101;109;97;116;104] [] [Grp2 [] [Text2 [] [121]] []];
     Math2 [] MDollars [Text2 [] [122]] []]; d_trail2 := [] |}.
  Example C10_modes_grammar2_nonvacuous :
    ok_doc2 default_ctx dm = true /\ length (unparse2 dm) = 62%nat
    /\ leaf_modes (gen_nodelist 0 (fst (tree_of2 default_ctx (walker_state default_ctx) 0 dm)))
       = [([120], math_mode None); ([97;32], text_mode); ([98], math_mode (Some [36]));
          ([121], math_mode None); ([122], math_mode (Some [36;36]))].
  Proof. vm_compute. repeat split. Qed.
End DollarExample2.

Print Assumptions C10_modes_grammar2.
Print Assumptions C10_dollars_grammar2_partial.
Print Assumptions C10_dollars_math_nodes2_partial.
Print Assumptions C10_dollars_tree2_partial.
Print Assumptions C10_dollars_two_inline_instance.
Print Assumptions C10_dollars_one_display_instance.
Print Assumptions C10_dollars_grammar2_nonvacuous.
Print Assumptions C10_modes_grammar2_nonvacuous.

(** * C10 over the THIRD document grammar (composition with [C02_parse_unparse3_partial])

    [Doc/DocGrammar3.v]: the extended grammar (embedded by [up2_doc], same side
    conditions, written form and meaning: [C02_extended_grammar_embeds]) plus
    - [WPar3 ws mid]: a whitespace run with two or more newlines in a context WITHOUT the
      paragraph specials (pending characters, like text);
    - [PArg3 ws mid]: a paragraph break as the single-token argument of a call (a [\n\n]
      specials node without arguments where the context has these specials, else a
      characters node), recorded in the mode the argument's delta implies;
    - [BGrp3 ws oc cc body tr]: a delimited group written directly in the body of a
      delimited argument [oc … cc] (text, comments, nested such groups). *)
From PLV Require Import Doc.DocGrammar3 Proofs.Compose3Modes.

(** For EVERY context and EVERY document of the third grammar satisfying [ok_doc3], in
    BOTH parsing modes: the parse of the written form succeeds, consumes the input, returns
    the tree the document means, and that tree satisfies C10's implied-mode specification
    w.r.t. text mode — every node records the mode implied by its enclosing constructs. *)
Theorem C10_modes_grammar3 : forall cx d, ok_doc3 cx d = true ->
  forall tol, exists nl,
    parse_top (unparse3 d) tol cx (walker_state cx) = Ok (ONode (Some nl)) (length (unparse3 d))
    /\ nl = gen_nodelist 0 (fst (tree_of3 cx (walker_state cx) 0 d))
    /\ implied cx text_mode nl.
Proof. exact grammar_modes3. Qed.

(** the same as a statement about the meaning function alone (the form of [C10_modes_grammar2]) *)
Theorem C10_modes_grammar3_tree : forall cx d, ok_doc3 cx d = true ->
  implied cx text_mode (gen_nodelist 0 (fst (tree_of3 cx (walker_state cx) 0 d))).
Proof. exact grammar_modes3_tree. Qed.

(** [C10_modes_grammar2] is the instance at embedded documents *)
Theorem C10_modes_grammar2_is_instance : forall cx d, ok_doc2 cx d = true ->
  implied cx text_mode (gen_nodelist 0 (fst (tree_of2 cx (walker_state cx) 0 d))).
Proof. exact grammar_modes2_from_third. Qed.

Section ModesExample3.
  Open Scope N_scope.
  (** [$\sqrt[a[b]]{k}$\textbf\n\nx] under the default context: a group written directly in an
      optional argument, inside a formula ([BGrp3]); a paragraph break as the argument of
      [\textbf] ([PArg3]: the specials node [\n\n], in text mode) *)
  Let d1 : doc3 := {| d_items3 :=
    [Math3 [] MDollar
       [Mac3 [] [115;113;114;116] []
          [Brk3 [] 91 93 [Text3 [] [97]; BGrp3 [] 91 93 [BText [] [98]] []] []; Grp3 [] [Text3 [] [107]] []]] [];
     Mac3 [] [116;101;120;116;98;102] [] [PArg3 [] []]; Text3 [] [120]]; d_trail3 := [] |}.
  (** a context WITHOUT the paragraph specials: the macro [\m] with one mandatory argument
      parsed in MATH mode (an enter-math delta) *)
  Let bare : context :=
    {| cx_macros := [([109], {| sp_args := APStd [{| a_spec := [123]; a_kind := AKExpr true; a_delta := ADEnterMath |}];
                              sp_body_math := false |})];
       cx_envs := []; cx_specials := []; cx_unk_macro := None; cx_unk_env := None |}.
  (** [a\n\n$x\n \n$\m\n\n] under that context: whitespace runs with two newlines in text and in a
      formula ([WPar3]: part of the characters node), and as the argument of [\m] ([PArg3]:
      a characters node, in math mode without delimiter) *)
  Let d2 : doc3 := {| d_items3 :=
    [Text3 [] [97]; WPar3 [] []; Math3 [] MDollar [Text3 [] [120]; WPar3 [] [32]] [];
     Mac3 [] [109] [] [PArg3 [] []]]; d_trail3 := [] |}.
  Example C10_modes_grammar3_nonvacuous :
    (ok_doc3 default_ctx d1 = true /\ length (unparse3 d1) = 26%nat
     /\ parse_top (unparse3 d1) false default_ctx (walker_state default_ctx) = doc_result3 default_ctx d1
     /\ impliedb default_ctx text_mode (gen_nodelist 0 (fst (tree_of3 default_ctx (walker_state default_ctx) 0 d1))) = true
     /\ leaf_modes (gen_nodelist 0 (fst (tree_of3 default_ctx (walker_state default_ctx) 0 d1)))
        = [([97], math_mode (Some [36])); ([98], math_mode (Some [36])); ([107], math_mode (Some [36]));
           ([120], text_mode)])
    /\ (ok_doc3 bare d2 = true /\ length (unparse3 d2) = 13%nat
        /\ parse_top (unparse3 d2) false bare (walker_state bare) = doc_result3 bare d2
        /\ impliedb bare text_mode (gen_nodelist 0 (fst (tree_of3 bare (walker_state bare) 0 d2))) = true
        /\ leaf_modes (gen_nodelist 0 (fst (tree_of3 bare (walker_state bare) 0 d2)))
           = [([97;10;10], text_mode); ([120;10;32;10], math_mode (Some [36])); ([10;10], math_mode None)]).
  Proof. vm_compute. repeat split. Qed.
End ModesExample3.

Print Assumptions C10_modes_grammar3.
Print Assumptions C10_modes_grammar3_tree.
Print Assumptions C10_modes_grammar2_is_instance.
Print Assumptions C10_modes_grammar3_nonvacuous.
