(** C06 — tolerant mode: total, equals strict on valid input, keeps pre-error
    content.

    Statements only; the proofs are in [Proofs/ParserMono.v] (fuel
    monotonicity), [Proofs/ParserTok.v], [Proofs/ParserInv.v] (tokenizer facts,
    reachable-state invariant), [Proofs/ParserTermDefs.v], [Proofs/ParserTerm.v]
    (termination, no exception, totality) and [Proofs/ParserTermExamples.v].

    The model is [Parse/Parser.v]: one fuelled [run] over a task sum type;
    [parse_top s tol cx ps = parse_content (run (parse_fuel s cx) (TGeneral ps
    top_opts 0))] is [LatexWalker(s, tolerant_parsing=tol,
    latex_context=cx).parse_content(LatexGeneralNodesParser())]; the recursion
    budget is [parse_fuel s cx = length s * (8 + max_args cx) + 40 + max_args
    cx], where [max_args cx] is the maximal number of argument slots of any
    specification of the context [cx].  Exceptions are
    result constructors: [PErr] = LatexWalkerParseError, [REOS] =
    LatexWalkerEndOfStream, [RExn k] = any other exception class (KeyError,
    TypeError, impossible shapes), [OutOfFuel] = non-termination within the
    model's recursion budget.

    This file covers the clause "parsing any string terminates and raises no
    exception" of C06.  The clauses "equals strict on valid input"
    ([C06_agrees]) and "keeps the content before the first error"
    ([C06_prefix]) are stated and proved by another builder: see the marked
    places at the end. *)
From Coq Require Import NArith List Bool Arith.
From PLV Require Import Base.PyStr Tok.PState Tok.Tokenizer Parse.Nodes Parse.Parser Parse.ParseWire
     Proofs.ParserInv Proofs.ParserMono Proofs.ParserTermDefs Proofs.ParserTerm
     Proofs.ParserTermExamples Gen.GenWalkerCtx.
Import ListNotations.

(** ** Fuel is only a budget: more fuel never changes a result *)
Theorem C06_run_mono : forall s tol cx f f' t r,
  run s tol cx f t = r -> r <> OutOfFuel -> f <= f' -> run s tol cx f' t = r.
Proof. exact run_mono. Qed.

(** ** Termination: an explicit fuel bound for every reachable task

    [task_ok s cx t]: the task's position is inside [s], its parsing state
    satisfies the reachable-state invariant [good] (caches = tables recomputed
    from the fields, non-empty math delimiters), a collector's child-state
    policy is the one its group parser built, a math task's delimiter is a key
    of the by-open table, a call's specification has at most [max_args cx]
    argument slots.  [cst A t] is a constant of the task kind (at most
    [max (A + 2) (4 + slots)]).  With [A] units per remaining input character,
    [A >= 4] and [2 A >= max_args cx + 6], the task does not run out of fuel. *)
Theorem C06_fuel_enough : forall s tol cx A f t,
  4 <= A -> max_args cx + 6 <= 2 * A -> task_ok s cx t ->
  A * (length s - task_pos t) + cst A t <= f ->
  run s tol cx f t <> OutOfFuel.
Proof. exact run_fuel_enough. Qed.

(** ** No exception other than the parse errors, in either mode, for any fuel

    [RExn 2] (KeyError on the group delimiter dictionary), [RExn 3] (TypeError
    on a missing math delimiter entry) and [RExn 9] (impossible result shapes)
    are unreachable from every reachable task. *)
Theorem C06_no_exception : forall s tol cx f t k,
  task_ok s cx t -> run s tol cx f t <> RExn k.
Proof. exact run_no_exn. Qed.

(** ** The top-level parse terminates within the model's own fuel, for EVERY
    string and EVERY context

    [parse_fuel s cx = length s * fuel_unit cx + fuel_base cx] with [fuel_unit
    cx = 8 + max_args cx] and [fuel_base cx = 40 + max_args cx]: the unit
    satisfies the two constraints of [C06_fuel_enough] whatever the context
    is. *)
Theorem C06_fuel_is : forall s cx,
  parse_fuel s cx = length s * (8 + max_args cx) + (40 + max_args cx).
Proof. reflexivity. Qed.

Theorem C06_terminates : forall s tol cx,
  parse_top s tol cx (walker_state cx) <> OutOfFuel.
Proof. exact parse_top_terminates. Qed.

(** ** Tolerant parsing is total: a node list for every string *)
Theorem C06_total : forall s cx,
  exists nl p, parse_top s true cx (walker_state cx) = Ok (ONode (Some nl)) p.
Proof. exact C06_total_proof. Qed.

(** for comparison, strict parsing: a node list, or a parse error that carries
    the nodes read before it *)
Theorem C06_strict_outcome : forall s cx,
  (exists nl p, parse_top s false cx (walker_state cx) = Ok (ONode (Some nl)) p) \/
  (exists e p nl, parse_top s false cx (walker_state cx) = PErr e p /\ pe_nodes e = Some nl).
Proof. exact parse_top_strict_proof. Qed.

(** the reported reader position lies inside the input *)
Theorem C06_position_in_range : forall s tol cx v p,
  parse_top s tol cx (walker_state cx) = Ok v p -> p <= length s.
Proof. exact parse_top_pos_proof. Qed.

(** ** Instances *)

(** the default context (regenerated from /repo on every run): at most 10
    argument slots per specification *)
Example C06_default_ctx_max_args : max_args default_ctx <= 10.
Proof. exact default_ctx_max_args. Qed.

(** non-vacuity of [C06_total]: inputs on which strict parsing fails (a stray
    closing brace after valid content; unclosed math in an unclosed
    environment) and tolerant parsing returns a non-empty node list *)
Example C06_total_nonvacuous :
  is_perr (parse_top ex_stray false default_ctx (walker_state default_ctx)) = true /\
  is_nodes (parse_top ex_stray true default_ctx (walker_state default_ctx)) = true /\
  is_perr (parse_top ex_open false default_ctx (walker_state default_ctx)) = true /\
  is_nodes (parse_top ex_open true default_ctx (walker_state default_ctx)) = true.
Proof. exact (conj ex_stray_strict (conj ex_stray_tolerant (conj ex_open_strict ex_open_tolerant))). Qed.

(** non-vacuity of [C06_run_mono]: a call that has enough fuel, and one that has not *)
Example C06_run_mono_nonvacuous :
  let t := TGeneral (walker_state default_ctx) top_opts 0 in
  is_oof (run ex_stray true default_ctx 60 t) = false /\
  run ex_stray true default_ctx (parse_fuel ex_stray default_ctx) t = run ex_stray true default_ctx 60 t /\
  is_oof (run ex_stray true default_ctx 10 t) = true.
Proof. exact (conj (proj1 run_mono_nonvacuous) (conj (proj2 run_mono_nonvacuous) run_small_fuel)). Qed.

(** non-vacuity of [C06_fuel_enough]: its hypotheses at the top level *)
Example C06_fuel_enough_nonvacuous :
  4 <= 8 /\ max_args default_ctx + 6 <= 2 * 8 /\
  task_ok ex_open default_ctx (TGeneral (walker_state default_ctx) top_opts 0) /\
  need ex_open 8 (TGeneral (walker_state default_ctx) top_opts 0) <= parse_fuel ex_open default_ctx.
Proof. exact run_fuel_enough_nonvacuous. Qed.

(** a context with 11 argument slots (one specials [~] taking ten optional
    stars and a mandatory argument) and the 80-character input [~{~{~{...]:
    tolerant parsing returns the nested tree, strict parsing the parse error for
    the unclosed groups, within the model's fuel [80 * 19 + 51] ... *)
Example C06_many_slots_terminate :
  max_args (slots_ctx 10) = 11 /\
  parse_fuel (tilde_braces 40) (slots_ctx 10) = 19 * 80 + 51 /\
  is_nodes (parse_top (tilde_braces 40) true (slots_ctx 10) (walker_state (slots_ctx 10))) = true /\
  is_perr (parse_top (tilde_braces 40) false (slots_ctx 10) (walker_state (slots_ctx 10))) = true.
Proof. exact many_slots_terminates. Qed.

(** ... remark: a budget that does not depend on the context would not do — the
    constant [8 * length s + 40] (the model's fuel before it was made to depend
    on [max_args cx]) is exhausted on this input with 11 slots, not with 10 (the
    real parser handles both inputs) *)
Example C06_constant_fuel_not_enough :
  run (tilde_braces 40) true (slots_ctx 10) (8 * 80 + 40)
      (TGeneral (walker_state (slots_ctx 10)) top_opts 0) = OutOfFuel /\
  max_args (slots_ctx 9) = 10 /\
  is_oof (run (tilde_braces 40) true (slots_ctx 9) (8 * 80 + 40)
              (TGeneral (walker_state (slots_ctx 9)) top_opts 0)) = false.
Proof. exact old_fixed_fuel_not_enough. Qed.

Print Assumptions C06_run_mono.
Print Assumptions C06_fuel_enough.
Print Assumptions C06_no_exception.
Print Assumptions C06_fuel_is.
Print Assumptions C06_terminates.
Print Assumptions C06_total.
Print Assumptions C06_strict_outcome.
Print Assumptions C06_position_in_range.


(** * Strict success implies the identical tolerant tree (proofs in [Proofs/ParserAgree.v]) *)
From PLV Require Import Proofs.ParserAgree.

Theorem C06_agrees : forall s cx f t o p,
  run s false cx f t = Ok o p -> run s true cx f t = Ok o p.
Proof. exact run_agree_ok. Qed.

(** The same for a strict run that meets the end of the stream (the callers
    turn it into "no node"): the simulation needs it, and it is what makes the
    statement compose through [parse_content]. *)
Theorem C06_agrees_eos : forall s cx f t p,
  run s false cx f t = REOS p -> run s true cx f t = REOS p.
Proof. exact run_agree_eos. Qed.

(** [LatexWalker(s, tolerant_parsing=False).parse_content(LatexGeneralNodesParser())]
    returned [o] (a tree) => the tolerant walker returns the identical tree and
    final position; for any initial parsing state. *)
Theorem C06_agrees_top : forall s cx ps o p,
  parse_top s false cx ps = Ok o p -> parse_top s true cx ps = Ok o p.
Proof. exact parse_top_agree. Qed.

(** Non-vacuity: [a{b}$c$\textbf{d}] parses in strict mode under the default
    context (so the hypothesis is satisfiable with groups, math and a macro
    with an argument) ... *)
Example C06_agrees_nonvacuous :
  let s := [97;123;98;125;36;99;36;92;116;101;120;116;98;102;123;100;125]%N in
  exists o p, parse_top s false default_ctx (walker_state default_ctx) = Ok o p
           /\ parse_top s true default_ctx (walker_state default_ctx) = Ok o p
           /\ p = length s.
Proof. vm_compute. eexists. eexists. repeat split. Qed.

(** ... and the two modes are really different functions: on [a}] strict
    parsing raises, tolerant parsing returns a tree. *)
Example C06_modes_differ :
  let s := [97;125]%N in
  (exists e p, parse_top s false default_ctx (walker_state default_ctx) = PErr e p)
  /\ (exists o p, parse_top s true default_ctx (walker_state default_ctx) = Ok o p).
Proof. vm_compute. split; eexists; eexists; reflexivity. Qed.

Print Assumptions C06_agrees.
Print Assumptions C06_agrees_eos.
Print Assumptions C06_agrees_top.

(** * Valid content preceding an error is never lost (proofs in [Proofs/Prefix.v],
    [Proofs/PrefixSim.v], [Proofs/PrefixColl.v], [Proofs/FaultClose.v])

    PARTIAL: the content before the error is a document of the CORE grammar of
    C02 ([Doc/DocGrammar.v]: text, groups, macro calls with mandatory braced
    arguments, inline / display math ([$ $], [\( \)], [\[ \]], [$$ $$]), comments,
    paragraph breaks; [ok_doc] its
    side conditions, [tree_of] the node list it means), written at top level;
    ALL such documents (unbounded depth and size), ALL contexts.  What follows
    the document is arbitrary. *)
From PLV Require Import Doc.DocGrammar Proofs.FaultTok Proofs.FaultDoc Proofs.FaultClose Proofs.Prefix.

(** the stray closing tokens: [SBrace] = [}], [SMClose MParen] = [\)],
    [SMClose MBracket] = [\]], [SEnd x] = [\end{x}] ([x] a non-empty
    environment name); [stray_wf] excludes [SMClose MDollar] and [SMClose
    MDollars] ([$] and [$$] are not closing-only tokens: after a document at top
    level they OPEN a formula, see [C05_dollars_are_not_closing_tokens]) and
    ill-formed names *)

(** ** A stray closing token after a valid document, then ANY garbage [g]:
    strict parsing fails at the token ([C05_fault_closing_partial]); tolerant
    parsing returns EXACTLY the node list of the document — all of it, the
    trailing whitespace included (it is the pre-space of the stray token and is
    flushed like whitespace before the end of input) — and stops right after
    the token: nothing of the valid content is lost, nothing of the garbage
    gets in. *)
Theorem C06_prefix_closing_partial : forall cx d c g,
  ok_doc cx d = true -> stray_wf c ->
  parse_top (unparse d ++ stray_text c ++ g) true cx (walker_state cx)
  = Ok (ONode (Some (gen_nodelist 0 (fst (tree_of cx (walker_state cx) 0 d)))))
       (length (unparse d) + length (stray_text c)).
Proof. exact prefix_closing. Qed.

(** ** ANY continuation [g] of a valid document (first syntax error anywhere,
    or none): the tolerant parser returns a node list that begins with the
    SETTLED nodes of the document — [settled cx l] = the nodes finished when the
    last item has been read, i.e. all of [tree_of] except a text run still
    pending at the end of the document (its characters and the document's
    trailing whitespace go on accumulating with what follows: a following
    letter extends the run, see [C06_prefix_trailing_run]).  Side condition: if
    the document has no trailing whitespace, [g] does not start with a letter or
    a whitespace character ([inertf]; otherwise [g] would change the last token
    of the document itself, e.g. [\alpha] + [x] is the macro [\alphax]).
    Every context. *)
Theorem C06_prefix_partial : forall cx d g,
  ok_doc cx d = true -> (d_trail d = [] -> inertf (hd_error g)) ->
  exists a b rest p,
    parse_top (unparse d ++ g) true cx (walker_state cx)
    = Ok (ONode (Some (NList a b (settled cx (d_items d) ++ rest)))) p.
Proof. exact prefix_any. Qed.

(** the same for a list of items followed by anything that keeps the last item
    well formed (the general form: [fol] is the document's trailing whitespace
    and the garbage) *)
Theorem C06_prefix_items_partial : forall cx l fol,
  ok_items cx (walker_state cx) l (hd_error fol) = true ->
  exists a b rest p,
    parse_top (unparse_items l ++ fol) true cx (walker_state cx)
    = Ok (ONode (Some (NList a b (settled cx l ++ rest)))) p.
Proof. exact prefix_any_items. Qed.

(** what "settled" leaves out: the tree of a document is its settled nodes
    followed by at most one character node, made of the pending text run of its
    last item (if that is a text item) and its trailing whitespace *)
Theorem C06_tree_settled_partial : forall cx d, ok_doc cx d = true ->
  fst (tree_of cx (walker_state cx) 0 d) = settled cx (d_items d) ++ tail_run cx d.
Proof. exact tree_settled. Qed.

(** the invariant behind both: the tolerant collector never drops a node it has
    pushed — for every collector, state, position, fuel and input *)
Theorem C06_collector_keeps_nodes : forall s cx f ps o st pos,
  match run s true cx f (TCollect ps o st pos) with
  | Ok (OColl st' _ _ _) _ => exists m, cs_acc st' = cs_acc st ++ m
  | PErr e _ => exists m, pe_nodes e = Some (NList None None (cs_acc st ++ m))
  | _ => True
  end.
Proof. exact PrefixColl.coll_keeps. Qed.

(** ** Non-vacuity *)
Open Scope N_scope.

(** [ab {c $x$}\textbf{d} \alpha ] — text, a group containing math, a macro
    with an argument, a control word with post-space *)
Definition c06_doc : doc :=
  {| d_items := [Text [] [97;98];
                 Grp [32] [Text [] [99]; Math [32] MDollar [Text [] [120]] []] [];
                 Mac [] [116;101;120;116;98;102] [] [Grp [] [Text [] [100]] []];
                 Mac [32] [97;108;112;104;97] [32] []];
     d_trail := [] |}.
(** garbage: [x{\end{$] *)
Definition c06_garbage : str := [120;123;92;101;110;100;123;36].

Example C06_prefix_closing_nonvacuous :
  ok_doc default_ctx c06_doc = true /\
  length (fst (tree_of default_ctx (walker_state default_ctx) 0 c06_doc)) = 5%nat /\
  (* each of the four stray tokens: strict parsing fails, tolerant parsing returns the document's tree *)
  forallb (fun c =>
    let s := unparse c06_doc ++ stray_text c ++ c06_garbage in
    is_perr (parse_top s false default_ctx (walker_state default_ctx)) &&
    match parse_top s true default_ctx (walker_state default_ctx) with
    | Ok (ONode (Some (NList _ _ items))) p =>
        Nat.eqb (length items) 5 && Nat.eqb p (length (unparse c06_doc) + length (stray_text c))
    | _ => false end)
    [SBrace; SMClose MParen; SMClose MBracket; SEnd [122;113]] = true.
Proof. vm_compute. repeat split. Qed.

(** the theorem's equation itself, evaluated independently on one instance *)
Example C06_prefix_closing_instance :
  parse_top (unparse c06_doc ++ stray_text SBrace ++ c06_garbage) true default_ctx (walker_state default_ctx)
  = Ok (ONode (Some (gen_nodelist 0 (fst (tree_of default_ctx (walker_state default_ctx) 0 c06_doc)))))
       (length (unparse c06_doc) + 1).
Proof. vm_compute. reflexivity. Qed.

(** [C06_prefix_partial] on garbage that is not a closing token: [{x$] after
    the document — an unclosed group holding an unclosed formula; the five
    settled nodes ([ab ], the group, [\textbf{d}], the whitespace before
    [\alpha], [\alpha ] itself) are the beginning of the result, followed by
    the recovered group *)
Example C06_prefix_nonvacuous :
  let g := [123;120;36] in
  ok_doc default_ctx c06_doc = true /\ inertf (hd_error g) /\
  length (settled default_ctx (d_items c06_doc)) = 5%nat /\
  is_perr (parse_top (unparse c06_doc ++ g) false default_ctx (walker_state default_ctx)) = true /\
  match parse_top (unparse c06_doc ++ g) true default_ctx (walker_state default_ctx) with
  | Ok (ONode (Some (NList _ _ items))) _ =>
      firstn 5 items = settled default_ctx (d_items c06_doc) /\ length items = 6%nat
  | _ => False end.
Proof. vm_compute. repeat split; discriminate. Qed.

(** the caveat about the trailing text run: the document [{c} ab] followed by
    [cd}] — the settled nodes are the group only; the pending run [ ab] of the
    document comes back as [ abcd] (one character node, extended by the
    continuation), which is NOT the node [ ab] of [tree_of] *)
Example C06_prefix_trailing_run :
  let d := {| d_items := [Grp [] [Text [] [99]] []; Text [32] [97;98]]; d_trail := [] |} in
  let g := [99;100;125] in
  ok_doc default_ctx d = true /\
  length (settled default_ctx (d_items d)) = 1%nat /\
  tail_run default_ctx d = [Some (NChars 3 6 {| in_math := false; math_delim := None |} [32;97;98])] /\
  match parse_top (unparse d ++ g) true default_ctx (walker_state default_ctx) with
  | Ok (ONode (Some (NList _ _ items))) _ =>
      firstn 1 items = settled default_ctx (d_items d) /\
      skipn 1 items = [Some (NChars 3 8 {| in_math := false; math_delim := None |} [32;97;98;99;100])]
  | _ => False end.
Proof. vm_compute. repeat split. Qed.

(** [C06_prefix_items_partial]: the items of [c06_doc] followed by [ab$]
    (text, an unclosed formula) *)
Example C06_prefix_items_nonvacuous :
  let fol := [97;98;36] in
  ok_items default_ctx (walker_state default_ctx) (d_items c06_doc) (hd_error fol) = true /\
  match parse_top (unparse_items (d_items c06_doc) ++ fol) true default_ctx (walker_state default_ctx) with
  | Ok (ONode (Some (NList _ _ items))) _ =>
      firstn 5 items = settled default_ctx (d_items c06_doc) /\ length items = 7%nat
  | _ => False end.
Proof. vm_compute. repeat split. Qed.

(** a document with a display formula [$$ $$] (the fourth math kind): [a $$x$$ b]
    followed by each stray token and the garbage *)
Example C06_prefix_dollars_nonvacuous :
  let d := {| d_items := [Text [] [97]; Math [32] MDollars [Text [] [120]] []; Text [32] [98]]; d_trail := [] |} in
  ok_doc default_ctx d = true /\ unparse d = [97;32;36;36;120;36;36;32;98] /\
  forallb (fun c =>
    let s := unparse d ++ stray_text c ++ c06_garbage in
    is_perr (parse_top s false default_ctx (walker_state default_ctx)) &&
    match parse_top s true default_ctx (walker_state default_ctx) with
    | Ok (ONode (Some nl)) p =>
        Nat.eqb p (length (unparse d) + length (stray_text c)) &&
        match nl, gen_nodelist 0 (fst (tree_of default_ctx (walker_state default_ctx) 0 d)) with
        | NList _ _ items, NList _ _ items' => Nat.eqb (length items) 3 && Nat.eqb (length items') 3
        | _, _ => false end
    | _ => false end)
    [SBrace; SMClose MParen; SMClose MBracket; SEnd [122;113]] = true.
Proof. vm_compute. repeat split. Qed.

Print Assumptions C06_prefix_closing_partial.
Print Assumptions C06_prefix_partial.
Print Assumptions C06_prefix_items_partial.
Print Assumptions C06_tree_settled_partial.
Print Assumptions C06_collector_keeps_nodes.

(** * The same over the EXTENDED grammar (proofs in [Proofs/Prefix2Lock.v], [Proofs/Prefix2.v])

    [Doc/DocGrammar2.v]: the core grammar plus environments (with arguments, math-mode
    bodies), specials, optional / star / single-token / verbatim arguments, verbatim
    macros and environments.  PARTIAL in two respects: (1) the side conditions of the
    extended grammar are evaluated against the FOLLOW STRING, so the document has to be
    well formed IN FRONT OF what is appended — [ok_doc2_before cx d (stray_text c ++ g)] =
    [ok_items2 cx (walker_state cx) [] (d_items2 d) (d_trail2 d ++ stray_text c ++ g) &&
    ws_ok (d_trail2 d)], the hypothesis of the exported simulation
    [C02_items_simulation2_partial] — which [ok_doc2 cx d] alone does not give (a document
    that ends with a comment without newline swallows whatever is appended;
    [C06_prefix2_follow_needed]); (2) only the stray-closing-token theorem is lifted, not
    [C06_prefix_partial] (arbitrary continuation). *)
From PLV Require Import Doc.DocGrammar2 Proofs.Prefix2Lock Proofs.Prefix2.

(** ** A stray closing token after a valid EXTENDED document, then ANY garbage [g]:
    tolerant parsing returns EXACTLY the node list of the document and stops right after
    the token *)
Theorem C06_prefix_closing2_partial : forall cx d c g,
  ok_doc2_before cx d (stray_text c ++ g) = true -> stray_wf c ->
  parse_top (unparse2 d ++ stray_text c ++ g) true cx (walker_state cx)
  = Ok (ONode (Some (gen_nodelist 0 (fst (tree_of2 cx (walker_state cx) 0 d)))))
       (length (unparse2 d) + length (stray_text c)).
Proof. exact prefix_closing2. Qed.

(** the same for a list of extended items, whitespace [tr], the token, the garbage *)
Theorem C06_prefix_closing2_items_partial : forall cx l tr c g,
  ok_items2 cx (walker_state cx) [] l (tr ++ stray_text c ++ g) = true -> ws_ok tr = true -> stray_wf c ->
  parse_top (unparse_items2 l ++ tr ++ stray_text c ++ g) true cx (walker_state cx)
  = Ok (ONode (Some (gen_nodelist 0
         (cs_acc (pre_flush (walker_state cx) (fst (absorb2 cx (walker_state cx) 0 cs_empty l)) tr
                            (length (unparse_items2 l)))))))
       (length (unparse_items2 l) + length tr + length (stray_text c)).
Proof. exact prefix_closing2_items. Qed.

(** ** The two grammar-independent facts behind it (every string, context, state, fuel)

    [own e]: the error carries a "recovery past token" and is not the expression parser's
    error 15 — the shape of a collector's rejection of the token it has just read.  Only a
    collector returns such an error (the general-nodes parser drops the token when it
    re-wraps an error) ... *)
Theorem C06_own_error_is_the_collectors : forall s cx f t e p,
  run s false cx f t = PErr e p -> own e ->
  match t with TCollect _ _ _ _ => True | _ => False end.
Proof.
  intros s cx f t e p H O. pose proof (no_own s cx f t e p H) as N.
  destruct t; try exact I; exact (N O).
Qed.

(** ... and the tolerant collector reproduces it verbatim: up to the rejected token the
    two modes are in lockstep (no nested call failed, or the error would not be the
    collector's own) *)
Theorem C06_collector_error_reproduced : forall s cx ps o f st pos e p,
  run s false cx f (TCollect ps o st pos) = PErr e p -> own e ->
  run s true cx f (TCollect ps o st pos) = PErr e p.
Proof. exact lockstep_err. Qed.

(** ** Non-vacuity (extended grammar)

    [a \begin{center}b\section*[x]{y}\end{center} \sqrt{z} ] — an environment whose body
    holds a macro call with a star, an optional and a mandatory argument; a macro call
    whose optional argument is absent; trailing whitespace *)
Definition c06_doc2 : doc2 :=
  {| d_items2 :=
      [Text2 [] [97];
       Env2 [32] [] [99;101;110;116;101;114] []
            [Text2 [] [98];
             Mac2 [] [115;101;99;116;105;111;110] []
                  [Text2 [] [42]; Brk2 [] 91 93 [Text2 [] [120]] []; Grp2 [] [Text2 [] [121]] []]]
            [] [];
       Mac2 [32] [115;113;114;116] [] [Abs2; Grp2 [] [Text2 [] [122]] []]];
     d_trail2 := [32] |}.

Example C06_prefix_closing2_nonvacuous :
  ok_doc2 default_ctx c06_doc2 = true /\ length (unparse2 c06_doc2) = 54%nat /\
  length (fst (tree_of2 default_ctx (walker_state default_ctx) 0 c06_doc2)) = 5%nat /\
  (* each of the four stray tokens: the hypothesis holds, strict parsing fails, and the theorem's
     equation, evaluated independently *)
  forallb (fun c => ok_doc2_before default_ctx c06_doc2 (stray_text c ++ c06_garbage))
          [SBrace; SMClose MParen; SMClose MBracket; SEnd [122;113]] = true /\
  forallb (fun c => is_perr (parse_top (unparse2 c06_doc2 ++ stray_text c ++ c06_garbage) false default_ctx
                                       (walker_state default_ctx)))
          [SBrace; SMClose MParen; SMClose MBracket; SEnd [122;113]] = true /\
  Forall (fun c =>
    parse_top (unparse2 c06_doc2 ++ stray_text c ++ c06_garbage) true default_ctx (walker_state default_ctx)
    = Ok (ONode (Some (gen_nodelist 0 (fst (tree_of2 default_ctx (walker_state default_ctx) 0 c06_doc2)))))
         (length (unparse2 c06_doc2) + length (stray_text c)))
    [SBrace; SMClose MParen; SMClose MBracket; SEnd [122;113]].
Proof.
  split; [vm_compute; reflexivity|]. split; [vm_compute; reflexivity|]. split; [vm_compute; reflexivity|].
  split; [vm_compute; reflexivity|]. split; [vm_compute; reflexivity|].
  repeat constructor; vm_compute; reflexivity.
Qed.

(** why the hypothesis is about the follow string: the document [a%b] (a comment that ends
    with the input) is a valid extended document, but it is not well formed in front of [}]
    — the brace becomes part of the comment, and the tolerant parse of [a%b}] is not the
    tree of the document *)
Example C06_prefix2_follow_needed :
  let d := {| d_items2 := [Text2 [] [97]; Cmt2 [] [98] []]; d_trail2 := [] |} in
  ok_doc2 default_ctx d = true /\
  ok_doc2_before default_ctx d (stray_text SBrace) = false /\
  parse_top (unparse2 d ++ stray_text SBrace) true default_ctx (walker_state default_ctx)
  <> Ok (ONode (Some (gen_nodelist 0 (fst (tree_of2 default_ctx (walker_state default_ctx) 0 d)))))
        (length (unparse2 d) + 1).
Proof. cbv zeta. split; [vm_compute; reflexivity|]. split; [vm_compute; reflexivity|]. vm_compute. discriminate. Qed.

(** ** ... with [ok_doc2 cx d] as the hypothesis, for documents that END WITH WHITESPACE
    (e.g. a final newline) in contexts none of whose specials sequences contains a backslash
    or a closing brace ([specials_plain], decidable, true of the default context): then the
    side conditions, evaluated against the trailing whitespace, still hold in front of a stray
    closing token and any garbage ([C06_follow_extension_partial], proofs in
    [Proofs/Prefix2Follow.v]: every side condition of the extended grammar — longest-match
    specials, absent optional arguments, control-word lookahead, paragraph breaks, verbatim
    scans — is stable when a non-empty follow string is extended by something that starts
    like a closing token).  Without trailing whitespace the last item matters
    ([C06_prefix2_follow_needed]) and [ok_doc2_before] has to be checked directly. *)
From PLV Require Import Proofs.Prefix2Follow.

Theorem C06_prefix_closing2_ws_partial : forall cx d c g,
  ok_doc2 cx d = true -> d_trail2 d <> [] -> specials_plain cx = true -> stray_wf c ->
  parse_top (unparse2 d ++ stray_text c ++ g) true cx (walker_state cx)
  = Ok (ONode (Some (gen_nodelist 0 (fst (tree_of2 cx (walker_state cx) 0 d)))))
       (length (unparse2 d) + length (stray_text c)).
Proof. exact prefix_closing2_ws. Qed.

Theorem C06_follow_extension_partial : forall cx ps ex l (G : str) c g,
  ok_items2 cx ps ex l G = true -> G <> [] -> specials_plain cx = true -> stray_wf c ->
  ok_items2 cx ps ex l (G ++ stray_text c ++ g) = true.
Proof. exact ok_items2_before_stray. Qed.

Example C06_prefix_closing2_ws_nonvacuous :
  specials_plain default_ctx = true /\ ok_doc2 default_ctx c06_doc2 = true /\ d_trail2 c06_doc2 <> [].
Proof. split; [vm_compute; reflexivity|]. split; [vm_compute; reflexivity | discriminate]. Qed.

Print Assumptions C06_prefix_closing2_partial.
Print Assumptions C06_prefix_closing2_items_partial.
Print Assumptions C06_own_error_is_the_collectors.
Print Assumptions C06_collector_error_reproduced.
Print Assumptions C06_prefix_closing2_ws_partial.
Print Assumptions C06_follow_extension_partial.

(** * An unmatched OPENING delimiter over the extended grammar, tolerant mode (proofs in
    [Proofs/Prefix2Open.v])

    The tolerant counterpart of [C05_fault_opening2_partial] (top level): the text
    [l1 fws OPEN l2 dtr] — items, whitespace, an opening delimiter that is never closed, items,
    trailing whitespace — which strict mode rejects with error 6 raised at the end of the
    input.  Tolerant mode returns EXACTLY: the nodes of the items [l1] in front of the
    delimiter (the collector state [absorb] reaches on them, the whitespace [fws] flushed into
    it), then ONE node for the unclosed construct, spanning to the end of the input, whose body
    is the tree of the rest [l2 ++ dtr] — the valid prefix is kept, and so is everything that
    was collected inside the unclosed construct.

    PARTIAL: (1) the delimiter is [{] or a math delimiter ([$], [\(], [\[], [$$]), not
    [\begin{name}]; (2) the body [l2] is a list of EXTENDED items (environments, specials,
    optional / star / single-token / verbatim arguments, ...), but the items [l1] IN FRONT of
    the delimiter are items of the CORE grammar ([Doc/DocGrammar.v]: text, groups, macro calls
    with braced arguments, formulas, comments, paragraph breaks; side conditions against the
    first character that follows): the tolerant-mode simulation of a collector whose run ends
    in a recovered error exists for the core grammar only ([Proofs/PrefixSim.v]); the lockstep
    argument behind [C06_prefix_closing2_partial] needs a strict error that carries the
    collector's nodes, which the error of a nested unclosed construct does not; (3) top level
    only. *)
From PLV Require Import Proofs.Fault2Open Proofs.Prefix2Open.

Theorem C06_prefix_opening2_partial : forall cx (l1 : list item) fws l2 dtr,
  let ps0 := walker_state cx in
  ok_items cx ps0 l1 (hd_error (fws ++ 123%N :: unparse_items2 l2 ++ dtr)) = true -> ws_ok fws = true ->
  ok_items2 cx ps0 [] l2 dtr = true -> ws_ok dtr = true ->
  let s := unparse_items l1 ++ fws ++ 123%N :: unparse_items2 l2 ++ dtr in
  let pb := length (unparse_items l1) in
  let p0 := (pb + length fws)%nat in
  let A := fst (absorb cx ps0 0 cs_empty l1) in
  let B := absorb2 cx ps0 (S p0) cs_empty l2 in
  let body := gen_nodelist (S p0) (cs_acc (eos_state ps0 (fst B) dtr (snd B))) in
  parse_top s true cx ps0
  = Ok (ONode (Some (gen_nodelist 0
         (cs_acc (push_node (pre_flush ps0 A fws pb)
                            (Some (NGroup p0 (length s) (ps_mode ps0) [123%N] [125%N] (Some body))))))))
       (length s).
Proof. exact prefix_opening2_brace. Qed.

Theorem C06_prefix_opening2_math_partial : forall cx (l1 : list item) fws k l2 dtr,
  let ps0 := walker_state cx in
  let mps := ps_enter_math ps0 (Some (m_open k)) in
  ok_items cx ps0 l1 (hd_error (fws ++ m_open k ++ unparse_items2 l2 ++ dtr)) = true ->
  open_side2 cx ps0 [] fws (OMath2 k) (unparse_items2 l2 ++ dtr) = true ->
  ok_items2 cx mps [] l2 dtr = true -> ws_ok dtr = true ->
  let s := unparse_items l1 ++ fws ++ m_open k ++ unparse_items2 l2 ++ dtr in
  let pb := length (unparse_items l1) in
  let p0 := (pb + length fws)%nat in
  let pm := (p0 + length (m_open k))%nat in
  let A := fst (absorb cx ps0 0 cs_empty l1) in
  let B := absorb2 cx mps pm cs_empty l2 in
  let body := gen_nodelist pm (cs_acc (eos_state mps (fst B) dtr (snd B))) in
  parse_top s true cx ps0
  = Ok (ONode (Some (gen_nodelist 0
         (cs_acc (push_node (pre_flush ps0 A fws pb)
                            (Some (NMath p0 (length s) (ps_mode ps0) (m_display k) (m_open k) (m_close k) (Some body))))))))
       (length s).
Proof. exact prefix_opening2_math. Qed.

(** the nodes in front of the unclosed construct are exactly those of [l1] (and [fws]) *)
Theorem C06_prefix_opening2_keeps_prefix : forall ps st ws p nd,
  cs_acc (push_node (pre_flush ps st ws p) nd) = cs_acc (pre_flush ps st ws p) ++ [nd].
Proof. reflexivity. Qed.

(** non-vacuity: [a {b}] (core items: a text run, a group) + a blank + the delimiter +
    [ \sqrt{z}\begin{center}c\end{center}] (extended items: an absent optional argument, an
    environment) + a blank.  Strict mode rejects the text (error 6 at the end of the input);
    tolerant mode returns four nodes: [a ], the group, the blank, and the unclosed construct
    (offsets 6 to 44, the end of the input) with its body of four nodes; the same with each of the
    four math delimiters in front of [ x~y] *)
Example C06_prefix_opening2_nonvacuous :
  let cx := default_ctx in let ps0 := walker_state cx in
  let l1 := [Text [] [97]; Grp [32] [Text [] [98]] []] in
  let l2 := [Mac2 [32] [115;113;114;116] [] [Abs2; Grp2 [] [Text2 [] [122]] []];
             Env2 [] [] [99;101;110;116;101;114] [] [Text2 [] [99]] [] []] in
  let s := unparse_items l1 ++ [32] ++ 123%N :: unparse_items2 l2 ++ [32] in
  ok_items cx ps0 l1 (hd_error ([32] ++ 123%N :: unparse_items2 l2 ++ [32])) = true /\
  ok_items2 cx ps0 [] l2 [32] = true /\
  is_perr (parse_top s false cx ps0) = true /\
  length s = 44%nat /\
  match parse_top s true cx ps0 with
  | Ok (ONode (Some (NList _ _ items))) p =>
      p = 44%nat /\ length items = 4%nat /\
      firstn 3 items = cs_acc (pre_flush ps0 (fst (absorb cx ps0 0 cs_empty l1)) [32] 5) /\
      match nth 3 items None with
      | Some (NGroup 6 44 _ _ _ (Some (NList _ _ b))) => length b = 4%nat
      | _ => False
      end
  | _ => False
  end /\
  forallb (fun k =>
    let mps := ps_enter_math ps0 (Some (m_open k)) in
    let l2m := [Text2 [32] [120]; Spc2 [] [126] []; Text2 [] [121]] in
    let sm := unparse_items l1 ++ [32] ++ m_open k ++ unparse_items2 l2m ++ [32] in
    ok_items cx ps0 l1 (hd_error ([32] ++ m_open k ++ unparse_items2 l2m ++ [32])) &&
    open_side2 cx ps0 [] [32] (OMath2 k) (unparse_items2 l2m ++ [32]) &&
    ok_items2 cx mps [] l2m [32] &&
    is_perr (parse_top sm false cx ps0) &&
    match parse_top sm true cx ps0 with
    | Ok (ONode (Some (NList _ _ items))) p =>
        Nat.eqb p (length sm) && Nat.eqb (length items) 4
        && match nth 3 items None with
           | Some (NMath 6 e _ _ _ _ (Some (NList _ _ b))) => Nat.eqb e (length sm) && Nat.eqb (length b) 3
           | _ => false
           end
    | _ => false
    end) [MDollar; MParen; MBracket; MDollars] = true.
Proof. vm_compute. repeat split. Qed.

Print Assumptions C06_prefix_opening2_partial.
Print Assumptions C06_prefix_opening2_math_partial.
Print Assumptions C06_prefix_opening2_keeps_prefix.
