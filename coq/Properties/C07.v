(** C07 — latex2text is total: a string for every input and option set.

    Statements only ([exact] of lemmas of [Proofs/L2TTotal.v],
    [Proofs/L2TTotalParse.v], [Proofs/L2TTotalTables.v]) followed by
    [Print Assumptions].

    TOTALITY AND TERMINATION OF THE CONVERSION ITSELF HOLD BY CONSTRUCTION:
    [L2T.node_text] is a structural [Fixpoint] over the node tree accepted by
    Coq's guard checker, so for every tree, every option record, every
    whitespace policy and every pair of databases it returns a (string, state)
    pair; there is no fuel and no partiality in it.  The places where the
    Python code would raise instead of returning are modelled explicitly by the
    error flag [d_err] of the state (iterating a body that is not a list:
    [TypeError]; [fmt_equation_environment] on a node that is not an
    environment: [AttributeError]); the theorems below say that the flag is
    never set.  The other historical failure sites ([max()] of an empty
    sequence in the matrix formatter, callables indexing absent arguments —
    defect F15) are fixed in the code the model tracks and are total in the
    model by the same construction ([nth k ts []], [fold_left Nat.max _ 0]).

    Termination of the PARSER within its fuel ([parse_top] never returns
    [OutOfFuel] / never escapes with an exception in tolerant mode) is the
    subject of C06 ([C06_total]: every string, every context);
    [C07_total_given_parse] is stated relative to it, [C07_total] composes the
    two. [fill_text] (textwrap) is not modelled. *)
From Coq Require Import NArith ZArith List Bool Arith.
From PLV Require Import Base.PyStr Tok.PState Tok.Tokenizer Parse.Nodes Parse.Parser Parse.ParseWire.
From PLV Require Import L2T.L2T L2T.L2TWire Tree.Visitor.
From PLV Require Import Proofs.L2TUnfold Proofs.L2TFilters Proofs.L2TTotal Proofs.L2TTotalParse Proofs.L2TTotalTables
     Proofs.L2TTotalTop.
From PLV Require Gen.GenWalkerCtx Gen.GenL2TCtx.
Import ListNotations.

(** For every tree whose bodies are [None] or node lists ([wf], the shape every
    parser result has — [C07_parser_results_wf]), every option record, policy,
    state, source string and walker database, and every text database that
    attaches [fmt_equation_environment] to environments only: the conversion
    does not reach any Python exception. *)
Theorem C07_tree_no_error : forall src lt cx o sl st n,
  no_eqenv_outside_envs lt = true ->
  wf n = true ->
  d_err (snd (node_text src lt cx o sl st n)) = d_err st.
Proof. intros src lt cx o sl st n Hlt Hw. now apply tree_no_error. Qed.
Print Assumptions C07_tree_no_error.

(** Every tree returned by the parser model — any input string, strict or
    tolerant, any walker database, any initial parsing state; recovery nodes of
    tolerant parsing included — has list bodies.  (Checked shapes: group / math
    bodies come from [TGeneral], environment bodies from [TEnvBody], both always
    node lists, also as recovery nodes; the chars node carried by the
    unterminated delimited-verbatim error and the chars / macro nodes carried by
    the expression parser's errors only ever become ARGUMENTS, never bodies.) *)
Theorem C07_parser_results_wf : forall s tol cx ps nl p,
  parse_top s tol cx ps = Ok (ONode (Some nl)) p -> wf nl = true.
Proof. exact parser_results_wf. Qed.
Print Assumptions C07_parser_results_wf.

(** the same as a postcondition of [run] for every task and every fuel *)
Theorem C07_run_results_wf : forall s tol cx fuel t n p,
  pre t = true -> run s tol cx fuel t = Ok (ONode (Some n)) p -> wf n = true.
Proof. exact run_node_wf. Qed.
Print Assumptions C07_run_results_wf.

(** End to end under the generated default databases: whenever the tolerant
    parse returns (C06: always), [latex_to_text] returns a string and no
    exception.  The [wf] hypothesis of the task statement is discharged by
    [C07_parser_results_wf]. *)
Theorem C07_total_given_parse : forall o s t p,
  parse_top s true Gen.GenWalkerCtx.default_ctx (walker_state Gen.GenWalkerCtx.default_ctx) = Ok (ONode t) p ->
  exists txt st, latex_to_text o s true = Some (txt, st) /\ d_err st = None.
Proof. exact total_given_parse. Qed.
Print Assumptions C07_total_given_parse.

(** ... and unconditionally: the tolerant parse of EVERY string returns a node
    list within the model's own fuel ([C06_total], which holds for every context
    since the fuel is computed from the context), so [latex_to_text] in tolerant
    mode returns a string and no exception for every input string and every
    option record *)
Theorem C07_total : forall o s,
  exists txt st, latex_to_text o s true = Some (txt, st) /\ d_err st = None.
Proof. exact latex_to_text_total. Qed.
Print Assumptions C07_total.

(** ... and in either parsing mode: a result, if any, carries no exception *)
Theorem C07_no_error_either_mode : forall o s tol r,
  latex_to_text o s tol = Some r -> d_err (snd r) = None.
Proof. exact latex_to_text_no_error. Qed.
Print Assumptions C07_no_error_either_mode.

(** Decidable check over the REGENERATED tables, discharged by [vm_compute]:
    - [no_eqenv_outside_envs]: [fmt_equation_environment] is attached to
      environments only (the hypothesis of [C07_tree_no_error]);
    - [templates_parse]: every replacement string that goes through
      %-formatting is a well-formed format ([%%], [%s], [%(key)s] only);
    - [templates_in_sync ... [textfrac]]: every template uses exactly the
      argument slots the latexwalker signature of the same name provides
      (positional [%s] count = slot count; keys within [1..slots], [body] for
      environments) — except [\textfrac] ([C07_textfrac_out_of_sync]).
    That every callable is one of the modelled ones holds by construction
    ([callable] is a closed inductive type; the table generator fails on an
    unknown callable). *)
Theorem C07_tables_ok : tables_ok Gen.GenL2TCtx.default_l2tctx Gen.GenWalkerCtx.default_ctx = true.
Proof. exact default_tables_ok. Qed.
Print Assumptions C07_tables_ok.

(** The one out-of-sync entry: [\textfrac] has the template ["%s/%s"] in the text
    database and no spec (0 slots) in the walker database; [\textfrac{a}{b}]
    yields the raw template followed by both groups (["%s/%sab"], with a logged
    "failed its substitution" warning) — a string, so not a totality violation. *)
Theorem C07_textfrac_out_of_sync :
  templates_in_sync Gen.GenL2TCtx.default_l2tctx Gen.GenWalkerCtx.default_ctx [] = false
  /\ assoc (lt_macros Gen.GenL2TCtx.default_l2tctx) textfrac
     = Some {| t_repl := RStr [37;115;47;37;115]%N; t_discard := true |}
  /\ nslots_of (get_macro_spec Gen.GenWalkerCtx.default_ctx textfrac) = 0.
Proof. exact textfrac_out_of_sync. Qed.
Print Assumptions C07_textfrac_out_of_sync.

(** * Non-vacuity and necessity of the hypotheses *)
Section Examples.
  Let lt := Gen.GenL2TCtx.default_l2tctx.
  Let cx := Gen.GenWalkerCtx.default_ctx.
  Let o0 : opts :=
    {| o_math := MMText; o_keep_comments := false; o_sls := sls_macros; o_kbg := false; o_kbg_minlen := 0 |}.
  (* \textbf{a} $x$ \begin{pmatrix}\end{pmatrix}\href{u} *)
  Let s0 : str :=
    [92;116;101;120;116;98;102;123;97;125;32;36;120;36;32;
     92;98;101;103;105;110;123;112;109;97;116;114;105;120;125;92;101;110;100;123;112;109;97;116;114;105;120;125;
     92;104;114;101;102;123;117;125]%N.

  Example C07_total_given_parse_nonvacuous :
    exists t p, parse_top s0 true cx (walker_state cx) = Ok (ONode (Some t)) p
                /\ wf t = true
                /\ exists txt, latex_to_text o0 s0 true = Some (txt, d0) /\ length txt = 12.
  Proof. vm_compute. do 2 eexists. split; [reflexivity|]. split; [reflexivity|]. eexists. split; reflexivity. Qed.

  (** a body that is not a list is an error ([wf] is necessary) ... *)
  Example C07_wf_necessary :
    let n := NGroup 0 3 text_mode [123%N] [125%N] (Some (NChars 1 2 text_mode [97%N])) in
    wf n = false /\ d_err (snd (node_text [] lt cx o0 sls_bos d0 n)) = Some 1.
  Proof. vm_compute. split; reflexivity. Qed.

  (** ... and so is [fmt_equation_environment] attached to a macro (the table hypothesis is necessary) *)
  Example C07_table_hypothesis_necessary :
    let lt' := {| lt_macros := [([120%N], {| t_repl := RCall CEqEnv; t_discard := true |})];
                  lt_envs := []; lt_specials := []; lt_nfc := []; lt_upper := []; lt_styles := [] |} in
    let n := NMacro 0 2 text_mode [120%N] [] (Some ([], [])) in
    no_eqenv_outside_envs lt' = false /\ wf n = true
    /\ d_err (snd (node_text [] lt' cx o0 sls_bos d0 n)) = Some 2.
  Proof. vm_compute. repeat split. Qed.

  Example C07_tree_no_error_nonvacuous :
    no_eqenv_outside_envs lt = true.
  Proof. vm_compute. reflexivity. Qed.
End Examples.
