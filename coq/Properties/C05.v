(** C05 — strict mode fails only with a located parse error.
    Statements only (each closed by [exact] of a lemma of
    [Proofs/ParserErrors.v] / [Proofs/ParserErrorsBase.v]) with their
    [Print Assumptions], and non-vacuity examples.

    Clauses covered: "parsing any string either returns a tree or raises
    LatexWalkerParseError, never another exception type, and the error's
    position lies inside the input with line and column matching that
    position"; and, at the end of the file, the clause about injected
    structural faults for documents of the core grammar of C02 (PARTIAL: see
    there).

    All theorems hold for EVERY string, EVERY context database (no
    well-formedness condition on the context turned out to be necessary: a
    [ctx_wf] hypothesis would be vacuous) and EVERY fuel: nothing is assumed
    about termination, [OutOfFuel] is an explicit outcome of the model. *)
From Coq Require Import NArith ZArith List Bool Arith.
From PLV Require Import Base.PyStr Tok.PState Tok.Tokenizer Parse.Nodes Parse.Parser Parse.ParseWire
                        Gen.GenWalkerCtx Util.LineNo Proofs.LineNoProofs
                        Proofs.ParserErrorsBase Proofs.ParserErrors.
Import ListNotations.

(** ** Hypotheses on tasks

    [Good ps] is the reachable-state invariant: the cached tables of [ps] are
    those computed from its fields, and its inline / display math delimiter
    lists are the default ones.  The walker's initial state satisfies it for
    every context, and so does every state derived from it by [sub_context]
    calls that do not replace the math delimiter lists (the only calls the
    parsers make). *)
Theorem C05_walker_state_good : forall cx, Good (walker_state cx).
Proof. exact good_walker. Qed.

Theorem C05_derived_state_good : forall cx chain,
  forallb keeps_math_delims chain = true ->
  Good (fold_left sub_context chain (walker_state cx)).
Proof. exact good_derived. Qed.

(** [task_ok s t]: the parsing states embedded in the task [t] (its own, and
    the two states of a group collector's child policy) are [Good], its reader
    position (and the position of a token / of accumulated nodes it carries) is
    [<= length s], and a math task's opening delimiter has passed the
    collector's "is an opening math delimiter" test. *)

(** ** A strict parse error is located inside the input — any parser of the
    stack, any reachable state, any position, any fuel *)
Theorem C05_errors_located : forall s cx f t e p,
  task_ok s t ->
  run s false cx f t = PErr e p -> exists q, pe_pos e = Some q /\ q <= length s.
Proof. exact run_errors_located. Qed.

(** ** No other exception: a strict run never ends in [RExn k] (the model's
    "any other exception class": KeyError on the group-delimiter dictionary,
    TypeError on a missing expected closing delimiter, impossible result
    shapes) ... *)
Theorem C05_no_other_exception_run : forall s cx f t k,
  task_ok s t -> run s false cx f t <> RExn k.
Proof. exact run_no_exn. Qed.

(** ... because every nested call returns the [out] constructor its task kind
    promises, leaving the reader inside the input. *)
Theorem C05_result_shape : forall s cx f t o p,
  task_ok s t -> run s false cx f t = Ok o p -> out_shape t o /\ p <= length s.
Proof. exact run_result_shape. Qed.

(** ** The top-level strict parse
    [LatexWalker(s, tolerant_parsing=False).parse_content(LatexGeneralNodesParser())]:
    a tree, or a parse error with a position inside the input; never [RExn],
    never an escaping end-of-stream.  ([OutOfFuel] is excluded by the
    termination theorem of C06, not here.) *)
Theorem C05_no_other_exception : forall s cx,
  match parse_top s false cx (walker_state cx) with
  | Ok (ONode _) p => p <= length s
  | PErr e _ => exists q, pe_pos e = Some q /\ q <= length s
  | OutOfFuel => True
  | Ok _ _ | REOS _ | RExn _ => False
  end.
Proof. exact walker_top_outcome. Qed.

(** the same for an arbitrary fuel instead of [parse_fuel] *)
Theorem C05_no_other_exception_any_fuel : forall s cx f,
  match parse_content false (run s false cx f (TGeneral (walker_state cx) top_opts 0)) with
  | Ok (ONode _) p => p <= length s
  | PErr e _ => exists q, pe_pos e = Some q /\ q <= length s
  | OutOfFuel => True
  | Ok _ _ | REOS _ | RExn _ => False
  end.
Proof. exact walker_top_outcome_any_fuel. Qed.

Theorem C05_errors_located_top : forall s cx e p,
  parse_top s false cx (walker_state cx) = PErr e p ->
  exists q, pe_pos e = Some q /\ q <= length s.
Proof. exact walker_top_errors_located. Qed.

(** ** Line and column.  On the way out of [parse_content] the Python code
    sets [e.lineno, e.colno = pos_to_lineno_colno(e.pos)]
    ([_ParsingContext.__exit__]).  That step is not part of [run] — model
    errors carry only [pe_pos] — it is [annotate] (= the C20 model
    [pos_to_lineno_colno] applied to [pe_pos]), tied to the code by the
    C05 / C20 correspondence.  For every offset configuration the reported
    pair is the declarative line / column of the position: line = number of
    newlines before it, column = distance back to the previous newline. *)
Theorem C05_error_line_col : forall offs s cx e p,
  parse_top s false cx (walker_state cx) = PErr e p ->
  exists q, pe_pos e = Some q /\ q <= length s /\
            annotate offs s e = Some (Some (spec_lc offs s q)).
Proof. exact walker_top_error_line_col. Qed.

(** ** Non-vacuity *)

(** the top-level task satisfies the hypothesis of the [run]-level theorems *)
Example C05_task_ok_nonvacuous : forall s cx, task_ok s (TGeneral (walker_state cx) top_opts 0).
Proof. exact top_task_ok. Qed.

(** strict parsing of [a\n{b\n $c] raises a parse error located at offset 7,
    line 3, column 2 (checked on the real code: pos 7, lineno 3, colno 2) *)
Example C05_errors_located_nonvacuous :
  let s := [97;10;123;98;10;32;36;99]%N in
  exists e p, parse_top s false default_ctx (walker_state default_ctx) = PErr e p
              /\ pe_pos e = Some 7 /\ annotate default_offsets s e = Some (Some (3, 2)%Z)
              /\ spec_lc default_offsets s 7 = (3, 2)%Z.
Proof. vm_compute. eexists. eexists. repeat split. Qed.

(** the inputs on which the unfixed code raised IndexError / TypeError /
    returned a position-less error (findings F11, F12, F13): [\verb],
    [\textbf$], [\begin{itemize}] — now located parse errors; and a valid
    document is a tree *)
Example C05_no_other_exception_nonvacuous :
  let pos_of s := match parse_top s false default_ctx (walker_state default_ctx) with
                  | PErr e _ => pe_pos e | _ => None end in
  pos_of [92;118;101;114;98]%N = Some 5
  /\ pos_of [92;116;101;120;116;98;102;36]%N = Some 7
  /\ pos_of [92;98;101;103;105;110;123;105;116;101;109;105;122;101;125]%N = Some 15
  /\ (exists n p, parse_top [97;123;98;125;36;99;36;92;116;101;120;116;98;102;123;100;125]%N false
                    default_ctx (walker_state default_ctx) = Ok (ONode (Some n)) p).
Proof. vm_compute. repeat split. eexists. eexists. reflexivity. Qed.

(** a math task whose delimiter is NOT an opening delimiter does reach the
    [RExn 3] branch: the precondition of [task_ok] on math tasks is needed (the
    collector establishes it with its [by_open_has] test) *)
Example C05_math_precondition_needed :
  run [92;41]%N false default_ctx 5 (TMath (walker_state default_ctx) [92;41]%N 0) = RExn 3.
Proof. vm_compute. reflexivity. Qed.

Print Assumptions C05_walker_state_good.
Print Assumptions C05_derived_state_good.
Print Assumptions C05_errors_located.
Print Assumptions C05_no_other_exception_run.
Print Assumptions C05_result_shape.
Print Assumptions C05_no_other_exception.
Print Assumptions C05_no_other_exception_any_fuel.
Print Assumptions C05_errors_located_top.
Print Assumptions C05_error_line_col.


(** * Injected structural faults (proofs in [Proofs/Fault*.v])

    Clause: "a well-formed document to which a single unmatched opening or
    closing brace, math delimiter, \begin or \end has been added outside
    verbatim text and comments is always rejected".

    PARTIAL.  The documents are those of the CORE grammar of C02
    ([Doc/DocGrammar.v]: text, braced groups, macro calls with mandatory braced
    arguments, [$ $] / [\( \)] / [\[ \]] / [$$ $$] formulas, comments, paragraph breaks;
    [ok_doc] = its side conditions), ALL of them (unbounded depth and size), ALL
    contexts.  The insertion point is an ITEM BOUNDARY of an arbitrarily nested
    body, given by a zipper ([Proofs/FaultZip.v]): [zdoc path l1 l2 dtr] is the
    document whose innermost designated body is [l1 ++ l2]; its text is
    [zleft path l1 ++ zright path l2 dtr] ([C05_zdoc_text]) and the token is
    inserted between the two halves.

    Covered:
      - [}] inserted in the top-level body or in a formula body, at any depth
        ([C05_fault_closing_partial]: error "unexpected closing brace" AT the brace);
      - [\)] / [\]] inserted anywhere except in the body of a formula of the same
        kind (there it closes the formula), at any depth: error "unexpected
        closing math delimiter" AT the token ([$] and [$$] are NOT stray closing
        tokens: wherever they are not the expected closing delimiter they open
        a formula, [C05_dollars_are_not_closing_tokens]; they are covered as
        OPENING delimiters and by [C05_fault_dollar_in_dollars*]);
      - [\end{x}] inserted anywhere, at any depth: error "unexpected \end" AT the token;
        in these three cases whatever follows the token is irrelevant
        ([C05_fault_closing_any_suffix_partial]: the left context and the items
        before the token are well formed, the rest of the input is arbitrary);
      - [{], [\begin{x}] (an environment without arguments, known to the context
        or covered by its fallback) inserted at top level
        ([C05_fault_opening_partial]): the new construct swallows the rest, error
        "closing delimiter not found" (6) located right after the inserted
        delimiter, raised when the input ends; [\(], [\[], [$], [$$] (and [\begin{x}]
        with a math-mode body) likewise, in front of items that are also a
        well-formed formula body (no formula directly among them) and, for [$],
        not directly in front of another [$];
      - the same opening delimiters inserted in a NESTED body, at any depth
        ([C05_fault_opening_nested_partial]), when the closing delimiter of the
        enclosing construct is not also the closing delimiter of the new one
        ([{] in a [\( \)] or [\[ \]] formula; [$], [$$], [\(], [\[] in a group or macro
        argument outside math mode; [\begin{x}] in a group, a macro argument, a
        [\( \)] or [\[ \]] formula): the new construct runs into that closing
        delimiter and its collector rejects it THERE (unexpected closing brace /
        closing math delimiter);
      - [}] inserted in a group or in the last argument of a macro call (an
        argument read in the same math mode as the enclosing body), itself in a chain of
        directly nested such constructs that stands in the top-level body or in a
        formula body ([C05_fault_closing_brace_in_groups_partial]): every
        construct of the chain is closed one brace early, the error "unexpected
        closing brace" is AT the closing brace of the outermost one;
      - [\)] / [\]] inserted in a formula of the same kind whose remaining body is
        also well formed outside math mode
        ([C05_fault_closing_math_same_partial]): the formula closes early, its own
        closing delimiter is rejected;
      - [$] inserted in a [$ $] formula (after at least one character of its
        body), or [$$] inserted in a [$$ $$] formula (anywhere in its body),
        whose remaining body is also well formed outside math mode and
        whose later siblings are also well formed in math mode
        ([C05_fault_dollar_in_dollars(_nested)_partial]): the formula closes
        early, its own closing [$] / [$$] opens a formula that is never closed (top
        level) / runs into the enclosing closing delimiter (nested body);
      - [{] inserted in a group, itself in a chain of directly nested groups that
        stands at top level ([C05_fault_opening_brace_in_groups_partial]: the
        outermost group of the chain is never closed, error 6 right after its
        opening brace, raised at the end of input) or in a [\( \)] / [\[ \]]
        formula ([C05_fault_opening_brace_in_groups_math_partial]: rejected at
        the formula's closing delimiter).
    NOT covered (differential testing only): [}] inserted in a macro argument
    that is not the last one or that changes the math mode (what follows is read
    as the next argument / in another mode),
    [{] inserted in a macro argument or in a group chain standing in a [$ $] / [$$ $$]
    formula or macro argument, an opening delimiter inserted in a
    [$ $] / [$$ $$] formula (the new construct's collector does not reject the
    formula's closing [$] / [$$]: it opens a nested formula), a math delimiter or math-body environment in front of items
    that contain a formula, environments with arguments, insertion points inside
    an item (between the tokens of a macro call, inside whitespace), the grammar
    beyond the core one. *)
From PLV Require Import Doc.DocGrammar Proofs.RoundTripTok Proofs.FaultTok Proofs.FaultDoc Proofs.FaultPath
                        Proofs.FaultClose Proofs.FaultOpen Proofs.FaultZip Proofs.FaultInject.

(** the faulted text is the document's text with the token inserted *)
Theorem C05_zdoc_text : forall path l1 l2 dtr,
  unparse (zdoc path l1 l2 dtr) = zleft path l1 ++ zright path l2 dtr.
Proof. exact zdoc_unparse. Qed.

(** ** A stray closing token.  [stray_text c] is [}], [\)], [\]] or [\end{x}];
    [stray_wf c]: [c] is not [SMClose MDollar] nor [SMClose MDollars] (the
    side condition is necessary: a [$] / [$$] that is not the expected closing
    delimiter OPENS a formula, see [C05_dollars_are_not_closing_tokens]), the
    environment name is non-empty and made of environment-name characters; [closes_hole (lefts path)
    c = false]: the token is not the closing delimiter of the innermost
    construct of the path ([}] in a group or macro argument, [\)] in [\( \)],
    [\]] in [\[ \]]); the path may go through formulas of all four kinds.  The strict parse fails with an error located exactly at
    the inserted token, of the collector's raise site for that token
    ([stray_what]: 2 = unexpected closing brace, 4 = unexpected closing math
    delimiter, 3 = unexpected [\end]), the reader standing right after it. *)
Theorem C05_fault_closing_partial : forall cx path l1 l2 dtr c,
  ok_doc cx (zdoc path l1 l2 dtr) = true -> stray_wf c -> closes_hole (lefts path) c = false ->
  let q := length (zleft path l1) in
  exists e,
    parse_top (zleft path l1 ++ stray_text c ++ zright path l2 dtr) false cx (walker_state cx)
    = PErr e (q + length (stray_text c))
    /\ pe_pos e = Some q /\ pe_what e = stray_what c.
Proof. exact fault_closing_doc. Qed.

(** the same with an ARBITRARY continuation [g]: only the left context
    ([ok_lpath]: the frames of the nesting path, each with the items before it)
    and the items [l1] of the innermost body before the token (with optional
    whitespace [fws] in front of the token) have to be well formed *)
Theorem C05_fault_closing_any_suffix_partial : forall cx path l1 fws c g,
  let ps0 := walker_state cx in
  ok_lpath cx ps0 path (hd_error (unparse_items l1 ++ fws ++ stray_text c)) = true ->
  ok_items cx (lp_state cx ps0 path) l1 (hd_error (fws ++ stray_text c)) = true ->
  ws_ok fws = true -> stray_wf c -> closes_hole path c = false ->
  let q := length (lp_text path) + length (unparse_items l1) + length fws in
  exists e,
    parse_top (lp_text path ++ unparse_items l1 ++ fws ++ stray_text c ++ g) false cx ps0
    = PErr e (q + length (stray_text c))
    /\ pe_pos e = Some q /\ pe_what e = stray_what c.
Proof. exact fault_closing. Qed.

(** ** An unmatched opening delimiter: [open_text op] is [{] ([OBrace]), [$],
    [\(], [\[], [$$] ([OMath k], all four kinds) or [\begin{x}] ([OBegin x]).  [open_side cx hs op l2
    fol] (state [hs] of the body it is inserted in, items [l2] after it, then
    [fol]): [open_wf] — a math delimiter stands outside math mode; the
    environment name is valid, the context knows the environment (or has a
    fallback) and it takes no arguments —; the items [l2] are well formed also in
    the state of the new construct's body (automatic when that is [hs]: [{], an
    environment whose body is not in math mode); [$] is not directly followed by
    [$].

    At top level the strict parse fails when the input ends (reader at
    [length s]) with the general-nodes parser's error 6 ("stop condition not
    met": the closing delimiter was not found), located right after the
    inserted delimiter. *)
Theorem C05_fault_opening_partial : forall cx l1 l2 dtr op,
  ok_doc cx {| d_items := l1 ++ l2; d_trail := dtr |} = true -> open_side cx (walker_state cx) op l2 dtr ->
  let s := unparse_items l1 ++ open_text op ++ unparse_items l2 ++ dtr in
  exists e,
    parse_top s false cx (walker_state cx) = PErr e (length s)
    /\ pe_pos e = Some (length (unparse_items l1) + length (open_text op)) /\ pe_what e = 6.
Proof. exact fault_opening_doc. Qed.

(** In a nested body (path [path ++ [f]], innermost construct [f]) the new
    construct reads on to the closing delimiter [c] of [f] ([closer_of f = Some
    c]: [}] for a group or macro argument, [\)], [\]]; none for [$ $] and [$$ $$]); if that is
    not its own closing delimiter ([stray_ok]) its collector rejects it: the
    error is located AT the closing delimiter of [f] (after the rest [l2] of the
    body and the whitespace [frame_tr f] in front of it), with the raise site of
    that token. *)
Theorem C05_fault_opening_nested_partial : forall cx path f l1 l2 dtr op c,
  let hs := lp_state cx (walker_state cx) (lefts (path ++ [f])) in
  ok_doc cx (zdoc (path ++ [f]) l1 l2 dtr) = true -> closer_of f = Some c ->
  open_side cx hs op l2 (frame_tr f ++ stray_text c) ->
  stray_ok (open_opts (open_state cx hs op) op) c ->
  let q := length (zleft (path ++ [f]) l1) + length (open_text op) + length (unparse_items l2) + length (frame_tr f) in
  exists e,
    parse_top (zleft (path ++ [f]) l1 ++ open_text op ++ zright (path ++ [f]) l2 dtr) false cx (walker_state cx)
    = PErr e (q + length (stray_text c))
    /\ pe_pos e = Some q /\ pe_what e = stray_what c.
Proof. exact fault_open_nested_doc. Qed.

(** the general form: any left context, then well-formed items, the opening
    delimiter, well-formed items, a closing token the new construct does not
    accept, then ANYTHING *)
Theorem C05_fault_opening_any_suffix_partial : forall cx path l1 fws op l2 tr c g,
  let ps0 := walker_state cx in
  let hs := lp_state cx ps0 path in
  ok_lpath cx ps0 path (hd_error (unparse_items l1 ++ fws ++ open_text op)) = true ->
  ok_items cx hs l1 (hd_error (fws ++ open_text op)) = true -> ws_ok fws = true ->
  open_wf cx hs op ->
  ok_items cx (open_state cx hs op) l2 (hd_error (tr ++ stray_text c)) = true -> ws_ok tr = true ->
  stray_wf c -> stray_ok (open_opts (open_state cx hs op) op) c ->
  (op = OMath MDollar -> hd_not (fun c => N.eqb c 36) (unparse_items l2 ++ tr ++ stray_text c ++ g)) ->
  let q := length (lp_text path) + length (unparse_items l1) + length fws + length (open_text op)
           + length (unparse_items l2) + length tr in
  exists e,
    parse_top (lp_text path ++ unparse_items l1 ++ fws ++ open_text op ++ unparse_items l2 ++ tr ++ stray_text c ++ g)
              false cx ps0
    = PErr e (q + length (stray_text c))
    /\ pe_pos e = Some q /\ pe_what e = stray_what c.
Proof. exact fault_open_nested. Qed.

(** ** A closing brace inserted in a group, or in the LAST argument of a macro
    call when that argument is read in the same math mode as the enclosing body
    ([thru cx im f], [im] = the enclosing body is in math mode), closes that
    construct early; the construct's own
    closing brace then closes the enclosing one, and so on outwards through the
    chain [chain] of directly nested such constructs (outermost first; [outer] is
    the path down to the body that holds the outermost of them, a body that is
    not a group's or macro argument's: top level or a formula).  The closing
    brace of the OUTERMOST construct of the chain is the one that is rejected:
    with [(L, W, R) = early chain l1 l2] — the faulted body reads as the items
    [L], whitespace [W], the left-over brace, then [R] — the error is an
    "unexpected closing brace" (2) located at that brace. *)
Theorem C05_fault_closing_brace_in_groups_partial : forall cx outer chain l1 l2 dtr,
  forallb (thru cx (f_in_math (ps_f (lp_state cx (walker_state cx) (lefts outer))))) chain = true ->
  chain <> [] -> closes_hole (lefts outer) SBrace = false ->
  ok_doc cx (zdoc (outer ++ chain) l1 l2 dtr) = true ->
  let '(L, W, R) := early chain l1 l2 in
  let q := length (lp_text (lefts outer)) + length (unparse_items L) + length W in
  exists e,
    parse_top (zleft (outer ++ chain) l1 ++ [125%N] ++ zright (outer ++ chain) l2 dtr) false cx (walker_state cx)
    = PErr e (q + 1)
    /\ pe_pos e = Some q /\ pe_what e = 2.
Proof. exact fault_closing_brace_chain. Qed.

(** ** A closing math delimiter [\)] / [\]] inserted in a formula of the SAME
    kind ([f = FMath b ws k tr a], [k <> MDollar], [k <> MDollars]: for [$] /
    [$$] the outcome is another one, see [C05_fault_dollar_in_dollars_partial]
    below and [C05_dollars_are_not_closing_tokens]) closes it early; the rest
    [l2] of the formula body is then read in the enclosing body, outside math
    mode — hypothesis: it is well formed there too — and the formula's own
    closing delimiter is left over: "unexpected closing math delimiter" (4)
    located at it.  ([closes_hole (lefts path) (SMClose k) = false] holds for
    every well-formed document: a formula does not stand directly in a formula.) *)
Theorem C05_fault_closing_math_same_partial : forall cx path b ws k tr a l1 l2 dtr,
  k <> MDollar -> k <> MDollars ->
  let f := FMath b ws k tr a in
  let hs := lp_state cx (walker_state cx) (lefts path) in
  ok_doc cx (zdoc (path ++ [f]) l1 l2 dtr) = true ->
  closes_hole (lefts path) (SMClose k) = false ->
  ok_items cx hs l2 (hd_error (tr ++ m_close k)) = true ->
  let L := b ++ Math ws k l1 [] :: l2 in
  let q := length (lp_text (lefts path)) + length (unparse_items L) + length tr in
  exists e,
    parse_top (zleft (path ++ [f]) l1 ++ m_close k ++ zright (path ++ [f]) l2 dtr) false cx (walker_state cx)
    = PErr e (q + 2)
    /\ pe_pos e = Some q /\ pe_what e = 4.
Proof. exact fault_close_math_same. Qed.

(** ** A [$] inserted in a [$ $] formula (after at least one character of its
    body: [$$] would be the display delimiter), or a [$$] inserted in a [$$ $$]
    formula (anywhere in its body) — [f = FMath b ws k tr a], [dollar_kind k]:
    [k = MDollar \/ k = MDollars] — closes it early; the rest [l2] of the body
    is read in the enclosing body (hypothesis: well formed there) and the
    formula's own closing [$] / [$$] OPENS a new formula that takes in what follows
    (hypothesis: the later siblings [a] are well formed in math mode and, for
    [$], do not start with [$]).  At top level that formula is never closed:
    error 6 right after that [$] / [$$], raised at the end of input; in a nested
    body it runs into the enclosing closing delimiter, rejected there. *)
Theorem C05_fault_dollar_in_dollars_partial : forall cx b ws k tr a l1 l2 dtr,
  dollar_kind k ->
  let f := FMath b ws k tr a in
  let ps0 := walker_state cx in
  ok_doc cx (zdoc [f] l1 l2 dtr) = true -> (k = MDollar -> unparse_items l1 <> []) ->
  ok_items cx ps0 l2 (hd_error (tr ++ m_close k)) = true ->
  ok_items cx (ps_enter_math ps0 (Some (m_open k))) a (hd_error dtr) = true ->
  (k = MDollar -> hd_not (fun c => N.eqb c 36) (unparse_items a ++ dtr)) ->
  let s := zleft [f] l1 ++ m_close k ++ zright [f] l2 dtr in
  let q := length (unparse_items (b ++ Math ws k l1 [] :: l2)) + length tr + length (m_close k) in
  exists e, parse_top s false cx ps0 = PErr e (length s) /\ pe_pos e = Some q /\ pe_what e = 6.
Proof. exact fault_dollar_early_top. Qed.

Theorem C05_fault_dollar_in_dollars_nested_partial : forall cx path g b ws k tr a l1 l2 dtr c,
  dollar_kind k ->
  let f := FMath b ws k tr a in
  let hs := lp_state cx (walker_state cx) (lefts (path ++ [g])) in
  ok_doc cx (zdoc ((path ++ [g]) ++ [f]) l1 l2 dtr) = true -> closer_of g = Some c ->
  (k = MDollar -> unparse_items l1 <> []) ->
  ok_items cx hs l2 (hd_error (tr ++ m_close k)) = true ->
  ok_items cx (ps_enter_math hs (Some (m_open k))) a (hd_error (frame_tr g ++ stray_text c)) = true ->
  (k = MDollar -> hd_not (fun c0 => N.eqb c0 36) (unparse_items a ++ frame_tr g ++ stray_text c)) ->
  let q := length (lp_text (lefts (path ++ [g]))) + length (unparse_items (b ++ Math ws k l1 [] :: l2))
           + length tr + length (m_close k) + length (unparse_items a) + length (frame_tr g) in
  exists e,
    parse_top (zleft ((path ++ [g]) ++ [f]) l1 ++ m_close k ++ zright ((path ++ [g]) ++ [f]) l2 dtr)
              false cx (walker_state cx)
    = PErr e (q + length (stray_text c))
    /\ pe_pos e = Some q /\ pe_what e = stray_what c.
Proof. exact fault_dollar_early_nested. Qed.

(** ** An opening brace inserted in a group: the group's closing brace closes
    the NEW group, the enclosing group's closing brace closes the group, and so
    on outwards through the chain [chain] of directly nested groups; the
    outermost group of the chain ([chain_head chain] = the items before it and
    the whitespace before its brace) is left without a closing brace and
    swallows what follows ([late chain l1 l2] = its body as the faulted text
    reads).  Standing at top level it is rejected when the input ends, error 6
    located right after its opening brace; standing in a [\( \)] or [\[ \]]
    formula [g] ([closer_of g = Some c], [c <> SBrace]; not [$ $] / [$$ $$]) it
    runs into the formula's closing delimiter, rejected there. *)
Theorem C05_fault_opening_brace_in_groups_partial : forall cx chain l1 l2 dtr,
  forallb is_grp chain = true -> chain <> [] ->
  ok_doc cx (zdoc chain l1 l2 dtr) = true ->
  let s := zleft chain l1 ++ [123%N] ++ zright chain l2 dtr in
  let q := length (unparse_items (fst (chain_head chain))) + length (snd (chain_head chain)) + 1 in
  exists e, parse_top s false cx (walker_state cx) = PErr e (length s) /\ pe_pos e = Some q /\ pe_what e = 6.
Proof. exact fault_open_brace_chain_top. Qed.

Theorem C05_fault_opening_brace_in_groups_math_partial : forall cx outer g chain l1 l2 dtr c,
  forallb is_grp chain = true -> chain <> [] ->
  closer_of g = Some c -> c <> SBrace ->
  ok_doc cx (zdoc ((outer ++ [g]) ++ chain) l1 l2 dtr) = true ->
  let q := length (lp_text (lefts (outer ++ [g]))) + length (unparse_items (fst (chain_head chain)))
           + length (snd (chain_head chain)) + 1 + length (unparse_items (late chain l1 l2)) + length (frame_tr g) in
  exists e,
    parse_top (zleft ((outer ++ [g]) ++ chain) l1 ++ [123%N] ++ zright ((outer ++ [g]) ++ chain) l2 dtr)
              false cx (walker_state cx)
    = PErr e (q + length (stray_text c))
    /\ pe_pos e = Some q /\ pe_what e = stray_what c.
Proof. exact fault_open_brace_chain_math. Qed.

(** ** Non-vacuity *)
Open Scope N_scope.

(** the document [a {b $c \textbf{d e} f$ g} h ]: the designated body is that
    of [\textbf]'s argument, inside a formula, inside a group; the insertion
    point is between [d] and [ e] *)
Definition c05_path : list frame :=
  [FGrp [Text [] [97]] [32] [] [Text [32] [104]];
   FMath [Text [] [98]] [32] MDollar [] [Text [32] [103]];
   FMac [Text [] [99]] [32] [116;101;120;116;98;102] [] [] [] [] [Text [32] [102]]].
Definition c05_l1 : list item := [Text [] [100]].
Definition c05_l2 : list item := [Text [32] [101]].

Example C05_fault_closing_nonvacuous :
  ok_doc default_ctx (zdoc c05_path c05_l1 c05_l2 [32]) = true /\
  unparse (zdoc c05_path c05_l1 c05_l2 [32])
  = [97;32;123;98;32;36;99;32;92;116;101;120;116;98;102;123;100;32;101;125;32;102;36;32;103;125;32;104;32] /\
  (* \) \] \end{zq} are not the closing delimiter of a macro argument: rejected at position 17 *)
  forallb (fun c =>
    negb (closes_hole (lefts c05_path) c) &&
    match parse_top (zleft c05_path c05_l1 ++ stray_text c ++ zright c05_path c05_l2 [32]) false
                    default_ctx (walker_state default_ctx) with
    | PErr e p => Nat.eqb p (17 + length (stray_text c)) && Nat.eqb (pe_what e) (stray_what c)
                  && match pe_pos e with Some q => Nat.eqb q 17 | None => false end
    | _ => false end) [SMClose MParen; SMClose MBracket; SEnd [122;113]] = true /\
  (* the brace would close the argument: not covered by the theorem (it is rejected later) *)
  closes_hole (lefts c05_path) SBrace = true /\
  (* one level up, in the formula body after [c], the brace is a stray one *)
  closes_hole (lefts (firstn 2 c05_path)) SBrace = false.
Proof. vm_compute. repeat split. Qed.

(** the brace in a formula body, with the conclusion evaluated independently *)
Example C05_fault_closing_brace_instance :
  let path := firstn 2 c05_path in
  let l1 := [Text [] [99]] in
  let l2 := [Mac [32] [116;101;120;116;98;102] [] [Grp [] [Text [] [100]; Text [32] [101]] []]; Text [32] [102]] in
  ok_doc default_ctx (zdoc path l1 l2 [32]) = true /\
  unparse (zdoc path l1 l2 [32]) = unparse (zdoc c05_path c05_l1 c05_l2 [32]) /\
  exists e, parse_top (zleft path l1 ++ stray_text SBrace ++ zright path l2 [32]) false default_ctx
                      (walker_state default_ctx) = PErr e 8
            /\ pe_pos e = Some 7%nat /\ pe_what e = 2%nat.
Proof. vm_compute. repeat split. eexists. repeat split. Qed.

(** [ab {c} $x$ d]: an opening brace / [\begin{zq}] / [\(] inserted after [ab];
    for [\(] the side condition fails on the rest [ {c} $x$ d] (it contains a
    formula) but holds in front of [ {c} d] *)
Example C05_fault_opening_nonvacuous :
  let l1 := [Text [] [97;98]] in
  let l2 := [Grp [32] [Text [] [99]] []; Math [32] MDollar [Text [] [120]] []; Text [32] [100]] in
  let l2' := [Grp [32] [Text [] [99]] []; Text [32] [100]] in
  let ps0 := walker_state default_ctx in
  ok_doc default_ctx {| d_items := l1 ++ l2; d_trail := [] |} = true /\
  (exists e, parse_top (unparse_items l1 ++ open_text OBrace ++ unparse_items l2) false default_ctx ps0
             = PErr e 13 /\ pe_pos e = Some 3%nat /\ pe_what e = 6%nat) /\
  (open_state default_ctx ps0 (OBegin [122;113]) = ps0 /\ envname_ok [122;113] = true /\
   (exists sp, get_env_spec default_ctx [122;113] = Some sp /\ sp_args sp = APStd [])) /\
  (exists e, parse_top (unparse_items l1 ++ open_text (OBegin [122;113]) ++ unparse_items l2) false default_ctx ps0
             = PErr e 22 /\ pe_pos e = Some 12%nat /\ pe_what e = 6%nat) /\
  ok_items default_ctx (ps_enter_math ps0 (Some (m_open MParen))) l2 None = false /\
  ok_doc default_ctx {| d_items := l1 ++ l2'; d_trail := [] |} = true /\
  ok_items default_ctx (ps_enter_math ps0 (Some (m_open MParen))) l2' None = true /\
  (exists e, parse_top (unparse_items l1 ++ open_text (OMath MParen) ++ unparse_items l2') false default_ctx ps0
             = PErr e 10 /\ pe_pos e = Some 4%nat /\ pe_what e = 6%nat).
Proof.
  vm_compute. split; [reflexivity|]. split; [eexists; repeat split|].
  split; [split; [reflexivity|split; [reflexivity|eexists; split; reflexivity]]|].
  split; [eexists; repeat split|]. split; [reflexivity|].
  split; [reflexivity|]. split; [reflexivity|]. eexists; repeat split.
Qed.

(** nested: in [a {b c} \(d e\) f] an opening [\(] inserted between [b] and [ c]
    runs into the group's [}] (offset 8 of the faulted text: unexpected closing
    brace); an opening [{] or [\begin{zq}] inserted between [d] and [ e] runs into
    [\)] (unexpected closing math delimiter) *)
Example C05_fault_opening_nested_nonvacuous :
  let fg := FGrp [Text [] [97]] [32] [] [Math [32] MParen [Text [] [100]; Text [32] [101]] []; Text [32] [102]] in
  let fm := FMath [Text [] [97]; Grp [32] [Text [] [98]; Text [32] [99]] []] [32] MParen [] [Text [32] [102]] in
  let ps0 := walker_state default_ctx in
  ok_doc default_ctx (zdoc [fg] [Text [] [98]] [Text [32] [99]] []) = true /\
  unparse (zdoc [fg] [Text [] [98]] [Text [32] [99]] []) = [97;32;123;98;32;99;125;32;92;40;100;32;101;92;41;32;102] /\
  unparse (zdoc [fm] [Text [] [100]] [Text [32] [101]] []) = unparse (zdoc [fg] [Text [] [98]] [Text [32] [99]] []) /\
  ok_doc default_ctx (zdoc [fm] [Text [] [100]] [Text [32] [101]] []) = true /\
  (exists e, parse_top (zleft [fg] [Text [] [98]] ++ open_text (OMath MParen) ++ zright [fg] [Text [32] [99]] [])
                       false default_ctx ps0 = PErr e 9 /\ pe_pos e = Some 8%nat /\ pe_what e = 2%nat) /\
  (exists e, parse_top (zleft [fm] [Text [] [100]] ++ open_text OBrace ++ zright [fm] [Text [32] [101]] [])
                       false default_ctx ps0 = PErr e 16 /\ pe_pos e = Some 14%nat /\ pe_what e = 4%nat) /\
  (exists e, parse_top (zleft [fm] [Text [] [100]] ++ open_text (OBegin [122;113]) ++ zright [fm] [Text [32] [101]] [])
                       false default_ctx ps0 = PErr e 25 /\ pe_pos e = Some 23%nat /\ pe_what e = 4%nat).
Proof.
  vm_compute. split; [reflexivity|]. split; [reflexivity|]. split; [reflexivity|]. split; [reflexivity|].
  split; [eexists; repeat split|]. split; [eexists; repeat split|]. eexists; repeat split.
Qed.

(** [a $b {c {d e} f} g$ h]: a brace inserted between [d] and [ e] closes the
    inner group, the inner group's brace closes the outer one, the outer one's
    brace (offset 16 of the faulted text) is rejected in the formula body; and
    [a \textbf{b {c d} e} f]: the same with a macro argument as the outer construct *)
Example C05_fault_closing_brace_in_groups_nonvacuous :
  let outer := [FMath [Text [] [97]] [32] MDollar [] [Text [32] [104]]] in
  let chain := [FGrp [Text [] [98]] [32] [] [Text [32] [103]];
                FGrp [Text [] [99]] [32] [] [Text [32] [102]]] in
  let l1 := [Text [] [100]] in let l2 := [Text [32] [101]] in
  let chain2 := [FMac [Text [] [97]] [32] [116;101;120;116;98;102] [] [] [] [] [Text [32] [102]];
                 FGrp [Text [] [98]] [32] [] [Text [32] [101]]] in
  let m1 := [Text [] [99]] in let m2 := [Text [32] [100]] in
  ok_doc default_ctx (zdoc (outer ++ chain) l1 l2 []) = true /\
  unparse (zdoc (outer ++ chain) l1 l2 []) = [97;32;36;98;32;123;99;32;123;100;32;101;125;32;102;125;32;103;36;32;104] /\
  closes_hole (lefts outer) SBrace = false /\
  match early chain l1 l2 with
  | (L, W, R) => (length (lp_text (lefts outer)) + length (unparse_items L) + length W)%nat
  end = 16%nat /\
  (exists e, parse_top (zleft (outer ++ chain) l1 ++ [125] ++ zright (outer ++ chain) l2 []) false default_ctx
                       (walker_state default_ctx) = PErr e 17
             /\ pe_pos e = Some 16%nat /\ pe_what e = 2%nat) /\
  forallb (thru default_ctx false) chain2 = true /\ ok_doc default_ctx (zdoc chain2 m1 m2 []) = true /\
  unparse (zdoc chain2 m1 m2 []) = [97;32;92;116;101;120;116;98;102;123;98;32;123;99;32;100;125;32;101;125;32;102] /\
  (exists e, parse_top (zleft chain2 m1 ++ [125] ++ zright chain2 m2 []) false default_ctx
                       (walker_state default_ctx) = PErr e 21
             /\ pe_pos e = Some 20%nat /\ pe_what e = 2%nat).
Proof.
  vm_compute. split; [reflexivity|]. split; [reflexivity|]. split; [reflexivity|]. split; [reflexivity|].
  split; [eexists; repeat split|]. split; [reflexivity|]. split; [reflexivity|]. split; [reflexivity|].
  eexists; repeat split.
Qed.

(** [a \(b c\) d]: [\)] inserted between [b] and [ c] closes the formula, [ c] is
    read as text, the formula's own [\)] (offset 9 of the faulted text) is rejected *)
Example C05_fault_closing_math_same_nonvacuous :
  let f := FMath [Text [] [97]] [32] MParen [] [Text [32] [100]] in
  let l1 := [Text [] [98]] in let l2 := [Text [32] [99]] in
  ok_doc default_ctx (zdoc [f] l1 l2 []) = true /\
  unparse (zdoc [f] l1 l2 []) = [97;32;92;40;98;32;99;92;41;32;100] /\
  ok_items default_ctx (walker_state default_ctx) l2 (Some 92) = true /\
  exists e, parse_top (zleft [f] l1 ++ m_close MParen ++ zright [f] l2 []) false default_ctx (walker_state default_ctx)
            = PErr e 11 /\ pe_pos e = Some 9%nat /\ pe_what e = 4%nat.
Proof. vm_compute. repeat split. eexists. repeat split. Qed.

(** [a {b {c d} e} f]: [{] inserted between [c] and [ d]: the outer group (opened
    at offset 2) is never closed, error 6 located at offset 3, raised at the end;
    and the same chain inside [\( \)]: rejected at [\)] *)
Example C05_fault_opening_brace_in_groups_nonvacuous :
  let chain := [FGrp [Text [] [97]] [32] [] [Text [32] [102]]; FGrp [Text [] [98]] [32] [] [Text [32] [101]]] in
  let g := FMath [] [] MParen [] [] in
  let chain' := [FGrp [Text [] [97]] [32] [] [Text [32] [102]]; FGrp [Text [] [98]] [32] [] [Text [32] [101]]] in
  let l1 := [Text [] [99]] in let l2 := [Text [32] [100]] in
  ok_doc default_ctx (zdoc chain l1 l2 []) = true /\
  unparse (zdoc chain l1 l2 []) = [97;32;123;98;32;123;99;32;100;125;32;101;125;32;102] /\
  (exists e, parse_top (zleft chain l1 ++ [123] ++ zright chain l2 []) false default_ctx (walker_state default_ctx)
             = PErr e 16 /\ pe_pos e = Some 3%nat /\ pe_what e = 6%nat) /\
  ok_doc default_ctx (zdoc (([] ++ [g]) ++ chain') l1 l2 []) = true /\
  unparse (zdoc (([] ++ [g]) ++ chain') l1 l2 []) = [92;40;97;32;123;98;32;123;99;32;100;125;32;101;125;32;102;92;41] /\
  (exists e, parse_top (zleft (([] ++ [g]) ++ chain') l1 ++ [123] ++ zright (([] ++ [g]) ++ chain') l2 []) false
                       default_ctx (walker_state default_ctx)
             = PErr e 20 /\ pe_pos e = Some 18%nat /\ pe_what e = 4%nat).
Proof.
  vm_compute. split; [reflexivity|]. split; [reflexivity|]. split; [eexists; repeat split|].
  split; [reflexivity|]. split; [reflexivity|]. eexists; repeat split.
Qed.

(** [a $b c$ d]: [$] inserted between [b] and [ c]: [$b$], then [ c], then the
    old closing [$] opens a formula [ d] that never ends (error 6 located at
    offset 8); and the same inside a group: rejected at the group's [}] *)
Example C05_fault_dollar_in_dollars_nonvacuous :
  let l1 := [Text [] [98]] in let l2 := [Text [32] [99]] in
  let g := FGrp [] [] [] [] in
  ok_doc default_ctx (zdoc [FMath [Text [] [97]] [32] MDollar [] [Text [32] [100]]] l1 l2 []) = true /\
  (exists e, parse_top (zleft [FMath [Text [] [97]] [32] MDollar [] [Text [32] [100]]] l1 ++ [36]
                        ++ zright [FMath [Text [] [97]] [32] MDollar [] [Text [32] [100]]] l2 []) false
                       default_ctx (walker_state default_ctx)
             = PErr e 10 /\ pe_pos e = Some 8%nat /\ pe_what e = 6%nat) /\
  ok_doc default_ctx (zdoc (([] ++ [g]) ++ [FMath [Text [] [97]] [32] MDollar [] [Text [32] [100]]]) l1 l2 []) = true /\
  (exists e, parse_top (zleft (([] ++ [g]) ++ [FMath [Text [] [97]] [32] MDollar [] [Text [32] [100]]]) l1 ++ [36]
                        ++ zright (([] ++ [g]) ++ [FMath [Text [] [97]] [32] MDollar [] [Text [32] [100]]]) l2 [])
                       false default_ctx (walker_state default_ctx)
             = PErr e 12 /\ pe_pos e = Some 11%nat /\ pe_what e = 2%nat).
Proof.
  vm_compute. split; [reflexivity|]. split; [eexists; repeat split|]. split; [reflexivity|]. eexists; repeat split.
Qed.

(** the any-suffix forms: left context [x {y \textbf{] + items [a] + whitespace +
    [\)] + garbage [{$] (nothing after the token is well formed); and left context
    [\(] + [a] + [{] + [b] + [ ] + [\)] + garbage [}}] *)
Example C05_fault_any_suffix_nonvacuous :
  let path := [LGrp [Text [] [120]] [32]; LMac [Text [] [121]] [32] [116;101;120;116;98;102] [] []] in
  let ps0 := walker_state default_ctx in
  ok_lpath default_ctx ps0 path (Some 97) = true /\
  ok_items default_ctx (lp_state default_ctx ps0 path) [Text [] [97]] (Some 32) = true /\
  closes_hole path (SMClose MParen) = false /\
  (exists e, parse_top (lp_text path ++ [97] ++ [32] ++ stray_text (SMClose MParen) ++ [123;36]) false default_ctx ps0
             = PErr e 17 /\ pe_pos e = Some 15%nat /\ pe_what e = 4%nat) /\
  (let path2 := [LMath [] [] MParen] in
   ok_lpath default_ctx ps0 path2 (Some 97) = true /\
   ok_items default_ctx (lp_state default_ctx ps0 path2) [Text [] [97]] (Some 123) = true /\
   ok_items default_ctx (open_state default_ctx (lp_state default_ctx ps0 path2) OBrace) [Text [] [98]] (Some 32) = true /\
   exists e, parse_top (lp_text path2 ++ [97] ++ [] ++ open_text OBrace ++ [98] ++ [32]
                        ++ stray_text (SMClose MParen) ++ [125;125]) false default_ctx ps0
             = PErr e 8 /\ pe_pos e = Some 6%nat /\ pe_what e = 4%nat).
Proof.
  vm_compute. split; [reflexivity|]. split; [reflexivity|]. split; [reflexivity|]. split; [eexists; repeat split|].
  split; [reflexivity|]. split; [reflexivity|]. split; [reflexivity|]. eexists; repeat split.
Qed.

(** display formulas [$$ $$] (the fourth math kind).  [a $$b c$$ d]: a stray [}]
    / [\)] / [\]] / [\end{zq}] between [b] and [ c] is rejected where it stands
    (offset 5; the path goes through a [$$ $$] formula); [$$] inserted there
    closes the formula, [ c] is read as text and the formula's own [$$] opens a
    formula [ d] that never ends (error 6 located at offset 11, raised at the
    end); [$$] inserted right at the START of the body (allowed for [$$], not
    for [$]) likewise; the same formula inside a group: the new formula runs
    into the group's [}] (offset 14) *)
Example C05_fault_dollars_nonvacuous :
  let f := FMath [Text [] [97]] [32] MDollars [] [Text [32] [100]] in
  let fm := FMath [Text [] [97]] [32] MDollars [] [] in
  let g := FGrp [] [] [] [] in
  let l1 := [Text [] [98]] in let l2 := [Text [32] [99]] in
  let ps0 := walker_state default_ctx in
  ok_doc default_ctx (zdoc [fm] l1 l2 []) = true /\
  unparse (zdoc [fm] l1 l2 []) = [97;32;36;36;98;32;99;36;36] /\
  forallb (fun c =>
    negb (closes_hole (lefts [fm]) c) &&
    match parse_top (zleft [fm] l1 ++ stray_text c ++ zright [fm] l2 []) false default_ctx ps0 with
    | PErr e p => Nat.eqb p (5 + length (stray_text c)) && Nat.eqb (pe_what e) (stray_what c)
                  && match pe_pos e with Some q => Nat.eqb q 5 | None => false end
    | _ => false end) [SBrace; SMClose MParen; SMClose MBracket; SEnd [122;113]] = true /\
  dollar_kind MDollars /\
  ok_doc default_ctx (zdoc [f] l1 l2 []) = true /\
  unparse (zdoc [f] l1 l2 []) = [97;32;36;36;98;32;99;36;36;32;100] /\
  ok_items default_ctx ps0 l2 (hd_error ([] ++ m_close MDollars)) = true /\
  ok_items default_ctx (ps_enter_math ps0 (Some (m_open MDollars))) [Text [32] [100]] None = true /\
  (exists e, parse_top (zleft [f] l1 ++ m_close MDollars ++ zright [f] l2 []) false default_ctx ps0
             = PErr e 13 /\ pe_pos e = Some 11%nat /\ pe_what e = 6%nat) /\
  ok_doc default_ctx (zdoc [f] [] (l1 ++ l2) []) = true /\
  (exists e, parse_top (zleft [f] [] ++ m_close MDollars ++ zright [f] (l1 ++ l2) []) false default_ctx ps0
             = PErr e 13 /\ pe_pos e = Some 11%nat /\ pe_what e = 6%nat) /\
  ok_doc default_ctx (zdoc (([] ++ [g]) ++ [f]) l1 l2 []) = true /\
  (exists e, parse_top (zleft (([] ++ [g]) ++ [f]) l1 ++ m_close MDollars ++ zright (([] ++ [g]) ++ [f]) l2 [])
                       false default_ctx ps0
             = PErr e 15 /\ pe_pos e = Some 14%nat /\ pe_what e = 2%nat).
Proof.
  vm_compute. split; [reflexivity|]. split; [reflexivity|]. split; [reflexivity|]. split; [right; reflexivity|].
  split; [reflexivity|]. split; [reflexivity|]. split; [reflexivity|]. split; [reflexivity|].
  split; [eexists; repeat split|]. split; [reflexivity|]. split; [eexists; repeat split|].
  split; [reflexivity|]. eexists; repeat split.
Qed.

(** [$$] as an unmatched OPENING delimiter: inserted after [ab] in [ab {c} d]
    (never closed: error 6 located at offset 4, raised at the end of input) and
    between [b] and [ c] in [a {b c} \(d e\) f] (runs into the group's [}] at
    offset 8 of the faulted text: unexpected closing brace) *)
Example C05_fault_opening_dollars_nonvacuous :
  let l1 := [Text [] [97;98]] in
  let l2 := [Grp [32] [Text [] [99]] []; Text [32] [100]] in
  let fg := FGrp [Text [] [97]] [32] [] [Math [32] MParen [Text [] [100]; Text [32] [101]] []; Text [32] [102]] in
  let ps0 := walker_state default_ctx in
  ok_doc default_ctx {| d_items := l1 ++ l2; d_trail := [] |} = true /\
  ok_items default_ctx (ps_enter_math ps0 (Some (m_open MDollars))) l2 None = true /\
  (exists e, parse_top (unparse_items l1 ++ open_text (OMath MDollars) ++ unparse_items l2) false default_ctx ps0
             = PErr e 10 /\ pe_pos e = Some 4%nat /\ pe_what e = 6%nat) /\
  ok_doc default_ctx (zdoc [fg] [Text [] [98]] [Text [32] [99]] []) = true /\
  (exists e, parse_top (zleft [fg] [Text [] [98]] ++ open_text (OMath MDollars) ++ zright [fg] [Text [32] [99]] [])
                       false default_ctx ps0 = PErr e 9 /\ pe_pos e = Some 8%nat /\ pe_what e = 2%nat).
Proof.
  vm_compute. split; [reflexivity|]. split; [reflexivity|]. split; [eexists; repeat split|].
  split; [reflexivity|]. eexists; repeat split.
Qed.

(** the side conditions [k <> MDollar], [k <> MDollars] of [stray_wf] and of
    [C05_fault_closing_math_same_partial] are NECESSARY: [$] / [$$] inserted
    between [a] and [ b] at top level ([a$ b], [a$$ b]) or in a [\( \)] formula
    ([\(a$ b\)], [\(a$$ b\)]) is not the closing delimiter of the hole, yet it
    is not rejected where it stands (error 4 at offset 1 / 3): it OPENS a
    formula, which is never closed (error 6 located after it, raised at the
    end of input) / runs into [\)] (error 4 located THERE) *)
Example C05_dollars_are_not_closing_tokens :
  let fp := FMath [] [] MParen [] [] in
  let l1 := [Text [] [97]] in let l2 := [Text [32] [98]] in
  let ps0 := walker_state default_ctx in
  ok_doc default_ctx (zdoc [] l1 l2 []) = true /\ ok_doc default_ctx (zdoc [fp] l1 l2 []) = true /\
  closes_hole (lefts []) (SMClose MDollar) = false /\ closes_hole (lefts []) (SMClose MDollars) = false /\
  closes_hole (lefts [fp]) (SMClose MDollar) = false /\ closes_hole (lefts [fp]) (SMClose MDollars) = false /\
  (exists e, parse_top (zleft [] l1 ++ stray_text (SMClose MDollar) ++ zright [] l2 []) false default_ctx ps0
             = PErr e 4 /\ pe_pos e = Some 2%nat /\ pe_what e = 6%nat) /\
  (exists e, parse_top (zleft [] l1 ++ stray_text (SMClose MDollars) ++ zright [] l2 []) false default_ctx ps0
             = PErr e 5 /\ pe_pos e = Some 3%nat /\ pe_what e = 6%nat) /\
  (exists e, parse_top (zleft [fp] l1 ++ stray_text (SMClose MDollar) ++ zright [fp] l2 []) false default_ctx ps0
             = PErr e 8 /\ pe_pos e = Some 6%nat /\ pe_what e = 4%nat) /\
  (exists e, parse_top (zleft [fp] l1 ++ stray_text (SMClose MDollars) ++ zright [fp] l2 []) false default_ctx ps0
             = PErr e 9 /\ pe_pos e = Some 7%nat /\ pe_what e = 4%nat).
Proof.
  vm_compute. split; [reflexivity|]. split; [reflexivity|]. split; [reflexivity|]. split; [reflexivity|].
  split; [reflexivity|]. split; [reflexivity|]. split; [eexists; repeat split|]. split; [eexists; repeat split|].
  split; [eexists; repeat split|]. eexists; repeat split.
Qed.

Print Assumptions C05_zdoc_text.
Print Assumptions C05_fault_closing_partial.
Print Assumptions C05_fault_closing_any_suffix_partial.
Print Assumptions C05_fault_opening_partial.
Print Assumptions C05_fault_opening_nested_partial.
Print Assumptions C05_fault_opening_any_suffix_partial.
Print Assumptions C05_fault_closing_brace_in_groups_partial.
Print Assumptions C05_fault_closing_math_same_partial.
Print Assumptions C05_fault_dollar_in_dollars_partial.
Print Assumptions C05_fault_dollar_in_dollars_nested_partial.
Print Assumptions C05_fault_opening_brace_in_groups_partial.
Print Assumptions C05_fault_opening_brace_in_groups_math_partial.

(** * Injected stray closing tokens over the EXTENDED grammar (proofs in [Proofs/Prefix2.v],
    [Proofs/Fault2*.v])

    [Doc/DocGrammar2.v]: the core grammar plus environments (with arguments, math-mode
    bodies), specials, optional / star / single-token / verbatim arguments, verbatim macros
    and environments.  PARTIAL: closing tokens only ([}], [\)], [\]], [\end{x}]); the side
    conditions of the extended grammar are evaluated against the FOLLOW STRING, so the items
    in front of the inserted token have to be well formed in front of everything that is
    written after them (the whitespace [fws], the token and the rest [g] of the input, which
    is otherwise ARBITRARY — in particular the rest of the document the token was inserted
    into).  The error is the collector's error for that token ([stray_what]: 2 / 4 / 3),
    located exactly at the token, the reader standing right after it, and it carries the
    nodes of the items in front of it. *)
From PLV Require Import Doc.DocGrammar2 Proofs.Prefix2.

(** ** at an item boundary of the TOP-LEVEL body *)
Theorem C05_fault_closing2_partial : forall cx l1 fws c g,
  let ps0 := walker_state cx in
  ok_items2 cx ps0 [] l1 (fws ++ stray_text c ++ g) = true ->
  ws_ok fws = true -> stray_wf c ->
  let q := (length (unparse_items2 l1) + length fws)%nat in
  exists e,
    parse_top (unparse_items2 l1 ++ fws ++ stray_text c ++ g) false cx ps0
    = PErr e (q + length (stray_text c))%nat
    /\ pe_pos e = Some q /\ pe_what e = stray_what c
    /\ pe_nodes e = Some (gen_nodelist 0 (cs_acc (pre_flush ps0 (fst (absorb2 cx ps0 0 cs_empty l1)) fws
                                                            (length (unparse_items2 l1))))).
Proof. exact fault_closing2_top. Qed.

(** the token appended to a whole extended document (the strict counterpart of
    [C06_prefix_closing2_partial]): rejected at the token, with the tree of the document
    as recovery nodes *)
Theorem C05_fault_closing2_doc_partial : forall cx d c g,
  ok_doc2_before cx d (stray_text c ++ g) = true -> stray_wf c ->
  exists e,
    parse_top (unparse2 d ++ stray_text c ++ g) false cx (walker_state cx)
    = PErr e (length (unparse2 d) + length (stray_text c))%nat
    /\ pe_pos e = Some (length (unparse2 d)) /\ pe_what e = stray_what c
    /\ pe_nodes e = Some (gen_nodelist 0 (fst (tree_of2 cx (walker_state cx) 0 d))).
Proof. exact fault_closing2_doc. Qed.

(** non-vacuity: the extended document
    [a \begin{center}b\section*[x]{y}\end{center} \sqrt{z} ] (an environment, a star, a written
    and an absent optional argument); each of the four tokens inserted between the
    environment and [ \sqrt{z} ] (offset 44, after one blank: 45), the rest of the document
    being the arbitrary suffix *)
Definition c05_doc2_l1 : list item2 :=
  [Text2 [] [97];
   Env2 [32] [] [99;101;110;116;101;114] []
        [Text2 [] [98];
         Mac2 [] [115;101;99;116;105;111;110] []
              [Text2 [] [42]; Brk2 [] 91 93 [Text2 [] [120]] []; Grp2 [] [Text2 [] [121]] []]]
        [] []].
Definition c05_doc2_l2 : list item2 := [Mac2 [32] [115;113;114;116] [] [Abs2; Grp2 [] [Text2 [] [122]] []]].

Example C05_fault_closing2_nonvacuous :
  let cx := default_ctx in let ps0 := walker_state cx in
  ok_doc2 cx {| d_items2 := c05_doc2_l1 ++ c05_doc2_l2; d_trail2 := [32] |} = true /\
  length (unparse_items2 c05_doc2_l1) = 44%nat /\
  forallb (fun c =>
    let g := unparse_items2 c05_doc2_l2 ++ [32] in
    ok_items2 cx ps0 [] c05_doc2_l1 ([32] ++ stray_text c ++ g) &&
    match parse_top (unparse_items2 c05_doc2_l1 ++ [32] ++ stray_text c ++ g) false cx ps0 with
    | PErr e p => Nat.eqb p (45 + length (stray_text c))%nat
                  && match pe_pos e with Some q => Nat.eqb q 45%nat | None => false end
                  && Nat.eqb (pe_what e) (stray_what c)
    | _ => false
    end)
    [SBrace; SMClose MParen; SMClose MBracket; SEnd [122;113]] = true.
Proof. vm_compute. repeat split. Qed.

(** the same with [ok_doc2 cx d] as the hypothesis, for documents that end with whitespace in
    contexts none of whose specials sequences contains a backslash or a closing brace
    ([specials_plain]; see [C06_prefix_closing2_ws_partial], proofs in [Proofs/Prefix2Follow.v]) *)
From PLV Require Import Proofs.Prefix2Follow.
Theorem C05_fault_closing2_doc_ws_partial : forall cx d c g,
  ok_doc2 cx d = true -> d_trail2 d <> [] -> specials_plain cx = true -> stray_wf c ->
  exists e,
    parse_top (unparse2 d ++ stray_text c ++ g) false cx (walker_state cx)
    = PErr e (length (unparse2 d) + length (stray_text c))%nat
    /\ pe_pos e = Some (length (unparse2 d)) /\ pe_what e = stray_what c
    /\ pe_nodes e = Some (gen_nodelist 0 (fst (tree_of2 cx (walker_state cx) 0 d))).
Proof. exact fault_closing2_doc_ws. Qed.

(** ** at an item boundary of a NESTED body (proofs in [Proofs/Fault2Path.v],
    [Proofs/Fault2Inject.v]).  The left context is a path of frames, outermost first
    ([lframe2]): [LGrp2 before ws] = the extended items [before], whitespace, [{];
    [LMath2 before ws k] = ... the opening delimiter of a formula of kind [k] (all four kinds);
    [LEnv2 before ws bws name args] = ... [\begin bws {name}] and the environment's arguments
    (written or absent optional arguments, star, delimited, single-token arguments included).
    [lp_text2 path] is its text, [lp_state2 cx ps0 path] the parsing state of the innermost
    body (math mode entered by formulas and by environments declared so), [ok_lpath2 cx ps0
    path fol] the side conditions of every frame, evaluated against everything that is
    written after it; [closes_hole2 path c = false]: the token is not the closing
    delimiter of the innermost construct ([}] in a group, [\)] in [\( \)], [\]] in
    [\[ \]], [\end{name}] in the body of [\begin{name}]). *)
From PLV Require Import Proofs.Fault2Path Proofs.Fault2Inject.

Theorem C05_fault_closing2_nested_partial : forall cx path l1 fws c g,
  let ps0 := walker_state cx in
  ok_lpath2 cx ps0 path (unparse_items2 l1 ++ fws ++ stray_text c ++ g) = true ->
  ok_items2 cx (lp_state2 cx ps0 path) [] l1 (fws ++ stray_text c ++ g) = true ->
  ws_ok fws = true -> stray_wf c -> closes_hole2 path c = false ->
  let q := (length (lp_text2 path) + length (unparse_items2 l1) + length fws)%nat in
  exists e,
    parse_top (lp_text2 path ++ unparse_items2 l1 ++ fws ++ stray_text c ++ g) false cx ps0
    = PErr e (q + length (stray_text c))%nat
    /\ pe_pos e = Some q /\ pe_what e = stray_what c.
Proof. exact fault_closing2_nested. Qed.

(** ** at an item boundary of the body of a DELIMITED ARGUMENT [[ … ]] of a macro call that
    is written in such a body: [bh_text before ws name post args1 aws oc] = the items [before]
    the call, [ws \name post], the arguments [args1] in front of the delimited one, whitespace
    [aws], the opening delimiter [oc]; [ok_brkhole] = its side conditions (the slot that follows
    [args1] in the macro's signature is a delimited argument with the delimiters [oc] / [cc],
    ...), [bh_state] the state the argument is parsed in.  No [closes_hole] condition: the
    closing delimiter of the argument is a single character, none of the stray tokens. *)
Theorem C05_fault_closing2_delimited_arg_partial : forall cx path before ws name post args1 aws oc cc l1 fws c g,
  let ps0 := walker_state cx in
  let hs := lp_state2 cx ps0 path in
  let bt := bh_text before ws name post args1 aws oc in
  let F := unparse_items2 l1 ++ fws ++ stray_text c ++ g in
  ok_lpath2 cx ps0 path (bt ++ F) = true ->
  ok_brkhole cx hs before ws name post args1 aws oc cc F = true ->
  ok_items2 cx (bh_state cx hs name (length args1)) [oc; cc] l1 (fws ++ stray_text c ++ g) = true ->
  ws_ok fws = true -> stray_wf c ->
  let q := (length (lp_text2 path) + length bt + length (unparse_items2 l1) + length fws)%nat in
  exists e,
    parse_top (lp_text2 path ++ bt ++ F) false cx ps0
    = PErr e (q + length (stray_text c))%nat
    /\ pe_pos e = Some q /\ pe_what e = stray_what c.
Proof. exact fault_closing2_brk. Qed.

(** the machinery behind both: a parse error of the innermost collector propagates to the
    outermost one — same position, same raise site — whatever follows.  Fuel: [U] units per
    written character, for any [U >= 8] that exceeds the number of argument slots of every
    specification of the context by four (the unit [fuel_unit cx = 8 + max_args cx] of the
    model's own fuel is such a [U]: [C02_fuel_unit_ok]) *)
Theorem C05_error_propagates2_partial : forall s cx U,
  (8 <= U)%nat -> (max_args cx + 4 <= U)%nat ->
  forall path ps o st pos rest k e p,
  StdE cx ps -> RoundTripRules.opts_ok ps o -> ok_lpath2 cx ps path rest = true ->
  skipn pos s = lp_text2 path ++ rest ->
  run s false cx k (TCollect (lp_state2 cx ps path) (lp_opts2 cx ps o path) (lp_st2 st path)
                             (pos + length (lp_text2 path))%nat) = PErr e p ->
  exists e', run s false cx (k + U * length (lp_text2 path))%nat (TCollect ps o st pos) = PErr e' p
             /\ pe_pos e' = pe_pos e /\ pe_what e' = pe_what e.
Proof. exact lpath_err2. Qed.

(** non-vacuity.  Left context [\sqrt[3]{z} \begin{center}b{c \(] (an optional argument, an
    environment, a group, a formula), items [x], a blank, the token (offset 34), the rest
    [y\)}\end{center}] of the document as the arbitrary suffix: [}], [\]], [\end{zq}] and
    [\end{center}] (which does not close the INNERMOST construct) are rejected at offset 34;
    [\)] closes the hole ([closes_hole2 = true]) *)
Definition c05_path2 : list lframe2 :=
  [LEnv2 [Mac2 [] [115;113;114;116] [] [Brk2 [] 91 93 [Text2 [] [51]] []; Grp2 [] [Text2 [] [122]] []]]
         [32] [] [99;101;110;116;101;114] [];
   LGrp2 [Text2 [] [98]] [];
   LMath2 [Text2 [] [99]] [32] MParen].
Definition c05_rest2 : str := [121;92;41;125;92;101;110;100;123;99;101;110;116;101;114;125].

Example C05_fault_closing2_nested_nonvacuous :
  let cx := default_ctx in let ps0 := walker_state cx in
  let l1 := [Text2 [] [120]] in
  length (lp_text2 c05_path2) = 32%nat /\
  closes_hole2 c05_path2 (SMClose MParen) = true /\
  forallb (fun c =>
    ok_lpath2 cx ps0 c05_path2 (unparse_items2 l1 ++ [32] ++ stray_text c ++ c05_rest2) &&
    ok_items2 cx (lp_state2 cx ps0 c05_path2) [] l1 ([32] ++ stray_text c ++ c05_rest2) &&
    negb (closes_hole2 c05_path2 c) &&
    match parse_top (lp_text2 c05_path2 ++ unparse_items2 l1 ++ [32] ++ stray_text c ++ c05_rest2) false cx ps0 with
    | PErr e p => Nat.eqb p (34 + length (stray_text c))%nat
                  && match pe_pos e with Some q => Nat.eqb q 34%nat | None => false end
                  && Nat.eqb (pe_what e) (stray_what c)
    | _ => false
    end)
    [SBrace; SMClose MBracket; SEnd [122;113]; SEnd [99;101;110;116;101;114]] = true.
Proof. vm_compute. repeat split. Qed.

(** [a \begin{center}b \section*[] + [x] + the token (offset 29) + []{y}\end{center}]: the body of
    the optional argument of [\section], after its star, inside an environment *)
Example C05_fault_closing2_delimited_arg_nonvacuous :
  let cx := default_ctx in let ps0 := walker_state cx in
  let path := [LEnv2 [Text2 [] [97]] [32] [] [99;101;110;116;101;114] []] in
  let hs := lp_state2 cx ps0 path in
  let sec := [115;101;99;116;105;111;110] in
  let bt := bh_text [Text2 [] [98]] [32] sec [] [Text2 [] [42]] [] 91 in
  let l1 := [Text2 [] [120]] in
  let g := [93;123;121;125;92;101;110;100;123;99;101;110;116;101;114;125] in
  length (lp_text2 path ++ bt) = 28%nat /\
  forallb (fun c =>
    let F := unparse_items2 l1 ++ [] ++ stray_text c ++ g in
    ok_lpath2 cx ps0 path (bt ++ F) &&
    ok_brkhole cx hs [Text2 [] [98]] [32] sec [] [Text2 [] [42]] [] 91 93 F &&
    ok_items2 cx (bh_state cx hs sec 1) [91;93] l1 ([] ++ stray_text c ++ g) &&
    match parse_top (lp_text2 path ++ bt ++ F) false cx ps0 with
    | PErr e p => Nat.eqb p (29 + length (stray_text c))%nat
                  && match pe_pos e with Some q => Nat.eqb q 29%nat | None => false end
                  && Nat.eqb (pe_what e) (stray_what c)
    | _ => false
    end)
    [SBrace; SMClose MParen; SMClose MBracket; SEnd [122;113]] = true.
Proof. vm_compute. repeat split. Qed.


Print Assumptions C05_fault_closing2_partial.
Print Assumptions C05_fault_closing2_doc_partial.
Print Assumptions C05_fault_closing2_nested_partial.
Print Assumptions C05_fault_closing2_delimited_arg_partial.
Print Assumptions C05_error_propagates2_partial.
Print Assumptions C05_fault_closing2_doc_ws_partial.

(** * Injected unmatched OPENING delimiters over the EXTENDED grammar (proofs in
    [Proofs/Fault2Open.v])

    PARTIAL.  [open_text2 op] is [{] ([OBrace2]), [$] / [\(] / [\[] / [$$] ([OMath2 k], all four
    kinds) or [\begin bws {name} args] ([OBegin2 bws name args]: ANY environment of the context
    — fallback included — with a standard signature, WITH its arguments [args]: written or absent
    optional arguments, star, delimited, single-token arguments; math-mode bodies included).  It
    is inserted at an ITEM BOUNDARY of a body of extended items: after the items [l1] (and
    optional whitespace [fws]), in front of the items [l2].  As everywhere in the extended
    grammar the side conditions are evaluated against the FOLLOW STRING:
    [open_side2 cx hs l1 fws op fol] ([hs] the state of the body, [fol] everything that is
    written after the delimiter) = the items [l1] are well formed in front of
    [fws ++ open_text2 op ++ fol], [fws] is whitespace without a paragraph break, and
      - [OMath2 k]: the body is not in math mode; [$] is not directly followed by [$];
      - [OBegin2 bws name args]: [bws] is whitespace, the name is one the tokenizer accepts,
        environments are enabled in [hs], the context resolves the name to a standard
        signature and [args] are well formed for it in front of [fol];
    the items [l2] are well formed in the state [open_state2 cx hs op] of the NEW construct's
    body (= [hs] for [{] and for an environment whose body is not in math mode; math mode for
    the math delimiters and the math environments), in front of what follows them.

    NOT covered (differential testing only): insertion points inside an item (between the
    tokens of a call, inside whitespace), in a delimited macro argument or below a braced one
    (the path notion of [Proofs/Fault2Path.v] goes through groups, formulas and environment
    bodies only; a braced argument as the INNERMOST construct: last section of this file),
    in a [$ $] / [$$ $$] formula (its closing delimiter is not a stray closing token: it
    opens a nested formula), a math delimiter inserted in math mode, environments with a legacy
    (verbatim) signature; the hypotheses are on the FAULTED text (items well formed in front of
    the inserted delimiter), not on the original document. *)
From PLV Require Import Proofs.Fault2Open.

(** ** at an item boundary of the TOP-LEVEL body: the new construct swallows the rest
    [l2 ++ dtr] of the document and is not closed when the input ends — the general-nodes
    parser's error 6 ("stop condition not met": closing delimiter not found), located right
    after the inserted delimiter (for an environment: after its arguments), the reader at
    the end of the input.  (The extended counterpart of [C05_fault_opening_partial].) *)
Theorem C05_fault_opening2_partial : forall cx l1 fws op l2 dtr,
  let ps0 := walker_state cx in
  open_side2 cx ps0 l1 fws op (unparse_items2 l2 ++ dtr) = true ->
  ok_items2 cx (open_state2 cx ps0 op) [] l2 dtr = true -> ws_ok dtr = true ->
  let s := unparse_items2 l1 ++ fws ++ open_text2 op ++ unparse_items2 l2 ++ dtr in
  let q := (length (unparse_items2 l1) + length fws + length (open_text2 op))%nat in
  exists e, parse_top s false cx ps0 = PErr e (length s) /\ pe_pos e = Some q /\ pe_what e = 6%nat.
Proof. exact fault_opening2_top. Qed.

(** ** at an item boundary of a NESTED body, the body of the construct [f] — the innermost
    frame of the left context [path ++ [f]]: a group, a [\( \)] / [\[ \]] formula or an
    environment body, reached through groups, formulas (all four kinds) and environment
    bodies —, whose closing delimiter is [c] ([closer2 f = Some c]: [}], [\)], [\]],
    [\end{name}]; none for [$ $] / [$$ $$]).  The new construct reads on to [c]; when [c] is
    not also ITS closing delimiter ([open_closes2 op c = false]: not [{] in a group, not
    [\begin{name}] in the body of [\begin{name}]) its collector rejects [c]: the error of the
    raise site of that token ([stray_what]: 2 / 4 / 3) located AT the closing delimiter of [f],
    after the rest [l2] of the body and the whitespace [tr] in front of it; whatever follows
    ([g], in a well-formed document: the rest of the document).  (The extended counterpart of
    [C05_fault_opening_nested_partial].) *)
Theorem C05_fault_opening2_nested_partial : forall cx path f l1 fws op l2 tr c g,
  let ps0 := walker_state cx in
  let hs := lp_state2 cx ps0 (path ++ [f]) in
  let F := unparse_items2 l2 ++ tr ++ stray_text c ++ g in
  closer2 f = Some c ->
  ok_lpath2 cx ps0 (path ++ [f]) (unparse_items2 l1 ++ fws ++ open_text2 op ++ F) = true ->
  open_side2 cx hs l1 fws op F = true ->
  ok_items2 cx (open_state2 cx hs op) [] l2 (tr ++ stray_text c ++ g) = true -> ws_ok tr = true ->
  open_closes2 op c = false ->
  let q := (length (lp_text2 (path ++ [f])) + length (unparse_items2 l1) + length fws + length (open_text2 op)
            + length (unparse_items2 l2) + length tr)%nat in
  exists e,
    parse_top (lp_text2 (path ++ [f]) ++ unparse_items2 l1 ++ fws ++ open_text2 op ++ F) false cx ps0
    = PErr e (q + length (stray_text c))%nat
    /\ pe_pos e = Some q /\ pe_what e = stray_what c.
Proof. exact fault_opening2_in_frame. Qed.

(** the general form: any left context (the empty one included), well-formed items, the
    opening delimiter, well-formed items, ANY stray closing token [c] that the new construct
    does not accept, then ANYTHING.  (The extended counterpart of
    [C05_fault_opening_any_suffix_partial].) *)
Theorem C05_fault_opening2_any_suffix_partial : forall cx path l1 fws op l2 tr c g,
  let ps0 := walker_state cx in
  let hs := lp_state2 cx ps0 path in
  let F := unparse_items2 l2 ++ tr ++ stray_text c ++ g in
  ok_lpath2 cx ps0 path (unparse_items2 l1 ++ fws ++ open_text2 op ++ F) = true ->
  open_side2 cx hs l1 fws op F = true ->
  ok_items2 cx (open_state2 cx hs op) [] l2 (tr ++ stray_text c ++ g) = true -> ws_ok tr = true ->
  stray_wf c -> open_closes2 op c = false ->
  let q := (length (lp_text2 path) + length (unparse_items2 l1) + length fws + length (open_text2 op)
            + length (unparse_items2 l2) + length tr)%nat in
  exists e,
    parse_top (lp_text2 path ++ unparse_items2 l1 ++ fws ++ open_text2 op ++ F) false cx ps0
    = PErr e (q + length (stray_text c))%nat
    /\ pe_pos e = Some q /\ pe_what e = stray_what c.
Proof. exact fault_opening2_nested. Qed.

(** ** the input ends inside nested constructs: left context [path ++ [f]] (none of its
    constructs is closed), well-formed items [l2], whitespace, end of input.  The INNERMOST
    construct [f] is the one reported: error 6 located right after its opening, the reader at
    the end of the input.  With [path = []] and [f = open_frame2 l1 fws op] this is
    [C05_fault_opening2_partial]; it also covers an opening brace inserted in a group that
    stands at top level (the extended counterpart of
    [C05_fault_opening_brace_in_groups_partial]): the group's closing brace closes the new
    group, the group itself — the frame [f] — is left unclosed, and the faulted text is
    [lf_text2 f] followed by well-formed items. *)
Theorem C05_fault_unclosed2_partial : forall cx path f l2 dtr,
  let ps0 := walker_state cx in
  let hs := lp_state2 cx ps0 path in
  ok_lpath2 cx ps0 path (lf_text2 f ++ unparse_items2 l2 ++ dtr) = true ->
  ok_lframe2 cx hs f (unparse_items2 l2 ++ dtr) = true ->
  ok_items2 cx (lf_state2 cx hs f) [] l2 dtr = true -> ws_ok dtr = true ->
  let s := lp_text2 path ++ lf_text2 f ++ unparse_items2 l2 ++ dtr in
  exists e, parse_top s false cx ps0 = PErr e (length s)
            /\ pe_pos e = Some (length (lp_text2 path) + length (lf_text2 f))%nat /\ pe_what e = 6%nat.
Proof. exact fault_unclosed2. Qed.

(** non-vacuity.  The extended document of [C05_fault_closing2_nonvacuous],
    [a \begin{center}b\section*[x]{y}\end{center} \sqrt{z} ]; each of nine opening delimiters
    — [{], [\(], [\[], [$], [$$], [\begin{zq}] (fallback signature), [\begin {tabular}{c}] (a
    mandatory argument), [\begin{array}{c}] (an absent optional and a mandatory argument),
    [\begin{equation}] (math-mode body) — inserted between the environment and [ \sqrt{z} ]
    (offset 44): error 6 located right after it, raised at the end of the input *)
Definition c05_openers2 : list opener2 :=
  [OBrace2; OMath2 MParen; OMath2 MBracket; OMath2 MDollar; OMath2 MDollars;
   OBegin2 [] [122;113] [];
   OBegin2 [32] [116;97;98;117;108;97;114] [Grp2 [] [Text2 [] [99]] []];
   OBegin2 [] [97;114;114;97;121] [Abs2; Grp2 [] [Text2 [] [99]] []];
   OBegin2 [] [101;113;117;97;116;105;111;110] []].

Example C05_fault_opening2_nonvacuous :
  let cx := default_ctx in let ps0 := walker_state cx in
  ok_doc2 cx {| d_items2 := c05_doc2_l1 ++ c05_doc2_l2; d_trail2 := [32] |} = true /\
  length (unparse_items2 c05_doc2_l1) = 44%nat /\
  map (fun op => length (open_text2 op)) c05_openers2 = [1; 2; 2; 1; 2; 10; 19; 16; 16]%nat /\
  forallb (fun op =>
    let s := unparse_items2 c05_doc2_l1 ++ [] ++ open_text2 op ++ unparse_items2 c05_doc2_l2 ++ [32] in
    open_side2 cx ps0 c05_doc2_l1 [] op (unparse_items2 c05_doc2_l2 ++ [32]) &&
    ok_items2 cx (open_state2 cx ps0 op) [] c05_doc2_l2 [32] &&
    match parse_top s false cx ps0 with
    | PErr e p => Nat.eqb p (length s)
                  && match pe_pos e with Some q => Nat.eqb q (44 + length (open_text2 op))%nat | None => false end
                  && Nat.eqb (pe_what e) 6%nat
    | _ => false
    end) c05_openers2 = true.
Proof. vm_compute. repeat split. Qed.

(** nested.  Left context [\sqrt[3]{z} \begin{center}b{c \(] (32 characters: an environment, a
    group, a formula), items [x], the delimiter, [ y], then the closing delimiter of the
    innermost construct and the rest of the document.
    In the formula: [{] and the four environments run into [\)] (error 4 located there);
    in the group (first two frames): the math delimiters and the environments run into [}]
    (error 2); in the environment body (first frame): all nine run into [\end{center}]
    (error 3).  [{] in the group is NOT covered ([open_closes2 = true]: the group's brace
    closes the new group; see [C05_fault_unclosed2_nonvacuous]) *)
Example C05_fault_opening2_nested_nonvacuous :
  let cx := default_ctx in let ps0 := walker_state cx in
  let l1 := [Text2 [] [120]] in let l2 := [Text2 [32] [121]] in
  let chk (path : list lframe2) (c : stray) (g : str) (ops : list opener2) :=
    forallb (fun op =>
      let F := unparse_items2 l2 ++ [] ++ stray_text c ++ g in
      let q := (length (lp_text2 path) + 1 + 0 + length (open_text2 op) + 2 + 0)%nat in
      match closer2 (last path (LGrp2 [] [])) with
      | Some c' => match c, c' with
                   | SBrace, SBrace => true
                   | SMClose MParen, SMClose MParen => true
                   | SEnd x, SEnd x' => str_eqb x x'
                   | _, _ => false
                   end
      | None => false
      end &&
      ok_lpath2 cx ps0 path (unparse_items2 l1 ++ [] ++ open_text2 op ++ F) &&
      open_side2 cx (lp_state2 cx ps0 path) l1 [] op F &&
      ok_items2 cx (open_state2 cx (lp_state2 cx ps0 path) op) [] l2 ([] ++ stray_text c ++ g) &&
      negb (open_closes2 op c) &&
      match parse_top (lp_text2 path ++ unparse_items2 l1 ++ [] ++ open_text2 op ++ F) false cx ps0 with
      | PErr e p => Nat.eqb p (q + length (stray_text c))%nat
                    && match pe_pos e with Some q' => Nat.eqb q' q | None => false end
                    && Nat.eqb (pe_what e) (stray_what c)
      | _ => false
      end) ops in
  length (lp_text2 c05_path2) = 32%nat /\
  chk c05_path2 (SMClose MParen) [125;92;101;110;100;123;99;101;110;116;101;114;125]
      (OBrace2 :: skipn 5 c05_openers2) = true /\
  chk (firstn 2 c05_path2) SBrace [92;101;110;100;123;99;101;110;116;101;114;125] (skipn 1 c05_openers2) = true /\
  open_closes2 OBrace2 SBrace = true /\
  chk (firstn 1 c05_path2) (SEnd [99;101;110;116;101;114]) [32;119] c05_openers2 = true.
Proof. vm_compute. repeat split. Qed.

(** the any-suffix form at TOP LEVEL (empty left context): [a] + [{] + [ b] + a stray [\]] +
    garbage [{$] *)
Example C05_fault_opening2_any_suffix_nonvacuous :
  let cx := default_ctx in let ps0 := walker_state cx in
  let l1 := [Text2 [] [97]] in let l2 := [Text2 [32] [98]] in
  let c := SMClose MBracket in let g := [123;36] in
  let F := unparse_items2 l2 ++ [] ++ stray_text c ++ g in
  ok_lpath2 cx ps0 [] (unparse_items2 l1 ++ [] ++ open_text2 OBrace2 ++ F) = true /\
  open_side2 cx ps0 l1 [] OBrace2 F = true /\
  ok_items2 cx (open_state2 cx ps0 OBrace2) [] l2 ([] ++ stray_text c ++ g) = true /\
  open_closes2 OBrace2 c = false /\
  exists e, parse_top (lp_text2 [] ++ unparse_items2 l1 ++ [] ++ open_text2 OBrace2 ++ F) false cx ps0 = PErr e 6
            /\ pe_pos e = Some 4%nat /\ pe_what e = 4%nat.
Proof. vm_compute. repeat split. eexists. repeat split. Qed.

(** [a {b {c d} e} f] with [{] inserted between [c] and [ d] reads [a {] + [b {c{ d} e} f]: the
    outer group (opened at offset 2) is never closed — error 6 located at offset 3, raised at
    the end of the input (16); and [\begin{center}x{y $] + [z]: three unclosed constructs,
    the formula (the innermost one) is reported *)
Example C05_fault_unclosed2_nonvacuous :
  let cx := default_ctx in let ps0 := walker_state cx in
  let f := LGrp2 [Text2 [] [97]] [32] in
  let l2 := [Text2 [] [98]; Grp2 [32] [Text2 [] [99]; Grp2 [] [Text2 [32] [100]] []; Text2 [32] [101]] [];
             Text2 [32] [102]] in
  lf_text2 f ++ unparse_items2 l2 = [97;32;123;98;32;123;99;123;32;100;125;32;101;125;32;102] /\
  ok_lframe2 cx ps0 f (unparse_items2 l2 ++ []) = true /\
  ok_items2 cx (lf_state2 cx ps0 f) [] l2 [] = true /\
  (exists e, parse_top (lp_text2 [] ++ lf_text2 f ++ unparse_items2 l2 ++ []) false cx ps0 = PErr e 16
             /\ pe_pos e = Some 3%nat /\ pe_what e = 6%nat) /\
  (let path := [LEnv2 [] [] [] [99;101;110;116;101;114] []; LGrp2 [Text2 [] [120]] []] in
   let f' := LMath2 [Text2 [] [121]] [32] MDollar in
   let m2 := [Text2 [] [122]] in
   ok_lpath2 cx ps0 path (lf_text2 f' ++ unparse_items2 m2 ++ []) = true /\
   ok_lframe2 cx (lp_state2 cx ps0 path) f' (unparse_items2 m2 ++ []) = true /\
   ok_items2 cx (lf_state2 cx (lp_state2 cx ps0 path) f') [] m2 [] = true /\
   exists e, parse_top (lp_text2 path ++ lf_text2 f' ++ unparse_items2 m2 ++ []) false cx ps0 = PErr e 20
             /\ pe_pos e = Some 19%nat /\ pe_what e = 6%nat).
Proof.
  vm_compute. split; [reflexivity|]. split; [reflexivity|]. split; [reflexivity|].
  split; [eexists; repeat split|]. split; [reflexivity|]. split; [reflexivity|]. split; [reflexivity|].
  eexists; repeat split.
Qed.

(** an opening brace inserted in a group that stands in a [\( \)] formula (the extended
    counterpart of [C05_fault_opening_brace_in_groups_math_partial]) is an instance of
    [C05_fault_opening2_nested_partial] by re-reading the faulted text: [\(a {b {c d} e} f\)] with
    [{] inserted between [c] and [ d] reads [\(] + [a] + the unmatched [ {] + [b {c{ d} e} f] + [\)]:
    rejected at [\)] (offset 18) *)
Example C05_fault_opening2_brace_in_groups_nonvacuous :
  let cx := default_ctx in let ps0 := walker_state cx in
  let f := LMath2 [] [] MParen in
  let l1 := [Text2 [] [97]] in
  let l2 := [Text2 [] [98]; Grp2 [32] [Text2 [] [99]; Grp2 [] [Text2 [32] [100]] []; Text2 [32] [101]] [];
             Text2 [32] [102]] in
  let c := SMClose MParen in
  let F := unparse_items2 l2 ++ [] ++ stray_text c ++ [] in
  lp_text2 ([] ++ [f]) ++ unparse_items2 l1 ++ [32] ++ open_text2 OBrace2 ++ F
  = [92;40;97;32;123;98;32;123;99;123;32;100;125;32;101;125;32;102;92;41] /\
  closer2 f = Some c /\
  ok_lpath2 cx ps0 ([] ++ [f]) (unparse_items2 l1 ++ [32] ++ open_text2 OBrace2 ++ F) = true /\
  open_side2 cx (lp_state2 cx ps0 ([] ++ [f])) l1 [32] OBrace2 F = true /\
  ok_items2 cx (open_state2 cx (lp_state2 cx ps0 ([] ++ [f])) OBrace2) [] l2 ([] ++ stray_text c ++ []) = true /\
  open_closes2 OBrace2 c = false /\
  exists e, parse_top (lp_text2 ([] ++ [f]) ++ unparse_items2 l1 ++ [32] ++ open_text2 OBrace2 ++ F) false cx ps0
            = PErr e 20 /\ pe_pos e = Some 18%nat /\ pe_what e = 4%nat.
Proof.
  vm_compute. split; [reflexivity|]. split; [reflexivity|]. split; [reflexivity|]. split; [reflexivity|].
  split; [reflexivity|]. split; [reflexivity|]. eexists; repeat split.
Qed.

Print Assumptions C05_fault_opening2_partial.
Print Assumptions C05_fault_opening2_nested_partial.
Print Assumptions C05_fault_opening2_any_suffix_partial.
Print Assumptions C05_fault_unclosed2_partial.

(** * Faults in the body of a BRACED MANDATORY ARGUMENT of a macro call over the extended
    grammar (proofs in [Proofs/Fault2OpenArg.v])

    The call is written in a body reached through groups, formulas and environment bodies
    ([path]); [bh_text before ws name post args1 aws 123] = the items [before] the call,
    [ws \name post], the arguments [args1] in front of the braced one, whitespace [aws], the
    opening brace; [ok_machole] = its side conditions (the slot that follows [args1] in the
    macro's signature is a mandatory argument ([AKExpr]), whitespace in front of the brace only
    where the slot allows it, the arguments [args1] well formed, ... evaluated against the
    follow string), [bh_state] the state the argument is parsed in.  PARTIAL: the macro
    argument is the INNERMOST construct (no path continues below it, except through the one
    inserted delimiter), no comments between the arguments and the brace. *)
From PLV Require Import Proofs.Fault2OpenArg.

(** a stray [\)], [\]] or [\end{x}] ([c <> SBrace]: a [}] closes the argument) at an item
    boundary of the argument's body: rejected where it stands, whatever follows *)
Theorem C05_fault_closing2_macro_arg_partial : forall cx path before ws name post args1 aws l1 fws c g,
  let ps0 := walker_state cx in
  let hs := lp_state2 cx ps0 path in
  let bt := bh_text before ws name post args1 aws 123%N in
  let F := unparse_items2 l1 ++ fws ++ stray_text c ++ g in
  ok_lpath2 cx ps0 path (bt ++ F) = true ->
  ok_machole cx hs before ws name post args1 aws F = true ->
  ok_items2 cx (bh_state cx hs name (length args1)) [] l1 (fws ++ stray_text c ++ g) = true ->
  ws_ok fws = true -> stray_wf c -> c <> SBrace ->
  let q := (length (lp_text2 path) + length bt + length (unparse_items2 l1) + length fws)%nat in
  exists e,
    parse_top (lp_text2 path ++ bt ++ F) false cx ps0
    = PErr e (q + length (stray_text c))%nat
    /\ pe_pos e = Some q /\ pe_what e = stray_what c.
Proof. exact fault_closing2_marg. Qed.

(** an unmatched opening delimiter at an item boundary of the argument's body: the new
    construct reads on to a closing token [c] that is not its own — in a well-formed document
    the closing brace of the argument ([c = SBrace], any delimiter but [{]) — and rejects it
    there, whatever follows *)
Theorem C05_fault_opening2_macro_arg_partial : forall cx path before ws name post args1 aws l1 fws op l2 tr c g,
  let ps0 := walker_state cx in
  let hs := lp_state2 cx ps0 path in
  let aps := bh_state cx hs name (length args1) in
  let bt := bh_text before ws name post args1 aws 123%N in
  let F := unparse_items2 l2 ++ tr ++ stray_text c ++ g in
  let FF := unparse_items2 l1 ++ fws ++ open_text2 op ++ F in
  ok_lpath2 cx ps0 path (bt ++ FF) = true ->
  ok_machole cx hs before ws name post args1 aws FF = true ->
  open_side2 cx aps l1 fws op F = true ->
  ok_items2 cx (open_state2 cx aps op) [] l2 (tr ++ stray_text c ++ g) = true -> ws_ok tr = true ->
  stray_wf c -> open_closes2 op c = false ->
  let q := (length (lp_text2 path) + length bt + length (unparse_items2 l1) + length fws + length (open_text2 op)
            + length (unparse_items2 l2) + length tr)%nat in
  exists e,
    parse_top (lp_text2 path ++ bt ++ FF) false cx ps0
    = PErr e (q + length (stray_text c))%nat
    /\ pe_pos e = Some q /\ pe_what e = stray_what c.
Proof. exact fault_opening2_marg. Qed.

(** non-vacuity: [a \begin{center}b \section*[x]{] (31 characters: the mandatory argument of
    [\section], after its star and its optional argument, in an environment) + [y] + a stray
    [\)] / [\]] / [\end{zq}] + [ z}\end{center}]: rejected at offset 32; and + [y] + one of
    the eight opening delimiters other than [{] + [ z] + the argument's [}] + [\end{center}]:
    "unexpected closing brace" located at that brace *)
Example C05_fault2_macro_arg_nonvacuous :
  let cx := default_ctx in let ps0 := walker_state cx in
  let path := [LEnv2 [Text2 [] [97]] [32] [] [99;101;110;116;101;114] []] in
  let sec := [115;101;99;116;105;111;110] in
  let args1 := [Text2 [] [42]; Brk2 [] 91 93 [Text2 [] [120]] []] in
  let bt := bh_text [Text2 [] [98]] [32] sec [] args1 [] 123 in
  let hs := lp_state2 cx ps0 path in
  let aps := bh_state cx hs sec 2 in
  let l1 := [Text2 [] [121]] in let l2 := [Text2 [32] [122]] in
  length (lp_text2 path ++ bt) = 31%nat /\
  forallb (fun c =>
    let g := [32;122;125;92;101;110;100;123;99;101;110;116;101;114;125] in
    let F := unparse_items2 l1 ++ [] ++ stray_text c ++ g in
    ok_lpath2 cx ps0 path (bt ++ F) && ok_machole cx hs [Text2 [] [98]] [32] sec [] args1 [] F &&
    ok_items2 cx aps [] l1 ([] ++ stray_text c ++ g) &&
    match parse_top (lp_text2 path ++ bt ++ F) false cx ps0 with
    | PErr e p => Nat.eqb p (32 + length (stray_text c))%nat
                  && match pe_pos e with Some q => Nat.eqb q 32%nat | None => false end
                  && Nat.eqb (pe_what e) (stray_what c)
    | _ => false
    end) [SMClose MParen; SMClose MBracket; SEnd [122;113]] = true /\
  forallb (fun op =>
    let c := SBrace in
    let g := [92;101;110;100;123;99;101;110;116;101;114;125] in
    let F := unparse_items2 l2 ++ [] ++ stray_text c ++ g in
    let FF := unparse_items2 l1 ++ [] ++ open_text2 op ++ F in
    let q := (31 + 1 + length (open_text2 op) + 2)%nat in
    ok_lpath2 cx ps0 path (bt ++ FF) && ok_machole cx hs [Text2 [] [98]] [32] sec [] args1 [] FF &&
    open_side2 cx aps l1 [] op F && ok_items2 cx (open_state2 cx aps op) [] l2 ([] ++ stray_text c ++ g) &&
    negb (open_closes2 op c) &&
    match parse_top (lp_text2 path ++ bt ++ FF) false cx ps0 with
    | PErr e p => Nat.eqb p (q + 1)%nat
                  && match pe_pos e with Some q' => Nat.eqb q' q | None => false end
                  && Nat.eqb (pe_what e) 2%nat
    | _ => false
    end) (skipn 1 c05_openers2) = true.
Proof. vm_compute. repeat split. Qed.

Print Assumptions C05_fault_closing2_macro_arg_partial.
Print Assumptions C05_fault_opening2_macro_arg_partial.

(** * An unmatched opening delimiter inserted into a well-formed ORIGINAL extended document
    (proofs in [Proofs/Fault2DocBar.v], [Proofs/Fault2Doc.v])

    PARTIAL.  The hypotheses of [C05_fault_opening2_partial] are about the FAULTED text; here
    the hypothesis is [ok_doc2 cx d] for the document [d = l1 ++ l2, tr] the delimiter is
    inserted into (at a top-level item boundary, after the items [l1] and optional whitespace
    [fws]), plus boolean side conditions:
      - [no_special_char cx 125]: no specials sequence of the context contains [}];
      - [ins_point_ok cx l1 (fws ++ open_text2 op)]: the insertion point is INSENSITIVE — the
        beginning of the document; or right behind a braced group / an environment
        ([closed_item2]); or right behind a text run that starts the document or follows such an
        item, and the first inserted character occurs in no specials sequence of the context;
      - [open_side2 cx ps0 [] fws op fol]: the side conditions of the delimiter itself (no items
        in front): [fws] whitespace without a paragraph break; a math delimiter stands outside
        math mode and [$] is not directly followed by [$]; [\begin{name}] resolves to a standard
        signature, its arguments are well formed in front of the rest of the document;
      - the items [l2] behind the insertion point are well formed as the BODY of the new
        construct, in its state (for [{] and non-math environments that is the state of the
        document and follows from [ok_doc2]: [C05_fault_opening2_doc_brace_partial]; for math
        delimiters and math environments the rest of the document must be well formed in math
        mode).
    Same error, same position as [C05_fault_opening2_partial].

    Which side conditions of [ok_item2] consult the follow string, and how far, is listed in
    [Proofs/Fault2DocBar.v]; [C05_follow_barrier_partial]: none of them looks past a closing
    brace.  NOT covered: insertion points behind a macro call, a specials sequence, a comment, a
    paragraph break, a formula, a verbatim macro / environment (there the side conditions of the
    item in front depend on the inserted character: [C05_fault_opening2_doc_point_needed]);
    nested insertion points (the bridge is for the top-level body only). *)
From PLV Require Import Proofs.Fault2DocBar Proofs.Fault2Doc.

(** follow-insensitivity behind a barrier: the side conditions of extended items that are
    followed by [A ++ [}] ++ F] do not depend on [F] *)
Theorem C05_follow_barrier_partial : forall cx, no_special_char cx 125 = true ->
  forall ps ex l (A F F' : str),
  ok_items2 cx ps ex l (A ++ 125%N :: F) = true -> ok_items2 cx ps ex l (A ++ 125%N :: F') = true.
Proof. exact ok_items2_brace. Qed.

(** at an insensitive insertion point the items in front are well formed in front of ANYTHING
    that starts like [X] *)
Theorem C05_insertion_point_partial : forall cx ps l1 (F X : str), no_special_char cx 125 = true ->
  ins_point_ok cx l1 X = true -> ok_items2 cx ps [] l1 F = true -> ok_items2 cx ps [] l1 X = true.
Proof. exact ok_items2_insert. Qed.

Theorem C05_fault_opening2_doc_partial : forall cx l1 fws op l2 tr,
  let ps0 := walker_state cx in
  ok_doc2 cx {| d_items2 := l1 ++ l2; d_trail2 := tr |} = true ->
  no_special_char cx 125 = true ->
  ins_point_ok cx l1 (fws ++ open_text2 op) = true ->
  open_side2 cx ps0 [] fws op (unparse_items2 l2 ++ tr) = true ->
  ok_items2 cx (open_state2 cx ps0 op) [] l2 tr = true ->
  let s := unparse_items2 l1 ++ fws ++ open_text2 op ++ unparse_items2 l2 ++ tr in
  let q := (length (unparse_items2 l1) + length fws + length (open_text2 op))%nat in
  exists e, parse_top s false cx ps0 = PErr e (length s) /\ pe_pos e = Some q /\ pe_what e = 6%nat.
Proof. exact fault_opening2_doc. Qed.

(** the opening brace: nothing about the rest of the document has to be checked *)
Theorem C05_fault_opening2_doc_brace_partial : forall cx l1 fws l2 tr,
  let ps0 := walker_state cx in
  ok_doc2 cx {| d_items2 := l1 ++ l2; d_trail2 := tr |} = true ->
  no_special_char cx 125 = true ->
  ins_point_ok cx l1 (fws ++ [123%N]) = true -> ws_ok fws = true ->
  let s := unparse_items2 l1 ++ fws ++ 123%N :: unparse_items2 l2 ++ tr in
  let q := (length (unparse_items2 l1) + length fws + 1)%nat in
  exists e, parse_top s false cx ps0 = PErr e (length s) /\ pe_pos e = Some q /\ pe_what e = 6%nat.
Proof. exact fault_opening2_doc_brace. Qed.

(** non-vacuity.  The extended document [a \begin{center}b\section*[x]{y}\end{center} \sqrt{z} ]:
    each of the nine opening delimiters of [c05_openers2] inserted behind the environment
    (offset 44, a closed item), the hypotheses being those of the theorem — about the ORIGINAL
    document and the delimiter; and [{] inserted behind the text run [a] (offset 1), after a blank *)
Example C05_fault_opening2_doc_nonvacuous :
  let cx := default_ctx in let ps0 := walker_state cx in
  ok_doc2 cx {| d_items2 := c05_doc2_l1 ++ c05_doc2_l2; d_trail2 := [32] |} = true /\
  no_special_char cx 125 = true /\
  forallb (fun op =>
    let s := unparse_items2 c05_doc2_l1 ++ [] ++ open_text2 op ++ unparse_items2 c05_doc2_l2 ++ [32] in
    ins_point_ok cx c05_doc2_l1 ([] ++ open_text2 op) &&
    open_side2 cx ps0 [] [] op (unparse_items2 c05_doc2_l2 ++ [32]) &&
    ok_items2 cx (open_state2 cx ps0 op) [] c05_doc2_l2 [32] &&
    match parse_top s false cx ps0 with
    | PErr e p => Nat.eqb p (length s)
                  && match pe_pos e with Some q => Nat.eqb q (44 + length (open_text2 op))%nat | None => false end
                  && Nat.eqb (pe_what e) 6%nat
    | _ => false
    end) c05_openers2 = true /\
  (let l1 := firstn 1 c05_doc2_l1 in let l2 := skipn 1 c05_doc2_l1 ++ c05_doc2_l2 in
   l1 ++ l2 = c05_doc2_l1 ++ c05_doc2_l2 /\
   ins_point_ok cx l1 ([32] ++ [123%N]) = true /\
   exists e, parse_top (unparse_items2 l1 ++ [32] ++ 123%N :: unparse_items2 l2 ++ [32]) false cx ps0 = PErr e 56
             /\ pe_pos e = Some 3%nat /\ pe_what e = 6%nat).
Proof.
  vm_compute. split; [reflexivity|]. split; [reflexivity|]. split; [reflexivity|].
  split; [reflexivity|]. split; [reflexivity|]. eexists. repeat split.
Qed.

(** why the insertion point matters: [a%b] (a comment that ends with the input) is a valid
    extended document; [{] inserted at its end becomes part of the comment and the faulted
    text [a%b{] is ACCEPTED (replayed on the real code: no error) *)
Example C05_fault_opening2_doc_point_needed :
  let cx := default_ctx in let ps0 := walker_state cx in
  let l1 := [Text2 [] [97]; Cmt2 [] [98] []] in
  ok_doc2 cx {| d_items2 := l1 ++ []; d_trail2 := [] |} = true /\
  ins_point_ok cx l1 ([] ++ [123%N]) = false /\
  (exists o, parse_top (unparse_items2 l1 ++ [] ++ 123%N :: unparse_items2 [] ++ []) false cx ps0 = Ok o 4).
Proof. vm_compute. split; [reflexivity|]. split; [reflexivity|]. eexists. reflexivity. Qed.

Print Assumptions C05_follow_barrier_partial.
Print Assumptions C05_insertion_point_partial.
Print Assumptions C05_fault_opening2_doc_partial.
Print Assumptions C05_fault_opening2_doc_brace_partial.
