(** C05 — strict mode fails only with a located parse error.
    Statements only (each closed by [exact] of a lemma of
    [Proofs/ParserErrors.v] / [Proofs/ParserErrorsBase.v]) with their
    [Print Assumptions], and non-vacuity examples.

    Clauses covered: "parsing any string either returns a tree or raises
    LatexWalkerParseError, never another exception type, and the error's
    position lies inside the input with line and column matching that
    position".  (The clause about injected structural faults is not part of
    this file.)

    All theorems hold for EVERY string, EVERY context database (no
    well-formedness condition on the context turned out to be necessary: a
    [ctx_wf] hypothesis would be vacuous) and EVERY fuel: nothing is assumed
    about termination, [OutOfFuel] is an explicit outcome of the model. *)
From Coq Require Import NArith ZArith List Bool Arith.
From PLV Require Import Base.PyStr Tok.PState Tok.Tokenizer Parse.Nodes Parse.Parser Parse.ParseWire
                        Gen.GenWalkerCtx Util.LineNo Proofs.LineNoProofs
                        Proofs.ParserErrorsBase Proofs.ParserErrors.
Import ListNotations.

(** ** Hypotheses on tasks

    [Good ps] is the reachable-state invariant: the cached tables of [ps] are
    those computed from its fields, and its inline / display math delimiter
    lists are the default ones.  The walker's initial state satisfies it for
    every context, and so does every state derived from it by [sub_context]
    calls that do not replace the math delimiter lists (the only calls the
    parsers make). *)
Theorem C05_walker_state_good : forall cx, Good (walker_state cx).
Proof. exact good_walker. Qed.

Theorem C05_derived_state_good : forall cx chain,
  forallb keeps_math_delims chain = true ->
  Good (fold_left sub_context chain (walker_state cx)).
Proof. exact good_derived. Qed.

(** [task_ok s t]: the parsing states embedded in the task [t] (its own, and
    the two states of a group collector's child policy) are [Good], its reader
    position (and the position of a token / of accumulated nodes it carries) is
    [<= length s], and a math task's opening delimiter has passed the
    collector's "is an opening math delimiter" test. *)

(** ** A strict parse error is located inside the input — any parser of the
    stack, any reachable state, any position, any fuel *)
Theorem C05_errors_located : forall s cx f t e p,
  task_ok s t ->
  run s false cx f t = PErr e p -> exists q, pe_pos e = Some q /\ q <= length s.
Proof. exact run_errors_located. Qed.

(** ** No other exception: a strict run never ends in [RExn k] (the model's
    "any other exception class": KeyError on the group-delimiter dictionary,
    TypeError on a missing expected closing delimiter, impossible result
    shapes) ... *)
Theorem C05_no_other_exception_run : forall s cx f t k,
  task_ok s t -> run s false cx f t <> RExn k.
Proof. exact run_no_exn. Qed.

(** ... because every nested call returns the [out] constructor its task kind
    promises, leaving the reader inside the input. *)
Theorem C05_result_shape : forall s cx f t o p,
  task_ok s t -> run s false cx f t = Ok o p -> out_shape t o /\ p <= length s.
Proof. exact run_result_shape. Qed.

(** ** The top-level strict parse
    [LatexWalker(s, tolerant_parsing=False).parse_content(LatexGeneralNodesParser())]:
    a tree, or a parse error with a position inside the input; never [RExn],
    never an escaping end-of-stream.  ([OutOfFuel] is excluded by the
    termination theorem of C06, not here.) *)
Theorem C05_no_other_exception : forall s cx,
  match parse_top s false cx (walker_state cx) with
  | Ok (ONode _) p => p <= length s
  | PErr e _ => exists q, pe_pos e = Some q /\ q <= length s
  | OutOfFuel => True
  | Ok _ _ | REOS _ | RExn _ => False
  end.
Proof. exact walker_top_outcome. Qed.

(** the same for an arbitrary fuel instead of [parse_fuel] *)
Theorem C05_no_other_exception_any_fuel : forall s cx f,
  match parse_content false (run s false cx f (TGeneral (walker_state cx) top_opts 0)) with
  | Ok (ONode _) p => p <= length s
  | PErr e _ => exists q, pe_pos e = Some q /\ q <= length s
  | OutOfFuel => True
  | Ok _ _ | REOS _ | RExn _ => False
  end.
Proof. exact walker_top_outcome_any_fuel. Qed.

Theorem C05_errors_located_top : forall s cx e p,
  parse_top s false cx (walker_state cx) = PErr e p ->
  exists q, pe_pos e = Some q /\ q <= length s.
Proof. exact walker_top_errors_located. Qed.

(** ** Line and column.  On the way out of [parse_content] the Python code
    sets [e.lineno, e.colno = pos_to_lineno_colno(e.pos)]
    ([_ParsingContext.__exit__]).  That step is not part of [run] — model
    errors carry only [pe_pos] — it is [annotate] (= the C20 model
    [pos_to_lineno_colno] applied to [pe_pos]), tied to the code by the
    C05 / C20 correspondence.  For every offset configuration the reported
    pair is the declarative line / column of the position: line = number of
    newlines before it, column = distance back to the previous newline. *)
Theorem C05_error_line_col : forall offs s cx e p,
  parse_top s false cx (walker_state cx) = PErr e p ->
  exists q, pe_pos e = Some q /\ q <= length s /\
            annotate offs s e = Some (Some (spec_lc offs s q)).
Proof. exact walker_top_error_line_col. Qed.

(** ** Non-vacuity *)

(** the top-level task satisfies the hypothesis of the [run]-level theorems *)
Example C05_task_ok_nonvacuous : forall s cx, task_ok s (TGeneral (walker_state cx) top_opts 0).
Proof. exact top_task_ok. Qed.

(** strict parsing of [a\n{b\n $c] raises a parse error located at offset 7,
    line 3, column 2 (checked on the real code: pos 7, lineno 3, colno 2) *)
Example C05_errors_located_nonvacuous :
  let s := [97;10;123;98;10;32;36;99]%N in
  exists e p, parse_top s false default_ctx (walker_state default_ctx) = PErr e p
              /\ pe_pos e = Some 7 /\ annotate default_offsets s e = Some (Some (3, 2)%Z)
              /\ spec_lc default_offsets s 7 = (3, 2)%Z.
Proof. vm_compute. eexists. eexists. repeat split. Qed.

(** the inputs on which the unfixed code raised IndexError / TypeError /
    returned a position-less error (findings F11, F12, F13): [\verb],
    [\textbf$], [\begin{itemize}] — now located parse errors; and a valid
    document is a tree *)
Example C05_no_other_exception_nonvacuous :
  let pos_of s := match parse_top s false default_ctx (walker_state default_ctx) with
                  | PErr e _ => pe_pos e | _ => None end in
  pos_of [92;118;101;114;98]%N = Some 5
  /\ pos_of [92;116;101;120;116;98;102;36]%N = Some 7
  /\ pos_of [92;98;101;103;105;110;123;105;116;101;109;105;122;101;125]%N = Some 15
  /\ (exists n p, parse_top [97;123;98;125;36;99;36;92;116;101;120;116;98;102;123;100;125]%N false
                    default_ctx (walker_state default_ctx) = Ok (ONode (Some n)) p).
Proof. vm_compute. repeat split. eexists. eexists. reflexivity. Qed.

(** a math task whose delimiter is NOT an opening delimiter does reach the
    [RExn 3] branch: the precondition of [task_ok] on math tasks is needed (the
    collector establishes it with its [by_open_has] test) *)
Example C05_math_precondition_needed :
  run [92;41]%N false default_ctx 5 (TMath (walker_state default_ctx) [92;41]%N 0) = RExn 3.
Proof. vm_compute. reflexivity. Qed.

Print Assumptions C05_walker_state_good.
Print Assumptions C05_derived_state_good.
Print Assumptions C05_errors_located.
Print Assumptions C05_no_other_exception_run.
Print Assumptions C05_result_shape.
Print Assumptions C05_no_other_exception.
Print Assumptions C05_no_other_exception_any_fuel.
Print Assumptions C05_errors_located_top.
Print Assumptions C05_error_line_col.
