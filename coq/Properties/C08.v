(** C08 — encoding to LaTeX and converting back to text returns the original
    string.  Statements only; proofs are in [Proofs/EncBuiltinFacts.v] (the
    encoder side, all strings), [Proofs/FastProtection.v],
    [Proofs/RoundTripDefs.v], [Proofs/RoundTripSweep*.v] (eight finite sweeps,
    one per protection scheme x whitespace policy, rebuilt by [make] whenever a
    regenerated table changes) and [Proofs/RoundTripSweeps.v].

    Model: [Enc/RoundTrip.v: roundtrip p sl s] =
      encode [s] with the default rules, protection [p], policy 'keep'
      ([Enc/Encoder.v], [Enc/Builtin.v], table [Gen/GenUni2Latex.v]);
      parse the output strictly with the default walker database
      ([Parse/Parser.v], [Gen/GenWalkerCtx.v]);
      convert back with [LatexNodes2Text(strict_latex_spaces=sl)]
      ([L2T/L2T.v], [Gen/GenL2TCtx.v]);  [Some text] or [None] when any stage raises.
    Inputs are NFC-normalised strings.

    WHAT IS A THEOREM OVER ALL STRINGS: the encoder half
    ([C08_encoding_is_chunkwise], [C08_encoding_concat],
    [C08_roundtrip_is_decode_of_chunks]).
    WHAT IS A FINITE SWEEP over the regenerated table, with the bound in the
    statement: every single character of the alphabet ([C08_single_characters],
    1314 characters today), every ordered pair of class representatives
    ([C08_class_pairs], 71 representatives of 36 classes today), each under
    4 schemes x 2 policies.
    THE THEOREM OVER STRINGS OF ANY LENGTH: [C08_roundtrip_unbounded] — every string
    over the alphabet, of any length, without ligature pairs and without the
    paragraph-whitespace runs of the known finding, round-trips under the four
    brace schemes and both policies; [C08_roundtrip_covered] extends it to any
    protection and any characters that satisfy the decidable per-character
    condition [cover_ok2] (e.g. characters without a rule).  Proofs in
    [Proofs/Unbounded*.v]: C13's chunk composition through C02's extended
    grammar, C02's round trip, position-independence of [node_text], per-character
    sweeps over the alphabet.  (The finite sweeps [C08_single_characters] /
    [C08_class_pairs] and [C08_roundtrip_partial] are kept: they are instances.) *)
From Coq Require Import NArith List Bool Arith String.
Local Open Scope string_scope.
Local Open Scope list_scope.
From PLV Require Import Base.PyStr L2T.L2T Enc.Encoder Enc.Builtin Enc.RoundTrip.
From PLV Require Import Proofs.EncBuiltinFacts Proofs.RoundTripDefs Proofs.RoundTripSweeps.
From PLV Require Import Gen.GenBaseline.
From PLV Require Import Proofs.UnboundedRenderDefs Proofs.UnboundedRender Proofs.UnboundedRoundTrip2 Proofs.UnboundedC08.
From PLV Require Gen.GenUni2Latex.
Import ListNotations.
Local Open Scope N_scope.

(** ** The alphabet is the regenerated table minus the committed baseline *)

(** [c08_alphabet] (emitted by harness/gen_c08.py exactly as the harness
    computes it) is the list Coq computes from [GenUni2Latex.table] ... *)
Theorem C08_alphabet_is_table : c08_alphabet = alphabet_computed.
Proof. exact c08_alphabet_is_computed. Qed.

(** ... that is: the keys of the default table, printable ASCII and newline,
    minus [noninvertible] (noninvertible_baseline.json) *)
Theorem C08_alphabet_spec : forall c,
  In c c08_alphabet <->
  (In c (map fst Gen.GenUni2Latex.table) \/ 32 <= c <= 126 \/ c = 10) /\ ~ In c noninvertible.
Proof. exact c08_alphabet_spec. Qed.

(** ** Every single character round-trips (finite sweep: |alphabet| x 4 x 2) *)
Theorem C08_single_characters : forall c p sl,
  In c c08_alphabet -> In p schemes -> In sl policies -> roundtrip p sl [c] = Some [c].
Proof. exact single_characters. Qed.

(** ** Every ordered pair of class representatives round-trips
    (finite sweep: |representatives|^2 x 4 x 2, ligature pairs excluded).

    Characters are classified by [shape c] = (class of the first character of
    the chunk, how the chunk ends: control word / control symbol / closing
    brace / letter / digit / space / newline / that punctuation character).
    [representatives] = up to eight members of every class, spread evenly.
    This is a sweep over REPRESENTATIVES: it is a theorem about those strings,
    not about every pair of alphabet characters, and not about longer strings. *)
Theorem C08_class_pairs : forall a b p sl,
  In a representatives -> In b representatives -> has_ligature [a; b] = false ->
  In p schemes -> In sl policies -> roundtrip p sl [a; b] = Some [a; b].
Proof. exact class_pairs. Qed.

(** every class of the alphabet is represented, by characters of the alphabet *)
Theorem C08_classes_covered : forall c, In c c08_alphabet ->
  exists r, In r representatives /\ In r c08_alphabet /\ shape r = shape c.
Proof. exact classes_covered. Qed.

(** ** The encoder half, for ALL strings and every protection (incl. callables) *)

(** the output is the concatenation of one chunk per character: the table
    replacement wrapped by the protection scheme, or the character itself *)
Theorem C08_encoding_is_chunkwise : forall p s,
  encode_builtin false p UKeep s = EncOk (List.concat (map (keep_chunk false p) s)).
Proof. exact encoding_is_chunkwise. Qed.

Theorem C08_encoding_concat : forall p a b ta tb,
  encode_builtin false p UKeep a = EncOk ta -> encode_builtin false p UKeep b = EncOk tb ->
  encode_builtin false p UKeep (a ++ b) = EncOk (ta ++ tb).
Proof. exact encoding_concat. Qed.

(** so the round trip is the decoding (strict parse + latex2text) of the
    concatenated chunks *)
Theorem C08_roundtrip_is_decode_of_chunks : forall p sl s,
  roundtrip p sl s = decode sl (List.concat (map (keep_chunk false p) s)).
Proof. exact roundtrip_decode_of_chunks. Qed.

(** ** The bounded instance (kept; the unbounded statement is [C08_roundtrip_unbounded]
    below).  The obligations listed here are the ones [Proofs/Unbounded*.v] discharge.

    DESIGN §6/C08:

      Theorem C08_roundtrip : forall p sl s,
        In p schemes -> In sl policies ->
        (forall c, In c s -> In c c08_alphabet) -> has_ligature s = false ->
        roundtrip p sl s = Some s.

    By [C08_roundtrip_is_decode_of_chunks] what remains is about the parser and
    latex2text alone:

      decode sl (concat (map (keep_chunk false p) s)) = Some s.

    Remaining obligations (none of them is available in this development):
    (1) C02 (parser round trip): for every chunk a document [chunk_doc c] of the
        C02 grammar with [unparse (chunk_doc c) = keep_chunk false p c] (a
        table sweep once [unparse] exists), and the compositional theorem
        [parse_top (unparse d1 ++ unparse d2) = nodes d1 ++ nodes d2] under a
        follow condition between the end of [d1] and the start of [d2];
    (2) the follow condition holds for every ordered pair of chunk classes —
        the class-level version of [C08_class_pairs], which needs (1) to turn
        "these two representatives" into "any two members of the classes"
        (the classes here are the [shape]s; a control word followed by a letter
        or a space, an accent macro followed by its argument, [--] etc. are the
        cases where it fails without protection);
    (3) C03 tree level: [l2t_nodes] of a concatenation of node lists is the
        concatenation of the texts, except for the bare-macro post-space rule
        of [items_text] (again a follow condition, on the policy [sl]);
    (4) [render (chunk_doc c) = [c]]: the table sweep [C08_single_characters]
        restated on trees.
    What IS proved towards it: the encoder half for all strings, (4) on
    strings of length 1, and (2)+(3) on 71^2 representative pairs.

    The proved restriction: strings of length <= 1 over the alphabet and
    strings of length 2 over the representatives. *)
Theorem C08_roundtrip_partial : forall p sl s,
  In p schemes -> In sl policies -> has_ligature s = false ->
  (s = [] \/ (exists c, s = [c] /\ In c c08_alphabet) \/
   (exists a b, s = [a; b] /\ In a representatives /\ In b representatives)) ->
  roundtrip p sl s = Some s.
Proof. exact roundtrip_bounded. Qed.

(** ** THE ROUND TRIP OF STRINGS OF ANY LENGTH (DESIGN §6/C08, with the known
    finding excluded)

    For every string [s] over the alphabet of the property (no length bound),
    each of the four brace-protection schemes, both whitespace policies: if [s]
    has no ligature pair and every run of copied blanks is CLEAN ([par_clean2]: a
    maximal run of blanks that the encoder copies — space, newline — has at most
    one newline, or exactly two ADJACENT ones: the exclusion of the known finding
    [C08_paragraph_whitespace_refuted]), then encoding and converting back returns [s].

    How ([Proofs/Unbounded*.v]):
    - the encoder output is the concatenation of per-character chunks
      ([C08_encoding_is_chunkwise]);
    - every chunk is read as atoms — top-level characters and structured items
      (groups, macro calls) of C02's extended document grammar; the sweeps
      [Proofs/UnboundedRT*.v] (every character of the alphabet x 4 schemes x 2
      policies) check [cover_ok2]: the atoms' written form is the chunk, they pass
      C13's per-chunk check (side conditions of the grammar, closed items — valid
      for every follow string by the follow-string factorisation
      [C13_side_conditions_factorise]), their shape is safe, and their text is
      the character: [L2T.node_text] of the node each structured item stands for,
      evaluated ONCE at offset 0 of the empty source — valid at every offset of
      every source because [node_text] does not read positions
      ([UnboundedPos.item_text_anywhere], from [ComposePos.repos_text]);
    - the assembler ([UnboundedDefs.asm]) turns the atoms of the whole output
      into one document of the grammar, cutting whitespace runs, paragraph breaks
      and specials sequences across chunk boundaries as the tokenizer does; its
      side conditions hold ([UnboundedAsm]); C02's round trip gives the tree;
    - under both policies the text of a node list is the concatenation of the
      texts of its nodes, so latex2text of that tree is the concatenation of the
      atoms' texts with every whitespace run normalised ([UnboundedNodeText]);
    - no ligature pair in the input means that only the one-character specials
      sequence [~] arises between top-level characters ([calm_atoms2]). *)
Theorem C08_roundtrip_unbounded : forall p sl s,
  In p schemes -> In sl policies ->
  (forall c, In c s -> In c c08_alphabet) -> has_ligature s = false -> par_clean2 s = true ->
  roundtrip p sl s = Some s.
Proof. exact roundtrip_unbounded. Qed.

(** the sweep behind it: every character of the alphabet is covered, under the 4 x 2 configurations *)
Theorem C08_alphabet_covered : forall p sl c,
  In p schemes -> In sl policies -> In c c08_alphabet -> cover_ok2 p sl c = true.
Proof. exact alphabet_covered. Qed.

(** ... and the same beyond the alphabet and the four schemes: ANY protection (also a
    callable) and ANY characters, as long as each character is covered — e.g. every
    character without a rule outside the ASCII range, which policy 'keep' copies *)
Theorem C08_roundtrip_covered : forall p sl s,
  In sl policies -> (forall c, In c s -> cover_ok2 p sl c = true) ->
  has_ligature s = false -> par_clean2 s = true ->
  roundtrip p sl s = Some s.
Proof. intros p sl s Hs. exact (roundtrip_covered2 p sl Hs s). Qed.

(** ** C02 x C03 for the EXTENDED grammar: for every document [d] of
    [Doc/DocGrammar2.v] that satisfies its side conditions and whose items are core
    constructs of C03 ([doc_cores2 d = Some ks], computed from the document: no
    positions, no source string), latex2text of the written document is the declarative
    rendering of [ks] (C03's [render]), for every option record. *)
Theorem C08_decode_of_documents : forall d ks,
  Doc.DocGrammar2.ok_doc2 Proofs.RenderDefaults.cx0 d = true ->
  doc_cores2 Proofs.RenderDefaults.lt0 Proofs.RenderDefaults.cx0 d = Some ks ->
  forall o, L2T.L2TWire.latex_to_text o (Doc.DocGrammar2.unparse2 d) false
            = Some (L2T.Render.render (nfc_accent Proofs.RenderDefaults.lt0) o (o_sls o) ks, d0).
Proof. exact end_to_end2. Qed.

(** non-vacuity: a string of 40 characters with accented letters, Greek and mathematical
    letters (rendered through [\ensuremath]), [%], [<], the no-break space, active ASCII
    characters, hyphens and apostrophes that are NOT ligature pairs, a paragraph break with
    blanks around it; and a character without a rule, copied by 'keep' *)
Example C08_roundtrip_unbounded_nonvacuous :
  let s := [72; 233; 108; 108; 111; 32; 119; 246; 114; 108; 100; 44; 32; 231; 97; 32; 118; 97; 63; 32; 10; 10; 32;
            198; 160; 92; 123; 120; 125; 95; 35; 45; 39; 33; 37; 60; 945; 8450; 119851; 8364] in
  forallb (fun c => existsb (N.eqb c) c08_alphabet) s = true /\
  has_ligature s = false /\ par_clean2 s = true /\
  encode_builtin false PBraces UKeep s
  = EncOk (lit "H\'ello w\""orld, \c{c}a va? " ++ [10; 10] ++
           lit " {\AE}~{\textbackslash}\{x\}\_\#-'!\%\ensuremath{<}\ensuremath{\alpha}\ensuremath{\mathbb{C}}\ensuremath{\mathbf{r}}{\texteuro}") /\
  roundtrip PBraces sls_macros s = Some s /\
  (* beyond the alphabet: a character without a rule *)
  existsb (N.eqb 20013) c08_alphabet = false /\ cover_ok2 PBraces sls_macros 20013 = true /\
  roundtrip PBraces sls_macros [97; 20013; 233] = Some [97; 20013; 233] /\
  (* the exclusions are needed and are exactly those of the known finding *)
  par_clean2 [97; 10; 10; 10; 98] = false /\ par_clean2 [97; 10; 32; 10; 98] = false /\
  par_clean2 [97; 32; 10; 10; 32; 98] = true /\ par_clean2 [97; 10; 160; 10; 98] = true.
Proof.
  cbv zeta. split; [vm_compute; reflexivity|]. split; [vm_compute; reflexivity|].
  split; [vm_compute; reflexivity|]. split; [vm_compute; reflexivity|].
  split; [vm_compute; reflexivity|]. split; [vm_compute; reflexivity|].
  split; [vm_compute; reflexivity|]. split; [vm_compute; reflexivity|].
  split; [vm_compute; reflexivity|]. split; [vm_compute; reflexivity|].
  split; vm_compute; reflexivity.
Qed.

(** ** Non-vacuity *)

(** "é" is in the alphabet; it is encoded as [\'e] and comes back *)
Example C08_single_characters_nonvacuous :
  In 233 c08_alphabet /\ In PBraces schemes /\ In sls_macros policies /\
  encode_builtin false PBraces UKeep [233] = EncOk (lit "\'e") /\
  roundtrip PBraces sls_macros [233] = Some [233].
Proof.
  split; [apply mem_N_In; vm_compute; reflexivity|].
  split; [left; reflexivity|]. split; [left; reflexivity|].
  split; vm_compute; reflexivity.
Qed.

(** backslash then "A": [{\textbackslash}A] under 'braces' (the control word
    must not swallow the letter), [\textbackslash{}A] under 'braces-after-macro';
    "é" then "A": the accent must not take the next letter *)
Example C08_class_pairs_nonvacuous :
  In 92 representatives /\ In 65 representatives /\ In 192 representatives /\
  has_ligature [92; 65] = false /\
  encode_builtin false PBraces UKeep [92; 65] = EncOk (lit "{\textbackslash}A") /\
  encode_builtin false PBracesAfterMacro UKeep [92; 65] = EncOk (lit "\textbackslash{}A") /\
  roundtrip PBraces sls_alltrue [92; 65] = Some [92; 65] /\
  roundtrip PBracesAfterMacro sls_macros [192; 65] = Some [192; 65] /\
  (* without protection the control word swallows the letter: the round trip FAILS *)
  roundtrip PNone sls_macros [92; 65] <> Some [92; 65] /\
  (* the ligature exclusion is needed *)
  has_ligature [45; 45] = true /\ roundtrip PBraces sls_macros [45; 45] <> Some [45; 45].
Proof.
  split; [apply (proj1 (mem_N_In 92 representatives)); vm_compute; reflexivity|].
  split; [apply (proj1 (mem_N_In 65 representatives)); vm_compute; reflexivity|].
  split; [apply (proj1 (mem_N_In 192 representatives)); vm_compute; reflexivity|].
  split; [vm_compute; reflexivity|].
  split; [vm_compute; reflexivity|].
  split; [vm_compute; reflexivity|].
  split; [vm_compute; reflexivity|].
  split; [vm_compute; reflexivity|].
  split; [vm_compute; discriminate|].
  split; [vm_compute; reflexivity|].
  vm_compute; discriminate.
Qed.

(** ** Known finding (known_findings.json, signature [paragraph-whitespace-collapsed])

    The unbounded statement is FALSE of the model (and of the code) on strings
    that contain a whitespace run with two or more newlines other than the bare
    run "\n\n": the run is one paragraph-break token from its first to its last
    newline and latex2text renders that token as exactly two newlines.  Every
    character of the witnesses is in the alphabet of the property. *)
Theorem C08_paragraph_whitespace_refuted :
  exists s, forallb (fun c => existsb (N.eqb c) c08_alphabet) s = true /\
    forall p sl, In p schemes -> In sl policies -> exists t, roundtrip p sl s = Some t /\ t <> s.
Proof.
  exists [97; 10; 10; 10; 98]%N. split.
  - vm_compute; reflexivity.
  - intros p sl Hp Hs. exists [97; 10; 10; 98]%N. split; [|discriminate].
    cbn [In schemes policies] in Hp, Hs.
    destruct Hp as [<-|[<-|[<-|[<-|[]]]]]; destruct Hs as [<-|[<-|[]]]; vm_compute; reflexivity.
Qed.

(** … while the bare paragraph break, also with spaces around it, does round-trip *)
Example C08_paragraph_break_roundtrips :
  forall p sl, In p schemes -> In sl policies ->
    roundtrip p sl [97; 32; 10; 10; 32; 98]%N = Some [97; 32; 10; 10; 32; 98]%N.
Proof.
  intros p sl Hp Hs. cbn [In schemes policies] in Hp, Hs.
  destruct Hp as [<-|[<-|[<-|[<-|[]]]]]; destruct Hs as [<-|[<-|[]]]; vm_compute; reflexivity.
Qed.

Print Assumptions C08_alphabet_is_table.
Print Assumptions C08_alphabet_spec.
Print Assumptions C08_single_characters.
Print Assumptions C08_class_pairs.
Print Assumptions C08_classes_covered.
Print Assumptions C08_encoding_is_chunkwise.
Print Assumptions C08_encoding_concat.
Print Assumptions C08_roundtrip_is_decode_of_chunks.
Print Assumptions C08_roundtrip_partial.
Print Assumptions C08_paragraph_whitespace_refuted.
Print Assumptions C08_paragraph_break_roundtrips.
Print Assumptions C08_roundtrip_unbounded.
Print Assumptions C08_alphabet_covered.
Print Assumptions C08_roundtrip_covered.
Print Assumptions C08_decode_of_documents.
