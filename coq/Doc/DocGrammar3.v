(** C02 — the THIRD document grammar: the extended grammar of [Doc/DocGrammar2.v]
    (same constructors, same side conditions, same meaning: [up2_item] / [up2_doc] embed it)
    plus shapes that no theorem about [DocGrammar2] covers:

      (b) [WPar3 ws mid]: a whitespace run [ws newline mid newline] with two or more newlines
          written in a context WITHOUT the paragraph specials — the tokenizer yields ONE
          character token for [newline mid newline] there, which the collector adds (with
          the whitespace [ws] in front of it) to the pending characters, exactly as it
          does with text;
      (c) [PArg3 ws mid]: such a run as the SINGLE-TOKEN ARGUMENT of a macro / environment /
          specials ([\textbf newline newline x]): the expression parser takes the paragraph
          token as the argument — a specials node [\n\n] without arguments when the
          context has the paragraph specials (whatever its own signature), else a
          characters node;
      (a') [BGrp3 ws oc cc body tr]: a delimited group [ws oc body tr cc] written DIRECTLY in
          the body of a delimited argument with the same delimiters ([\item[see [1]]]),
          whose body is made of text, comments, such whitespace runs and nested groups
          of the same kind ([bitem]); every child of such a group is read in the
          extended state (where [oc] / [cc] are group delimiters).

    The definitions that do not depend on the item type ([char_ok], [text_ok],
    [absent_ok], [mac_follow_ok2], [par_follows], [delim_ok], [vdelims], [verb_scan],
    [begin_str], [end_str], [env_body_state] …) are those of [DocGrammar2].

    Definitions only; proofs in [Proofs/RoundTrip3*.v], statements in
    [Properties/C02.v]. *)
From Coq Require Import NArith List Bool Arith.
From PLV Require Import Base.PyStr Tok.PState Tok.Tokenizer Parse.Nodes Parse.Parser Parse.ParseWire
                        Doc.DocGrammar Doc.DocGrammar2.
Import ListNotations.

(** * The items of a delimited group written directly in the body of a delimited argument

    [\item[see [1, [2]] %x newline ok]]: inside the argument [[ … ]] the characters [[] and
    []] are group delimiters, so [[1, [2]]] is a GROUP whose collector — and every child
    of it — runs in the extended state.  Its items: text, comments and nested groups of
    the same kind (with the delimiters [oc] / [cc] of the enclosing argument). *)
Inductive bitem :=
| BText (ws cs : str)                                   (* whitespace, then a run of text characters *)
| BCmt (ws text post : str)                             (* ws % text post *)
| BGrp (ws : str) (body : list bitem) (tr : str).       (* ws oc body tr cc *)

Fixpoint unparse_bitem (oc cc : N) (i : bitem) : str :=
  match i with
  | BText ws cs => ws ++ cs
  | BCmt ws text post => ws ++ 37%N :: text ++ post
  | BGrp ws b tr => ws ++ oc :: flat_map (unparse_bitem oc cc) b ++ tr ++ [cc]
  end.
Definition unparse_bitems (oc cc : N) (l : list bitem) : str := flat_map (unparse_bitem oc cc) l.

(** the side conditions: as for [Text2] / [Cmt2] / [Brk2] of [DocGrammar2], with the two
    delimiters excluded from the text characters *)
Fixpoint ok_bitem (cx : context) (oc cc : N) (i : bitem) (fol : str) {struct i} : bool :=
  let oks := fix oks (l : list bitem) (fh : str) {struct l} : bool :=
      match l with
      | [] => true
      | j :: r => ok_bitem cx oc cc j (flat_map (unparse_bitem oc cc) r ++ fh) && oks r fh
      end in
  match i with
  | BText ws cs => ws_ok ws && match cs with [] => false | _ => true end && text_ok cx [oc; cc] cs fol
  | BCmt ws text post =>
      ws_ok ws && negb (mem_c 10 text)
      && match post with
         | [] => is_nil fol || par_follows fol
         | 10%N :: _ => ws_ok post && negb (otest is_space (hd_error fol))
         | _ => false
         end
  | BGrp ws b tr => ws_ok ws && ws_ok tr && oks b (tr ++ cc :: fol)
  end.
Definition ok_bitems (cx : context) (oc cc : N) : list bitem -> str -> bool :=
  fix oks (l : list bitem) (fh : str) {struct l} : bool :=
    match l with
    | [] => true
    | j :: r => ok_bitem cx oc cc j (flat_map (unparse_bitem oc cc) r ++ fh) && oks r fh
    end.

(** the meaning (accumulator form); [ps] gives the node modes *)
Fixpoint babsorb_item (ps : pstate) (oc cc : N) (p : nat) (st : collstate) (j : bitem) {struct j} : collstate :=
  let go := fix go (q : nat) (st' : collstate) (l : list bitem) {struct l} : collstate * nat :=
      match l with
      | [] => (st', q)
      | i :: r => go (q + length (unparse_bitem oc cc i)) (babsorb_item ps oc cc q st' i) r
      end in
  match j with
  | BText ws cs => push_pending st (ws ++ cs) p
  | BCmt ws text post =>
      let p0 := p + length ws in
      push_node (pre_flush ps st ws p) (Some (NComment p0 (p0 + 1 + length text + length post) (ps_mode ps) text post))
  | BGrp ws b tr =>
      let p0 := p + length ws in
      let r := go (S p0) cs_empty b in
      push_node (pre_flush ps st ws p)
                (Some (NGroup p0 (snd r + length tr + 1) (ps_mode ps) [oc] [cc]
                              (Some (gen_nodelist (S p0) (cs_acc (close_state ps (fst r) tr (snd r)))))))
  end.
Definition babsorb (ps : pstate) (oc cc : N) : nat -> collstate -> list bitem -> collstate * nat :=
  fix go (q : nat) (st' : collstate) (l : list bitem) {struct l} : collstate * nat :=
    match l with
    | [] => (st', q)
    | i :: r => go (q + length (unparse_bitem oc cc i)) (babsorb_item ps oc cc q st' i) r
    end.
(** the node of the group [oc body tr cc] written at [p0] *)
Definition bgrp_node (ps : pstate) (oc cc : N) (p0 : nat) (b : list bitem) (tr : str) : option node :=
  let r := babsorb ps oc cc (S p0) cs_empty b in
  Some (NGroup p0 (snd r + length tr + 1) (ps_mode ps) [oc] [cc]
               (Some (gen_nodelist (S p0) (cs_acc (close_state ps (fst r) tr (snd r)))))).

(** the context has / has not the paragraph specials *)
Definition has_par (cx : context) : bool := existsb (str_eqb [10;10]%N) (map fst (cx_specials cx)).

(** * Abstract documents *)
Inductive item3 :=
| Text3 (ws cs : str)                                   (* whitespace, then a run of text characters *)
| Grp3 (ws : str) (body : list item3) (tr : str)        (* ws { body tr } *)
| Mac3 (ws name post : str) (args : list item3)         (* ws \name post {arg}...{arg} *)
| Math3 (ws : str) (k : mathkind) (body : list item3) (tr : str)   (* ws $ body tr $   (four delimiter pairs) *)
| Cmt3 (ws text post : str)                             (* ws % text post *)
| Par3 (ws mid : str)                                   (* ws newline mid newline *)
| Env3 (ws bws name : str) (args body : list item3) (tr ews : str)
                                  (* ws \begin bws {name} {arg}...{arg} body tr \end ews {name} *)
| Spc3 (ws chars : str) (args : list item3)            (* ws chars {arg}...{arg}   (specials, e.g. [~], [--]) *)
| Vrb3 (ws name post : str) (dc : N) (text : str)       (* ws \name post dc text dc   (the [\verb] macro) *)
| VEnv3 (ws bws name : str) (oarg : list item3) (text : str)
                                  (* ws \begin bws {name} [oarg] text \end{name}   (verbatim environments) *)
(* the next four only in ARGUMENT position *)
| Brk3 (ws : str) (oc cc : N) (body : list item3) (tr : str)   (* ws [ body tr ]   (delimited argument) *)
| Abs3                                                  (* an optional argument that is not written *)
| Vba3 (ws : str) (od cd : N) (text : str)              (* ws od text cd   (verbatim argument) *)
| Pre3 (ws text post : str) (a : item3)                 (* ws % text post, then the argument [a] *)
(* new in this grammar *)
| WPar3 (ws mid : str)             (* ws newline mid newline, in a context WITHOUT the paragraph specials *)
| PArg3 (ws mid : str)             (* ARGUMENT position only: ws newline mid newline as a single-token argument *)
| BGrp3 (ws : str) (oc cc : N) (body : list bitem) (tr : str).
                                   (* ws oc body tr cc, only DIRECTLY in the body of a delimited argument [oc … cc] *)

Record doc3 := { d_items3 : list item3; d_trail3 : str }.

(** * The printer *)
Fixpoint unparse_item3 (i : item3) : str :=
  match i with
  | Text3 ws cs => ws ++ cs
  | Grp3 ws b tr => ws ++ 123%N :: flat_map unparse_item3 b ++ tr ++ [125%N]
  | Mac3 ws name post args => ws ++ 92%N :: name ++ post ++ flat_map unparse_item3 args
  | Math3 ws k b tr => ws ++ m_open k ++ flat_map unparse_item3 b ++ tr ++ m_close k
  | Cmt3 ws text post => ws ++ 37%N :: text ++ post
  | Par3 ws mid => ws ++ 10%N :: mid ++ [10%N]
  | Env3 ws bws name args b tr ews =>
      ws ++ begin_str bws name ++ flat_map unparse_item3 args ++ flat_map unparse_item3 b ++ tr ++ end_str ews name
  | Spc3 ws chars args => ws ++ chars ++ flat_map unparse_item3 args
  | Vrb3 ws name post dc text => ws ++ 92%N :: name ++ post ++ dc :: text ++ [dc]
  | VEnv3 ws bws name oarg text =>
      ws ++ begin_str bws name ++ flat_map unparse_item3 oarg ++ text ++ end_str [] name
  | Brk3 ws oc cc b tr => ws ++ oc :: flat_map unparse_item3 b ++ tr ++ [cc]
  | Abs3 => []
  | Vba3 ws od cd text => ws ++ od :: text ++ [cd]
  | Pre3 ws text post a => ws ++ 37%N :: text ++ post ++ unparse_item3 a
  | WPar3 ws mid => ws ++ 10%N :: mid ++ [10%N]
  | PArg3 ws mid => ws ++ 10%N :: mid ++ [10%N]
  | BGrp3 ws oc cc b tr => ws ++ oc :: unparse_bitems oc cc b ++ tr ++ [cc]
  end.
Definition unparse_items3 (l : list item3) : str := flat_map unparse_item3 l.
Definition unparse3 (d : doc3) : str := unparse_items3 (d_items3 d) ++ d_trail3 d.

Definition ilen3 (i : item3) : nat := length (unparse_item3 i).
Definition item_ws3 (i : item3) : str :=
  match i with
  | Text3 ws _ | Grp3 ws _ _ | Mac3 ws _ _ _ | Math3 ws _ _ _ | Cmt3 ws _ _ | Par3 ws _
  | Env3 ws _ _ _ _ _ _ | Spc3 ws _ _ | Brk3 ws _ _ _ _ | Vrb3 ws _ _ _ _ | VEnv3 ws _ _ _ _
  | Vba3 ws _ _ _ | Pre3 ws _ _ _ | WPar3 ws _ | PArg3 ws _ | BGrp3 ws _ _ _ _ => ws
  | Abs3 => []
  end.

(** * Side conditions (the item-independent ones are those of [DocGrammar2]) *)

(** [ok_item3 cx ps ex i fol]: [i] is unambiguous when written in parsing state
    [ps] and followed by the string [fol] (up to the end of the input); [ex]
    lists the characters that are group delimiters where [i] is written (the
    delimiters of the delimited argument whose body [i] directly belongs to) *)
Fixpoint ok_item3 (cx : context) (ps : pstate) (ex : str) (i : item3) (fol : str) {struct i} : bool :=
  let oks := fix oks (bps : pstate) (bex : str) (l : list item3) (fh : str) {struct l} : bool :=
      match l with
      | [] => true
      | j :: r => ok_item3 cx bps bex j (flat_map unparse_item3 r ++ fh) && oks bps bex r fh
      end in
  (* a mandatory argument: comments (only where the slot allows whitespace), then a
     braced group or one token *)
  let oke := fix oke (sp : bool) (aps : pstate) (a : item3) (fa : str) {struct a} : bool :=
      match a with
      | Grp3 ws _ _ =>
          (* a braced group; whitespace in front of it only if the kind allows it *)
          (sp || is_nil ws) && ok_item3 cx aps [] a fa
      | Text3 ws [c] =>
          (* a single character *)
          (sp || is_nil ws) && ws_ok ws && char_ok cx [] c fa
      | Mac3 ws name post [] =>
          (* a control sequence (its own arguments are not parsed) *)
          ws_ok ws && ws_ok post && name_ok name post
          && match get_macro_spec cx name with Some _ => true | None => false end
          && mac_follow_ok2 name post fa
      | Spc3 ws (c :: cr) [] =>
          (* a specials sequence *)
          ws_ok ws && plain_start c
          && match test_specials (map fst (cx_specials cx)) ((c :: cr) ++ fa) None with
             | Some sc => str_eqb sc (c :: cr)
             | None => false
             end
      | Pre3 ws text post a' =>
          (* a comment in front of the argument *)
          sp && ws_ok ws && negb (mem_c 10 text) && ws_ok post
          && match post with 10%N :: _ => true | _ => false end
          && negb (otest is_space (hd_error (unparse_item3 a' ++ fa)))
          && oke sp aps a' fa
      | PArg3 ws mid =>
          (* a paragraph break as the argument: the specials token of the context, or — in a
             context without the paragraph specials — a character token (then whitespace in
             front of it only if the kind allows it) *)
          forallb is_space ws && negb (mem_c 10 ws) && forallb is_space mid
          && negb (mem_c 10 (fst (span is_space fa))) && (has_par cx || sp || is_nil ws)
      | _ => false
      end in
  let oka := fix oka (al : list item3) (specs : list argspec) (fh : str) {struct al} : bool :=
      match al, specs with
      | [], [] => true
      | a :: r, spc :: specs' =>
          let aps := apply_adelta ps (a_delta spc) in
          let fa := flat_map unparse_item3 r ++ fh in
          match a_kind spc, a with
          | AKExpr sp, _ => oke sp aps a fa
          | AKGroup [oc'] [cc'] _ sp, Brk3 ws oc cc b tr =>
              (* a delimited argument with the delimiters of the signature; in its body
                 (not deeper) the two delimiter characters are not text *)
              N.eqb oc oc' && N.eqb cc cc' && delim_ok oc cc && (sp || is_nil ws) && ws_ok ws && ws_ok tr
              && oks aps [oc; cc] b (tr ++ cc :: fa)
          | AKGroup [oc'] [cc'] true _, Abs3 =>
              delim_ok oc' cc' && absent_ok (f_en_envs (ps_f aps)) oc' fa
          | AKChars [ch] sp _, Text3 ws [c] =>
              (* the marker character ([*]) *)
              N.eqb c ch && char_ok cx [] c fa && (sp || is_nil ws) && ws_ok ws
          | AKChars [ch] _ _, Abs3 =>
              plain_start ch && absent_ok (f_en_envs (ps_f aps)) ch fa
          | AKVerb d, Vba3 ws od cd text =>
              (* a verbatim argument: its closing delimiter is the one the parser's scan finds *)
              ws_ok ws && negb (is_space od) && negb (N.eqb od 92)
              && match vdelims d od with
                 | Some (o, c) => N.eqb o od && N.eqb c cd
                 | None => false
                 end
              && match verb_scan od cd (text ++ cd :: fa) 1 0 with
                 | Some k => Nat.eqb k (length text)
                 | None => false
                 end
          | _, _ => false
          end
          && oka r specs' fh
      | _, _ => false
      end in
  match i with
  | Text3 ws cs =>
      ws_ok ws && match cs with [] => false | _ => true end
      && text_ok cx ex cs fol
  | Grp3 ws b tr =>
      ws_ok ws && ws_ok tr && oks ps [] b (tr ++ 125%N :: fol)
  | Math3 ws k b tr =>
      negb (f_in_math (ps_f ps)) && ws_ok ws && ws_ok tr
      && oks (ps_enter_math ps (Some (m_open k))) [] b (tr ++ m_close k ++ fol)
      && match k with
         | MDollar => match flat_map unparse_item3 b ++ tr with
                      | [] => false            (* [$$] is the display delimiter *)
                      | c :: _ => negb (N.eqb c 36)
                      end
         | _ => true
         end
  | Cmt3 ws text post =>
      (* the comment text has no newline; the post-space is the newline and the whitespace
         after it (not followed by more whitespace), or — stage (e6) — the comment ends
         with the input, or it is followed by a paragraph break (whose first newline is
         then not part of the comment) *)
      ws_ok ws && negb (mem_c 10 text)
      && match post with
         | [] => is_nil fol || par_follows fol
         | 10%N :: _ => ws_ok post && negb (otest is_space (hd_error fol))
         | _ => false
         end
  | Par3 ws mid =>
      (* a whitespace run [ws newline mid newline] whose last newline is the last newline of
         the whole whitespace run: what follows may be indented (stage (e6)) but the
         whitespace in front of it has no newline; the context has the [\n\n] specials *)
      forallb is_space ws && negb (mem_c 10 ws) && forallb is_space mid
      && negb (mem_c 10 (fst (span is_space fol))) && par_spec_ok cx
  | Mac3 ws name post args =>
      ws_ok ws && ws_ok post && name_ok name post
      && match get_macro_spec cx name with
         | Some sp =>
             match sp_args sp with
             | APStd l =>
                 oka args l fol
                 && mac_follow_ok2 name post (flat_map unparse_item3 args ++ fol)
             | APLegacy _ => false
             end
         | None => false
         end
  | Env3 ws bws name args b tr ews =>
      (* environments are enabled in [ps]; the name is one the tokenizer accepts; the
         environment resolves in the context (fallback included) to a standard
         signature; the body is parsed in math mode if declared so *)
      ws_ok ws && forallb is_space bws && forallb is_space ews && ws_ok tr
      && envname_ok name && f_en_envs (ps_f ps)
      && match get_env_spec cx name with
         | Some sp =>
             match sp_args sp with
             | APStd l =>
                 oka args l (flat_map unparse_item3 b ++ tr ++ end_str ews name ++ fol)
                 && oks (if sp_body_math sp then ps_enter_math ps None else ps) [] b
                        (tr ++ end_str ews name ++ fol)
             | APLegacy _ => false
             end
         | None => false
         end
  | Spc3 ws chars args =>
      (* the specials sequence is THE ONE the tokenizer finds (the longest one of the
         context that is a prefix of what is written from there on, the earlier entry on
         ties), it starts with a character that reaches the specials stage, and its
         signature is standard *)
      ws_ok ws && match chars with c :: _ => plain_start c && negb (mem_c c ex) | [] => false end
      && match test_specials (map fst (cx_specials cx)) (chars ++ flat_map unparse_item3 args ++ fol) None with
         | Some sc => str_eqb sc chars
         | None => false
         end
      && match get_specials_spec cx chars with
         | Some sp =>
             match sp_args sp with
             | APStd l => oka args l fol
             | APLegacy _ => false
             end
         | None => false
         end
  | Vrb3 ws name post dc text =>
      (* the macro resolves to the verbatim-macro signature; the delimiter is not whitespace,
         follows the name (and its post-space) directly and does not occur in the text *)
      ws_ok ws && ws_ok post && name_ok name post
      && match get_macro_spec cx name with
         | Some sp => match sp_args sp with APLegacy LVerbMacro => true | _ => false end
         | None => false
         end
      && mac_follow_ok name post (Some dc) && negb (is_space dc) && negb (mem_c dc text)
  | VEnv3 ws bws name oarg text =>
      (* the environment resolves to a verbatim-environment signature for this very name;
         [\end{name}] (written without whitespace) first occurs in what is written from the
         text on exactly at the end of the text; the optional argument of the signature, if
         any, is written as a delimited argument directly after [\begin{name}], or is absent *)
      ws_ok ws && forallb is_space bws && envname_ok name && f_en_envs (ps_f ps)
      && match get_env_spec cx name with
         | Some sp =>
             match sp_args sp with
             | APLegacy (LVerbEnv vn optarg) =>
                 let endc := end_str [] name in
                 str_eqb vn name
                 && match find_sub (text ++ endc ++ fol) endc with
                    | Some k => Nat.eqb k (length text)
                    | None => false
                    end
                 && match oarg with
                    | [] => negb optarg
                    | [Abs3] =>
                        optarg && (otest is_space (hd_error (text ++ endc))
                                   || absent_ok (f_en_envs (ps_f ps)) 91%N (text ++ endc ++ fol))
                    | [Brk3 [] oc cc b tr] =>
                        optarg && N.eqb oc 91 && N.eqb cc 93 && ws_ok tr
                        && oks ps [91; 93]%N b (tr ++ 93%N :: text ++ endc ++ fol)
                    | _ => false
                    end
             | _ => false
             end
         | None => false
         end
  | WPar3 ws mid =>
      (* as [Par3], in a context WITHOUT the paragraph specials *)
      forallb is_space ws && negb (mem_c 10 ws) && forallb is_space mid
      && negb (mem_c 10 (fst (span is_space fol))) && negb (has_par cx)
  | BGrp3 ws oc cc b tr =>
      (* only directly in the body of a delimited argument with the same delimiters *)
      match ex with [o; c] => N.eqb o oc && N.eqb c cc | _ => false end
      && ws_ok ws && ws_ok tr && ok_bitems cx oc cc b (tr ++ cc :: fol)
  | Brk3 _ _ _ _ _ | Abs3 | Vba3 _ _ _ _ | Pre3 _ _ _ _ | PArg3 _ _ => false        (* only as arguments *)
  end.

(** (same shape as the local fixpoints of [ok_item3]) *)
Definition ok_items3 (cx : context) : pstate -> str -> list item3 -> str -> bool :=
  fix oks (bps : pstate) (bex : str) (l : list item3) (fh : str) {struct l} : bool :=
    match l with
    | [] => true
    | j :: r => ok_item3 cx bps bex j (flat_map unparse_item3 r ++ fh) && oks bps bex r fh
    end.

(** a mandatory argument [a] (comments, then a braced group or one token) parsed in state [aps] *)
Definition ok_expr3 (cx : context) : bool -> pstate -> item3 -> str -> bool :=
  fix oke (sp : bool) (aps : pstate) (a : item3) (fa : str) {struct a} : bool :=
    match a with
    | Grp3 ws _ _ => (sp || is_nil ws) && ok_item3 cx aps [] a fa
    | Text3 ws [c] => (sp || is_nil ws) && ws_ok ws && char_ok cx [] c fa
    | Mac3 ws name post [] =>
        ws_ok ws && ws_ok post && name_ok name post
        && match get_macro_spec cx name with Some _ => true | None => false end
        && mac_follow_ok2 name post fa
    | Spc3 ws (c :: cr) [] =>
        ws_ok ws && plain_start c
        && match test_specials (map fst (cx_specials cx)) ((c :: cr) ++ fa) None with
           | Some sc => str_eqb sc (c :: cr)
           | None => false
           end
    | Pre3 ws text post a' =>
        sp && ws_ok ws && negb (mem_c 10 text) && ws_ok post
        && match post with 10%N :: _ => true | _ => false end
        && negb (otest is_space (hd_error (unparse_item3 a' ++ fa)))
        && oke sp aps a' fa
    | PArg3 ws mid =>
        forallb is_space ws && negb (mem_c 10 ws) && forallb is_space mid
        && negb (mem_c 10 (fst (span is_space fa))) && (has_par cx || sp || is_nil ws)
    | _ => false
    end.

(** one argument [a], written for the slot [spc] of a call in state [ps], followed by [fa] *)
Definition ok_arg3 (cx : context) (ps : pstate) (spc : argspec) (a : item3) (fa : str) : bool :=
  let aps := apply_adelta ps (a_delta spc) in
  match a_kind spc, a with
  | AKExpr sp, _ => ok_expr3 cx sp aps a fa
  | AKGroup [oc'] [cc'] _ sp, Brk3 ws oc cc b tr =>
      N.eqb oc oc' && N.eqb cc cc' && delim_ok oc cc && (sp || is_nil ws) && ws_ok ws && ws_ok tr
      && ok_items3 cx aps [oc; cc] b (tr ++ cc :: fa)
  | AKGroup [oc'] [cc'] true _, Abs3 =>
      delim_ok oc' cc' && absent_ok (f_en_envs (ps_f aps)) oc' fa
  | AKChars [ch] sp _, Text3 ws [c] =>
      N.eqb c ch && char_ok cx [] c fa && (sp || is_nil ws) && ws_ok ws
  | AKChars [ch] _ _, Abs3 =>
      plain_start ch && absent_ok (f_en_envs (ps_f aps)) ch fa
  | AKVerb d, Vba3 ws od cd text =>
      ws_ok ws && negb (is_space od) && negb (N.eqb od 92)
      && match vdelims d od with
         | Some (o, c) => N.eqb o od && N.eqb c cd
         | None => false
         end
      && match verb_scan od cd (text ++ cd :: fa) 1 0 with
         | Some k => Nat.eqb k (length text)
         | None => false
         end
  | _, _ => false
  end.

Definition ok_args3 (cx : context) (ps : pstate) : list item3 -> list argspec -> str -> bool :=
  fix oka (al : list item3) (specs : list argspec) (fh : str) {struct al} : bool :=
    match al, specs with
    | [], [] => true
    | a :: r, spc :: specs' => ok_arg3 cx ps spc a (flat_map unparse_item3 r ++ fh) && oka r specs' fh
    | _, _ => false
    end.

(** a document written at top level, in the walker's initial state *)
Definition ok_doc3_in (cx : context) (ps : pstate) (d : doc3) : bool :=
  ok_items3 cx ps [] (d_items3 d) (d_trail3 d) && ws_ok (d_trail3 d).
Definition ok_doc3 (cx : context) (d : doc3) : bool := ok_doc3_in cx (walker_state cx) d.

(** * The meaning of a document (accumulator form, as [DocGrammar.tree_of]) *)

Fixpoint node_of3 (cx : context) (ps : pstate) (p0 : nat) (i : item3) {struct i} : option node :=
  let body := fix go (bps : pstate) (p : nat) (st : collstate) (l : list item3) {struct l} : collstate * nat :=
      match l with
      | [] => (st, p)
      | j :: r =>
          go bps (p + ilen3 j)
             (match j with
              | Text3 ws cs => push_pending st (ws ++ cs) p
              | WPar3 ws mid => push_pending st (ws ++ 10%N :: mid ++ [10%N]) p
              | _ => push_node (pre_flush bps st (item_ws3 j) p) (node_of3 cx bps (p + length (item_ws3 j)) j)
              end) r
      end in
  (* the node of a mandatory argument written at [p] (leading whitespace / comments included) *)
  let ene := fix ene (aps : pstate) (p : nat) (a : item3) {struct a} : option node :=
      let q := p + length (item_ws3 a) in
      match a with
      | Text3 _ cs => Some (mk_chars aps q (q + length cs) cs)
      | Mac3 _ name post _ =>
          Some (NMacro q (q + 1 + length name + length post) (ps_mode aps) name post (Some ([], [])))
      | Spc3 _ chars _ => Some (NSpecials q (q + length chars) (ps_mode aps) chars (Some ([], [])))
      | Pre3 _ text post a' => ene aps (q + 1 + length text + length post) a'
      | PArg3 _ mid =>
          let e := q + 1 + length mid + 1 in
          Some (if has_par cx then NSpecials q e (ps_mode aps) [10;10]%N (Some ([], []))
                else mk_chars aps q e (10%N :: mid ++ [10%N]))
      | _ => node_of3 cx aps q a
      end in
  let goa := fix goa (p : nat) (al : list item3) (specs : list argspec) {struct al}
               : list (option node) * nat :=
      match al, specs with
      | a :: r, spc :: specs' =>
          let rr := goa (p + ilen3 a) r specs' in
          let aps := apply_adelta ps (a_delta spc) in
          let q := p + length (item_ws3 a) in
          (match a_kind spc, a with
           | AKChars _ _ full, Text3 _ cs =>
               let cn := mk_chars aps q (q + length cs) cs in
               Some (if full then mk_nodelist None None [Some cn] else cn)
           | AKExpr _, _ => ene aps p a
           | _, _ => node_of3 cx aps q a
           end :: fst rr, snd rr)
      | _, _ => ([], p)
      end in
  match i with
  | Text3 _ _ => None
  | Abs3 => None
  | Pre3 _ _ _ _ => None
  | WPar3 _ _ => None
  | PArg3 _ _ => None
  | BGrp3 _ oc cc b tr => bgrp_node ps oc cc p0 b tr
  | Vba3 _ od cd text =>
      Some (NGroup p0 (p0 + 1 + length text + 1) (ps_mode ps) [od] [cd]
                   (Some (mk_nodelist None None [Some (mk_chars ps (S p0) (S p0 + length text) text)])))
  | Brk3 _ oc cc b tr =>
      let r := body ps (S p0) cs_empty b in
      Some (NGroup p0 (snd r + length tr + 1) (ps_mode ps) [oc] [cc]
                   (Some (gen_nodelist (S p0) (cs_acc (close_state ps (fst r) tr (snd r))))))
  | Cmt3 _ text post =>
      Some (NComment p0 (p0 + 1 + length text + length post) (ps_mode ps) text post)
  | Par3 _ mid =>
      if par_spec_ok cx
      then Some (NSpecials p0 (p0 + 1 + length mid + 1) (ps_mode ps) [10;10]%N (Some ([], [])))
      else None
  | Grp3 _ b tr =>
      let r := body ps (S p0) cs_empty b in
      Some (NGroup p0 (snd r + length tr + 1) (ps_mode ps) [123%N] [125%N]
                   (Some (gen_nodelist (S p0) (cs_acc (close_state ps (fst r) tr (snd r))))))
  | Math3 _ k b tr =>
      let mps := ps_enter_math ps (Some (m_open k)) in
      let start := p0 + length (m_open k) in
      let r := body mps start cs_empty b in
      Some (NMath p0 (snd r + length tr + length (m_close k)) (ps_mode ps) (m_display k) (m_open k) (m_close k)
                  (Some (gen_nodelist start (cs_acc (close_state mps (fst r) tr (snd r))))))
  | Mac3 _ name post args =>
      match get_macro_spec cx name with
      | Some sp =>
          match sp_args sp with
          | APStd l =>
              let ar := goa (p0 + 1 + length name + length post) args l in
              Some (NMacro p0 (snd ar) (ps_mode ps) name post (Some (map a_spec l, fst ar)))
          | APLegacy _ => None
          end
      | None => None
      end
  | Env3 _ bws name args b tr ews =>
      match get_env_spec cx name with
      | Some sp =>
          match sp_args sp with
          | APStd l =>
              let ar := goa (p0 + length (begin_str bws name)) args l in
              let bps := if sp_body_math sp then ps_enter_math ps None else ps in
              let r := body bps (snd ar) cs_empty b in
              Some (NEnv p0 (snd r + length tr + length (end_str ews name)) (ps_mode ps) name
                         (Some (map a_spec l, fst ar))
                         (Some (gen_nodelist (snd ar) (cs_acc (close_state bps (fst r) tr (snd r))))))
          | APLegacy _ => None
          end
      | None => None
      end
  | Spc3 _ chars args =>
      match get_specials_spec cx chars with
      | Some sp =>
          match sp_args sp with
          | APStd l =>
              let ar := goa (p0 + length chars) args l in
              Some (NSpecials p0 (snd ar) (ps_mode ps) chars (Some (map a_spec l, fst ar)))
          | APLegacy _ => None
          end
      | None => None
      end
  | Vrb3 _ name post dc text =>
      let b := p0 + 1 + length name + length post + 1 in
      Some (NMacro p0 (b + length text + 1) (ps_mode ps) name post
                   (Some ([[123%N]], [Some (mk_chars ps b (b + length text) text)])))
  | VEnv3 _ bws name oarg text =>
      match get_env_spec cx name with
      | Some sp =>
          match sp_args sp with
          | APLegacy (LVerbEnv vn optarg) =>
              let pa := p0 + length (begin_str bws name) in
              let on := match oarg with
                        | [a] => ([node_of3 cx ps pa a], pa + ilen3 a)
                        | _ => ([], pa)
                        end in
              let e := snd on + length text in
              let bps := if sp_body_math sp then ps_enter_math ps None else ps in
              Some (NEnv p0 (e + length (end_str [] name)) (ps_mode ps) name
                         (Some ((if optarg then [[91%N]] else []) ++ [[123%N]],
                                fst on ++ [Some (mk_chars ps (snd on) e text)]))
                         (Some (gen_nodelist e (cs_acc (close_state bps cs_empty [] e)))))
          | _ => None
          end
      | None => None
      end
  end.

Definition absorb_item3 (cx : context) (ps : pstate) (p : nat) (st : collstate) (j : item3) : collstate :=
  match j with
  | Text3 ws cs => push_pending st (ws ++ cs) p
  | WPar3 ws mid => push_pending st (ws ++ 10%N :: mid ++ [10%N]) p
  | _ => push_node (pre_flush ps st (item_ws3 j) p) (node_of3 cx ps (p + length (item_ws3 j)) j)
  end.

(** (the fixpoints below have exactly the shape of the local ones of [node_of3]) *)
Definition absorb3 (cx : context) : pstate -> nat -> collstate -> list item3 -> collstate * nat :=
  fix go (bps : pstate) (p : nat) (st : collstate) (l : list item3) {struct l} : collstate * nat :=
    match l with
    | [] => (st, p)
    | j :: r => go bps (p + ilen3 j) (absorb_item3 cx bps p st j) r
    end.

(** the node of a mandatory argument written at [p] (leading whitespace / comments included) *)
Definition expr_node3 (cx : context) : pstate -> nat -> item3 -> option node :=
  fix ene (aps : pstate) (p : nat) (a : item3) {struct a} : option node :=
    let q := p + length (item_ws3 a) in
    match a with
    | Text3 _ cs => Some (mk_chars aps q (q + length cs) cs)
    | Mac3 _ name post _ =>
        Some (NMacro q (q + 1 + length name + length post) (ps_mode aps) name post (Some ([], [])))
    | Spc3 _ chars _ => Some (NSpecials q (q + length chars) (ps_mode aps) chars (Some ([], [])))
    | Pre3 _ text post a' => ene aps (q + 1 + length text + length post) a'
    | PArg3 _ mid =>
        let e := q + 1 + length mid + 1 in
        Some (if has_par cx then NSpecials q e (ps_mode aps) [10;10]%N (Some ([], []))
              else mk_chars aps q e (10%N :: mid ++ [10%N]))
    | _ => node_of3 cx aps q a
    end.

(** the node of the argument [a] written at [p] (leading whitespace included) for the slot [spc] *)
Definition arg_node3 (cx : context) (ps : pstate) (spc : argspec) (p : nat) (a : item3) : option node :=
  let aps := apply_adelta ps (a_delta spc) in
  let q := p + length (item_ws3 a) in
  match a_kind spc, a with
  | AKChars _ _ full, Text3 _ cs =>
      let cn := mk_chars aps q (q + length cs) cs in
      Some (if full then mk_nodelist None None [Some cn] else cn)
  | AKExpr _, _ => expr_node3 cx aps p a
  | _, _ => node_of3 cx aps q a
  end.

Definition arg_nodes3 (cx : context) (ps : pstate) : nat -> list item3 -> list argspec -> list (option node) * nat :=
  fix goa (p : nat) (al : list item3) (specs : list argspec) {struct al} : list (option node) * nat :=
    match al, specs with
    | a :: r, spc :: specs' =>
        let rr := goa (p + ilen3 a) r specs' in
        (arg_node3 cx ps spc p a :: fst rr, snd rr)
    | _, _ => ([], p)
    end.

(** [tree_of3 cx ps pos d]: the items of the node list that the document [d],
    written at offset [pos] and parsed in state [ps], means; and the offset
    where it ends *)
Definition tree_of3 (cx : context) (ps : pstate) (pos : nat) (d : doc3) : list (option node) * nat :=
  let r := absorb3 cx ps pos cs_empty (d_items3 d) in
  (cs_acc (eos_state ps (fst r) (d_trail3 d) (snd r)), snd r + length (d_trail3 d)).

(** what [parse_content(LatexGeneralNodesParser())] returns for it *)
Definition doc_result3 (cx : context) (d : doc3) : res out :=
  Ok (ONode (Some (gen_nodelist 0 (fst (tree_of3 cx (walker_state cx) 0 d))))) (length (unparse3 d)).


(** * The extended grammar of [DocGrammar2] is a sub-grammar *)
Fixpoint up2_item (i : item2) : item3 :=
  match i with
  | Text2 ws cs => Text3 ws cs
  | Grp2 ws b tr => Grp3 ws (map up2_item b) tr
  | Mac2 ws name post args => Mac3 ws name post (map up2_item args)
  | Math2 ws k b tr => Math3 ws k (map up2_item b) tr
  | Cmt2 ws text post => Cmt3 ws text post
  | Par2 ws mid => Par3 ws mid
  | Env2 ws bws name args b tr ews => Env3 ws bws name (map up2_item args) (map up2_item b) tr ews
  | Spc2 ws chars args => Spc3 ws chars (map up2_item args)
  | Vrb2 ws name post dc text => Vrb3 ws name post dc text
  | VEnv2 ws bws name oarg text => VEnv3 ws bws name (map up2_item oarg) text
  | Brk2 ws oc cc b tr => Brk3 ws oc cc (map up2_item b) tr
  | Abs2 => Abs3
  | Vba2 ws od cd text => Vba3 ws od cd text
  | Pre2 ws text post a => Pre3 ws text post (up2_item a)
  end.
Definition up2_doc (d : doc2) : doc3 := {| d_items3 := map up2_item (d_items2 d); d_trail3 := d_trail2 d |}.
