(** C02 — the EXTENDED document grammar (stage (e) of the plan): the core
    grammar of [Doc/DocGrammar.v] (text, groups, macro calls with braced
    arguments, inline / display math, comments, paragraph breaks) plus
      (e1) environments [\begin{name} args body \end{name}] (arguments as the
           macro calls have them; the body in math mode when the environment
           is declared so),
      (e2) [$$ … $$] display math (the fourth [mathkind], shared with the core
           grammar),
      (e3) specials ([~], [&], [--], … whatever the context declares), without or
           with arguments,
      (e4) optional arguments: a delimited argument [[ … ]] (any single-character
           delimiter pair the signature declares) written or — when optional —
           absent, an optional marker character ([*]) written or absent, and
           whitespace in front of an argument where the argument kind allows it,
      (e5) single-token mandatory arguments: one character ([\frac12]), a control
           sequence ([\textbf\alpha]: its own arguments are not parsed), a specials
           sequence,
      (e6) a comment that ends with the input; a paragraph break followed by
           indentation,
      (e7) verbatim: the [\verb] macro ([\verb|text|]) and the verbatim environments
           ([\begin{verbatim} text \end{verbatim}], [lstlisting] with its optional
           argument), and the verbatim argument kind of custom signatures.
    Same conventions as the core grammar: whitespace is a FIELD of the item it
    precedes, [tree_of2] is in accumulator form (the collector's state after
    the items so far).

    One difference: the side conditions [ok_item2] are evaluated against the
    FOLLOW STRING (everything that is written after the item, up to the end of
    the input) instead of its first character, so that longest-match rules
    (specials), "the next token is not [[]" (absent optional arguments) and
    "the whitespace that follows has no newline" can be expressed.

    Definitions only; proofs in [Proofs/RoundTrip2*.v], statements in
    [Properties/C02.v]. *)
From Coq Require Import NArith List Bool Arith.
From PLV Require Import Base.PyStr Tok.PState Tok.Tokenizer Parse.Nodes Parse.Parser Parse.ParseWire
                        Doc.DocGrammar.
Import ListNotations.

(** * Abstract documents *)
Inductive item2 :=
| Text2 (ws cs : str)                                   (* whitespace, then a run of text characters *)
| Grp2 (ws : str) (body : list item2) (tr : str)        (* ws { body tr } *)
| Mac2 (ws name post : str) (args : list item2)         (* ws \name post {arg}...{arg} *)
| Math2 (ws : str) (k : mathkind) (body : list item2) (tr : str)   (* ws $ body tr $   (four delimiter pairs) *)
| Cmt2 (ws text post : str)                             (* ws % text post *)
| Par2 (ws mid : str)                                   (* ws newline mid newline *)
| Env2 (ws bws name : str) (args body : list item2) (tr ews : str)
                                  (* ws \begin bws {name} {arg}...{arg} body tr \end ews {name} *)
| Spc2 (ws chars : str) (args : list item2)            (* ws chars {arg}...{arg}   (specials, e.g. [~], [--]) *)
| Vrb2 (ws name post : str) (dc : N) (text : str)       (* ws \name post dc text dc   (the [\verb] macro) *)
| VEnv2 (ws bws name : str) (oarg : list item2) (text : str)
                                  (* ws \begin bws {name} [oarg] text \end{name}   (verbatim environments) *)
(* the next four only in ARGUMENT position *)
| Brk2 (ws : str) (oc cc : N) (body : list item2) (tr : str)   (* ws [ body tr ]   (delimited argument) *)
| Abs2                                                  (* an optional argument that is not written *)
| Vba2 (ws : str) (od cd : N) (text : str)              (* ws od text cd   (verbatim argument) *)
| Pre2 (ws text post : str) (a : item2).                (* ws % text post, then the argument [a] *)

Record doc2 := { d_items2 : list item2; d_trail2 : str }.

(** [\begin bws {name}] and [\end ews {name}] *)
Definition begin_str (bws name : str) : str := 92%N :: kw_begin ++ bws ++ 123%N :: name ++ [125%N].
Definition end_str (ews name : str) : str := 92%N :: kw_end ++ ews ++ 123%N :: name ++ [125%N].

(** * The printer *)
Fixpoint unparse_item2 (i : item2) : str :=
  match i with
  | Text2 ws cs => ws ++ cs
  | Grp2 ws b tr => ws ++ 123%N :: flat_map unparse_item2 b ++ tr ++ [125%N]
  | Mac2 ws name post args => ws ++ 92%N :: name ++ post ++ flat_map unparse_item2 args
  | Math2 ws k b tr => ws ++ m_open k ++ flat_map unparse_item2 b ++ tr ++ m_close k
  | Cmt2 ws text post => ws ++ 37%N :: text ++ post
  | Par2 ws mid => ws ++ 10%N :: mid ++ [10%N]
  | Env2 ws bws name args b tr ews =>
      ws ++ begin_str bws name ++ flat_map unparse_item2 args ++ flat_map unparse_item2 b ++ tr ++ end_str ews name
  | Spc2 ws chars args => ws ++ chars ++ flat_map unparse_item2 args
  | Vrb2 ws name post dc text => ws ++ 92%N :: name ++ post ++ dc :: text ++ [dc]
  | VEnv2 ws bws name oarg text =>
      ws ++ begin_str bws name ++ flat_map unparse_item2 oarg ++ text ++ end_str [] name
  | Brk2 ws oc cc b tr => ws ++ oc :: flat_map unparse_item2 b ++ tr ++ [cc]
  | Abs2 => []
  | Vba2 ws od cd text => ws ++ od :: text ++ [cd]
  | Pre2 ws text post a => ws ++ 37%N :: text ++ post ++ unparse_item2 a
  end.
Definition unparse_items2 (l : list item2) : str := flat_map unparse_item2 l.
Definition unparse2 (d : doc2) : str := unparse_items2 (d_items2 d) ++ d_trail2 d.

Definition ilen2 (i : item2) : nat := length (unparse_item2 i).
Definition item_ws2 (i : item2) : str :=
  match i with
  | Text2 ws _ | Grp2 ws _ _ | Mac2 ws _ _ _ | Math2 ws _ _ _ | Cmt2 ws _ _ | Par2 ws _
  | Env2 ws _ _ _ _ _ _ | Spc2 ws _ _ | Brk2 ws _ _ _ _ | Vrb2 ws _ _ _ _ | VEnv2 ws _ _ _ _
  | Vba2 ws _ _ _ | Pre2 ws _ _ _ => ws
  | Abs2 => []
  end.

(** * Side conditions *)

(** an environment name the tokenizer accepts: [[A-Za-z0-9*._ :/!^()\[\]-]+] *)
Definition envname_ok (name : str) : bool :=
  match name with [] => false | _ => forallb envname_char name end.

(** a character that reaches the specials stage of the tokenizer's dispatch:
    not whitespace, not the escape, math, comment or brace characters *)
Definition plain_start (c : N) : bool := negb (is_space c) && negb (mem_c c [92;36;37;123;125]%N).

(** a TEXT character, written where the characters [ex] are group delimiters and
    followed by [rest]: it reaches the last stage of the tokenizer's dispatch — not
    whitespace, not [\ $ % { }], not in [ex], and NO specials sequence of the context
    is a prefix of what is written from there on (so [-] in [a-b] is text although
    [--] is a specials sequence; the core grammar's [inert] is the special case "no
    specials sequence starts with this character") *)
Definition char_ok (cx : context) (ex : str) (c : N) (rest : str) : bool :=
  plain_start c && negb (mem_c c ex)
  && match test_specials (map fst (cx_specials cx)) (c :: rest) None with None => true | Some _ => false end.

Fixpoint text_ok (cx : context) (ex : str) (cs : str) (fol : str) : bool :=
  match cs with
  | [] => true
  | c :: r => char_ok cx ex c (r ++ fol) && text_ok cx ex r fol
  end.

Definition is_nil (w : str) : bool := match w with [] => true | _ => false end.

(** a delimiter pair of a delimited argument: two different characters that
    reach the group stage of the tokenizer's dispatch *)
Definition delim_ok (oc cc : N) : bool := plain_start oc && plain_start cc && negb (N.eqb oc cc).

(** what follows a backslash is not a malformed escape sequence (the tokenizer
    raises on a backslash at the end of the input and on [\begin] / [\end] that
    is not followed by a letter or by [{name}]) *)
Definition esc_ok (envs : bool) (r : str) : bool :=
  match r with
  | [] => false
  | _ =>
      negb envs
      || (let chk (kw : str) :=
              negb (startswith r kw) || otest is_alpha (nth_error r (length kw))
              || match match_envname (skipn (length kw) r) with Some _ => true | None => false end in
          chk kw_begin && (startswith r kw_begin || chk kw_end))
  end.

(** an optional argument whose opening character is [oc] is ABSENT when what
    follows, after whitespace, does not start with [oc] (and is not a malformed
    escape sequence, on which the tokenizer would raise) *)
Definition absent_ok (envs : bool) (oc : N) (fol : str) : bool :=
  match snd (span is_space fol) with
  | [] => true
  | c0 :: r => negb (N.eqb c0 oc) && (negb (N.eqb c0 92) || esc_ok envs r)
  end.

(** what follows is a paragraph break: a whitespace run that starts with a
    newline and contains a second one *)
Definition par_follows (F : str) : bool :=
  match F with
  | 10%N :: _ => Nat.leb 2 (count_c 10 (fst (span is_space F)))
  | _ => false
  end.

(** what may follow a control sequence (name + post-space) and what follows it:
    as [mac_follow_ok], or — a control word whose post-space has no newline — a
    paragraph break (the tokenizer then cuts the post-space at the first newline) *)
Definition mac_follow_ok2 (name post F : str) : bool :=
  mac_follow_ok name post (hd_error F) || (negb (mem_c 10 post) && par_follows F).

(** the delimiters of a verbatim argument that starts with [c0]: those of the
    signature, or — when it declares none — [c0] and its mirror image *)
Definition vdelims (d : option (str * str)) (c0 : N) : option (N * N) :=
  match d with
  | None => Some (c0, if N.eqb c0 123 then 125%N else if N.eqb c0 91 then 93%N
                      else if N.eqb c0 60 then 62%N else if N.eqb c0 40 then 41%N else c0)
  | Some ([o], [c]) => if N.eqb c0 o then Some (o, c) else None
  | Some _ => None
  end.

(** the parser's scan for the closing delimiter of a verbatim argument (nested
    opening delimiters are counted): the number of characters before it *)
Fixpoint verb_scan (od cd : N) (l : str) (depth n : nat) : option nat :=
  match l with
  | [] => None
  | c :: r =>
      if N.eqb c cd then
        match depth with
        | S (S d') => verb_scan od cd r (S d') (S n)
        | _ => Some n
        end
      else if N.eqb c od then verb_scan od cd r (S depth) (S n)
      else verb_scan od cd r depth (S n)
  end.

(** [ok_item2 cx ps ex i fol]: [i] is unambiguous when written in parsing state
    [ps] and followed by the string [fol] (up to the end of the input); [ex]
    lists the characters that are group delimiters where [i] is written (the
    delimiters of the delimited argument whose body [i] directly belongs to) *)
Fixpoint ok_item2 (cx : context) (ps : pstate) (ex : str) (i : item2) (fol : str) {struct i} : bool :=
  let oks := fix oks (bps : pstate) (bex : str) (l : list item2) (fh : str) {struct l} : bool :=
      match l with
      | [] => true
      | j :: r => ok_item2 cx bps bex j (flat_map unparse_item2 r ++ fh) && oks bps bex r fh
      end in
  (* a mandatory argument: comments (only where the slot allows whitespace), then a
     braced group or one token *)
  let oke := fix oke (sp : bool) (aps : pstate) (a : item2) (fa : str) {struct a} : bool :=
      match a with
      | Grp2 ws _ _ =>
          (* a braced group; whitespace in front of it only if the kind allows it *)
          (sp || is_nil ws) && ok_item2 cx aps [] a fa
      | Text2 ws [c] =>
          (* a single character *)
          (sp || is_nil ws) && ws_ok ws && char_ok cx [] c fa
      | Mac2 ws name post [] =>
          (* a control sequence (its own arguments are not parsed) *)
          ws_ok ws && ws_ok post && name_ok name post
          && match get_macro_spec cx name with Some _ => true | None => false end
          && mac_follow_ok2 name post fa
      | Spc2 ws (c :: cr) [] =>
          (* a specials sequence *)
          ws_ok ws && plain_start c
          && match test_specials (map fst (cx_specials cx)) ((c :: cr) ++ fa) None with
             | Some sc => str_eqb sc (c :: cr)
             | None => false
             end
      | Pre2 ws text post a' =>
          (* a comment in front of the argument *)
          sp && ws_ok ws && negb (mem_c 10 text) && ws_ok post
          && match post with 10%N :: _ => true | _ => false end
          && negb (otest is_space (hd_error (unparse_item2 a' ++ fa)))
          && oke sp aps a' fa
      | _ => false
      end in
  let oka := fix oka (al : list item2) (specs : list argspec) (fh : str) {struct al} : bool :=
      match al, specs with
      | [], [] => true
      | a :: r, spc :: specs' =>
          let aps := apply_adelta ps (a_delta spc) in
          let fa := flat_map unparse_item2 r ++ fh in
          match a_kind spc, a with
          | AKExpr sp, _ => oke sp aps a fa
          | AKGroup [oc'] [cc'] _ sp, Brk2 ws oc cc b tr =>
              (* a delimited argument with the delimiters of the signature; in its body
                 (not deeper) the two delimiter characters are not text *)
              N.eqb oc oc' && N.eqb cc cc' && delim_ok oc cc && (sp || is_nil ws) && ws_ok ws && ws_ok tr
              && oks aps [oc; cc] b (tr ++ cc :: fa)
          | AKGroup [oc'] [cc'] true _, Abs2 =>
              delim_ok oc' cc' && absent_ok (f_en_envs (ps_f aps)) oc' fa
          | AKChars [ch] sp _, Text2 ws [c] =>
              (* the marker character ([*]) *)
              N.eqb c ch && char_ok cx [] c fa && (sp || is_nil ws) && ws_ok ws
          | AKChars [ch] _ _, Abs2 =>
              plain_start ch && absent_ok (f_en_envs (ps_f aps)) ch fa
          | AKVerb d, Vba2 ws od cd text =>
              (* a verbatim argument: its closing delimiter is the one the parser's scan finds *)
              ws_ok ws && negb (is_space od) && negb (N.eqb od 92)
              && match vdelims d od with
                 | Some (o, c) => N.eqb o od && N.eqb c cd
                 | None => false
                 end
              && match verb_scan od cd (text ++ cd :: fa) 1 0 with
                 | Some k => Nat.eqb k (length text)
                 | None => false
                 end
          | _, _ => false
          end
          && oka r specs' fh
      | _, _ => false
      end in
  match i with
  | Text2 ws cs =>
      ws_ok ws && match cs with [] => false | _ => true end
      && text_ok cx ex cs fol
  | Grp2 ws b tr =>
      ws_ok ws && ws_ok tr && oks ps [] b (tr ++ 125%N :: fol)
  | Math2 ws k b tr =>
      negb (f_in_math (ps_f ps)) && ws_ok ws && ws_ok tr
      && oks (ps_enter_math ps (Some (m_open k))) [] b (tr ++ m_close k ++ fol)
      && match k with
         | MDollar => match flat_map unparse_item2 b ++ tr with
                      | [] => false            (* [$$] is the display delimiter *)
                      | c :: _ => negb (N.eqb c 36)
                      end
         | _ => true
         end
  | Cmt2 ws text post =>
      (* the comment text has no newline; the post-space is the newline and the whitespace
         after it (not followed by more whitespace), or — stage (e6) — the comment ends
         with the input, or it is followed by a paragraph break (whose first newline is
         then not part of the comment) *)
      ws_ok ws && negb (mem_c 10 text)
      && match post with
         | [] => is_nil fol || par_follows fol
         | 10%N :: _ => ws_ok post && negb (otest is_space (hd_error fol))
         | _ => false
         end
  | Par2 ws mid =>
      (* a whitespace run [ws newline mid newline] whose last newline is the last newline of
         the whole whitespace run: what follows may be indented (stage (e6)) but the
         whitespace in front of it has no newline; the context has the [\n\n] specials *)
      forallb is_space ws && negb (mem_c 10 ws) && forallb is_space mid
      && negb (mem_c 10 (fst (span is_space fol))) && par_spec_ok cx
  | Mac2 ws name post args =>
      ws_ok ws && ws_ok post && name_ok name post
      && match get_macro_spec cx name with
         | Some sp =>
             match sp_args sp with
             | APStd l =>
                 oka args l fol
                 && mac_follow_ok2 name post (flat_map unparse_item2 args ++ fol)
             | APLegacy _ => false
             end
         | None => false
         end
  | Env2 ws bws name args b tr ews =>
      (* environments are enabled in [ps]; the name is one the tokenizer accepts; the
         environment resolves in the context (fallback included) to a standard
         signature; the body is parsed in math mode if declared so *)
      ws_ok ws && forallb is_space bws && forallb is_space ews && ws_ok tr
      && envname_ok name && f_en_envs (ps_f ps)
      && match get_env_spec cx name with
         | Some sp =>
             match sp_args sp with
             | APStd l =>
                 oka args l (flat_map unparse_item2 b ++ tr ++ end_str ews name ++ fol)
                 && oks (if sp_body_math sp then ps_enter_math ps None else ps) [] b
                        (tr ++ end_str ews name ++ fol)
             | APLegacy _ => false
             end
         | None => false
         end
  | Spc2 ws chars args =>
      (* the specials sequence is THE ONE the tokenizer finds (the longest one of the
         context that is a prefix of what is written from there on, the earlier entry on
         ties), it starts with a character that reaches the specials stage, and its
         signature is standard *)
      ws_ok ws && match chars with c :: _ => plain_start c && negb (mem_c c ex) | [] => false end
      && match test_specials (map fst (cx_specials cx)) (chars ++ flat_map unparse_item2 args ++ fol) None with
         | Some sc => str_eqb sc chars
         | None => false
         end
      && match get_specials_spec cx chars with
         | Some sp =>
             match sp_args sp with
             | APStd l => oka args l fol
             | APLegacy _ => false
             end
         | None => false
         end
  | Vrb2 ws name post dc text =>
      (* the macro resolves to the verbatim-macro signature; the delimiter is not whitespace,
         follows the name (and its post-space) directly and does not occur in the text *)
      ws_ok ws && ws_ok post && name_ok name post
      && match get_macro_spec cx name with
         | Some sp => match sp_args sp with APLegacy LVerbMacro => true | _ => false end
         | None => false
         end
      && mac_follow_ok name post (Some dc) && negb (is_space dc) && negb (mem_c dc text)
  | VEnv2 ws bws name oarg text =>
      (* the environment resolves to a verbatim-environment signature for this very name;
         [\end{name}] (written without whitespace) first occurs in what is written from the
         text on exactly at the end of the text; the optional argument of the signature, if
         any, is written as a delimited argument directly after [\begin{name}], or is absent *)
      ws_ok ws && forallb is_space bws && envname_ok name && f_en_envs (ps_f ps)
      && match get_env_spec cx name with
         | Some sp =>
             match sp_args sp with
             | APLegacy (LVerbEnv vn optarg) =>
                 let endc := end_str [] name in
                 str_eqb vn name
                 && match find_sub (text ++ endc ++ fol) endc with
                    | Some k => Nat.eqb k (length text)
                    | None => false
                    end
                 && match oarg with
                    | [] => negb optarg
                    | [Abs2] =>
                        optarg && (otest is_space (hd_error (text ++ endc))
                                   || absent_ok (f_en_envs (ps_f ps)) 91%N (text ++ endc ++ fol))
                    | [Brk2 [] oc cc b tr] =>
                        optarg && N.eqb oc 91 && N.eqb cc 93 && ws_ok tr
                        && oks ps [91; 93]%N b (tr ++ 93%N :: text ++ endc ++ fol)
                    | _ => false
                    end
             | _ => false
             end
         | None => false
         end
  | Brk2 _ _ _ _ _ | Abs2 | Vba2 _ _ _ _ | Pre2 _ _ _ _ => false        (* only as arguments *)
  end.

(** (same shape as the local fixpoints of [ok_item2]) *)
Definition ok_items2 (cx : context) : pstate -> str -> list item2 -> str -> bool :=
  fix oks (bps : pstate) (bex : str) (l : list item2) (fh : str) {struct l} : bool :=
    match l with
    | [] => true
    | j :: r => ok_item2 cx bps bex j (flat_map unparse_item2 r ++ fh) && oks bps bex r fh
    end.

(** a mandatory argument [a] (comments, then a braced group or one token) parsed in state [aps] *)
Definition ok_expr2 (cx : context) : bool -> pstate -> item2 -> str -> bool :=
  fix oke (sp : bool) (aps : pstate) (a : item2) (fa : str) {struct a} : bool :=
    match a with
    | Grp2 ws _ _ => (sp || is_nil ws) && ok_item2 cx aps [] a fa
    | Text2 ws [c] => (sp || is_nil ws) && ws_ok ws && char_ok cx [] c fa
    | Mac2 ws name post [] =>
        ws_ok ws && ws_ok post && name_ok name post
        && match get_macro_spec cx name with Some _ => true | None => false end
        && mac_follow_ok2 name post fa
    | Spc2 ws (c :: cr) [] =>
        ws_ok ws && plain_start c
        && match test_specials (map fst (cx_specials cx)) ((c :: cr) ++ fa) None with
           | Some sc => str_eqb sc (c :: cr)
           | None => false
           end
    | Pre2 ws text post a' =>
        sp && ws_ok ws && negb (mem_c 10 text) && ws_ok post
        && match post with 10%N :: _ => true | _ => false end
        && negb (otest is_space (hd_error (unparse_item2 a' ++ fa)))
        && oke sp aps a' fa
    | _ => false
    end.

(** one argument [a], written for the slot [spc] of a call in state [ps], followed by [fa] *)
Definition ok_arg2 (cx : context) (ps : pstate) (spc : argspec) (a : item2) (fa : str) : bool :=
  let aps := apply_adelta ps (a_delta spc) in
  match a_kind spc, a with
  | AKExpr sp, _ => ok_expr2 cx sp aps a fa
  | AKGroup [oc'] [cc'] _ sp, Brk2 ws oc cc b tr =>
      N.eqb oc oc' && N.eqb cc cc' && delim_ok oc cc && (sp || is_nil ws) && ws_ok ws && ws_ok tr
      && ok_items2 cx aps [oc; cc] b (tr ++ cc :: fa)
  | AKGroup [oc'] [cc'] true _, Abs2 =>
      delim_ok oc' cc' && absent_ok (f_en_envs (ps_f aps)) oc' fa
  | AKChars [ch] sp _, Text2 ws [c] =>
      N.eqb c ch && char_ok cx [] c fa && (sp || is_nil ws) && ws_ok ws
  | AKChars [ch] _ _, Abs2 =>
      plain_start ch && absent_ok (f_en_envs (ps_f aps)) ch fa
  | AKVerb d, Vba2 ws od cd text =>
      ws_ok ws && negb (is_space od) && negb (N.eqb od 92)
      && match vdelims d od with
         | Some (o, c) => N.eqb o od && N.eqb c cd
         | None => false
         end
      && match verb_scan od cd (text ++ cd :: fa) 1 0 with
         | Some k => Nat.eqb k (length text)
         | None => false
         end
  | _, _ => false
  end.

Definition ok_args2 (cx : context) (ps : pstate) : list item2 -> list argspec -> str -> bool :=
  fix oka (al : list item2) (specs : list argspec) (fh : str) {struct al} : bool :=
    match al, specs with
    | [], [] => true
    | a :: r, spc :: specs' => ok_arg2 cx ps spc a (flat_map unparse_item2 r ++ fh) && oka r specs' fh
    | _, _ => false
    end.

(** a document written at top level, in the walker's initial state *)
Definition ok_doc2_in (cx : context) (ps : pstate) (d : doc2) : bool :=
  ok_items2 cx ps [] (d_items2 d) (d_trail2 d) && ws_ok (d_trail2 d).
Definition ok_doc2 (cx : context) (d : doc2) : bool := ok_doc2_in cx (walker_state cx) d.

(** * The meaning of a document (accumulator form, as [DocGrammar.tree_of]) *)

(** the state an environment's body is parsed in *)
Definition env_body_state (ps : pstate) (sp : cspec) : pstate :=
  if sp_body_math sp then ps_enter_math ps None else ps.

Fixpoint node_of2 (cx : context) (ps : pstate) (p0 : nat) (i : item2) {struct i} : option node :=
  let body := fix go (bps : pstate) (p : nat) (st : collstate) (l : list item2) {struct l} : collstate * nat :=
      match l with
      | [] => (st, p)
      | j :: r =>
          go bps (p + ilen2 j)
             (match j with
              | Text2 ws cs => push_pending st (ws ++ cs) p
              | _ => push_node (pre_flush bps st (item_ws2 j) p) (node_of2 cx bps (p + length (item_ws2 j)) j)
              end) r
      end in
  (* the node of a mandatory argument written at [p] (leading whitespace / comments included) *)
  let ene := fix ene (aps : pstate) (p : nat) (a : item2) {struct a} : option node :=
      let q := p + length (item_ws2 a) in
      match a with
      | Text2 _ cs => Some (mk_chars aps q (q + length cs) cs)
      | Mac2 _ name post _ =>
          Some (NMacro q (q + 1 + length name + length post) (ps_mode aps) name post (Some ([], [])))
      | Spc2 _ chars _ => Some (NSpecials q (q + length chars) (ps_mode aps) chars (Some ([], [])))
      | Pre2 _ text post a' => ene aps (q + 1 + length text + length post) a'
      | _ => node_of2 cx aps q a
      end in
  let goa := fix goa (p : nat) (al : list item2) (specs : list argspec) {struct al}
               : list (option node) * nat :=
      match al, specs with
      | a :: r, spc :: specs' =>
          let rr := goa (p + ilen2 a) r specs' in
          let aps := apply_adelta ps (a_delta spc) in
          let q := p + length (item_ws2 a) in
          (match a_kind spc, a with
           | AKChars _ _ full, Text2 _ cs =>
               let cn := mk_chars aps q (q + length cs) cs in
               Some (if full then mk_nodelist None None [Some cn] else cn)
           | AKExpr _, _ => ene aps p a
           | _, _ => node_of2 cx aps q a
           end :: fst rr, snd rr)
      | _, _ => ([], p)
      end in
  match i with
  | Text2 _ _ => None
  | Abs2 => None
  | Pre2 _ _ _ _ => None
  | Vba2 _ od cd text =>
      Some (NGroup p0 (p0 + 1 + length text + 1) (ps_mode ps) [od] [cd]
                   (Some (mk_nodelist None None [Some (mk_chars ps (S p0) (S p0 + length text) text)])))
  | Brk2 _ oc cc b tr =>
      let r := body ps (S p0) cs_empty b in
      Some (NGroup p0 (snd r + length tr + 1) (ps_mode ps) [oc] [cc]
                   (Some (gen_nodelist (S p0) (cs_acc (close_state ps (fst r) tr (snd r))))))
  | Cmt2 _ text post =>
      Some (NComment p0 (p0 + 1 + length text + length post) (ps_mode ps) text post)
  | Par2 _ mid =>
      if par_spec_ok cx
      then Some (NSpecials p0 (p0 + 1 + length mid + 1) (ps_mode ps) [10;10]%N (Some ([], [])))
      else None
  | Grp2 _ b tr =>
      let r := body ps (S p0) cs_empty b in
      Some (NGroup p0 (snd r + length tr + 1) (ps_mode ps) [123%N] [125%N]
                   (Some (gen_nodelist (S p0) (cs_acc (close_state ps (fst r) tr (snd r))))))
  | Math2 _ k b tr =>
      let mps := ps_enter_math ps (Some (m_open k)) in
      let start := p0 + length (m_open k) in
      let r := body mps start cs_empty b in
      Some (NMath p0 (snd r + length tr + length (m_close k)) (ps_mode ps) (m_display k) (m_open k) (m_close k)
                  (Some (gen_nodelist start (cs_acc (close_state mps (fst r) tr (snd r))))))
  | Mac2 _ name post args =>
      match get_macro_spec cx name with
      | Some sp =>
          match sp_args sp with
          | APStd l =>
              let ar := goa (p0 + 1 + length name + length post) args l in
              Some (NMacro p0 (snd ar) (ps_mode ps) name post (Some (map a_spec l, fst ar)))
          | APLegacy _ => None
          end
      | None => None
      end
  | Env2 _ bws name args b tr ews =>
      match get_env_spec cx name with
      | Some sp =>
          match sp_args sp with
          | APStd l =>
              let ar := goa (p0 + length (begin_str bws name)) args l in
              let bps := if sp_body_math sp then ps_enter_math ps None else ps in
              let r := body bps (snd ar) cs_empty b in
              Some (NEnv p0 (snd r + length tr + length (end_str ews name)) (ps_mode ps) name
                         (Some (map a_spec l, fst ar))
                         (Some (gen_nodelist (snd ar) (cs_acc (close_state bps (fst r) tr (snd r))))))
          | APLegacy _ => None
          end
      | None => None
      end
  | Spc2 _ chars args =>
      match get_specials_spec cx chars with
      | Some sp =>
          match sp_args sp with
          | APStd l =>
              let ar := goa (p0 + length chars) args l in
              Some (NSpecials p0 (snd ar) (ps_mode ps) chars (Some (map a_spec l, fst ar)))
          | APLegacy _ => None
          end
      | None => None
      end
  | Vrb2 _ name post dc text =>
      let b := p0 + 1 + length name + length post + 1 in
      Some (NMacro p0 (b + length text + 1) (ps_mode ps) name post
                   (Some ([[123%N]], [Some (mk_chars ps b (b + length text) text)])))
  | VEnv2 _ bws name oarg text =>
      match get_env_spec cx name with
      | Some sp =>
          match sp_args sp with
          | APLegacy (LVerbEnv vn optarg) =>
              let pa := p0 + length (begin_str bws name) in
              let on := match oarg with
                        | [a] => ([node_of2 cx ps pa a], pa + ilen2 a)
                        | _ => ([], pa)
                        end in
              let e := snd on + length text in
              let bps := if sp_body_math sp then ps_enter_math ps None else ps in
              Some (NEnv p0 (e + length (end_str [] name)) (ps_mode ps) name
                         (Some ((if optarg then [[91%N]] else []) ++ [[123%N]],
                                fst on ++ [Some (mk_chars ps (snd on) e text)]))
                         (Some (gen_nodelist e (cs_acc (close_state bps cs_empty [] e)))))
          | _ => None
          end
      | None => None
      end
  end.

Definition absorb_item2 (cx : context) (ps : pstate) (p : nat) (st : collstate) (j : item2) : collstate :=
  match j with
  | Text2 ws cs => push_pending st (ws ++ cs) p
  | _ => push_node (pre_flush ps st (item_ws2 j) p) (node_of2 cx ps (p + length (item_ws2 j)) j)
  end.

(** (the fixpoints below have exactly the shape of the local ones of [node_of2]) *)
Definition absorb2 (cx : context) : pstate -> nat -> collstate -> list item2 -> collstate * nat :=
  fix go (bps : pstate) (p : nat) (st : collstate) (l : list item2) {struct l} : collstate * nat :=
    match l with
    | [] => (st, p)
    | j :: r => go bps (p + ilen2 j) (absorb_item2 cx bps p st j) r
    end.

(** the node of a mandatory argument written at [p] (leading whitespace / comments included) *)
Definition expr_node2 (cx : context) : pstate -> nat -> item2 -> option node :=
  fix ene (aps : pstate) (p : nat) (a : item2) {struct a} : option node :=
    let q := p + length (item_ws2 a) in
    match a with
    | Text2 _ cs => Some (mk_chars aps q (q + length cs) cs)
    | Mac2 _ name post _ =>
        Some (NMacro q (q + 1 + length name + length post) (ps_mode aps) name post (Some ([], [])))
    | Spc2 _ chars _ => Some (NSpecials q (q + length chars) (ps_mode aps) chars (Some ([], [])))
    | Pre2 _ text post a' => ene aps (q + 1 + length text + length post) a'
    | _ => node_of2 cx aps q a
    end.

(** the node of the argument [a] written at [p] (leading whitespace included) for the slot [spc] *)
Definition arg_node2 (cx : context) (ps : pstate) (spc : argspec) (p : nat) (a : item2) : option node :=
  let aps := apply_adelta ps (a_delta spc) in
  let q := p + length (item_ws2 a) in
  match a_kind spc, a with
  | AKChars _ _ full, Text2 _ cs =>
      let cn := mk_chars aps q (q + length cs) cs in
      Some (if full then mk_nodelist None None [Some cn] else cn)
  | AKExpr _, _ => expr_node2 cx aps p a
  | _, _ => node_of2 cx aps q a
  end.

Definition arg_nodes2 (cx : context) (ps : pstate) : nat -> list item2 -> list argspec -> list (option node) * nat :=
  fix goa (p : nat) (al : list item2) (specs : list argspec) {struct al} : list (option node) * nat :=
    match al, specs with
    | a :: r, spc :: specs' =>
        let rr := goa (p + ilen2 a) r specs' in
        (arg_node2 cx ps spc p a :: fst rr, snd rr)
    | _, _ => ([], p)
    end.

(** [tree_of2 cx ps pos d]: the items of the node list that the document [d],
    written at offset [pos] and parsed in state [ps], means; and the offset
    where it ends *)
Definition tree_of2 (cx : context) (ps : pstate) (pos : nat) (d : doc2) : list (option node) * nat :=
  let r := absorb2 cx ps pos cs_empty (d_items2 d) in
  (cs_acc (eos_state ps (fst r) (d_trail2 d) (snd r)), snd r + length (d_trail2 d)).

(** what [parse_content(LatexGeneralNodesParser())] returns for it *)
Definition doc_result2 (cx : context) (d : doc2) : res out :=
  Ok (ONode (Some (gen_nodelist 0 (fst (tree_of2 cx (walker_state cx) 0 d))))) (length (unparse2 d)).

(** * Whitespace variants: every whitespace field that the tree sees is
    replaced by a whitespace run that is empty exactly when the original is; the
    whitespace inside [\begin {name}] / [\end {name}] (which no node records) is
    unconstrained *)
Fixpoint wsv2 (i i' : item2) {struct i} : Prop :=
  let all2 := fix all2 (l l' : list item2) {struct l} : Prop :=
      match l, l' with
      | [], [] => True
      | x :: r, x' :: r' => wsv2 x x' /\ all2 r r'
      | _, _ => False
      end in
  match i, i' with
  | Text2 ws cs, Text2 ws' cs' => wse ws ws' /\ cs = cs'
  | Grp2 ws b tr, Grp2 ws' b' tr' => wse ws ws' /\ wse tr tr' /\ all2 b b'
  | Mac2 ws nm post a, Mac2 ws' nm' post' a' => wse ws ws' /\ nm = nm' /\ wse post post' /\ all2 a a'
  | Math2 ws k b tr, Math2 ws' k' b' tr' => wse ws ws' /\ k = k' /\ wse tr tr' /\ all2 b b'
  | Cmt2 ws text post, Cmt2 ws' text' post' => wse ws ws' /\ text = text' /\ wse post post'
  | Par2 ws mid, Par2 ws' mid' => wse ws ws'
  | Env2 ws _ nm a b tr _, Env2 ws' _ nm' a' b' tr' _ =>
      wse ws ws' /\ nm = nm' /\ wse tr tr' /\ all2 a a' /\ all2 b b'
  | Spc2 ws ch a, Spc2 ws' ch' a' => wse ws ws' /\ ch = ch' /\ all2 a a'
  | Vrb2 ws nm post dc tx, Vrb2 ws' nm' post' dc' tx' =>
      wse ws ws' /\ nm = nm' /\ wse post post' /\ dc = dc' /\ tx = tx'
  | VEnv2 ws _ nm oa tx, VEnv2 ws' _ nm' oa' tx' => wse ws ws' /\ nm = nm' /\ tx = tx' /\ all2 oa oa'
  | Brk2 ws oc cc b tr, Brk2 ws' oc' cc' b' tr' => wse ws ws' /\ oc = oc' /\ cc = cc' /\ wse tr tr' /\ all2 b b'
  | Abs2, Abs2 => True
  | Vba2 ws od cd tx, Vba2 ws' od' cd' tx' => wse ws ws' /\ od = od' /\ cd = cd' /\ tx = tx'
  | Pre2 ws tx post a, Pre2 ws' tx' post' a' => wse ws ws' /\ tx = tx' /\ wse post post' /\ wsv2 a a'
  | _, _ => False
  end.
Definition wsv_items2 : list item2 -> list item2 -> Prop :=
  fix all2 (l l' : list item2) {struct l} : Prop :=
    match l, l' with
    | [], [] => True
    | x :: r, x' :: r' => wsv2 x x' /\ all2 r r'
    | _, _ => False
    end.
Definition ws_variant2 (d d' : doc2) : Prop :=
  wsv_items2 (d_items2 d) (d_items2 d') /\ wse (d_trail2 d) (d_trail2 d').

(** * The core grammar is a sub-grammar *)
Fixpoint up_item (i : item) : item2 :=
  match i with
  | Text ws cs => Text2 ws cs
  | Grp ws b tr => Grp2 ws (map up_item b) tr
  | Mac ws name post args => Mac2 ws name post (map up_item args)
  | Math ws k b tr => Math2 ws k (map up_item b) tr
  | Cmt ws text post => Cmt2 ws text post
  | Par ws mid => Par2 ws mid
  end.
Definition up_doc (d : doc) : doc2 := {| d_items2 := map up_item (d_items d); d_trail2 := d_trail d |}.
