(** C02 — the CORE document grammar: abstract documents, their printer
    [unparse], the side conditions [ok_doc] that make a written document
    unambiguous, and [tree_of], the node list the document MEANS (kinds, names,
    delimiters, argument slots, exact positions, whitespace attributed as the
    nodes collector does it).  Definitions only; the round-trip theorem is in
    [Proofs/RoundTrip*.v], its statement in [Properties/C02.v].

    Grammar (stages (a)-(c) of the plan):
      - text runs of inert characters,
      - whitespace (any run of [str.isspace] characters with at most one
        newline, i.e. never a paragraph break) before every item and before
        every closing delimiter / the end of input,
      - braced groups (nested, unbounded depth),
      - macro calls of macros known to the context (or covered by its
        unknown-macro fallback) whose signature is [APStd] made only of
        mandatory [{]-arguments ([AKExpr]), each written as a braced group
        directly after the previous one; control words with their post-space;
        control symbols; any [a_delta] (argument parsed in / out of math mode),
      - inline math [$ … $], [\( … \)] and display math [\[ … \]] wherever the
        parsing state is not in math mode (so: no math nested in math, except
        inside an argument that leaves math mode),
      - comments [% text newline whitespace] and paragraph breaks (a whitespace
        run with two or more newlines that ends with its last newline, where the
        context has the [\n\n] specials) (stage (d)).

    Whitespace is a FIELD of the item it precedes ([ws]: the token's
    [pre_space]) and of each body ([tr]: the whitespace before the closing
    delimiter / end of input), which is exactly how the tokenizer sees it. *)
From Coq Require Import NArith List Bool Arith.
From PLV Require Import Base.PyStr Tok.PState Tok.Tokenizer Parse.Nodes Parse.Parser Parse.ParseWire.
Import ListNotations.

(** * Abstract documents *)
Inductive mathkind := MDollar | MParen | MBracket | MDollars.

Definition m_open (k : mathkind) : str :=
  match k with MDollar => [36%N] | MParen => [92;40]%N | MBracket => [92;91]%N | MDollars => [36;36]%N end.
Definition m_close (k : mathkind) : str :=
  match k with MDollar => [36%N] | MParen => [92;41]%N | MBracket => [92;93]%N | MDollars => [36;36]%N end.
Definition m_display (k : mathkind) : bool :=
  match k with MBracket | MDollars => true | _ => false end.

Inductive item :=
| Text (ws cs : str)                                  (* whitespace, then a run of inert characters *)
| Grp (ws : str) (body : list item) (tr : str)        (* ws { body tr } *)
| Mac (ws name post : str) (args : list item)         (* ws \name post {arg}...{arg} *)
| Math (ws : str) (k : mathkind) (body : list item) (tr : str)    (* ws $ body tr $ *)
| Cmt (ws text post : str)                             (* ws % text post   (post = newline, then whitespace) *)
| Par (ws mid : str).                                  (* ws newline mid newline   (paragraph break) *)

Record doc := { d_items : list item; d_trail : str }.

(** * The printer *)
Fixpoint unparse_item (i : item) : str :=
  match i with
  | Text ws cs => ws ++ cs
  | Grp ws b tr => ws ++ 123%N :: flat_map unparse_item b ++ tr ++ [125%N]
  | Mac ws name post args => ws ++ 92%N :: name ++ post ++ flat_map unparse_item args
  | Math ws k b tr => ws ++ m_open k ++ flat_map unparse_item b ++ tr ++ m_close k
  | Cmt ws text post => ws ++ 37%N :: text ++ post
  | Par ws mid => ws ++ 10%N :: mid ++ [10%N]
  end.
Definition unparse_items (l : list item) : str := flat_map unparse_item l.
Definition unparse (d : doc) : str := unparse_items (d_items d) ++ d_trail d.

Definition ilen (i : item) : nat := length (unparse_item i).
Definition item_ws (i : item) : str :=
  match i with Text ws _ | Grp ws _ _ | Mac ws _ _ _ | Math ws _ _ _ | Cmt ws _ _ | Par ws _ => ws end.

(** * Side conditions *)

(** a whitespace run that is not a paragraph break *)
Definition ws_ok (w : str) : bool := forallb is_space w && Nat.ltb (count_c 10 w) 2.

(** a character the tokenizer turns into a one-character 'char' token in
    every parsing state of the grammar: not whitespace, not the escape, math,
    comment or brace characters, not the first character of a specials
    sequence of the context *)
Definition inert (cx : context) (c : N) : bool :=
  negb (is_space c) && negb (mem_c c [92;36;37;123;125]%N)
  && forallb (fun sc : str => match sc with [] => true | c0 :: _ => negb (N.eqb c0 c) end)
             (map fst (cx_specials cx)).

Definition is_alpha (c : N) : bool := mem_c c default_alpha.

(** a control word (letters; not [begin] / [end]) or a control symbol (one
    non-letter that does not make a math delimiter with the backslash, written
    without post-space: whitespace after it belongs to the next token) *)
Definition name_ok (name post : str) : bool :=
  match name with
  | [] => false
  | c :: nm =>
      if is_alpha c then forallb is_alpha nm && negb (str_eqb name kw_begin) && negb (str_eqb name kw_end)
      else match nm, post with
           | [], [] => negb (mem_c c [40;41;91;93]%N)
           | _, _ => false
           end
  end.

Definition ostr (o : option N) : str := match o with Some c => [c] | None => [] end.
Definition otest (f : N -> bool) (o : option N) : bool := match o with Some c => f c | None => false end.

(** what may follow a macro name + post-space: a control word is not followed
    by whitespace that is not its post-space, nor (without post-space) by a letter *)
Definition mac_follow_ok (name post : str) (after : option N) : bool :=
  match name with
  | c :: _ =>
      if is_alpha c then
        negb (otest is_space after) && match post with [] => negb (otest is_alpha after) | _ => true end
      else true
  | [] => false
  end.

(** the context declares the paragraph-break specials [\n\n], without arguments *)
Definition par_spec_ok (cx : context) : bool :=
  match get_specials_spec cx [10;10]%N with
  | Some sp => match sp_args sp with APStd [] => true | _ => false end
  | None => false
  end.

(** [ok_item cx ps i nxt]: [i] is unambiguous when written in parsing state
    [ps] and followed by the character [nxt] ([None]: end of input) *)
Fixpoint ok_item (cx : context) (ps : pstate) (i : item) (nxt : option N) {struct i} : bool :=
  let oks := fix oks (bps : pstate) (l : list item) (fh : option N) {struct l} : bool :=
      match l with
      | [] => true
      | j :: r => ok_item cx bps j (hd_error (flat_map unparse_item r ++ ostr fh)) && oks bps r fh
      end in
  match i with
  | Text ws cs =>
      ws_ok ws && match cs with [] => false | _ => true end && forallb (inert cx) cs
  | Grp ws b tr =>
      ws_ok ws && ws_ok tr && oks ps b (hd_error (tr ++ [125%N]))
  | Math ws k b tr =>
      negb (f_in_math (ps_f ps)) && ws_ok ws && ws_ok tr
      && oks (ps_enter_math ps (Some (m_open k))) b (hd_error (tr ++ m_close k))
      && match k with
         | MDollar => match flat_map unparse_item b ++ tr with
                      | [] => false            (* [$$] is the display delimiter *)
                      | c :: _ => negb (N.eqb c 36)
                      end
         | _ => true
         end
  | Cmt ws text post =>
      (* the comment text has no newline; the post-space is the newline and the
         whitespace after it (whitespace after a comment belongs to the comment) *)
      ws_ok ws && negb (mem_c 10 text) && ws_ok post
      && match post with 10%N :: _ => true | _ => false end
      && negb (otest is_space nxt)
  | Par ws mid =>
      (* a whitespace run [ws newline mid newline] that ends with its last newline
         (the next line is not indented), in a context with the [\n\n] specials *)
      forallb is_space ws && negb (mem_c 10 ws) && forallb is_space mid
      && negb (otest is_space nxt) && par_spec_ok cx
  | Mac ws name post args =>
      ws_ok ws && ws_ok post && name_ok name post
      && match get_macro_spec cx name with
         | Some sp =>
             match sp_args sp with
             | APStd l =>
                 (fix oka (al : list item) (specs : list argspec) {struct al} : bool :=
                    match al, specs with
                    | [], [] => true
                    | a :: r, spc :: specs' =>
                        match a_kind spc with AKExpr _ => true | _ => false end
                        && match a with
                           | Grp [] _ _ => ok_item cx (apply_adelta ps (a_delta spc)) a None
                           | _ => false
                           end
                        && oka r specs'
                    | _, _ => false
                    end) args l
                 && mac_follow_ok name post (hd_error (flat_map unparse_item args ++ ostr nxt))
             | APLegacy _ => false
             end
         | None => false
         end
  end.

(** (same shape as the local fixpoints of [ok_item]) *)
Definition ok_items (cx : context) : pstate -> list item -> option N -> bool :=
  fix oks (bps : pstate) (l : list item) (fh : option N) {struct l} : bool :=
    match l with
    | [] => true
    | j :: r => ok_item cx bps j (hd_error (flat_map unparse_item r ++ ostr fh)) && oks bps r fh
    end.

Definition ok_args (cx : context) (ps : pstate) : list item -> list argspec -> bool :=
  fix oka (al : list item) (specs : list argspec) {struct al} : bool :=
    match al, specs with
    | [], [] => true
    | a :: r, spc :: specs' =>
        match a_kind spc with AKExpr _ => true | _ => false end
        && match a with
           | Grp [] _ _ => ok_item cx (apply_adelta ps (a_delta spc)) a None
           | _ => false
           end
        && oka r specs'
    | _, _ => false
    end.

(** a document written at top level, in the walker's initial state *)
Definition ok_doc_in (cx : context) (ps : pstate) (d : doc) : bool :=
  ok_items cx ps (d_items d) (hd_error (d_trail d)) && ws_ok (d_trail d).
Definition ok_doc (cx : context) (d : doc) : bool := ok_doc_in cx (walker_state cx) d.

(** * The meaning of a document

    In accumulator form: the nodes collector's state ([cs_acc] finished nodes,
    [cs_pend] pending characters, [cs_ppos] where they start) after the items
    so far.  The model's own [push_pending] / [flush] / [push_node] are used. *)

(** whitespace [ws] at [p] in front of a non-character token *)
Definition pre_flush (ps : pstate) (st : collstate) (ws : str) (p : nat) : collstate :=
  match cs_pend st with
  | _ :: _ => flush ps {| cs_acc := cs_acc st; cs_pend := cs_pend st ++ ws; cs_ppos := cs_ppos st |}
  | [] => match ws with
          | _ :: _ => push_node st (Some (mk_chars ps p (p + length ws) ws))
          | [] => st
          end
  end.

(** the node list a general-nodes parser started at [pos] returns *)
Definition gen_nodelist (pos : nat) (acc : list (option node)) : node :=
  match mk_nodelist None None acc with
  | NList a b items => NList (match a with Some _ => a | None => Some pos end)
                             (match b with Some _ => b | None => Some pos end) items
  | x => x
  end.

(** the collector meets the closing delimiter / end of input after trailing whitespace [tr] at [p] *)
Definition close_state (ps : pstate) (st : collstate) (tr : str) (p : nat) : collstate :=
  flush ps (push_pending st tr p).

(** [node_of cx ps p0 i]: the node of the non-text item [i] whose first token
    starts at [p0] (after the item's leading whitespace) *)
Fixpoint node_of (cx : context) (ps : pstate) (p0 : nat) (i : item) {struct i} : option node :=
  let body := fix go (bps : pstate) (p : nat) (st : collstate) (l : list item) {struct l} : collstate * nat :=
      match l with
      | [] => (st, p)
      | j :: r =>
          go bps (p + ilen j)
             (match j with
              | Text ws cs => push_pending st (ws ++ cs) p
              | _ => push_node (pre_flush bps st (item_ws j) p) (node_of cx bps (p + length (item_ws j)) j)
              end) r
      end in
  match i with
  | Text _ _ => None
  | Cmt _ text post =>
      Some (NComment p0 (p0 + 1 + length text + length post) (ps_mode ps) text post)
  | Par _ mid =>
      if par_spec_ok cx
      then Some (NSpecials p0 (p0 + 1 + length mid + 1) (ps_mode ps) [10;10]%N (Some ([], [])))
      else None
  | Grp _ b tr =>
      let r := body ps (S p0) cs_empty b in
      Some (NGroup p0 (snd r + length tr + 1) (ps_mode ps) [123%N] [125%N]
                   (Some (gen_nodelist (S p0) (cs_acc (close_state ps (fst r) tr (snd r))))))
  | Math _ k b tr =>
      let mps := ps_enter_math ps (Some (m_open k)) in
      let start := p0 + length (m_open k) in
      let r := body mps start cs_empty b in
      Some (NMath p0 (snd r + length tr + length (m_close k)) (ps_mode ps) (m_display k) (m_open k) (m_close k)
                  (Some (gen_nodelist start (cs_acc (close_state mps (fst r) tr (snd r))))))
  | Mac _ name post args =>
      match get_macro_spec cx name with
      | Some sp =>
          match sp_args sp with
          | APStd l =>
              let ar := (fix goa (p : nat) (al : list item) (specs : list argspec) {struct al}
                           : list (option node) * nat :=
                           match al, specs with
                           | a :: r, spc :: specs' =>
                               let rr := goa (p + ilen a) r specs' in
                               (node_of cx (apply_adelta ps (a_delta spc)) p a :: fst rr, snd rr)
                           | _, _ => ([], p)
                           end) (p0 + 1 + length name + length post) args l in
              Some (NMacro p0 (snd ar) (ps_mode ps) name post (Some (map a_spec l, fst ar)))
          | APLegacy _ => None
          end
      | None => None
      end
  end.

Definition absorb_item (cx : context) (ps : pstate) (p : nat) (st : collstate) (j : item) : collstate :=
  match j with
  | Text ws cs => push_pending st (ws ++ cs) p
  | _ => push_node (pre_flush ps st (item_ws j) p) (node_of cx ps (p + length (item_ws j)) j)
  end.

(** (the fixpoints below have exactly the shape of the local ones of [node_of]) *)
Definition absorb (cx : context) : pstate -> nat -> collstate -> list item -> collstate * nat :=
  fix go (bps : pstate) (p : nat) (st : collstate) (l : list item) {struct l} : collstate * nat :=
    match l with
    | [] => (st, p)
    | j :: r => go bps (p + ilen j) (absorb_item cx bps p st j) r
    end.

Definition arg_nodes (cx : context) (ps : pstate) : nat -> list item -> list argspec -> list (option node) * nat :=
  fix goa (p : nat) (al : list item) (specs : list argspec) {struct al} : list (option node) * nat :=
    match al, specs with
    | a :: r, spc :: specs' =>
        let rr := goa (p + ilen a) r specs' in
        (node_of cx (apply_adelta ps (a_delta spc)) p a :: fst rr, snd rr)
    | _, _ => ([], p)
    end.

(** the collector meets the end of input after trailing whitespace [tr] at [p]
    (a non-empty final whitespace run arrives as a zero-width character token) *)
Definition eos_state (ps : pstate) (st : collstate) (tr : str) (p : nat) : collstate :=
  match tr with
  | [] => flush ps st
  | _ => flush ps (push_pending st tr p)
  end.

(** [tree_of cx ps pos d]: the items of the node list that the document [d],
    written at offset [pos] and parsed in state [ps], means; and the offset
    where it ends *)
Definition tree_of (cx : context) (ps : pstate) (pos : nat) (d : doc) : list (option node) * nat :=
  let r := absorb cx ps pos cs_empty (d_items d) in
  (cs_acc (eos_state ps (fst r) (d_trail d) (snd r)), snd r + length (d_trail d)).

(** what [parse_content(LatexGeneralNodesParser())] returns for it *)
Definition doc_result (cx : context) (d : doc) : res out :=
  Ok (ONode (Some (gen_nodelist 0 (fst (tree_of cx (walker_state cx) 0 d))))) (length (unparse d)).

(** * Structure: a tree with positions and whitespace erased
    (the projection of [harness/docast.py: struct]): positions zeroed,
    characters normalised to their words joined by single spaces, macro /
    comment post-space dropped, whitespace-only character nodes dropped from
    node lists. *)
Definition wstep (a : list str * str) (c : N) : list str * str :=
  if is_space c then (match snd a with [] => fst a | cur => fst a ++ [rev cur] end, [])
  else (fst a, c :: snd a).
Definition wstate (p : str) : list str * str := fold_left wstep p ([], []).
Definition wfinish (a : list str * str) : list str :=
  match snd a with [] => fst a | cur => fst a ++ [rev cur] end.
Definition words (p : str) : list str := wfinish (wstate p).         (* [p.split()] *)
Definition norm (p : str) : str := join [32%N] (words p).            (* [' '.join(p.split())] *)

Definition is_blank_node (x : node) : bool :=
  match x with NChars _ _ _ c => match words c with [] => true | _ => false end | _ => false end.

Fixpoint structure (n : node) {struct n} : node :=
  let sl := fix sl (l : list (option node)) : list (option node) :=
      match l with
      | [] => []
      | None :: r => None :: sl r
      | Some x :: r => if is_blank_node x then sl r else Some (structure x) :: sl r
      end in
  let sa := fix sa (l : list (option node)) : list (option node) :=
      match l with [] => [] | None :: r => None :: sa r | Some x :: r => Some (structure x) :: sa r end in
  let sargs := fun (a : option pargs) => match a with None => None | Some (sp, l) => Some (sp, sa l) end in
  let sb := fun (b : option node) => match b with None => None | Some x => Some (structure x) end in
  match n with
  | NChars _ _ m c => NChars 0 0 m (norm c)
  | NComment _ _ m c _ => NComment 0 0 m c []
  | NGroup _ _ m dl dr b => NGroup 0 0 m dl dr (sb b)
  | NMacro _ _ m nm _ a => NMacro 0 0 m nm [] (sargs a)
  | NEnv _ _ m nm a b => NEnv 0 0 m nm (sargs a) (sb b)
  | NSpecials _ _ m c a => NSpecials 0 0 m c (sargs a)
  | NMath _ _ m d dl dr b => NMath 0 0 m d dl dr (sb b)
  | NList _ _ l => NList None None (sl l)
  end.

Definition structure_items : list (option node) -> list (option node) :=
  fix sl (l : list (option node)) : list (option node) :=
    match l with
    | [] => []
    | None :: r => None :: sl r
    | Some x :: r => if is_blank_node x then sl r else Some (structure x) :: sl r
    end.
Definition structure_args : list (option node) -> list (option node) :=
  fix sa (l : list (option node)) : list (option node) :=
    match l with [] => [] | None :: r => None :: sa r | Some x :: r => Some (structure x) :: sa r end.
Definition structure_res (x : res out) : option node :=
  match x with Ok (ONode (Some n)) _ => Some (structure n) | _ => None end.

(** * Whitespace variants: the same document with other amounts of
    whitespace — every whitespace field is replaced by a whitespace run that is
    empty exactly when the original is *)
Definition wse (w w' : str) : Prop :=
  forallb is_space w = true /\ forallb is_space w' = true /\ (w = [] <-> w' = []).

Fixpoint wsv (i i' : item) {struct i} : Prop :=
  let all2 := fix all2 (l l' : list item) {struct l} : Prop :=
      match l, l' with
      | [], [] => True
      | x :: r, x' :: r' => wsv x x' /\ all2 r r'
      | _, _ => False
      end in
  match i, i' with
  | Text ws cs, Text ws' cs' => wse ws ws' /\ cs = cs'
  | Grp ws b tr, Grp ws' b' tr' => wse ws ws' /\ wse tr tr' /\ all2 b b'
  | Mac ws nm post a, Mac ws' nm' post' a' => wse ws ws' /\ nm = nm' /\ wse post post' /\ all2 a a'
  | Math ws k b tr, Math ws' k' b' tr' => wse ws ws' /\ k = k' /\ wse tr tr' /\ all2 b b'
  | Cmt ws text post, Cmt ws' text' post' => wse ws ws' /\ text = text' /\ wse post post'
  | Par ws mid, Par ws' mid' => wse ws ws'
  | _, _ => False
  end.
Definition wsv_items : list item -> list item -> Prop :=
  fix all2 (l l' : list item) {struct l} : Prop :=
    match l, l' with
    | [], [] => True
    | x :: r, x' :: r' => wsv x x' /\ all2 r r'
    | _, _ => False
    end.
Definition ws_variant (d d' : doc) : Prop :=
  wsv_items (d_items d) (d_items d') /\ wse (d_trail d) (d_trail d').
