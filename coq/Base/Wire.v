(** Wire format between the harness and the model.

    Every executable entry point of the model has type [list Z -> list Z]:
    the case comes in as a flat list of integers (decoded here, inside Coq)
    and the canonical dump goes out as the code points of a text line
    (rendered here, inside Coq).  The same function therefore runs unchanged
    under [vm_compute] and in the extracted binary, and the OCaml driver
    contains no property-specific code. *)
From Coq Require Import NArith ZArith List Bool Arith Decimal.
From PLV Require Import Base.PyStr.
Import ListNotations.

(** * Rendering *)

Fixpoint uint_digits (u : Decimal.uint) : str :=
  match u with
  | Nil => []
  | D0 u => 48%N :: uint_digits u | D1 u => 49%N :: uint_digits u
  | D2 u => 50%N :: uint_digits u | D3 u => 51%N :: uint_digits u
  | D4 u => 52%N :: uint_digits u | D5 u => 53%N :: uint_digits u
  | D6 u => 54%N :: uint_digits u | D7 u => 55%N :: uint_digits u
  | D8 u => 56%N :: uint_digits u | D9 u => 57%N :: uint_digits u
  end.

Definition show_N (n : N) : str :=
  match n with N0 => [48%N] | _ => uint_digits (N.to_uint n) end.
Definition show_nat (n : nat) : str := show_N (N.of_nat n).
Definition show_Z (z : Z) : str :=
  match z with
  | Z0 => [48%N]
  | Zpos p => show_N (Npos p)
  | Zneg p => 45%N :: show_N (Npos p)
  end.

(** ASCII literal helper: ["abc"%string] would need [String]; the model files
    write short tags as explicit code-point lists through this notation-free
    function instead. *)
Definition ch (n : N) : str := [n].

Definition show_bool (b : bool) : str := if b then [84%N] else [70%N].     (* T / F *)

Definition show_opt {A} (f : A -> str) (o : option A) : str :=
  match o with None => [45%N] | Some a => f a end.                         (* "-" for None *)

(** a string is dumped as its code points in decimal separated by '.', inside
    double quotes — unambiguous for every content *)
Fixpoint show_cps (s : str) : str :=
  match s with
  | [] => []
  | [c] => show_N c
  | c :: r => show_N c ++ 46%N :: show_cps r
  end.
Definition show_str (s : str) : str := 34%N :: show_cps s ++ [34%N].

Fixpoint show_list_aux {A} (f : A -> str) (l : list A) : str :=
  match l with
  | [] => []
  | [a] => f a
  | a :: r => f a ++ 44%N :: show_list_aux f r
  end.
Definition show_list {A} (f : A -> str) (l : list A) : str :=
  91%N :: show_list_aux f l ++ [93%N].

Definition paren (s : str) : str := 40%N :: s ++ [41%N].
Definition sp (a b : str) : str := a ++ 32%N :: b.

Definition to_wire (s : str) : list Z := map Z.of_N s.

(** * Decoding *)

Definition rd (A : Type) := list Z -> option (A * list Z).

Definition rd_Z : rd Z := fun l => match l with z :: r => Some (z, r) | [] => None end.
Definition rd_N : rd N := fun l => match l with z :: r => Some (Z.to_N z, r) | [] => None end.
Definition rd_nat : rd nat := fun l => match l with z :: r => Some (Z.to_nat z, r) | [] => None end.
Definition rd_bool : rd bool :=
  fun l => match l with z :: r => Some (negb (Z.eqb z 0), r) | [] => None end.

Fixpoint rd_n {A} (f : rd A) (n : nat) : rd (list A) :=
  fun l => match n with
           | O => Some ([], l)
           | S k => match f l with
                    | Some (a, r) => match rd_n f k r with
                                     | Some (x, r') => Some (a :: x, r')
                                     | None => None end
                    | None => None end
           end.

(** length-prefixed list *)
Definition rd_list {A} (f : rd A) : rd (list A) :=
  fun l => match l with z :: r => rd_n f (Z.to_nat z) r | [] => None end.

Definition rd_str : rd str := rd_list rd_N.

(** option: 0 = None, 1 x = Some x *)
Definition rd_opt {A} (f : rd A) : rd (option A) :=
  fun l => match l with
           | z :: r => if Z.eqb z 0 then Some (None, r)
                       else match f r with Some (a, r') => Some (Some a, r') | None => None end
           | [] => None end.

Definition bad_input : list Z := to_wire [66; 65; 68; 73; 78]%N.            (* "BADIN" *)
