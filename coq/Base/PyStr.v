(** Strings as lists of Unicode code points, and the Python [str] operations
    the modelled code uses.  Executable definitions only; lemmas live in
    [Proofs/PyStrFacts.v]. *)
From Coq Require Import NArith ZArith List Bool Arith.
Import ListNotations.

Definition str := list N.

Definition str_eqb (a b : str) : bool :=
  (fix go (a b : str) : bool :=
     match a, b with
     | [], [] => true
     | x :: a', y :: b' => N.eqb x y && go a' b'
     | _, _ => false
     end) a b.

(** [s[a:b]] for non-negative [a], [b] (Python clamps at [len s]). *)
Definition slice (s : str) (a b : nat) : str := firstn (b - a) (skipn a s).

(** [s.startswith(p)] *)
Fixpoint startswith (s p : str) : bool :=
  match p with
  | [] => true
  | c :: p' => match s with
               | d :: s' => N.eqb c d && startswith s' p'
               | [] => false
               end
  end.

(** [s.startswith(p, pos)] *)
Definition startswith_at (s p : str) (pos : nat) : bool := startswith (skipn pos s) p.

(** [s.find(p)]: [None] for -1.  Structural on [s]. *)
Fixpoint find_sub (s p : str) : option nat :=
  if startswith s p then Some 0 else
  match s with
  | [] => None
  | _ :: s' => match find_sub s' p with Some k => Some (S k) | None => None end
  end.

(** [s.find(p, pos)] (absolute index) *)
Definition find_from (s p : str) (pos : nat) : option nat :=
  if Nat.ltb (length s) pos then None else
  match find_sub (skipn pos s) p with Some k => Some (pos + k) | None => None end.

Fixpoint span (f : N -> bool) (s : str) : str * str :=
  match s with
  | c :: r => if f c then let (a, b) := span f r in (c :: a, b) else ([], s)
  | [] => ([], [])
  end.

Fixpoint count_c (c : N) (s : str) : nat :=
  match s with [] => 0 | d :: r => (if N.eqb c d then 1 else 0) + count_c c r end.

Definition mem_c (c : N) (s : str) : bool := existsb (N.eqb c) s.

Definition is_ascii_alpha (c : N) : bool :=
  ((65 <=? c) && (c <=? 90))%N || ((97 <=? c) && (c <=? 122))%N.
Definition is_ascii_digit (c : N) : bool := ((48 <=? c) && (c <=? 57))%N.

Fixpoint strip_left (f : N -> bool) (s : str) : str :=
  match s with c :: r => if f c then strip_left f r else s | [] => [] end.
Definition strip_right (f : N -> bool) (s : str) : str := rev (strip_left f (rev s)).
Definition strip (f : N -> bool) (s : str) : str := strip_right f (strip_left f s).

Fixpoint join (sep : str) (l : list str) : str :=
  match l with
  | [] => []
  | [x] => x
  | x :: r => x ++ sep ++ join sep r
  end.

Fixpoint repeat_str (s : str) (n : nat) : str :=
  match n with O => [] | S k => s ++ repeat_str s k end.

Definition opt_eqb {A} (eqb : A -> A -> bool) (a b : option A) : bool :=
  match a, b with
  | Some x, Some y => eqb x y
  | None, None => true
  | _, _ => false
  end.

Fixpoint list_eqb {A} (eqb : A -> A -> bool) (a b : list A) : bool :=
  match a, b with
  | [], [] => true
  | x :: a', y :: b' => eqb x y && list_eqb eqb a' b'
  | _, _ => false
  end.
