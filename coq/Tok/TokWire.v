(** Wire decoding / dumping for parsing states, tokens and reader scripts
    (entries of C11 and C17). *)
From Coq Require Import NArith ZArith List Bool Arith.
From PLV Require Import Base.PyStr Base.Wire Tok.PState Tok.Tokenizer.
Import ListNotations.

Definition rd_pair : rd (str * str) :=
  fun l => match rd_str l with
           | Some (a, r) => match rd_str r with Some (b, r') => Some ((a, b), r') | None => None end
           | None => None end.
Definition rd_delims : rd delims := rd_list rd_pair.

Definition bind {A B} (x : rd A) (k : A -> rd B) : rd B :=
  fun l => match x l with Some (a, r) => k a r | None => None end.
Definition ret {A} (a : A) : rd A := fun l => Some (a, l).

Definition rd_fields : rd fields :=
  bind (rd_opt (rd_list rd_str)) (fun cs =>
  bind rd_bool (fun im => bind (rd_opt rd_str) (fun md =>
  bind rd_delims (fun gd => bind rd_delims (fun idl => bind rd_delims (fun dd =>
  bind rd_bool (fun e1 => bind rd_bool (fun e2 => bind rd_bool (fun e3 => bind rd_bool (fun e4 =>
  bind rd_bool (fun e5 => bind rd_bool (fun e6 => bind rd_bool (fun e7 =>
  bind rd_str (fun al => bind rd_str (fun es => bind rd_str (fun cm => bind rd_str (fun fb =>
  ret {| f_ctx_specials := cs; f_in_math := im; f_math_delim := md; f_group_delims := gd;
         f_inline_delims := idl; f_display_delims := dd; f_en_dnp := e1; f_en_macros := e2;
         f_en_envs := e3; f_en_comments := e4; f_en_groups := e5; f_en_specials := e6;
         f_en_math := e7; f_alpha := al; f_escape := es; f_comment := cm; f_forbidden := fb |}
  ))))))))))))))))).

Definition rd_update : rd update :=
  fun l => match l with
  | [] => None
  | tag :: r =>
    let b (c : bool -> update) := match rd_bool r with Some (x, r') => Some (c x, r') | None => None end in
    let s (c : str -> update) := match rd_str r with Some (x, r') => Some (c x, r') | None => None end in
    let d (c : delims -> update) := match rd_delims r with Some (x, r') => Some (c x, r') | None => None end in
    match tag with
    | 0%Z => b UInMath
    | 1%Z => match rd_opt rd_str r with Some (x, r') => Some (UMathDelim x, r') | None => None end
    | 2%Z => d UGroupDelims | 3%Z => d UInlineDelims | 4%Z => d UDisplayDelims
    | 5%Z => b UEnDnp | 6%Z => b UEnMacros | 7%Z => b UEnEnvs | 8%Z => b UEnComments
    | 9%Z => b UEnGroups | 10%Z => b UEnSpecials | 11%Z => b UEnMath
    | 12%Z => s UAlpha | 13%Z => s UEscape | 14%Z => s UComment | 15%Z => s UForbidden
    | 16%Z => match rd_opt (rd_list rd_str) r with Some (x, r') => Some (UCtx x, r') | None => None end
    | _ => None
    end
  end.

(** base fields + chain of [sub_context] calls *)
Definition rd_pstate : rd pstate :=
  bind rd_fields (fun f => bind (rd_list (rd_list rd_update)) (fun chain =>
  ret (fold_left sub_context chain (fresh f)))).

Definition show_kind (k : tokkind) : str :=
  match k with
  | TkChar => [99%N] | TkMacro => [109%N] | TkBeginEnv => [98%N] | TkEndEnv => [101%N]
  | TkComment => [35%N] | TkBraceOpen => [123%N] | TkBraceClose => [125%N]
  | TkMathInline => [36%N] | TkMathDisplay => [68%N] | TkSpecials => [115%N]
  end.

Definition show_token (t : token) : str :=
  show_kind (tk t) ++ paren (show_str (targ t) ++ 44%N :: show_nat (tpos t) ++ 44%N :: show_nat (tend t)
                             ++ 44%N :: show_str (tpre t) ++ 44%N :: show_str (tpost t)).

Definition show_errkind (k : tokerr_kind) : str :=
  match k with TEForbidden => [102%N] | TEEscapeAtEnd => [120%N] | TEBadEnvName => [110%N] end.

Definition show_tokres (x : tokres) : str :=
  match x with
  | TokOk t => show_token t
  | TokEOS fin => [69;79;83]%N ++ paren (show_str fin)
  | TokErr e => [69;82;82]%N ++ paren (show_errkind (te_kind e) ++ 44%N :: show_nat (te_pos e))
  end.

(** canonical orders for the dump (Python sets / dicts have no order of their own) *)
Fixpoint str_leb (a b : str) : bool :=
  match a, b with
  | [], _ => true
  | _ :: _, [] => false
  | x :: a', y :: b' => if N.ltb x y then true else if N.ltb y x then false else str_leb a' b'
  end.
Fixpoint insert_sorted {A} (leb : A -> A -> bool) (x : A) (l : list A) : list A :=
  match l with
  | [] => [x]
  | y :: r => if leb x y then x :: l else y :: insert_sorted leb x r
  end.
(** stable: equal elements keep their order (insert AFTER equal ones) *)
Fixpoint insert_stable {A} (ltb : A -> A -> bool) (x : A) (l : list A) : list A :=
  match l with
  | [] => [x]
  | y :: r => if ltb x y then x :: l else y :: insert_stable ltb x r
  end.
Definition sort_stable {A} (ltb : A -> A -> bool) (l : list A) : list A :=
  fold_left (fun acc x => insert_stable ltb x acc) l [].
Definition str_ltb (a b : str) : bool := str_leb a b && negb (str_eqb a b).

Definition show_strs (l : list str) : str := show_list show_str l.
Definition canon_set (l : list str) : list str := sort_stable str_ltb (dedup l).
Definition by_len_ltb (x y : str * tokkind) : bool :=
  Nat.ltb (length (fst y)) (length (fst x))
  || (Nat.eqb (length (fst x)) (length (fst y)) && str_ltb (fst x) (fst y)).
Definition show_caches (c : caches) : str :=
  show_strs (canon_set (c_group_open c)) ++ 59%N :: show_strs (canon_set (c_group_close c)) ++ 59%N ::
  show_str (c_math_startchars c) ++ 59%N ::
  show_list (fun x : str * tokkind => show_str (fst x) ++ show_kind (snd x))
            (sort_stable by_len_ltb (c_math_by_len c)) ++ 59%N ::
  show_list (fun k : str =>
               show_str k ++ 58%N ::
               show_opt (fun v : str * tokkind => show_str (fst v) ++ show_kind (snd v))
                        (dict_get (c_math_by_open c) k))
            (canon_set (map fst (c_math_by_open c))) ++ 59%N ::
  show_strs (canon_set (c_math_close c)) ++ 59%N ::
  show_opt (fun x : str * tokkind => show_str (fst x) ++ show_kind (snd x)) (c_expect_close c).

(** reader script: 0 peek, 1 next, 2 move_to_token(last), 3 move_to_token(last, no pre-space),
    4 move_past_token(last), 5 move_past_token(last, no post-space), 6 read everything that is left *)
Fixpoint run_script (fuel : nat) (ps : pstate) (ops : list Z) (r : reader) (last : option token)
  : list str :=
  match ops with
  | [] => []
  | op :: rest =>
    let at_ (r' : reader) := 64%N :: show_nat (r_pos r') in
    match op with
    | 0%Z => let '(x, r') := peek_token ps r in
             (show_tokres x ++ at_ r') ::
             run_script fuel ps rest r' (match x with TokOk t => Some t | _ => last end)
    | 1%Z => let '(x, r') := next_token ps r in
             (show_tokres x ++ at_ r') ::
             run_script fuel ps rest r' (match x with TokOk t => Some t | _ => last end)
    | 6%Z => match read_all_fuel fuel ps r with
             | inl (Some (ts, fin)) =>
                 (show_list show_token ts ++ show_str fin) :: run_script fuel ps rest r last
             | inl None => [79;79;70]%N :: run_script fuel ps rest r last
             | inr e => show_tokres (TokErr e) :: run_script fuel ps rest r last
             end
    | _ =>
      match last with
      | None => [45%N] :: run_script fuel ps rest r last
      | Some t =>
        let r' := match op with
                  | 2%Z => move_to_token r t | 3%Z => move_to_token_nospace r t
                  | 4%Z => move_past_token r t | _ => move_past_token_nopost r t end in
        at_ r' :: run_script fuel ps rest r' last
      end
    end
  end.

(** wire: pstate ; s ; tolerant ; dump-caches? ; ops *)
Definition entry_tok (inp : list Z) : list Z :=
  match bind rd_pstate (fun ps => bind rd_str (fun s => bind rd_bool (fun tol =>
        bind rd_bool (fun dc => bind (rd_list rd_Z) (fun ops => ret (ps, s, tol, dc, ops)))))) inp with
  | Some ((ps, s, tol, dc, ops), _) =>
      let r := {| r_s := s; r_pos := 0; r_tol := tol |} in
      let lines := run_script (S (length s)) ps ops r None in
      to_wire ((if dc then show_caches (ps_c ps) ++ [32%N] else []) ++ join [32%N] lines)
  | None => bad_input
  end.

(** ** several parsing states on ONE reader (entry sub 1): the script is a list of
    (operation, index of the state to use for it) *)
Fixpoint run_script_multi (fuel : nat) (states : list pstate) (ops : list (Z * nat)) (r : reader)
         (last : option token) : list str :=
  match ops with
  | [] => []
  | (op, k) :: rest =>
    match nth_error states k with
    | None => [[63%N]]
    | Some ps =>
      match run_script fuel ps [op] r last with
      | [line] =>
          let '(r', last') :=
              match op with
              | 0%Z => let '(x, r') := peek_token ps r in (r', match x with TokOk t => Some t | _ => last end)
              | 1%Z => let '(x, r') := next_token ps r in (r', match x with TokOk t => Some t | _ => last end)
              | 6%Z => (r, last)
              | _ => match last with
                     | None => (r, last)
                     | Some t => (match op with
                                  | 2%Z => move_to_token r t | 3%Z => move_to_token_nospace r t
                                  | 4%Z => move_past_token r t | _ => move_past_token_nopost r t end, last)
                     end
              end in
          line :: run_script_multi fuel states rest r' last'
      | _ => [[63%N]]
      end
    end
  end.

Definition rd_op : rd (Z * nat) :=
  bind rd_Z (fun o => bind rd_nat (fun k => ret (o, k))).

Definition entry_tok_multi (inp : list Z) : list Z :=
  match bind (rd_list rd_pstate) (fun sts => bind rd_str (fun s => bind rd_bool (fun tol =>
        bind (rd_list rd_op) (fun ops => ret (sts, s, tol, ops))))) inp with
  | Some ((sts, s, tol, ops), _) =>
      let r := {| r_s := s; r_pos := 0; r_tol := tol |} in
      to_wire (join [32%N] (run_script_multi (S (length s)) sts ops r None))
  | None => bad_input
  end.
