(** Model of [pylatexenc/latexnodes/_parsingstatedelta.py]: the public
    parsing-state DELTA objects and [get_updated_parsing_state], with the
    walker events answered by the DEFAULT event handler
    ([LatexWalkerParsingStateEventHandler] of [_walkerbase.py]).

    - [DSet kw]       = [ParsingStateDelta(set_attributes=kw)]: [sub_context] with the keywords [kw]
                        when [kw] is truthy (non-empty), the state itself otherwise;
    - [DEnterMath d]  = [ParsingStateDeltaEnterMathMode(math_mode_delimiter=d)]: the handler
                        answers [ParsingStateDelta(set_attributes=dict(in_math_mode=True,
                        math_mode_delimiter=d))];
    - [DLeaveMath]    = [ParsingStateDeltaLeaveMathMode()]: [dict(in_math_mode=False,
                        math_mode_delimiter=None)];
    - [DChain l]      = [ParsingStateDeltaChained(l)]: left fold, [None] entries skipped;
    - [DNone]         = a [None] entry of a chain ([get_updated_parsing_state_from_delta]
                        also maps [None] to "no change").

    Additive: nothing of [Tok/PState.v] is changed. *)
From Coq Require Import NArith ZArith List Bool Arith.
From PLV Require Import Base.PyStr Base.Wire Tok.PState Tok.Tokenizer Tok.TokWire.
Import ListNotations.

Inductive delta :=
| DSet (u : list update)
| DEnterMath (d : option str)
| DLeaveMath
| DChain (l : list delta)
| DNone.

(** keyword dictionaries produced by the default walker event handler *)
Definition enter_math_kw (d : option str) : list update := [UInMath true; UMathDelim d].
Definition leave_math_kw : list update := [UInMath false; UMathDelim None].

(** [ParsingStateDelta.get_updated_parsing_state]: [if self.set_attributes:] *)
Definition apply_set (ps : pstate) (kw : list update) : pstate :=
  match kw with
  | [] => ps
  | _ :: _ => sub_context ps kw
  end.

Fixpoint apply_delta (ps : pstate) (d : delta) {struct d} : pstate :=
  match d with
  | DSet kw => apply_set ps kw
  | DEnterMath md => apply_set ps (enter_math_kw md)
  | DLeaveMath => apply_set ps leave_math_kw
  | DChain l =>
      (fix go (l : list delta) (ps : pstate) {struct l} : pstate :=
         match l with
         | [] => ps
         | d :: r => go r (apply_delta ps d)
         end) l ps
  | DNone => ps
  end.

(** ** Wire

    delta ::= 0 kw-list | 1 opt-str | 2 | 3 n delta^n | 4
    Every level consumes at least one integer: fuel = length of the input. *)
Fixpoint rd_delta_fuel (fuel : nat) : rd delta :=
  fun l =>
    match fuel with
    | O => None
    | S k =>
      match l with
      | [] => None
      | tag :: r =>
        match tag with
        | 0%Z => match rd_list rd_update r with Some (x, r') => Some (DSet x, r') | None => None end
        | 1%Z => match rd_opt rd_str r with Some (x, r') => Some (DEnterMath x, r') | None => None end
        | 2%Z => Some (DLeaveMath, r)
        | 3%Z => match rd_list (rd_delta_fuel k) r with
                 | Some (x, r') => Some (DChain x, r') | None => None end
        | 4%Z => Some (DNone, r)
        | _ => None
        end
      end
    end.

Definition rd_delta : rd delta := fun l => rd_delta_fuel (S (length l)) l.

(** base fields + one delta applied to the freshly built state *)
Definition rd_delta_state : rd pstate :=
  bind rd_fields (fun f => bind rd_delta (fun d => ret (apply_delta (fresh f) d))).

(** wire: fields ; delta ; s ; tolerant ; dump-caches? ; ops — answered exactly as
    [entry_tok] answers for the resulting state *)
Definition entry_delta (inp : list Z) : list Z :=
  match bind rd_delta_state (fun ps => bind rd_str (fun s => bind rd_bool (fun tol =>
        bind rd_bool (fun dc => bind (rd_list rd_Z) (fun ops => ret (ps, s, tol, dc, ops)))))) inp with
  | Some ((ps, s, tol, dc, ops), _) =>
      let r := {| r_s := s; r_pos := 0; r_tol := tol |} in
      let lines := run_script (S (length s)) ps ops r None in
      to_wire ((if dc then show_caches (ps_c ps) ++ [32%N] else []) ++ join [32%N] lines)
  | None => bad_input
  end.
