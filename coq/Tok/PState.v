(** Model of [pylatexenc/latexnodes/_parsingstate.py]: the public fields, the
    cached lookup tables as SEPARATE fields that are inherited or recomputed
    exactly as the three [_finalize_state_*] methods do, and [sub_context]. *)
From Coq Require Import NArith ZArith List Bool Arith.
From PLV Require Import Base.PyStr.
Import ListNotations.

Inductive tokkind :=
| TkChar | TkMacro | TkBeginEnv | TkEndEnv | TkComment | TkBraceOpen | TkBraceClose
| TkMathInline | TkMathDisplay | TkSpecials.

Definition tokkind_eqb (a b : tokkind) : bool :=
  match a, b with
  | TkChar, TkChar | TkMacro, TkMacro | TkBeginEnv, TkBeginEnv | TkEndEnv, TkEndEnv
  | TkComment, TkComment | TkBraceOpen, TkBraceOpen | TkBraceClose, TkBraceClose
  | TkMathInline, TkMathInline | TkMathDisplay, TkMathDisplay | TkSpecials, TkSpecials => true
  | _, _ => false
  end.

Definition delims := list (str * str).

(** The public fields ([ParsingState._fields] without [s]).  [ctx_specials] is
    what the tokenizer can see of [latex_context]: [None] = no context,
    [Some l] = the specials sequences of all categories in lookup order. *)
Record fields := {
  f_ctx_specials : option (list str);
  f_in_math : bool;
  f_math_delim : option str;
  f_group_delims : delims;
  f_inline_delims : delims;
  f_display_delims : delims;
  f_en_dnp : bool;            (* enable_double_newline_paragraphs *)
  f_en_macros : bool;
  f_en_envs : bool;
  f_en_comments : bool;
  f_en_groups : bool;
  f_en_specials : bool;
  f_en_math : bool;
  f_alpha : str;              (* macro_alpha_chars *)
  f_escape : str;             (* macro_escape_char *)
  f_comment : str;            (* comment_start *)
  f_forbidden : str;
}.

(** The cached tables. *)
Record caches := {
  c_group_open : list str;                       (* keys of _latex_group_delimchars_by_open *)
  c_group_close : list str;                      (* _latex_group_delimchars_close *)
  c_math_startchars : str;                       (* _math_delims_info_startchars *)
  c_math_by_len : list (str * tokkind);          (* _math_all_delims_by_len *)
  c_math_by_open : list (str * (str * tokkind)); (* _math_delims_info_by_open, as the item list it is built from *)
  c_math_close : list str;                       (* _math_delims_close *)
  c_expect_close : option (str * tokkind);       (* _math_expecting_close_delim_info *)
}.

Record pstate := { ps_f : fields; ps_c : caches }.

(** ** Defaults of [set_fields] *)
Definition default_alpha : str :=
  [97;98;99;100;101;102;103;104;105;106;107;108;109;110;111;112;113;114;115;116;117;118;119;120;121;122;
   65;66;67;68;69;70;71;72;73;74;75;76;77;78;79;80;81;82;83;84;85;86;87;88;89;90]%N.
Definition default_group_delims : delims := [([123%N], [125%N])].
Definition default_inline_delims : delims := [([36%N], [36%N]); ([92;40]%N, [92;41]%N)].
Definition default_display_delims : delims := [([36;36]%N, [36;36]%N); ([92;91]%N, [92;93]%N)].

Definition default_fields : fields := {|
  f_ctx_specials := None; f_in_math := false; f_math_delim := None;
  f_group_delims := default_group_delims;
  f_inline_delims := default_inline_delims;
  f_display_delims := default_display_delims;
  f_en_dnp := true; f_en_macros := true; f_en_envs := true; f_en_comments := true;
  f_en_groups := true; f_en_specials := true; f_en_math := true;
  f_alpha := default_alpha; f_escape := [92%N]; f_comment := [37%N]; f_forbidden := [] |}.

(** [set_fields]: a math delimiter without math mode is dropped (truthiness
    test: [None] and [''] are both falsy and left alone). *)
Definition truthy_ostr (o : option str) : bool :=
  match o with Some (_ :: _) => true | _ => false end.

Definition set_math (f : fields) (im : bool) (md : option str) : fields :=
  {| f_ctx_specials := f_ctx_specials f; f_in_math := im; f_math_delim := md;
     f_group_delims := f_group_delims f; f_inline_delims := f_inline_delims f;
     f_display_delims := f_display_delims f; f_en_dnp := f_en_dnp f; f_en_macros := f_en_macros f;
     f_en_envs := f_en_envs f; f_en_comments := f_en_comments f; f_en_groups := f_en_groups f;
     f_en_specials := f_en_specials f; f_en_math := f_en_math f; f_alpha := f_alpha f;
     f_escape := f_escape f; f_comment := f_comment f; f_forbidden := f_forbidden f |}.

Definition normalize (f : fields) : fields :=
  if negb (f_in_math f) && truthy_ostr (f_math_delim f)
  then set_math f (f_in_math f) None else f.

(** ** Computing the cached tables from the fields *)

(** [dict(items)] lookup: the LAST item with that key wins. *)
Fixpoint dict_get {A} (items : list (str * A)) (k : str) : option A :=
  match items with
  | [] => None
  | (k', v) :: r => match dict_get r k with
                    | Some v' => Some v'
                    | None => if str_eqb k' k then Some v else None
                    end
  end.

Definition compute_group_open (f : fields) : list str := map fst (f_group_delims f).
Definition compute_group_close (f : fields) : list str := map snd (f_group_delims f).

Definition first_char (x : str) : str := firstn 1 x.

Definition compute_startchars (f : fields) : str :=
  flat_map (fun pr : str * str => first_char (fst pr) ++ first_char (snd pr))
           (f_inline_delims f ++ f_display_delims f).

Fixpoint dedup (l : list str) : list str :=
  match l with
  | [] => []
  | x :: r => if existsb (str_eqb x) r then dedup r else x :: dedup r
  end.

(** stable insertion sort by decreasing length (Python's [sorted(..., key=len,
    reverse=True)] is stable: equal keys keep their original order).  Elements are
    inserted from the right end, so an element goes BEFORE the equal-length ones already placed. *)
Fixpoint insert_by_len (x : str * tokkind) (l : list (str * tokkind)) : list (str * tokkind) :=
  match l with
  | [] => [x]
  | y :: r => if Nat.leb (length (fst y)) (length (fst x)) then x :: l else y :: insert_by_len x r
  end.
Definition sort_by_len (l : list (str * tokkind)) : list (str * tokkind) :=
  fold_right insert_by_len [] l.

Definition delim_set (d : delims) : list str :=
  dedup (flat_map (fun pr : str * str => [fst pr; snd pr]) d).

(** The order inside each [set(...)] is unspecified in Python; two different
    delimiters of equal length can never both match at one position, so only
    the inline-before-display order among equal strings matters and that is
    preserved. *)
Definition compute_by_len (f : fields) : list (str * tokkind) :=
  sort_by_len (map (fun d => (d, TkMathInline)) (delim_set (f_inline_delims f))
               ++ map (fun d => (d, TkMathDisplay)) (delim_set (f_display_delims f))).

Definition compute_by_open (f : fields) : list (str * (str * tokkind)) :=
  map (fun pr : str * str => (fst pr, (snd pr, TkMathInline))) (f_inline_delims f)
  ++ map (fun pr : str * str => (fst pr, (snd pr, TkMathDisplay))) (f_display_delims f).

(** built from the DICT (a later item with the same opening delimiter has
    replaced the earlier one) *)
Definition compute_math_close (by_open : list (str * (str * tokkind))) : list str :=
  dedup (flat_map (fun k => match dict_get by_open k with Some v => [fst v] | None => [] end)
                  (dedup (map fst by_open))).

Definition compute_expect (f : fields) (by_open : list (str * (str * tokkind)))
  : option (str * tokkind) :=
  if negb (f_in_math f) then None
  else match f_math_delim f with
       | Some d => dict_get by_open d
       | None => None        (* [None in dict] is False *)
       end.

Definition compute_caches (f : fields) : caches :=
  let bo := compute_by_open f in
  {| c_group_open := compute_group_open f; c_group_close := compute_group_close f;
     c_math_startchars := compute_startchars f; c_math_by_len := compute_by_len f;
     c_math_by_open := bo; c_math_close := compute_math_close bo;
     c_expect_close := compute_expect f bo |}.

(** [ParsingState(fields...)] with no parent *)
Definition fresh (f : fields) : pstate :=
  let f' := normalize f in {| ps_f := f'; ps_c := compute_caches f' |}.

(** ** [sub_context] *)

(** One keyword argument of [sub_context]. *)
Inductive update :=
| UInMath (b : bool) | UMathDelim (d : option str)
| UGroupDelims (d : delims) | UInlineDelims (d : delims) | UDisplayDelims (d : delims)
| UEnDnp (b : bool) | UEnMacros (b : bool) | UEnEnvs (b : bool) | UEnComments (b : bool)
| UEnGroups (b : bool) | UEnSpecials (b : bool) | UEnMath (b : bool)
| UAlpha (s : str) | UEscape (s : str) | UComment (s : str) | UForbidden (s : str)
| UCtx (c : option (list str)).

Definition delims_eqb (a b : delims) : bool :=
  list_eqb (fun x y : str * str => str_eqb (fst x) (fst y) && str_eqb (snd x) (snd y)) a b.

(** does the update change the field ([not _safe_eq(v, attrs[k])])? *)
Definition changes (f : fields) (u : update) : bool :=
  negb match u with
  | UInMath b => Bool.eqb b (f_in_math f)
  | UMathDelim d => opt_eqb str_eqb d (f_math_delim f)
  | UGroupDelims d => delims_eqb d (f_group_delims f)
  | UInlineDelims d => delims_eqb d (f_inline_delims f)
  | UDisplayDelims d => delims_eqb d (f_display_delims f)
  | UEnDnp b => Bool.eqb b (f_en_dnp f)
  | UEnMacros b => Bool.eqb b (f_en_macros f)
  | UEnEnvs b => Bool.eqb b (f_en_envs f)
  | UEnComments b => Bool.eqb b (f_en_comments f)
  | UEnGroups b => Bool.eqb b (f_en_groups f)
  | UEnSpecials b => Bool.eqb b (f_en_specials f)
  | UEnMath b => Bool.eqb b (f_en_math f)
  | UAlpha s => str_eqb s (f_alpha f)
  | UEscape s => str_eqb s (f_escape f)
  | UComment s => str_eqb s (f_comment f)
  | UForbidden s => str_eqb s (f_forbidden f)
  | UCtx c => opt_eqb (list_eqb str_eqb) c (f_ctx_specials f)
  end.

Definition apply_update (f : fields) (u : update) : fields :=
  let mk cs im md gd idl dd e1 e2 e3 e4 e5 e6 e7 al es cm fb :=
    {| f_ctx_specials := cs; f_in_math := im; f_math_delim := md; f_group_delims := gd;
       f_inline_delims := idl; f_display_delims := dd; f_en_dnp := e1; f_en_macros := e2;
       f_en_envs := e3; f_en_comments := e4; f_en_groups := e5; f_en_specials := e6;
       f_en_math := e7; f_alpha := al; f_escape := es; f_comment := cm; f_forbidden := fb |} in
  let cs := f_ctx_specials f in let im := f_in_math f in let md := f_math_delim f in
  let gd := f_group_delims f in let idl := f_inline_delims f in let dd := f_display_delims f in
  let e1 := f_en_dnp f in let e2 := f_en_macros f in let e3 := f_en_envs f in
  let e4 := f_en_comments f in let e5 := f_en_groups f in let e6 := f_en_specials f in
  let e7 := f_en_math f in let al := f_alpha f in let es := f_escape f in
  let cm := f_comment f in let fb := f_forbidden f in
  match u with
  | UInMath b => mk cs b md gd idl dd e1 e2 e3 e4 e5 e6 e7 al es cm fb
  | UMathDelim d => mk cs im d gd idl dd e1 e2 e3 e4 e5 e6 e7 al es cm fb
  | UGroupDelims d => mk cs im md d idl dd e1 e2 e3 e4 e5 e6 e7 al es cm fb
  | UInlineDelims d => mk cs im md gd d dd e1 e2 e3 e4 e5 e6 e7 al es cm fb
  | UDisplayDelims d => mk cs im md gd idl d e1 e2 e3 e4 e5 e6 e7 al es cm fb
  | UEnDnp b => mk cs im md gd idl dd b e2 e3 e4 e5 e6 e7 al es cm fb
  | UEnMacros b => mk cs im md gd idl dd e1 b e3 e4 e5 e6 e7 al es cm fb
  | UEnEnvs b => mk cs im md gd idl dd e1 e2 b e4 e5 e6 e7 al es cm fb
  | UEnComments b => mk cs im md gd idl dd e1 e2 e3 b e5 e6 e7 al es cm fb
  | UEnGroups b => mk cs im md gd idl dd e1 e2 e3 e4 b e6 e7 al es cm fb
  | UEnSpecials b => mk cs im md gd idl dd e1 e2 e3 e4 e5 b e7 al es cm fb
  | UEnMath b => mk cs im md gd idl dd e1 e2 e3 e4 e5 e6 b al es cm fb
  | UAlpha s => mk cs im md gd idl dd e1 e2 e3 e4 e5 e6 e7 s es cm fb
  | UEscape s => mk cs im md gd idl dd e1 e2 e3 e4 e5 e6 e7 al s cm fb
  | UComment s => mk cs im md gd idl dd e1 e2 e3 e4 e5 e6 e7 al es s fb
  | UForbidden s => mk cs im md gd idl dd e1 e2 e3 e4 e5 e6 e7 al es cm s
  | UCtx c => mk c im md gd idl dd e1 e2 e3 e4 e5 e6 e7 al es cm fb
  end.

Inductive ukey := KInMath | KMathDelim | KGroup | KInline | KDisplay | KOther.
Definition key_of (u : update) : ukey :=
  match u with
  | UInMath _ => KInMath | UMathDelim _ => KMathDelim | UGroupDelims _ => KGroup
  | UInlineDelims _ => KInline | UDisplayDelims _ => KDisplay | _ => KOther
  end.
Definition ukey_eqb (a b : ukey) : bool :=
  match a, b with
  | KInMath, KInMath | KMathDelim, KMathDelim | KGroup, KGroup | KInline, KInline
  | KDisplay, KDisplay | KOther, KOther => true
  | _, _ => false
  end.

(** [sub_context(kwargs...)]: [kwargs] is a dictionary, so each key occurs at
    most once ([updates_wf]); [kwargs2] keeps the updates that change their
    field w.r.t. the parent; all fields are copied with those applied;
    [set_fields] normalises; each cache group is inherited from the parent
    unless one of its trigger keys is in [kwargs2]. *)
Definition sub_context (p : pstate) (kw : list update) : pstate :=
  let f0 := ps_f p in
  let kw2 := filter (changes f0) kw in
  let f1 := normalize (fold_left apply_update kw2 f0) in
  let has k := existsb (fun u => ukey_eqb (key_of u) k) kw2 in
  let c0 := ps_c p in
  let grp_new := has KGroup in
  let mth_new := has KInline || has KDisplay in
  let bo := if mth_new then compute_by_open f1 else c_math_by_open c0 in
  (* fix b1e7f19: the expected closing delimiter also depends on the delimiter lists *)
  let exp_new := has KInMath || has KMathDelim || has KInline || has KDisplay in
  {| ps_f := f1;
     ps_c := {|
       c_group_open := if grp_new then compute_group_open f1 else c_group_open c0;
       c_group_close := if grp_new then compute_group_close f1 else c_group_close c0;
       c_math_startchars := if mth_new then compute_startchars f1 else c_math_startchars c0;
       c_math_by_len := if mth_new then compute_by_len f1 else c_math_by_len c0;
       c_math_by_open := bo;
       c_math_close := if mth_new then compute_math_close bo else c_math_close c0;
       c_expect_close := if exp_new then compute_expect f1 bo else c_expect_close c0 |} |}.
