(** Model of [pylatexenc/latexnodes/_tokenreader.py: LatexTokenReader] and of
    [_tokenreaderbase.py: next_token / peek_token_or_none]. *)
From Coq Require Import NArith ZArith List Bool Arith.
From PLV Require Import Base.PyStr Tok.PState.
From PLV Require Gen.GenUnicode.
Import ListNotations.

Definition is_space (c : N) : bool := Gen.GenUnicode.py_isspace c.

Record token := {
  tk : tokkind; targ : str; tpos : nat; tend : nat; tpre : str; tpost : str
}.

Inductive tokerr_kind :=
| TEForbidden | TEEscapeAtEnd | TEBadEnvName.

Record tokerr := {
  te_kind : tokerr_kind;
  te_pos : nat;
  te_placeholder : token;
  te_recover_at : nat;
}.

Inductive tokres :=
| TokOk (t : token)
| TokEOS (final_space : str)
| TokErr (e : tokerr).

(** [s[i]] *)
Definition char_at (s : str) (i : nat) : option N := nth_error s i.

(** [impl_peek_space_chars(s, pos)] -> (space, pos_end) *)
Definition peek_space (s : str) (pos : nat) : str * nat :=
  let sp := fst (span is_space (skipn pos s)) in (sp, pos + length sp).

(** [x.find('\n')] / [x.rfind('\n')] on a string known to contain one *)
Fixpoint find_nl (x : str) : nat :=
  match x with [] => 0 | c :: r => if N.eqb c 10 then 0 else S (find_nl r) end.
Definition rfind_nl (x : str) : nat := length x - 1 - find_nl (rev x).

(** post-space of a macro / comment: the whitespace run, cut at its first
    newline if it contains two or more *)
Definition post_space_at (s : str) (p : nat) : str * nat :=
  let (sp, pe) := peek_space s p in
  if Nat.leb 2 (count_c 10 sp) then
    let k := find_nl sp in (firstn k sp, p + k)
  else (sp, pe).

Definition mk (k : tokkind) (a : str) (p e : nat) (pre post : str) : token :=
  {| tk := k; targ := a; tpos := p; tend := e; tpre := pre; tpost := post |}.

(** [test_for_specials]: longest match, ties to the earlier entry *)
Fixpoint test_specials (l : list str) (rest : str) (best : option str) : option str :=
  match l with
  | [] => best
  | sc :: r =>
      let bl := match best with Some b => length b | None => 0 end in
      if Nat.ltb bl (length sc) && startswith rest sc
      then test_specials r rest (Some sc) else test_specials r rest best
  end.

(** [rx_environment_name]: [\s*\{[A-Za-z0-9*._ :/!^()\[\]-]+\}] matched at the
    start of [x]; returns the name and the match length.  [\s] of Python's
    [re] on [str] is [str.isspace]-like Unicode whitespace ([re] uses
    [Py_UNICODE_ISSPACE]). *)
Definition envname_char (c : N) : bool :=
  is_ascii_alpha c || is_ascii_digit c ||
  mem_c c [42; 46; 95; 32; 58; 47; 33; 94; 40; 41; 91; 93; 45]%N.

Definition match_envname (x : str) : option (str * nat) :=
  let (sp, r) := span is_space x in
  match r with
  | c :: r1 =>
      if N.eqb c 123 then
        let (nm, r2) := span envname_char r1 in
        match nm, r2 with
        | _ :: _, d :: _ =>
            if N.eqb d 125 then Some (nm, length sp + 1 + length nm + 1) else None
        | _, _ => None
        end
      else None
  | [] => None
  end.

(** [impl_maybe_read_math_mode_delimiter] *)
Definition read_math (ps : pstate) (rest : str) (pos : nat) (pre : str) : option token :=
  let try_all :=
    (fix go (l : list (str * tokkind)) : option token :=
       match l with
       | [] => None
       | (d, k) :: r => if startswith rest d then Some (mk k d pos (pos + length d) pre [])
                        else go r
       end) (c_math_by_len (ps_c ps)) in
  if f_in_math (ps_f ps) then
    match c_expect_close (ps_c ps) with
    | Some (cd, k) => if startswith rest cd then Some (mk k cd pos (pos + length cd) pre [])
                      else try_all
    | None => try_all
    end
  else try_all.

(** [impl_read_macro] at [pos] where [s[pos]] is the escape character *)
Definition read_macro (ps : pstate) (s : str) (pos : nat) (pre : str) : tokres :=
  match skipn (S pos) s with
  | [] => TokErr {| te_kind := TEEscapeAtEnd; te_pos := S pos;
                    (* fix 5dcfd6e: the placeholder spans the escape character *)
                    te_placeholder := mk TkChar [] pos (S pos) pre [];
                    te_recover_at := length s |}
  | c :: r =>
      if mem_c c (f_alpha (ps_f ps)) then
        let nm := fst (span (fun x => mem_c x (f_alpha (ps_f ps))) r) in
        let posi := pos + 2 + length nm in
        let (post, pe) := post_space_at s posi in
        TokOk (mk TkMacro (c :: nm) pos pe pre post)
      else TokOk (mk TkMacro [c] pos (pos + 2) pre [])
  end.

(** [impl_read_environment] *)
Definition read_environment (ps : pstate) (s : str) (pos : nat) (is_begin : bool) (pre : str)
  : tokres :=
  let kw : str := if is_begin then [98;101;103;105;110]%N else [101;110;100]%N in
  let pos_envname := pos + 1 + length kw in
  match match_envname (skipn pos_envname s) with
  | Some (nm, len) =>
      TokOk (mk (if is_begin then TkBeginEnv else TkEndEnv) nm pos (pos_envname + len) pre [])
  | None =>
      let tokarg := f_escape (ps_f ps) ++ kw in
      TokErr {| te_kind := TEBadEnvName; te_pos := pos;
                te_placeholder := mk TkChar tokarg pos (pos + length tokarg) pre [];
                te_recover_at := pos + length tokarg |}
  end.

(** [impl_read_comment] *)
Definition read_comment (ps : pstate) (s : str) (pos : nat) (pre : str) : token :=
  let inner := pos + length (f_comment (ps_f ps)) in
  match find_from s [10%N] inner with
  | None => mk TkComment (slice s inner (length s)) pos (length s) pre []
  | Some sppos =>
      let (post, pe) := post_space_at s sppos in
      mk TkComment (slice s inner sppos) pos pe pre post
  end.

(** [impl_char_token] *)
Definition char_token (ps : pstate) (c : N) (pos : nat) (pre : str) : tokres :=
  let t := mk TkChar [c] pos (S pos) pre [] in
  if mem_c c (f_forbidden (ps_f ps)) then
    TokErr {| te_kind := TEForbidden; te_pos := pos; te_placeholder := t; te_recover_at := S pos |}
  else TokOk t.

(** The first-character dispatch of [impl_peek_token], one stage per [if] of
    the Python code; [None] = fall through to the next stage.  [rest] is
    [s[pos:]] and [c] its first character. *)
Definition stage_math (ps : pstate) (rest : str) (pos : nat) (pre : str) (c : N) : option tokres :=
  if mem_c c (c_math_startchars (ps_c ps)) && f_en_math (ps_f ps) then
    match read_math ps rest pos pre with
    | Some t => Some (TokOk t)
    | None => None
    end
  else None.

Definition kw_begin : str := [98;101;103;105;110]%N.
Definition kw_end : str := [101;110;100]%N.

Definition stage_escape (ps : pstate) (s : str) (pos : nat) (pre : str) (c : N) : option tokres :=
  let f := ps_f ps in
  if str_eqb [c] (f_escape f) then
    let env_try :=
      if f_en_envs f then
        let r1 := skipn (S pos) s in
        let be := if startswith r1 kw_begin then Some true
                  else if startswith r1 kw_end then Some false else None in
        match be with
        | Some b =>
            let past := pos + 1 + (if b then 5 else 3) in
            match char_at s past with
            | None => Some (read_environment ps s pos b pre)
            | Some d => if mem_c d (f_alpha f) then None
                        else Some (read_environment ps s pos b pre)
            end
        | None => None
        end
      else None in
    match env_try with
    | Some r => Some r
    | None => if f_en_macros f then Some (read_macro ps s pos pre) else None
    end
  else None.

Definition stage_comment (ps : pstate) (s rest : str) (pos : nat) (pre : str) (c : N) : option tokres :=
  let f := ps_f ps in
  match f_comment f with
  | c0 :: _ =>
      if f_en_comments f && N.eqb c c0 && startswith rest (f_comment f)
      then Some (TokOk (read_comment ps s pos pre)) else None
  | [] => None                  (* [comment_start[0]] raises IndexError: excluded by ps_wf *)
  end.

Definition stage_group (ps : pstate) (pos : nat) (pre : str) (c : N) : option tokres :=
  if f_en_groups (ps_f ps) then
    if existsb (str_eqb [c]) (c_group_open (ps_c ps))
    then Some (TokOk (mk TkBraceOpen [c] pos (S pos) pre []))
    else if existsb (str_eqb [c]) (c_group_close (ps_c ps))
    then Some (TokOk (mk TkBraceClose [c] pos (S pos) pre []))
    else None
  else None.

Definition stage_specials (ps : pstate) (rest : str) (pos : nat) (pre : str) : option tokres :=
  match f_ctx_specials (ps_f ps) with
  | Some l =>
      if f_en_specials (ps_f ps) then
        match test_specials l rest None with
        | Some sc => Some (TokOk (mk TkSpecials sc pos (pos + length sc) pre []))
        | None => None
        end
      else None
  | None => None
  end.

Definition orelse (a : option tokres) (b : tokres) : tokres :=
  match a with Some r => r | None => b end.

Definition dispatch (ps : pstate) (s rest : str) (pos : nat) (pre : str) (c : N) : tokres :=
  orelse (stage_math ps rest pos pre c)
  (orelse (stage_escape ps s pos pre c)
  (orelse (stage_comment ps s rest pos pre c)
  (orelse (stage_group ps pos pre c)
  (orelse (stage_specials ps rest pos pre)
          (char_token ps c pos pre))))).

(** the paragraph token of a whitespace run with two or more newlines *)
Definition par_token (ps : pstate) (s : str) (pos0 : nat) (pre0 : str) : token :=
  let rs := find_nl pre0 in
  let re := S (rfind_nl pre0) in
  let pre := firstn rs pre0 in
  let ps_ := pos0 + rs in let pe_ := pos0 + re in
  let is_spec := match f_ctx_specials (ps_f ps) with
                 | Some l => existsb (str_eqb [10;10]%N) l
                 | None => false end in
  if is_spec then mk TkSpecials [10;10]%N ps_ pe_ pre []
  else mk TkChar (slice s ps_ pe_) ps_ pe_ pre [].

(** [impl_peek_token] *)
Definition impl_peek (ps : pstate) (s : str) (pos0 : nat) : tokres :=
  let (pre0, p2) := peek_space s pos0 in
  if f_en_dnp (ps_f ps) && Nat.leb 2 (count_c 10 pre0) then TokOk (par_token ps s pos0 pre0)
  else
  match skipn p2 s with
  | [] => TokEOS pre0
  | (c :: _) as rest => dispatch ps s rest p2 pre0 c
  end.

(** * The reader: [(s, pos, tolerant)] *)
Record reader := { r_s : str; r_pos : nat; r_tol : bool }.

Definition set_pos (r : reader) (p : nat) : reader :=
  {| r_s := r_s r; r_pos := p; r_tol := r_tol r |}.

(** [peek_token]: in tolerant mode a token error becomes its placeholder
    (fix 8367e67: without moving the reader).  The reader is returned to make
    "peeking has no effect" a statement rather than a convention. *)
Definition peek_token (ps : pstate) (r : reader) : tokres * reader :=
  match impl_peek ps (r_s r) (r_pos r) with
  | TokErr e => if r_tol r then (TokOk (te_placeholder e), r) else (TokErr e, r)
  | x => (x, r)
  end.

Definition move_past_token (r : reader) (t : token) : reader := set_pos r (tend t).
Definition move_to_token (r : reader) (t : token) : reader :=
  set_pos r (tpos t - length (tpre t)).
Definition move_to_token_nospace (r : reader) (t : token) : reader := set_pos r (tpos t).
Definition move_past_token_nopost (r : reader) (t : token) : reader :=
  set_pos r (tend t - length (tpost t)).

(** [next_token] = peek + move_past_token *)
Definition next_token (ps : pstate) (r : reader) : tokres * reader :=
  match peek_token ps r with
  | (TokOk t, r') => (TokOk t, move_past_token r' t)
  | x => x
  end.

(** [peek_chars(n)] / [next_chars(n)]: [None] = end of stream *)
Definition peek_chars (r : reader) (n : nat) : option str :=
  if Nat.leb (length (r_s r)) (r_pos r) then None
  else Some (slice (r_s r) (r_pos r) (r_pos r + n)).
Definition next_chars (r : reader) (n : nat) : option (str * reader) :=
  match peek_chars r n with
  | None => None
  | Some c => Some (c, set_pos r (Nat.min (r_pos r + n) (length (r_s r))))
  end.
Definition skip_space_chars (r : reader) : (str * nat * nat) * reader :=
  let (sp, pe) := peek_space (r_s r) (r_pos r) in ((sp, r_pos r, pe), set_pos r pe).

(** read every token until end of stream; fuel [|s| + 1] is enough (C11) *)
Fixpoint read_all_fuel (fuel : nat) (ps : pstate) (r : reader)
  : option (list token * str) + tokerr :=
  match fuel with
  | O => inl None
  | S f =>
      match next_token ps r with
      | (TokOk t, r') =>
          match read_all_fuel f ps r' with
          | inl (Some (ts, fin)) => inl (Some (t :: ts, fin))
          | x => x
          end
      | (TokEOS fin, _) => inl (Some ([], fin))
      | (TokErr e, _) => inr e
      end
  end.
Definition read_all (ps : pstate) (s : str) (tol : bool) :=
  read_all_fuel (S (length s)) ps {| r_s := s; r_pos := 0; r_tol := tol |}.
