(** The theorems of property C14 over all operation histories. *)
From Coq Require Import NArith ZArith List Bool Arith Lia.
From PLV Require Import Base.PyStr Base.Wire Ctx.CtxSpec Ctx.CtxHeap Entry.E14
     Proofs.CtxFacts Proofs.CtxRefine Proofs.CtxInv.
Import ListNotations.

Lemma fold_inv ops : forall w, Inv w -> Inv (fold_left (fun w o => fst (db_step w o)) ops w).
Proof.
  induction ops as [|o r IH]; intros w HI; cbn [fold_left]; [exact HI|].
  apply IH. destruct (db_step w o) as [w' res] eqn:E. cbn [fst]. eapply step_ok; eauto.
Qed.

Lemma run_inv ops : Inv (run ops).
Proof. apply fold_inv. apply Inv_init. Qed.

Lemma live_db w h : h < length (w_dbs w) -> exists d, nth_error (w_dbs w) h = Some d.
Proof.
  intros H. destruct (nth_error (w_dbs w) h) as [d|] eqn:E; [eauto|].
  apply nth_error_None in E. lia.
Qed.

(** ** Refinement: after every history, every live database answers every
       query exactly as the abstract specification of its meaning does. *)
Theorem refines : forall ops h, h < length (w_dbs (run ops)) ->
  exists s, abs (run ops) h = Some s /\
            forall q, run_query (run ops) h q = Some (spec_query s q).
Proof.
  intros ops h H. destruct (live_db _ _ H) as [d Hd].
  destruct (inv_rep _ (run_inv ops) _ _ Hd) as [s R]. exists s. unfold abs, run_query. rewrite Hd.
  split; [apply Rep_abs; exact R | intros q; apply Rep_query; exact R].
Qed.

(** the same on the printed observation, for every query universe *)
Theorem refines_text : forall u ops h, h < length (w_dbs (run ops)) ->
  exists s, abs (run ops) h = Some s /\ observe u (run ops) h = observe_spec u s.
Proof.
  intros u ops h H. destruct (refines ops h H) as (s & A & Q). exists s. split; [exact A|].
  unfold observe, observe_spec. f_equal. apply map_ext. exact Q.
Qed.

(** ** Separation: an operation changes the meaning of no database other
       than the one it mutates; deriving (filtered_context, extended_with)
       changes the meaning of no existing database at all, its source
       included. *)
Theorem sources_undisturbed : forall ops o h,
  h < length (w_dbs (run ops)) ->
  op_target o <> Some h \/ is_derive o = true ->
  abs (fst (db_step (run ops) o)) h = abs (run ops) h.
Proof.
  intros ops o h H T. destruct (live_db _ _ H) as [d Hd].
  destruct (inv_rep _ (run_inv ops) _ _ Hd) as [s R].
  destruct (db_step (run ops) o) as [w' r] eqn:E. cbn [fst].
  destruct (step_ok _ _ _ _ (run_inv ops) E) as (_ & _ & _ & K).
  destruct (K h d s Hd R T) as (d' & Hd' & R').
  unfold abs. rewrite Hd, Hd'. rewrite (Rep_abs _ _ _ R), (Rep_abs _ _ _ R'). reflexivity.
Qed.

(** and therefore every answer of such a database is unchanged *)
Corollary answers_undisturbed : forall ops o h q,
  h < length (w_dbs (run ops)) ->
  op_target o <> Some h \/ is_derive o = true ->
  run_query (fst (db_step (run ops) o)) h q = run_query (run ops) h q.
Proof.
  intros ops o h q H T.
  pose proof (sources_undisturbed ops o h H T) as A.
  destruct (refines ops h H) as (s & As & Q).
  assert (H' : h < length (w_dbs (run (ops ++ [o])))).
  { unfold run. rewrite fold_left_app. cbn [fold_left]. fold (run ops).
    destruct (db_step (run ops) o) as [w' r] eqn:E. cbn [fst].
    destruct (step_ok _ _ _ _ (run_inv ops) E) as (_ & _ & L & _). lia. }
  destruct (refines (ops ++ [o]) h H') as (s' & As' & Q').
  assert (Er : run (ops ++ [o]) = fst (db_step (run ops) o)).
  { unfold run. rewrite fold_left_app. reflexivity. }
  rewrite Er in As', Q'. rewrite Q', Q. congruence.
Qed.

(** ** A frozen database refuses modification: the mutators raise
       RuntimeError and leave the whole world as it was (in any world, hence
       after any history). *)
Definition is_mutator_of (h : nat) (o : op) : Prop :=
  match o with
  | OAdd h' _ _ _ _ _ => h' = h
  | OSetUnk h' _ _ => h' = h
  | _ => False
  end.

Theorem frozen_refuses : forall w o h d,
  nth_error (w_dbs w) h = Some d -> frozen d = true -> is_mutator_of h o ->
  db_step w o = (w, RRaise RuntimeError).
Proof.
  intros w o h d Hd Fz M. destruct o; cbn [is_mutator_of] in M; try contradiction; subst; cbn [db_step].
  - unfold w_add. rewrite Hd. unfold do_add. rewrite Fz. rewrite (set_nth_same _ _ _ Hd).
    destruct w; reflexivity.
  - rewrite Hd, Fz. reflexivity.
Qed.

Corollary frozen_refuses_history : forall ops o h s,
  abs (run ops) h = Some s -> s_frozen s = true -> is_mutator_of h o ->
  db_step (run ops) o = (run ops, RRaise RuntimeError).
Proof.
  intros ops o h s A Fz M. unfold abs in A. destruct (nth_error (w_dbs (run ops)) h) as [d|] eqn:Hd; [|discriminate].
  apply (frozen_refuses _ _ h d Hd); [|exact M].
  destruct (inv_rep _ (run_inv ops) _ _ Hd) as [s' R]. rewrite (Rep_abs _ _ _ R) in A.
  destruct R as (? & ? & _ & _ & _ & _ & _ & ->). injection A as <-. exact Fz.
Qed.

(** once frozen, always frozen; freezing changes nothing but the flag *)
Theorem freeze_meaning : forall ops h s,
  abs (run ops) h = Some s ->
  abs (fst (db_step (run ops) (OFreeze h))) h =
  Some (mksdb (s_cats s) (s_unk_m s) (s_unk_e s) (s_unk_s s) true).
Proof.
  intros ops h s A. unfold abs in A. destruct (nth_error (w_dbs (run ops)) h) as [d|] eqn:Hd; [|discriminate].
  cbn [db_step]. rewrite Hd. cbn [fst]. unfold abs. cbn [w_dbs w_heap].
  rewrite nth_set_nth_same by (eapply nth_error_bound; eauto).
  destruct (inv_rep _ (run_inv ops) _ _ Hd) as [s' R]. rewrite (Rep_abs _ _ _ R) in A. injection A as ->.
  pose proof (Rep_fields _ d s (set_frozen d) R eq_refl eq_refl eq_refl eq_refl eq_refl) as R'.
  rewrite (Rep_abs _ _ _ R'). destruct R as (? & ? & _ & _ & _ & _ & _ & ->). reflexivity.
Qed.

(** ** The machine never gets stuck: every location always holds the kind of
       object the code expects there. *)
Theorem never_stuck : forall ops o, snd (db_step (run ops) o) <> RStuck.
Proof.
  intros ops o. destruct (db_step (run ops) o) as [w' r] eqn:E. cbn [snd].
  eapply step_ok; [apply run_inv | exact E].
Qed.

(** ** What add_context_category means *)
Theorem add_meaning : forall ops h c ms es ss pl w' r s,
  abs (run ops) h = Some s ->
  db_step (run ops) (OAdd h c ms es ss pl) = (w', r) ->
  match r with
  | ROk => s_frozen s = false /\
           exists c', ~ In c' (map sc_name (s_cats s)) /\
                      (c = Some c' \/ (c = None /\ exists n, c' = CAuto n)) /\
                      abs w' h = Some (s_add_cat s c' ms es ss pl)
  | RRaise _ => abs w' h = Some s
  | _ => False
  end.
Proof.
  intros ops h c ms es ss pl w' r s A. unfold abs in A.
  destruct (nth_error (w_dbs (run ops)) h) as [d|] eqn:Hd; [|discriminate].
  pose proof (run_inv ops) as HI. destruct (inv_rep _ HI _ _ Hd) as [s' R].
  rewrite (Rep_abs _ _ _ R) in A. injection A as ->.
  cbn [db_step]. unfold w_add. rewrite Hd.
  destruct (do_add false (w_heap (run ops)) d c ms es ss pl) as [[hp' d'] r'] eqn:E.
  intros E2; injection E2 as <- <-.
  destruct (do_add_ok _ _ _ _ _ _ _ _ _ _ _ _ R (inv_nodup _ HI _ _ Hd) E) as (_ & _ & K).
  assert (Hn : nth_error (set_nth (w_dbs (run ops)) h d') h = Some d')
    by (apply nth_set_nth_same; eapply nth_error_bound; eauto).
  destruct r'; try contradiction.
  - destruct K as (Fz & (c' & K1 & K2 & K3) & _). split.
    + destruct R as (? & ? & _ & _ & _ & _ & _ & ->). exact Fz.
    + exists c'. repeat split; auto. unfold abs. cbn [w_dbs w_heap]. rewrite Hn. apply Rep_abs. exact K3.
  - destruct K as (-> & K2 & _). unfold abs. cbn [w_dbs w_heap]. rewrite Hn. apply Rep_abs. exact K2.
Qed.

(** ** What extended_with means *)
Theorem extend_meaning : forall ops h c ms es ss um ue us w' r s,
  abs (run ops) h = Some s ->
  db_step (run ops) (OExtend h c ms es ss um ue us) = (w', r) ->
  match r with
  | RNew n => n = length (w_dbs (run ops)) /\ s_frozen s = true /\
              exists sn, abs w' n = Some sn /\ ext_meaning s c ms es ss um ue us sn
  | RRaise ValueError => exists c', c = Some c' /\ In c' (map sc_name (s_cats s))
  | RRaise RuntimeError => s_frozen s = false
  | _ => False
  end.
Proof.
  intros ops h c ms es ss um ue us w' r s A. unfold abs in A.
  destruct (nth_error (w_dbs (run ops)) h) as [d|] eqn:Hd; [|discriminate].
  pose proof (run_inv ops) as HI. destruct (inv_rep _ HI _ _ Hd) as [s' R].
  rewrite (Rep_abs _ _ _ R) in A. injection A as ->.
  cbn [db_step]. rewrite Hd.
  destruct (do_extend (w_heap (run ops)) d c ms es ss um ue us) as [[[hp' d'] nd] r'] eqn:E.
  destruct (do_extend_ok _ _ _ _ _ _ _ _ _ _ _ _ _ _ R E) as (_ & _ & _ & _ & K).
  assert (Fs : s_frozen s = frozen d) by (destruct R as (? & ? & _ & _ & _ & _ & _ & ->); reflexivity).
  destruct nd as [n|].
  - destruct K as (-> & Fz & _ & _ & _ & (sn & Rn & M)). intros E2; injection E2 as <- <-.
    split; [reflexivity|]. split; [congruence|]. exists sn. split; [|exact M].
    unfold abs. cbn [w_dbs w_heap]. rewrite nth_error_app2 by (rewrite set_nth_length; lia).
    rewrite set_nth_length, Nat.sub_diag. cbn [nth_error]. apply Rep_abs. exact Rn.
  - destruct K as (_ & _ & [[-> K]|[-> K]]); intros E2; injection E2 as <- <-; [exact K | congruence].
Qed.
