(** The theorems of property C14 over all operation histories. *)
From Coq Require Import NArith ZArith List Bool Arith Lia.
From PLV Require Import Base.PyStr Base.Wire Ctx.CtxSpec Ctx.CtxHeap Entry.E14
     Proofs.CtxFacts Proofs.CtxRefine Proofs.CtxInv.
Import ListNotations.

Lemma fold_inv ops : forall w, Inv w -> Inv (fold_left (fun w o => fst (db_step w o)) ops w).
Proof.
  induction ops as [|o r IH]; intros w HI; cbn [fold_left]; [exact HI|].
  apply IH. destruct (db_step w o) as [w' res] eqn:E. cbn [fst]. eapply step_ok; eauto.
Qed.

Lemma run_inv ops : Inv (run ops).
Proof. apply fold_inv. apply Inv_init. Qed.

Lemma live_db w h : h < length (w_dbs w) -> exists d, nth_error (w_dbs w) h = Some d.
Proof.
  intros H. destruct (nth_error (w_dbs w) h) as [d|] eqn:E; [eauto|].
  apply nth_error_None in E. lia.
Qed.

(** ** Refinement: after every history, every live database answers every
       query exactly as the abstract specification of its meaning does. *)
Theorem refines : forall ops h, h < length (w_dbs (run ops)) ->
  exists s, abs (run ops) h = Some s /\
            forall q, run_query (run ops) h q = Some (spec_query s q).
Proof.
  intros ops h H. destruct (live_db _ _ H) as [d Hd].
  destruct (inv_rep _ (run_inv ops) _ _ Hd) as [s R]. exists s. unfold abs, run_query. rewrite Hd.
  split; [apply Rep_abs; exact R | intros q; apply Rep_query; exact R].
Qed.

(** the same on the printed observation, for every query universe *)
Theorem refines_text : forall u ops h, h < length (w_dbs (run ops)) ->
  exists s, abs (run ops) h = Some s /\ observe u (run ops) h = observe_spec u s.
Proof.
  intros u ops h H. destruct (refines ops h H) as (s & A & Q). exists s. split; [exact A|].
  unfold observe, observe_spec. f_equal. apply map_ext. exact Q.
Qed.

(** ** Separation: an operation changes the meaning of no database other
       than the one it mutates; deriving (filtered_context, extended_with)
       changes the meaning of no existing database at all, its source
       included. *)
Theorem sources_undisturbed : forall ops o h,
  h < length (w_dbs (run ops)) ->
  op_target o <> Some h \/ is_derive o = true ->
  abs (fst (db_step (run ops) o)) h = abs (run ops) h.
Proof.
  intros ops o h H T. destruct (live_db _ _ H) as [d Hd].
  destruct (inv_rep _ (run_inv ops) _ _ Hd) as [s R].
  destruct (db_step (run ops) o) as [w' r] eqn:E. cbn [fst].
  destruct (step_ok _ _ _ _ (run_inv ops) E) as (_ & _ & _ & K).
  destruct (K h d s Hd R T) as (d' & Hd' & R').
  unfold abs. rewrite Hd, Hd'. rewrite (Rep_abs _ _ _ R), (Rep_abs _ _ _ R'). reflexivity.
Qed.

(** and therefore every answer of such a database is unchanged *)
Corollary answers_undisturbed : forall ops o h q,
  h < length (w_dbs (run ops)) ->
  op_target o <> Some h \/ is_derive o = true ->
  run_query (fst (db_step (run ops) o)) h q = run_query (run ops) h q.
Proof.
  intros ops o h q H T.
  pose proof (sources_undisturbed ops o h H T) as A.
  destruct (refines ops h H) as (s & As & Q).
  assert (H' : h < length (w_dbs (run (ops ++ [o])))).
  { unfold run. rewrite fold_left_app. cbn [fold_left]. fold (run ops).
    destruct (db_step (run ops) o) as [w' r] eqn:E. cbn [fst].
    destruct (step_ok _ _ _ _ (run_inv ops) E) as (_ & _ & L & _). lia. }
  destruct (refines (ops ++ [o]) h H') as (s' & As' & Q').
  assert (Er : run (ops ++ [o]) = fst (db_step (run ops) o)).
  { unfold run. rewrite fold_left_app. reflexivity. }
  rewrite Er in As', Q'. rewrite Q', Q. congruence.
Qed.

(** ** A frozen database refuses modification: the mutators raise
       RuntimeError and leave the whole world as it was (in any world, hence
       after any history). *)
Definition is_mutator_of (h : nat) (o : op) : Prop :=
  match o with
  | OAdd h' _ _ _ _ _ => h' = h
  | OSetUnk h' _ _ => h' = h
  | _ => False
  end.

Theorem frozen_refuses : forall w o h d,
  nth_error (w_dbs w) h = Some d -> frozen d = true -> is_mutator_of h o ->
  db_step w o = (w, RRaise RuntimeError).
Proof.
  intros w o h d Hd Fz M. destruct o; cbn [is_mutator_of] in M; try contradiction; subst; cbn [db_step].
  - unfold w_add. rewrite Hd. unfold do_add. rewrite Fz. rewrite (set_nth_same _ _ _ Hd).
    destruct w; reflexivity.
  - rewrite Hd, Fz. reflexivity.
Qed.

Corollary frozen_refuses_history : forall ops o h s,
  abs (run ops) h = Some s -> s_frozen s = true -> is_mutator_of h o ->
  db_step (run ops) o = (run ops, RRaise RuntimeError).
Proof.
  intros ops o h s A Fz M. unfold abs in A. destruct (nth_error (w_dbs (run ops)) h) as [d|] eqn:Hd; [|discriminate].
  apply (frozen_refuses _ _ h d Hd); [|exact M].
  destruct (inv_rep _ (run_inv ops) _ _ Hd) as [s' R]. rewrite (Rep_abs _ _ _ R) in A.
  destruct R as (? & ? & _ & _ & _ & _ & _ & ->). injection A as <-. exact Fz.
Qed.

(** once frozen, always frozen; freezing changes nothing but the flag *)
Theorem freeze_meaning : forall ops h s,
  abs (run ops) h = Some s ->
  abs (fst (db_step (run ops) (OFreeze h))) h =
  Some (mksdb (s_cats s) (s_unk_m s) (s_unk_e s) (s_unk_s s) true).
Proof.
  intros ops h s A. unfold abs in A. destruct (nth_error (w_dbs (run ops)) h) as [d|] eqn:Hd; [|discriminate].
  cbn [db_step]. rewrite Hd. cbn [fst]. unfold abs. cbn [w_dbs w_heap].
  rewrite nth_set_nth_same by (eapply nth_error_bound; eauto).
  destruct (inv_rep _ (run_inv ops) _ _ Hd) as [s' R]. rewrite (Rep_abs _ _ _ R) in A. injection A as ->.
  pose proof (Rep_fields _ d s (set_frozen d) R eq_refl eq_refl eq_refl eq_refl eq_refl) as R'.
  rewrite (Rep_abs _ _ _ R'). destruct R as (? & ? & _ & _ & _ & _ & _ & ->). reflexivity.
Qed.

(** ** The machine never gets stuck: every location always holds the kind of
       object the code expects there. *)
Theorem never_stuck : forall ops o, snd (db_step (run ops) o) <> RStuck.
Proof.
  intros ops o. destruct (db_step (run ops) o) as [w' r] eqn:E. cbn [snd].
  eapply step_ok; [apply run_inv | exact E].
Qed.

(** ** What add_context_category means *)
Theorem add_meaning : forall ops h c ms es ss pl w' r s,
  abs (run ops) h = Some s ->
  db_step (run ops) (OAdd h c ms es ss pl) = (w', r) ->
  match r with
  | ROk => s_frozen s = false /\
           exists c', ~ In c' (map sc_name (s_cats s)) /\
                      (c = Some c' \/ (c = None /\ exists n, c' = CAuto n)) /\
                      abs w' h = Some (s_add_cat s c' ms es ss pl)
  | RRaise _ => abs w' h = Some s
  | _ => False
  end.
Proof.
  intros ops h c ms es ss pl w' r s A. unfold abs in A.
  destruct (nth_error (w_dbs (run ops)) h) as [d|] eqn:Hd; [|discriminate].
  pose proof (run_inv ops) as HI. destruct (inv_rep _ HI _ _ Hd) as [s' R].
  rewrite (Rep_abs _ _ _ R) in A. injection A as ->.
  cbn [db_step]. unfold w_add. rewrite Hd.
  destruct (do_add false (w_heap (run ops)) d c ms es ss pl) as [[hp' d'] r'] eqn:E.
  intros E2; injection E2 as <- <-.
  destruct (do_add_ok _ _ _ _ _ _ _ _ _ _ _ _ R (inv_nodup _ HI _ _ Hd) E) as (_ & _ & K).
  assert (Hn : nth_error (set_nth (w_dbs (run ops)) h d') h = Some d')
    by (apply nth_set_nth_same; eapply nth_error_bound; eauto).
  destruct r'; try contradiction.
  - destruct K as (Fz & (c' & K1 & K2 & K3) & _). split.
    + destruct R as (? & ? & _ & _ & _ & _ & _ & ->). exact Fz.
    + exists c'. repeat split; auto. unfold abs. cbn [w_dbs w_heap]. rewrite Hn. apply Rep_abs. exact K3.
  - destruct K as (-> & K2 & _). unfold abs. cbn [w_dbs w_heap]. rewrite Hn. apply Rep_abs. exact K2.
Qed.

(** ** What extended_with means *)
Theorem extend_meaning : forall ops h c ms es ss um ue us w' r s,
  abs (run ops) h = Some s ->
  db_step (run ops) (OExtend h c ms es ss um ue us) = (w', r) ->
  match r with
  | RNew n => n = length (w_dbs (run ops)) /\ s_frozen s = true /\
              exists sn, abs w' n = Some sn /\ ext_meaning s c ms es ss um ue us sn
  | RRaise ValueError => exists c', c = Some c' /\ In c' (map sc_name (s_cats s))
  | RRaise RuntimeError => s_frozen s = false
  | _ => False
  end.
Proof.
  intros ops h c ms es ss um ue us w' r s A. unfold abs in A.
  destruct (nth_error (w_dbs (run ops)) h) as [d|] eqn:Hd; [|discriminate].
  pose proof (run_inv ops) as HI. destruct (inv_rep _ HI _ _ Hd) as [s' R].
  rewrite (Rep_abs _ _ _ R) in A. injection A as ->.
  cbn [db_step]. rewrite Hd.
  destruct (do_extend (w_heap (run ops)) d c ms es ss um ue us) as [[[hp' d'] nd] r'] eqn:E.
  destruct (do_extend_ok _ _ _ _ _ _ _ _ _ _ _ _ _ _ R E) as (_ & _ & _ & _ & K).
  assert (Fs : s_frozen s = frozen d) by (destruct R as (? & ? & _ & _ & _ & _ & _ & ->); reflexivity).
  destruct nd as [n|].
  - destruct K as (-> & Fz & _ & _ & _ & (sn & Rn & M)). intros E2; injection E2 as <- <-.
    split; [reflexivity|]. split; [congruence|]. exists sn. split; [|exact M].
    unfold abs. cbn [w_dbs w_heap]. rewrite nth_error_app2 by (rewrite set_nth_length; lia).
    rewrite set_nth_length, Nat.sub_diag. cbn [nth_error]. apply Rep_abs. exact Rn.
  - destruct K as (_ & _ & [[-> K]|[-> K]]); intros E2; injection E2 as <- <-; [exact K | congruence].
Qed.

(** * What filtered_context means *)

Definition item_of (which : list kind) (e : centry) : cat * (list spec * list spec * list spec) :=
  let v k := if keeps which k then dict_values (ce_d k e) else [] in
  (ce_cat e, (v KM, v KE, v KS)).

Lemma snapshot_is hp ddl keep excl which es : Forall (centry_ok hp ddl) es ->
  snapshot hp ddl keep excl which (map ce_cat es) =
  Some (map (item_of which) (filter (fun e => cat_selected keep excl (ce_cat e)) es)).
Proof.
  induction 1 as [|e r He Hr IH]; cbn [map snapshot filter]; [reflexivity|].
  destruct (cat_selected keep excl (ce_cat e)); [|exact IH].
  destruct He as (G1 & G2 & G3). rewrite G1, G2, IH.
  pose proof (G3 KM) as GM. pose proof (G3 KE) as GE. pose proof (G3 KS) as GS. cbn [ce_l] in GM, GE, GS.
  unfold values_at. rewrite GM, GE, GS. cbn [map]. unfold item_of at 2. cbn [ce_d].
  destruct (keeps which KM), (keeps which KE), (keeps which KS); reflexivity.
Qed.

Definition scat_of_item (it : cat * (list spec * list spec * list spec)) : scat :=
  let '(c, (vm, ve, vs)) := it in mkscat c (dict_of_specs vm) (dict_of_specs ve) (dict_of_specs vs).

Lemma insert_at_end {A} (x : A) l : insert_at (length l) x l = l ++ [x].
Proof. unfold insert_at. rewrite firstn_all, skipn_all. reflexivity. Qed.

Lemma filter_adds_meaning items : forall w n s,
  Inv w -> abs w n = Some s -> s_frozen s = false ->
  NoDup (map sc_name (s_cats s) ++ map fst items) ->
  exists w', filter_adds w n items = (w', ROk) /\
             abs w' n = Some (mksdb (s_cats s ++ map scat_of_item items)
                                    (s_unk_m s) (s_unk_e s) (s_unk_s s) false).
Proof.
  induction items as [|[c [[vm ve] vs]] rest IH]; intros w n s HI A Fz ND; cbn [filter_adds map].
  - exists w. split; [reflexivity|]. rewrite app_nil_r. rewrite A. destruct s; cbn in *. subst. reflexivity.
  - unfold abs in A. destruct (nth_error (w_dbs w) n) as [d|] eqn:Hd; [|discriminate].
    destruct (inv_rep _ HI _ _ Hd) as [s' R]. rewrite (Rep_abs _ _ _ R) in A. injection A as ->.
    assert (Fd : frozen d = false) by (destruct R as (? & ? & _ & _ & _ & _ & _ & ->); exact Fz).
    destruct (w_add true w n (Some c) vm ve vs PAppend) as [w1 r1] eqn:E1.
    pose proof (w_add_ok _ _ _ _ _ _ _ _ _ _ HI E1) as (HI1 & _ & _ & _).
    unfold w_add in E1. rewrite Hd in E1.
    destruct (do_add true (w_heap w) d (Some c) vm ve vs PAppend) as [[hp' d'] r'] eqn:E.
    injection E1 as <- <-.
    pose proof E as E'. unfold do_add in E'. rewrite Fd in E'.
    replace (match c with CAuto _ => negb true | _ => false end) with false in E' by (destruct c; reflexivity).
    destruct (add_named_ok _ _ _ _ _ _ _ _ _ _ _ R (inv_nodup _ HI _ _ Hd) E') as [-> K].
    assert (Hc : ~ In c (map sc_name (s_cats s))).
    { cbn [map fst] in ND. apply NoDup_remove_2 in ND. intros Hin. apply ND. apply in_app_iff. left. exact Hin. }
    destruct r'; try contradiction.
    2:{ destruct K as (_ & _ & K). contradiction. }
    destruct K as (_ & R1 & _).
    assert (A1 : abs (mkw hp' (set_nth (w_dbs w) n d)) n = Some (s_add_cat s c vm ve vs PAppend)).
    { unfold abs. cbn [w_dbs w_heap]. rewrite nth_set_nth_same by (eapply nth_error_bound; eauto).
      apply Rep_abs. exact R1. }
    destruct (IH _ n _ HI1 A1) as (w' & Ew & Aw).
    + unfold s_add_cat. cbn [s_frozen]. exact Fz.
    + unfold s_add_cat. cbn [s_cats place_index]. rewrite map_length, insert_at_end, map_app.
      cbn [map sc_name fst] in *. rewrite <- app_assoc. cbn [app]. exact ND.
    + exists w'. split; [exact Ew|]. rewrite Aw. unfold s_add_cat.
      cbn [s_cats s_unk_m s_unk_e s_unk_s place_index]. rewrite map_length, insert_at_end, <- app_assoc.
      reflexivity.
Qed.

Lemma NoDup_map_filter {A B} (f : A -> B) (p : A -> bool) l : NoDup (map f l) -> NoDup (map f (filter p l)).
Proof.
  induction l as [|x r IH]; cbn [map filter]; intros H; [constructor|].
  inversion H as [|? ? Hx Hr]; subst. destruct (p x); cbn [map]; [|apply IH; exact Hr].
  constructor; [|apply IH; exact Hr]. intros Hin. apply Hx. apply in_map_iff in Hin.
  destruct Hin as (y & Ey & Hy). apply filter_In in Hy. destruct Hy as [Hy _]. rewrite <- Ey. apply in_map. exact Hy.
Qed.

Lemma filter_map_comm {A B} (f : A -> B) (p : B -> bool) l :
  filter p (map f l) = map f (filter (fun x => p (f x)) l).
Proof.
  induction l as [|x r IH]; cbn [map filter]; [reflexivity|]. destruct (p (f x)); cbn [map]; rewrite IH; reflexivity.
Qed.

Theorem filter_meaning : forall ops h keep excl which w' r s,
  abs (run ops) h = Some s ->
  db_step (run ops) (OFilter h keep excl which) = (w', r) ->
  r = RNew (length (w_dbs (run ops))) /\
  abs w' (length (w_dbs (run ops))) = Some (s_filter s keep excl which).
Proof.
  intros ops h keep excl which w' r s A. set (w := run ops) in *. unfold abs in A.
  destruct (nth_error (w_dbs w) h) as [d|] eqn:Hd; [|discriminate].
  pose proof (run_inv ops) as HI. fold w in HI. destruct (inv_rep _ HI _ _ Hd) as [s' R].
  rewrite (Rep_abs _ _ _ R) in A. injection A as ->.
  destruct (Rep_reads _ _ _ R) as (ddl & es & zm & ze & zs & H1 & Hnd & H3 & H4 & _ & _ & _ & _ & _ & _ & ->).
  cbn [db_step]. unfold w_filter. rewrite Hd, H1, H3, (snapshot_is _ _ keep excl which _ H4).
  pose proof (init_db_facts (w_heap w)) as F.
  destruct (init_db (w_heap w)) as [hp1 d0]. destruct F as ((os & ->) & ND & Fresh & R0).
  set (nd := mkdb (cl d0) (dd d0) (cm_m d0) (cm_e d0) (cm_s d0) (unk_m d) (unk_e d) (unk_s d) false 0).
  destruct (Inv_push w (w_heap w ++ os) nd HI) as [HI1 _].
  { apply imm_ext_app. }
  { intros l Hl. apply hget_app_old. exact Hl. }
  { eexists. apply R0. }
  { exact ND. }
  { intros l Hl. left. apply Fresh. exact Hl. }
  set (n := length (w_dbs w)).
  assert (A1 : abs (mkw (w_heap w ++ os) (w_dbs w ++ [nd])) n =
               Some (mksdb [] (unk_m d) (unk_e d) (unk_s d) false)).
  { unfold abs. cbn [w_dbs w_heap]. subst n. rewrite nth_error_app2 by lia. rewrite Nat.sub_diag. cbn [nth_error].
    apply Rep_abs. apply R0. }
  set (items := map (item_of which) (filter (fun e => cat_selected keep excl (ce_cat e)) es)).
  destruct (filter_adds_meaning items _ n _ HI1 A1 eq_refl) as (w2 & E2 & A2).
  { cbn [s_cats map app]. subst items. rewrite map_map. cbn [item_of fst].
    apply (NoDup_map_filter ce_cat). exact Hnd. }
  rewrite E2. intros E; injection E as <- <-. split; [reflexivity|]. rewrite A2. f_equal.
  unfold s_filter. cbn [s_cats s_unk_m s_unk_e s_unk_s app]. f_equal.
  subst items. rewrite filter_map_comm, !map_map. apply map_ext. intros e.
  cbn [scat_of_item item_of scat_of sc_name sel sc_m sc_e sc_s ce_d].
  destruct (keeps which KM), (keeps which KE), (keeps which KS); reflexivity.
Qed.
