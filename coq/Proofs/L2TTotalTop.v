(** C07 — end-to-end totality of [latex_to_text] in tolerant mode, WITHOUT a
    hypothesis about the parser: the tolerant parse of every string returns a
    node list within the model's own fuel ([Proofs/ParserTerm.v]:
    [C06_total_proof], every context — in particular the generated default
    one), and on every parser result the conversion returns a string and no
    exception ([Proofs/L2TTotalTables.v]: [total_given_parse]). *)
From Coq Require Import NArith ZArith List Bool Arith.
From PLV Require Import Base.PyStr Tok.PState Tok.Tokenizer Parse.Nodes Parse.Parser Parse.ParseWire.
From PLV Require Import L2T.L2T L2T.L2TWire Proofs.ParserTerm Proofs.L2TTotalParse Proofs.L2TTotalTables.
From PLV Require Gen.GenWalkerCtx.
Import ListNotations.

Theorem latex_to_text_total o s :
  exists txt st, latex_to_text o s true = Some (txt, st) /\ d_err st = None.
Proof.
  destruct (C06_total_proof s Gen.GenWalkerCtx.default_ctx) as (nl & p & H).
  exact (total_given_parse o s (Some nl) p H).
Qed.
