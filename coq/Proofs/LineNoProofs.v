(** Proofs about [Util/LineNo.v] (property C20). *)
From Coq Require Import NArith ZArith List Bool Arith Lia.
From PLV Require Import Base.PyStr Util.LineNo.
Import ListNotations.

(** * The declarative specification

    Line = number of newlines strictly before [p]; column = number of
    characters between the last such newline (or the start) and [p]. *)

Fixpoint tl_len (t : str) (acc : nat) : nat :=
  match t with
  | [] => acc
  | c :: r => if N.eqb c 10 then tl_len r 0 else tl_len r (S acc)
  end.

Definition spec_line (s : str) (p : nat) : nat := count_c 10 (firstn p s).
Definition spec_col (s : str) (p : nat) : nat := tl_len (firstn p s) 0.

Definition spec_lc (o : offsets) (s : str) (p : nat) : Z * Z :=
  ((Z.of_nat (spec_line s p) + line_offset o)%Z,
   (Z.of_nat (spec_col s p) + col_off o (spec_line s p))%Z).

(** [tl_len t 0] really is "distance back to the nearest newline": *)
Lemma tl_len_acc t : forall acc,
  (existsb (N.eqb 10) t = false -> tl_len t acc = acc + length t) /\
  (existsb (N.eqb 10) t = true -> tl_len t acc = tl_len t 0).
Proof.
  induction t as [|c r IH]; intros acc; cbn [tl_len existsb length].
  - split; [intros _; lia | discriminate].
  - rewrite N.eqb_sym. destruct (N.eqb c 10) eqn:E; cbn [orb].
    + split; [discriminate | reflexivity].
    + destruct (IH (S acc)) as [A B]. destruct (IH 1) as [A1 B1]. split; intros H.
      * rewrite A by exact H. lia.
      * rewrite B by exact H. rewrite B1 by exact H. reflexivity.
Qed.

Lemma tl_len_le t : forall acc, tl_len t acc <= acc + length t.
Proof.
  induction t as [|c r IH]; intros acc; cbn [tl_len length]; [lia|].
  destruct (N.eqb c 10); [specialize (IH 0) | specialize (IH (S acc))]; lia.
Qed.

(** no newline in the last [tl_len t 0] characters *)
Lemma tl_len_no_newline t : forall acc j,
  acc + length t - tl_len t acc <= acc + j -> j < length t -> nth j t 0%N <> 10%N.
Proof.
  induction t as [|c r IH]; intros acc j; cbn [length tl_len]; [lia|].
  destruct (N.eqb c 10) eqn:E; intros H1 H2.
  - destruct j as [|j].
    + pose proof (tl_len_le r 0). lia.
    + cbn [nth]. apply (IH 0); lia.
  - destruct j as [|j].
    + cbn [nth]. apply N.eqb_neq. exact E.
    + cbn [nth]. apply (IH (S acc)); lia.
Qed.

(** and, unless the whole prefix is newline-free, the character just before
    those is a newline *)
Lemma tl_len_newline_before t :
  tl_len t 0 < length t ->
  nth (length t - tl_len t 0 - 1) t 0%N = 10%N.
Proof.
  intros H.
  assert (X : existsb (N.eqb 10) t = true).
  { destruct (existsb (N.eqb 10) t) eqn:X; [reflexivity|].
    apply (proj1 (tl_len_acc t 0)) in X. lia. }
  clear H. induction t as [|c r IH]; [discriminate|].
  cbn [existsb] in X. cbn [tl_len length]. rewrite N.eqb_sym in X.
  pose proof (tl_len_le r 0) as L. cbn [Nat.add] in L.
  destruct (N.eqb c 10) eqn:E; cbn [orb] in X.
  - destruct (existsb (N.eqb 10) r) eqn:Y.
    + assert (tl_len r 0 < length r).
      { destruct (Nat.eq_dec (tl_len r 0) (length r)) as [Q|Q]; [|lia].
        exfalso. clear IH.
        assert (G : forall u, existsb (N.eqb 10) u = true -> tl_len u 0 < length u).
        { induction u as [|d u IHu]; [discriminate|]. cbn [existsb tl_len length].
          rewrite N.eqb_sym. pose proof (tl_len_le u 0). destruct (N.eqb d 10); cbn [orb].
          - intros _. lia.
          - intros W. rewrite (proj2 (tl_len_acc u 1) W). specialize (IHu W). lia. }
        specialize (G r Y). lia. }
      replace (S (length r) - tl_len r 0 - 1) with (S (length r - tl_len r 0 - 1)) by lia.
      cbn [nth]. apply IH. reflexivity.
    + rewrite (proj1 (tl_len_acc r 0) Y). cbn [Nat.add].
      replace (S (length r) - length r - 1) with 0 by lia. cbn [nth].
      apply N.eqb_eq. exact E.
  - rewrite (proj2 (tl_len_acc r 1) X).
    assert (tl_len r 0 < length r).
    { clear IH.
      assert (G : forall u, existsb (N.eqb 10) u = true -> tl_len u 0 < length u).
      { induction u as [|d u IHu]; [discriminate|]. cbn [existsb tl_len length].
        rewrite N.eqb_sym. pose proof (tl_len_le u 0). destruct (N.eqb d 10); cbn [orb].
        - intros _. lia.
        - intros W. rewrite (proj2 (tl_len_acc u 1) W). specialize (IHu W). lia. }
      exact (G r X). }
    replace (S (length r) - tl_len r 0 - 1) with (S (length r - tl_len r 0 - 1)) by lia.
    cbn [nth]. apply IH. exact X.
Qed.

(** * The implementation model meets the specification *)

Lemma nl_after_gt s : forall i x, In x (nl_after s i) -> i < x.
Proof.
  induction s as [|c r IH]; intros i x H; cbn [nl_after] in H; [contradiction|].
  destruct (N.eqb c 10).
  - destruct H as [<-|H]; [lia|]. apply IH in H. lia.
  - apply IH in H. lia.
Qed.

Lemma bisect_right_head_gt l x : (forall y, In y l -> x < y) -> bisect_right l x = 0.
Proof.
  destruct l as [|y r]; [reflexivity|]. intros H. cbn [bisect_right].
  specialize (H y (or_introl eq_refl)).
  destruct (Nat.leb_spec y x); [lia | reflexivity].
Qed.

Lemma bisect_counts s : forall i p, p <= length s ->
  bisect_right (nl_after s i) (i + p) = count_c 10 (firstn p s).
Proof.
  induction s as [|c r IH]; intros i p Hp; cbn [length] in Hp.
  - assert (p = 0) by lia. subst. reflexivity.
  - destruct p as [|p].
    + cbn [firstn count_c]. apply bisect_right_head_gt.
      intros y Hy. apply nl_after_gt in Hy. lia.
    + cbn [firstn count_c nl_after]. rewrite (N.eqb_sym 10 c).
      destruct (N.eqb c 10) eqn:E.
      * cbn [bisect_right]. destruct (Nat.leb_spec (S i) (i + S p)); [|lia].
        replace (i + S p) with (S i + p) by lia. rewrite IH by lia. reflexivity.
      * replace (i + S p) with (S i + p) by lia. rewrite IH by lia. reflexivity.
Qed.

Lemma nth_line_start s : forall i a p, a <= i -> p <= length s ->
  nth (count_c 10 (firstn p s)) (a :: nl_after s i) 0 + tl_len (firstn p s) (i - a) = i + p.
Proof.
  induction s as [|c r IH]; intros i a p Ha Hp; cbn [length] in Hp.
  - assert (p = 0) by lia. subst. cbn. lia.
  - destruct p as [|p]; [cbn; lia|].
    cbn [firstn count_c nl_after tl_len]. rewrite (N.eqb_sym 10 c).
    destruct (N.eqb c 10) eqn:E.
    + change (1 + ?n) with (S n). cbn [nth].
      specialize (IH (S i) (S i) p). rewrite Nat.sub_diag in IH. cbn [nth] in IH. lia.
    + cbn [Nat.add]. specialize (IH (S i) a p).
      replace (S i - a) with (S (i - a)) in IH by lia. lia.
Qed.

Theorem lineno_colno_is_spec o s p : p <= length s ->
  lineno_colno o s p = Some (spec_lc o s p).
Proof.
  intros Hp. unfold lineno_colno, line_starts. cbn [bisect_right Nat.leb].
  pose proof (bisect_counts s 0 p Hp) as B. cbn [Nat.add] in B. rewrite B.
  unfold spec_lc, spec_line, spec_col.
  pose proof (nth_line_start s 0 0 p (le_n 0) Hp) as N1.
  cbn [Nat.add Nat.sub] in N1.
  f_equal. f_equal. f_equal. lia.
Qed.

(** line starts: 0, then one past every newline, strictly increasing *)
Fixpoint positions (c : N) (s : str) (i : nat) : list nat :=
  match s with
  | [] => []
  | d :: r => if N.eqb d c then i :: positions c r (S i) else positions c r (S i)
  end.

Lemma nl_after_positions s : forall i, nl_after s i = map S (positions 10 s i).
Proof.
  induction s as [|c r IH]; intros i; cbn [nl_after positions map]; [reflexivity|].
  destruct (N.eqb c 10); cbn [map]; rewrite IH; reflexivity.
Qed.

Theorem line_starts_positions s : line_starts s = 0 :: map S (positions 10 s 0).
Proof. unfold line_starts. rewrite nl_after_positions. reflexivity. Qed.

(** The inverse reading asked for by the property: start of the reported line
    plus reported column (offsets removed) is the position; and the reported
    line is the last one starting at or before the position. *)
Lemma line_start_le s : forall i a p, a <= i -> p <= length s ->
  nth (count_c 10 (firstn p s)) (a :: nl_after s i) 0 <= i + p.
Proof. intros i a p Ha Hp. pose proof (nth_line_start s i a p Ha Hp). lia. Qed.

Lemma count_lt_len s : forall i p, p <= length s ->
  count_c 10 (firstn p s) < length (i :: nl_after s i).
Proof.
  induction s as [|c r IH]; intros i p Hp; cbn [length] in *.
  - assert (p = 0) by lia. subst. cbn. lia.
  - destruct p as [|p]; [cbn; lia|].
    cbn [firstn count_c nl_after]. rewrite (N.eqb_sym 10 c). destruct (N.eqb c 10).
    + cbn [length]. specialize (IH (S i) p). cbn [length] in IH. lia.
    + specialize (IH (S i) p). cbn [length] in *. lia.
Qed.

Lemma later_lines_start_after s : forall i a p j, a <= i -> p <= length s ->
  j < length (a :: nl_after s i) -> nth j (a :: nl_after s i) 0 <= i + p ->
  j <= count_c 10 (firstn p s).
Proof.
  induction s as [|c r IH]; intros i a p j Ha Hp Hj Hn; cbn [length] in *.
  - cbn in Hj. lia.
  - destruct p as [|p].
    + destruct j as [|j]; [lia|]. cbn [nth] in Hn.
      assert (In (nth j (nl_after (c :: r) i) 0) (nl_after (c :: r) i)) as HI
        by (apply nth_In; cbn [length] in Hj; lia).
      apply nl_after_gt in HI. lia.
    + cbn [firstn count_c nl_after] in *. rewrite (N.eqb_sym 10 c).
      destruct (N.eqb c 10) eqn:E.
      * destruct j as [|j]; [lia|]. cbn [nth] in Hn. cbn [length] in Hj.
        specialize (IH (S i) (S i) p j). cbn [length nth] in IH.
        assert (j <= count_c 10 (firstn p r)) by (apply IH; lia). lia.
      * specialize (IH (S i) a p j). cbn [length] in IH.
        assert (j <= count_c 10 (firstn p r)) by (apply IH; lia). lia.
Qed.

Theorem lineno_colno_inverse o s p l c : p <= length s ->
  lineno_colno o s p = Some (l, c) ->
  let k := Z.to_nat (l - line_offset o) in
  k < length (line_starts s) /\
  (Z.of_nat (nth k (line_starts s) 0%nat) + (c - col_off o k) = Z.of_nat p)%Z /\
  (forall j, j < length (line_starts s) -> nth j (line_starts s) 0 <= p -> j <= k).
Proof.
  intros Hp H. rewrite lineno_colno_is_spec in H by exact Hp.
  injection H as <- <-. cbn zeta.
  replace (Z.to_nat (Z.of_nat (spec_line s p) + line_offset o - line_offset o))
    with (spec_line s p) by lia.
  unfold spec_line, spec_col, line_starts.
  pose proof (nth_line_start s 0 0 p (le_n 0) Hp) as N1. cbn [Nat.add Nat.sub] in N1.
  repeat split.
  - apply count_lt_len. exact Hp.
  - lia.
  - intros j Hj Hn. apply (later_lines_start_after s 0 0 p j); auto.
Qed.

(** totality, also beyond the end of the string (the Python never asserts) *)
Theorem lineno_colno_total o s p : exists lc, lineno_colno o s p = Some lc.
Proof.
  unfold lineno_colno, line_starts. cbn [bisect_right Nat.leb]. eexists. reflexivity.
Qed.

(** the column is the distance back to the nearest preceding newline *)
Theorem spec_col_meaning s p : p <= length s ->
  spec_col s p <= p /\
  (forall j, p - spec_col s p <= j -> j < p -> nth j s 0%N <> 10%N) /\
  (spec_col s p < p -> nth (p - spec_col s p - 1) s 0%N = 10%N).
Proof.
  intros Hp. unfold spec_col.
  assert (L : length (firstn p s) = p) by (rewrite firstn_length; lia).
  pose proof (tl_len_le (firstn p s) 0) as A. rewrite L in A. cbn [Nat.add] in A.
  assert (NTH : forall j, j < p -> nth j (firstn p s) 0%N = nth j s 0%N).
  { intros j Hj. rewrite <- (firstn_skipn p s) at 2. rewrite app_nth1 by lia. reflexivity. }
  repeat split.
  - exact A.
  - intros j H1 H2. rewrite <- NTH by exact H2.
    apply (tl_len_no_newline (firstn p s) 0); rewrite ?L; cbn [Nat.add]; lia.
  - intros H. pose proof (tl_len_newline_before (firstn p s)) as C.
    rewrite L in C. rewrite <- NTH by lia. apply C. exact H.
Qed.
