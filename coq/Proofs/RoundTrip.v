(** C02 — the printer/parser round trip for the core document grammar
    ([Doc/DocGrammar.v]): a backward simulation of the nodes collector along
    the written document, by induction on document size, generalised over the
    FOLLOW string (what comes after the items: trailing whitespace and a
    closing delimiter, or the end of input).  Fuel is tracked in sum form
    (eight units per written character), so the result is about
    [parse_top] with its own fuel [8 * |s| + 40]. *)
From Coq Require Import NArith List Bool Arith Lia.
From PLV Require Import Base.PyStr Tok.PState Tok.Tokenizer Parse.Nodes Parse.Parser Parse.ParseWire
                        Proofs.PyStrFacts Proofs.ParserMono Proofs.ParserErrorsBase
                        Doc.DocGrammar Proofs.RoundTripTok Proofs.RoundTripRules.
Import ListNotations.

(** * Unfolding the nested definitions *)
Lemma node_of_grp cx ps p0 ws b tr :
  node_of cx ps p0 (Grp ws b tr) =
  let r := absorb cx ps (S p0) cs_empty b in
  Some (NGroup p0 (snd r + length tr + 1) (ps_mode ps) [123%N] [125%N]
               (Some (gen_nodelist (S p0) (cs_acc (close_state ps (fst r) tr (snd r)))))).
Proof. reflexivity. Qed.

Lemma node_of_math cx ps p0 ws k b tr :
  node_of cx ps p0 (Math ws k b tr) =
  let mps := ps_enter_math ps (Some (m_open k)) in
  let start := p0 + length (m_open k) in
  let r := absorb cx mps start cs_empty b in
  Some (NMath p0 (snd r + length tr + length (m_close k)) (ps_mode ps) (m_display k) (m_open k) (m_close k)
              (Some (gen_nodelist start (cs_acc (close_state mps (fst r) tr (snd r)))))).
Proof. reflexivity. Qed.

Lemma node_of_mac cx ps p0 ws name post args sp l :
  get_macro_spec cx name = Some sp -> sp_args sp = APStd l ->
  node_of cx ps p0 (Mac ws name post args) =
  let ar := arg_nodes cx ps (p0 + 1 + length name + length post) args l in
  Some (NMacro p0 (snd ar) (ps_mode ps) name post (Some (map a_spec l, fst ar))).
Proof. intros A B. cbn [node_of]. rewrite A, B. reflexivity. Qed.

Lemma ok_item_grp cx ps ws b tr nxt :
  ok_item cx ps (Grp ws b tr) nxt = ws_ok ws && ws_ok tr && ok_items cx ps b (hd_error (tr ++ [125%N])).
Proof. reflexivity. Qed.

Lemma ok_item_math cx ps ws k b tr nxt :
  ok_item cx ps (Math ws k b tr) nxt =
  negb (f_in_math (ps_f ps)) && ws_ok ws && ws_ok tr
  && ok_items cx (ps_enter_math ps (Some (m_open k))) b (hd_error (tr ++ m_close k))
  && match k with
     | MDollar => match unparse_items b ++ tr with [] => false | c :: _ => negb (N.eqb c 36) end
     | _ => true
     end.
Proof. reflexivity. Qed.

Lemma ok_item_mac cx ps ws name post args nxt sp l :
  get_macro_spec cx name = Some sp -> sp_args sp = APStd l ->
  ok_item cx ps (Mac ws name post args) nxt =
  ws_ok ws && ws_ok post && name_ok name post
  && (ok_args cx ps args l && mac_follow_ok name post (hd_error (unparse_items args ++ ostr nxt))).
Proof. intros A B. cbn [ok_item]. rewrite A, B. reflexivity. Qed.

Lemma ok_items_cons cx ps j r fh :
  ok_items cx ps (j :: r) fh = ok_item cx ps j (hd_error (unparse_items r ++ ostr fh)) && ok_items cx ps r fh.
Proof. reflexivity. Qed.

Lemma absorb_cons cx ps p st j r :
  absorb cx ps p st (j :: r) = absorb cx ps (p + ilen j) (absorb_item cx ps p st j) r.
Proof. reflexivity. Qed.

Lemma absorb_pos cx ps l : forall p st, snd (absorb cx ps p st l) = p + length (unparse_items l).
Proof.
  induction l as [|j l IH]; intros p st; [cbn; lia|].
  rewrite absorb_cons, IH. unfold unparse_items, ilen. cbn [flat_map]. rewrite app_length. lia.
Qed.

Lemma arg_nodes_pos cx ps al : forall p specs, length al = length specs ->
  snd (arg_nodes cx ps p al specs) = p + length (unparse_items al).
Proof.
  induction al as [|a al IH]; intros p [|spc specs] L; try discriminate; [cbn; lia|].
  cbn [arg_nodes snd]. cbn [length] in L. rewrite IH by lia.
  unfold unparse_items, ilen. cbn [flat_map]. rewrite app_length. lia.
Qed.

(** * Sizes *)
Fixpoint isize (i : item) : nat :=
  match i with
  | Text _ _ => 1
  | Grp _ b _ => S (fold_right (fun i n => isize i + n) 0 b)
  | Mac _ _ _ a => S (fold_right (fun i n => isize i + n) 0 a)
  | Math _ _ b _ => S (fold_right (fun i n => isize i + n) 0 b)
  | Cmt _ _ _ => 1
  | Par _ _ => 1
  end.
Definition lsize (l : list item) := fold_right (fun i n => isize i + n) 0 l.
Lemma isize_pos i : 1 <= isize i. Proof. destruct i; cbn; lia. Qed.
Lemma lsize_cons i l : lsize (i :: l) = isize i + lsize l. Proof. reflexivity. Qed.

(** * Small facts *)
Lemma hd_error_ostr (a b : str) : hd_error (a ++ ostr (hd_error b)) = hd_error (a ++ b).
Proof. destruct a; [destruct b|]; reflexivity. Qed.

Lemma otest_hd_not f (x : str) : otest f (hd_error x) = false -> hd_not f x.
Proof. destruct x; cbn; auto. Qed.

Lemma space_123 : is_space 123 = false. Proof. vm_compute. reflexivity. Qed.
Lemma space_125 : is_space 125 = false. Proof. vm_compute. reflexivity. Qed.
Lemma space_92 : is_space 92 = false. Proof. vm_compute. reflexivity. Qed.
Lemma space_36 : is_space 36 = false. Proof. vm_compute. reflexivity. Qed.

Lemma ilen_par ws mid : ilen (Par ws mid) = length ws + 1 + length mid + 1.
Proof. unfold ilen. cbn [unparse_item]. rewrite app_length. cbn [length]. rewrite app_length. cbn [length]. lia. Qed.

Lemma ilen_cmt ws text post : ilen (Cmt ws text post) = length ws + 1 + length text + length post.
Proof. unfold ilen. cbn [unparse_item]. rewrite app_length. cbn [length]. rewrite app_length. lia. Qed.

Lemma opts_ok_grp ps : opts_ok ps (grp_opts ps).
Proof.
  repeat split. intros t. unfold child_state, grp_opts. cbn [g_child]. destruct (_ && _); reflexivity.
Qed.

Lemma opts_ok_math ps k : f_in_math (ps_f ps) = true -> opts_ok ps (math_opts k).
Proof. intros M. repeat split; [destruct k; reflexivity | exact M]. Qed.

Lemma opts_ok_top ps : opts_ok ps top_opts.
Proof. repeat split. Qed.

Lemma expect_enter ps k : Good ps ->
  c_expect_close (ps_c (ps_enter_math ps (Some (m_open k)))) = Some (m_close k, m_tok k).
Proof.
  intros G. rewrite (good_expect _ (good_enter_math ps (Some (m_open k)) G)).
  destruct (enter_math_fields ps (m_open k)) as [H1 H2]. unfold compute_expect. rewrite H1, H2. cbn [negb].
  rewrite BO_eq. destruct k; reflexivity.
Qed.

Section Sim.
  Variable s : str.
  Variable cx : context.
  Notation R := (run s false cx).

  Lemma lift n n' t r : R n t = r -> r <> OutOfFuel -> n <= n' -> R n' t = r.
  Proof. intros H NR L. eapply run_mono; eassumption. Qed.

  (** ** text *)
  Lemma chars_sim ps o r k : Std cx ps -> opts_ok ps o -> r <> OutOfFuel ->
    forall cs st q pre pos fol,
    forallb (inert cx) cs = true -> skipn pos s = cs ++ fol ->
    R k (TCollect ps o (push_pending st (pre ++ cs) q) (pos + length cs)) = r ->
    R (k + length cs) (TCollect ps o (push_pending st pre q) pos) = r.
  Proof.
    intros SD OK NR. pose proof (std_view_of cx ps SD) as V.
    induction cs as [|c cs IH]; intros st q pre pos fol IN SK H.
    - cbn [length] in *. rewrite app_nil_r, Nat.add_0_r in H. rewrite Nat.add_0_r. exact H.
    - cbn [forallb] in IN. apply andb_true_iff in IN. destruct IN as [I1 I2].
      cbn [length]. replace (k + S (length cs)) with (S (k + length cs)) by lia.
      destruct (inert_facts cx c I1) as (SP & _).
      assert (T : impl_peek ps s pos = TokOk (mk TkChar [c] (pos + length (@nil N)) (S (pos + length (@nil N))) [] [])).
      { rewrite (impl_peek_dispatch ps s pos [] c (cs ++ fol) eq_refl SK SP).
        apply (dispatch_char cx ps V). exact I1. }
      apply (rule_char s cx _ ps o _ pos [] c r OK T).
      cbn [length app]. rewrite Nat.add_0_r, push_pending_twice.
      apply (IH st q (pre ++ [c]) (S pos) fol I2).
      + apply (skipn_shift s [c] (cs ++ fol)) in SK.
        cbn [length] in SK. replace (S pos) with (pos + 1) by lia. exact SK.
      + rewrite <- app_assoc. cbn [app length] in *. replace (S pos + length cs) with (pos + S (length cs)) by lia.
        exact H.
  Qed.

  Lemma text_sim ps o r k st pos ws c cs fol : Std cx ps -> opts_ok ps o -> r <> OutOfFuel ->
    ws_ok ws = true -> forallb (inert cx) (c :: cs) = true -> skipn pos s = ws ++ (c :: cs) ++ fol ->
    R k (TCollect ps o (push_pending st (ws ++ c :: cs) pos) (pos + length (ws ++ c :: cs))) = r ->
    R (k + 8 * length (ws ++ c :: cs)) (TCollect ps o st pos) = r.
  Proof.
    intros SD OK NR W IN SK H. pose proof (std_view_of cx ps SD) as V.
    cbn [forallb] in IN. apply andb_true_iff in IN. destruct IN as [I1 I2].
    destruct (inert_facts cx c I1) as (SP & _).
    assert (T : impl_peek ps s pos = TokOk (mk TkChar [c] (pos + length ws) (S (pos + length ws)) ws [])).
    { cbn [app] in SK. rewrite (impl_peek_dispatch ps s pos ws c (cs ++ fol) W SK SP).
      apply (dispatch_char cx ps V). exact I1. }
    apply (lift (S (k + length cs))); [|exact NR|rewrite app_length; cbn [length]; lia].
    apply (rule_char s cx _ ps o _ pos ws c r OK T).
    apply (chars_sim ps o r k SD OK NR cs st pos (ws ++ [c]) (S (pos + length ws)) fol I2).
    - cbn [app] in SK. change (c :: cs ++ fol) with ([c] ++ cs ++ fol) in SK. rewrite app_assoc in SK.
      apply (skipn_shift s (ws ++ [c]) (cs ++ fol)) in SK. rewrite app_length in SK. cbn [length] in SK.
      replace (S (pos + length ws)) with (pos + (length ws + 1)) by lia. exact SK.
    - rewrite <- app_assoc. cbn [app]. rewrite app_length in H. cbn [length] in H.
      replace (S (pos + length ws) + length cs) with (pos + (length ws + S (length cs))) by lia. exact H.
  Qed.

  (** ** the induction hypothesis of the simulation, as a parameter *)
  Definition SimN (n : nat) : Prop :=
    forall l, lsize l <= n -> forall ps o st pos fol k r,
    Std cx ps -> opts_ok ps o -> r <> OutOfFuel ->
    ok_items cx ps l (hd_error fol) = true ->
    skipn pos s = unparse_items l ++ fol ->
    R k (TCollect ps o (fst (absorb cx ps pos st l)) (pos + length (unparse_items l))) = r ->
    R (k + 8 * length (unparse_items l)) (TCollect ps o st pos) = r.

  Lemma hd_error_close (tr cl rest : str) c : hd_error (tr ++ c :: cl ++ rest) = hd_error (tr ++ c :: cl).
  Proof. destruct tr; reflexivity. Qed.
  Lemma hd_error_app2 (tr x y : str) c : hd_error (tr ++ c :: x) = hd_error (tr ++ c :: y).
  Proof. destruct tr; reflexivity. Qed.

  (** ** a braced group, from its opening brace *)
  Lemma grp_run n : SimN n -> forall ps p0 ws b tr rest,
    Std cx ps -> lsize b <= n ->
    ws_ok tr = true -> ok_items cx ps b (hd_error (tr ++ [125%N])) = true ->
    skipn p0 s = 123%N :: unparse_items b ++ tr ++ 125%N :: rest ->
    R (3 + 8 * length (unparse_items b)) (TGroup ps (GDStr [123%N]) false false p0)
    = Ok (ONode (node_of cx ps p0 (Grp ws b tr))) (p0 + 1 + length (unparse_items b) + length tr + 1).
  Proof.
    intros IH ps p0 ws b tr rest SD SZ W OKB SK. pose proof (std_view_of cx ps SD) as V.
    assert (T1 : impl_peek ps s p0 = TokOk (mk TkBraceOpen [123%N] p0 (S p0) [] [])).
    { rewrite (impl_peek_dispatch ps s p0 [] 123%N _ eq_refl SK space_123). cbn [length].
      rewrite Nat.add_0_r. apply (dispatch_open cx ps V). }
    set (pb := S p0 + length (unparse_items b)).
    assert (SKb : skipn (S p0) s = unparse_items b ++ tr ++ 125%N :: rest) by (apply skipn_S_of in SK; exact SK).
    assert (SKc : skipn pb s = tr ++ 125%N :: rest) by (apply skipn_shift in SKb; exact SKb).
    assert (T2 : impl_peek ps s pb = TokOk (mk TkBraceClose [125%N] (pb + length tr) (S (pb + length tr)) tr [])).
    { rewrite (impl_peek_dispatch ps s pb tr 125%N rest W SKc space_125). apply (dispatch_close cx ps V). }
    set (A := absorb cx ps (S p0) cs_empty b).
    pose proof (rule_stop s cx 0 ps (grp_opts ps) (fst A) pb _ (opts_ok_grp ps) T2 eq_refl) as S1.
    cbn [mk tpre tpos] in S1. rewrite Nat.add_sub in S1.
    assert (S2 : R (1 + 8 * length (unparse_items b)) (TCollect ps (grp_opts ps) cs_empty (S p0))
                 = Ok (OColl (close_state ps (fst A) tr pb)
                             (Some (mk TkBraceClose [125%N] (pb + length tr) (S (pb + length tr)) tr [])) false false)
                      (pb + length tr)).
    { apply (IH b SZ ps (grp_opts ps) cs_empty (S p0) (tr ++ 125%N :: rest) 1 _ SD (opts_ok_grp ps));
        [discriminate| |exact SKb|exact S1].
      change (125%N :: rest) with (125%N :: [] ++ rest). rewrite (hd_error_close tr [] rest 125%N). exact OKB. }
    pose proof (rule_general_stop s cx _ ps (grp_opts ps) (S p0) _ _ _ eq_refl eq_refl eq_refl S2) as S3.
    cbn [mk tend] in S3.
    pose proof (rule_tgroup s cx _ ps p0 _ _ (sv_gdelims _ _ V) T1 S3) as S4.
    replace (3 + 8 * length (unparse_items b)) with (S (S (1 + 8 * length (unparse_items b)))) by lia.
    rewrite S4, node_of_grp. cbn zeta. fold A.
    assert (PA : snd A = pb) by (unfold A; rewrite absorb_pos; reflexivity). rewrite PA.
    replace (pb + length tr + 1) with (S (pb + length tr)) by lia.
    replace (p0 + 1 + length (unparse_items b) + length tr + 1) with (S (pb + length tr)) by (unfold pb; lia).
    reflexivity.
  Qed.

  (** ** math, from its opening delimiter *)
  Lemma math_run n : SimN n -> forall ps p0 ws k b tr rest,
    Std cx ps -> f_in_math (ps_f ps) = false -> lsize b <= n ->
    ws_ok tr = true ->
    ok_items cx (ps_enter_math ps (Some (m_open k))) b (hd_error (tr ++ m_close k)) = true ->
    (k = MDollar -> hd_not (fun c => N.eqb c 36) (unparse_items b ++ tr ++ m_close k ++ rest)) ->
    skipn p0 s = m_open k ++ unparse_items b ++ tr ++ m_close k ++ rest ->
    R (3 + 8 * length (unparse_items b)) (TMath ps (m_open k) p0)
    = Ok (ONode (node_of cx ps p0 (Math ws k b tr)))
         (p0 + length (m_open k) + length (unparse_items b) + length tr + length (m_close k)).
  Proof.
    intros IH ps p0 ws k b tr rest SD M SZ W OKB DL SK. pose proof (std_view_of cx ps SD) as V.
    set (mps := ps_enter_math ps (Some (m_open k))) in *.
    assert (SD' : Std cx mps) by (apply std_enter_math; exact SD).
    pose proof (std_view_of cx mps SD') as V'.
    assert (M' : f_in_math (ps_f mps) = true) by (apply enter_math_fields).
    pose proof (expect_enter ps k (proj1 SD)) as E. fold mps in E.
    assert (T1 : impl_peek ps s p0 = TokOk (mk (m_tok k) (m_open k) p0 (p0 + length (m_open k)) [] [])).
    { pose proof (dispatch_math_open cx ps V s p0 [] k _ M DL) as D.
      destruct k; cbn [m_open app] in SK.
      - rewrite (impl_peek_dispatch ps s p0 [] 36%N _ eq_refl SK space_36). cbn [length]. rewrite Nat.add_0_r. exact D.
      - rewrite (impl_peek_dispatch ps s p0 [] 92%N _ eq_refl SK space_92). cbn [length]. rewrite Nat.add_0_r. exact D.
      - rewrite (impl_peek_dispatch ps s p0 [] 92%N _ eq_refl SK space_92). cbn [length]. rewrite Nat.add_0_r. exact D.
      - rewrite (impl_peek_dispatch ps s p0 [] 36%N _ eq_refl SK space_36). cbn [length]. rewrite Nat.add_0_r. exact D. }
    set (st0 := p0 + length (m_open k)).
    set (pb := st0 + length (unparse_items b)).
    assert (SKb : skipn st0 s = unparse_items b ++ tr ++ m_close k ++ rest) by (apply skipn_shift in SK; exact SK).
    assert (SKc : skipn pb s = tr ++ m_close k ++ rest) by (apply skipn_shift in SKb; exact SKb).
    assert (T2 : impl_peek mps s pb
                 = TokOk (mk (m_tok k) (m_close k) (pb + length tr) (pb + length tr + length (m_close k)) tr [])).
    { destruct k; cbn [m_close app] in SKc.
      - rewrite (impl_peek_dispatch mps s pb tr 36%N _ W SKc space_36).
        exact (dispatch_math_close cx mps V' s _ tr _ _ 36%N [] rest M' E eq_refl (or_introl eq_refl)).
      - rewrite (impl_peek_dispatch mps s pb tr 92%N _ W SKc space_92).
        exact (dispatch_math_close cx mps V' s _ tr _ _ 92%N [41%N] rest M' E eq_refl (or_intror eq_refl)).
      - rewrite (impl_peek_dispatch mps s pb tr 92%N _ W SKc space_92).
        exact (dispatch_math_close cx mps V' s _ tr _ _ 92%N [93%N] rest M' E eq_refl (or_intror eq_refl)).
      - rewrite (impl_peek_dispatch mps s pb tr 36%N _ W SKc space_36).
        exact (dispatch_math_close cx mps V' s _ tr _ _ 36%N [36%N] rest M' E eq_refl (or_introl eq_refl)). }
    set (A := absorb cx mps st0 cs_empty b).
    assert (SM : stop_matches (g_stop (math_opts k))
                   (mk (m_tok k) (m_close k) (pb + length tr) (pb + length tr + length (m_close k)) tr []) = true)
      by (destruct k; reflexivity).
    pose proof (rule_stop s cx 0 mps (math_opts k) (fst A) pb _ (opts_ok_math mps k M') T2 SM) as S1.
    cbn [mk tpre tpos] in S1. rewrite Nat.add_sub in S1.
    assert (S2 : R (1 + 8 * length (unparse_items b)) (TCollect mps (math_opts k) cs_empty st0)
                 = Ok (OColl (close_state mps (fst A) tr pb)
                             (Some (mk (m_tok k) (m_close k) (pb + length tr) (pb + length tr + length (m_close k)) tr []))
                             false false) (pb + length tr)).
    { apply (IH b SZ mps (math_opts k) cs_empty st0 (tr ++ m_close k ++ rest) 1 _ SD' (opts_ok_math mps k M'));
        [discriminate| |exact SKb|exact S1].
      destruct k; cbn [m_close app] in *; [rewrite (hd_error_app2 tr rest [] 36%N)
                                          |rewrite (hd_error_app2 tr (41%N :: rest) [41%N] 92%N)
                                          |rewrite (hd_error_app2 tr (93%N :: rest) [93%N] 92%N)
                                          |rewrite (hd_error_app2 tr (36%N :: rest) [36%N] 36%N)]; exact OKB. }
    pose proof (rule_general_stop s cx _ mps (math_opts k) st0 _ _ _ eq_refl eq_refl eq_refl S2) as S3.
    cbn [mk tend] in S3.
    pose proof (rule_tmath s cx _ ps k p0 _ _ _ T1 E S3) as S4.
    replace (3 + 8 * length (unparse_items b)) with (S (S (1 + 8 * length (unparse_items b)))) by lia.
    rewrite S4, node_of_math. cbn zeta. fold mps. fold st0. fold A.
    assert (PA : snd A = pb) by (unfold A; rewrite absorb_pos; reflexivity). rewrite PA.
    reflexivity.
  Qed.

  (** ** the arguments of a macro call *)
  Lemma ok_args_length ps args : forall l, ok_args cx ps args l = true -> length args = length l.
  Proof.
    induction args as [|a args IH]; intros [|spc l] H; try discriminate; [reflexivity|].
    cbn [ok_args] in H. apply andb_true_iff in H. destruct H as [_ H]. cbn [length]. f_equal. apply IH. exact H.
  Qed.

  Lemma ilen_grp ws b tr : ilen (Grp ws b tr) = length ws + 1 + length (unparse_items b) + length tr + 1.
  Proof.
    unfold ilen, unparse_items. cbn [unparse_item]. rewrite app_length. cbn [length].
    rewrite !app_length. cbn [length]. lia.
  Qed.
  Lemma ilen_math ws k b tr :
    ilen (Math ws k b tr) = length ws + length (m_open k) + length (unparse_items b) + length tr + length (m_close k).
  Proof. unfold ilen, unparse_items. cbn [unparse_item]. rewrite !app_length. lia. Qed.
  Lemma ilen_mac ws name post args :
    ilen (Mac ws name post args) = length ws + 1 + length name + length post + length (unparse_items args).
  Proof.
    unfold ilen, unparse_items. cbn [unparse_item]. rewrite app_length. cbn [length]. rewrite !app_length. lia.
  Qed.

  Lemma args_run n : SimN n -> forall args l ps acc pa fol,
    Std cx ps -> lsize args <= n -> ok_args cx ps args l = true ->
    skipn pa s = unparse_items args ++ fol ->
    R (1 + 8 * length (unparse_items args)) (TArgs ps l acc pa)
    = Ok (OArgs (Some ([], acc ++ fst (arg_nodes cx ps pa args l)))) (pa + length (unparse_items args)).
  Proof.
    intros IH. induction args as [|a args IHa]; intros [|spc l] ps acc pa fol SD SZ OKA SK; try discriminate.
    - cbn [unparse_items flat_map length arg_nodes fst]. rewrite app_nil_r. replace (pa + 0) with pa by lia.
      reflexivity.
    - cbn [ok_args] in OKA. apply andb_true_iff in OKA. destruct OKA as [OKA OKR].
      apply andb_true_iff in OKA. destruct OKA as [KD OKI].
      destruct (a_kind spc) as [aps| | |] eqn:AK; try discriminate.
      destruct a as [|ws b tr| | | |]; try discriminate. destruct ws; [|discriminate].
      set (ps' := apply_adelta ps (a_delta spc)) in *.
      assert (SD' : Std cx ps') by (apply std_adelta; exact SD).
      rewrite ok_item_grp in OKI. apply andb_true_iff in OKI. destruct OKI as [OKI OKB].
      apply andb_true_iff in OKI. destruct OKI as [_ W].
      rewrite lsize_cons in SZ. cbn [isize] in SZ. fold (lsize b) in SZ.
      assert (SK' : skipn pa s = 123%N :: unparse_items b ++ tr ++ 125%N :: (unparse_items args ++ fol)).
      { unfold unparse_items in *. cbn [flat_map unparse_item app] in SK.
        rewrite <- !app_assoc in SK. cbn [app] in SK. rewrite <- ?app_assoc in SK. exact SK. }
      assert (TP : forall q, Std cx q -> impl_peek q s pa = TokOk (mk TkBraceOpen [123%N] pa (S pa) [] [])).
      { intros q SQ. rewrite (impl_peek_dispatch q s pa [] 123%N _ eq_refl SK' space_123). cbn [length].
        rewrite Nat.add_0_r. apply (dispatch_open cx q (std_view_of cx q SQ)). }
      pose proof (grp_run n IH ps' pa [] b tr (unparse_items args ++ fol) SD' ltac:(lia) W OKB SK') as G.
      pose proof (rule_texpr s cx _ ps' aps aps true pa _ _ (TP _ (std_no_envs cx ps' SD')) G) as G2.
      pose proof (rule_tstdarg s cx _ ps' aps pa _ _ G2) as G3.
      set (nd := node_of cx ps' pa (Grp [] b tr)) in *.
      set (pe := pa + 1 + length (unparse_items b) + length tr + 1) in *.
      assert (PE : pe = pa + ilen (Grp [] b tr)) by (rewrite ilen_grp; cbn [length]; unfold pe; lia).
      assert (SKr : skipn pe s = unparse_items args ++ fol).
      { change (123%N :: unparse_items b ++ tr ++ 125%N :: unparse_items args ++ fol)
          with ([123%N] ++ unparse_items b ++ tr ++ [125%N] ++ unparse_items args ++ fol) in SK'.
        apply skipn_shift in SK'. apply skipn_shift in SK'. apply skipn_shift in SK'. apply skipn_shift in SK'.
        cbn [length] in SK'. exact SK'. }
      pose proof (IHa l ps (acc ++ [nd]) pe fol SD ltac:(lia) OKR SKr) as A.
      set (N0 := 6 + 8 * length (unparse_items b) + 8 * length (unparse_items args)).
      assert (L : length (unparse_items (Grp [] b tr :: args)) = ilen (Grp [] b tr) + length (unparse_items args)).
      { unfold unparse_items, ilen. cbn [flat_map]. rewrite app_length. reflexivity. }
      apply (lift (S N0)); [|discriminate|rewrite L, ilen_grp; unfold N0; cbn [length]; lia].
      rewrite <- AK in G3.
      apply (rule_targs_cons s cx N0 ps spc l acc pa _ nd pe _ (TP ps SD)).
      + apply (lift _ N0) in G3; [exact G3|discriminate|unfold N0; lia].
      + apply (lift _ N0) in A; [|discriminate|unfold N0; lia]. rewrite A.
        cbn [arg_nodes fst snd]. fold ps'. fold nd. rewrite <- PE, <- app_assoc. cbn [app].
        rewrite L, PE. f_equal. lia.
  Qed.

  (** ** one item *)
  Lemma item_sim n : SimN n -> forall i ps o st pos fol k r,
    isize i <= S n -> Std cx ps -> opts_ok ps o -> r <> OutOfFuel ->
    ok_item cx ps i (hd_error fol) = true ->
    skipn pos s = unparse_item i ++ fol ->
    R k (TCollect ps o (absorb_item cx ps pos st i) (pos + ilen i)) = r ->
    R (k + 8 * ilen i) (TCollect ps o st pos) = r.
  Proof.
    intros IH i ps o st pos fol k r SZ SD OK NR OKI SK H. pose proof (std_view_of cx ps SD) as V.
    destruct i as [ws cs|ws b tr|ws name post args|ws mk b tr|ws text post|ws mid]; cycle 4.
    - (* comment *)
      cbn [ok_item] in OKI. apply andb_true_iff in OKI. destruct OKI as [OKI FO].
      apply andb_true_iff in OKI. destruct OKI as [OKI NLs].
      apply andb_true_iff in OKI. destruct OKI as [OKI Wp].
      apply andb_true_iff in OKI. destruct OKI as [W NT].
      apply negb_true_iff in NT. apply negb_true_iff in FO.
      assert (EW : exists w, post = 10%N :: w).
      { destruct post as [|c w]; [discriminate|]. destruct c as [|q]; try discriminate.
        repeat (destruct q as [q|q|]; try discriminate). exists w. reflexivity. }
      assert (SK' : skipn pos s = ws ++ 37%N :: text ++ post ++ fol).
      { cbn [unparse_item] in SK. rewrite <- !app_assoc in SK. cbn [app] in SK. rewrite <- !app_assoc in SK. exact SK. }
      pose proof (skipn_shift _ _ _ _ SK') as SK0.
      assert (T : impl_peek ps s pos
                  = TokOk (Tokenizer.mk TkComment text (pos + length ws)
                              (pos + length ws + 1 + length text + length post) ws post)).
      { rewrite (impl_peek_dispatch ps s pos ws 37%N _ W SK' space_37).
        apply (dispatch_comment cx ps V s _ ws text post fol SK0 NT Wp EW). apply otest_hd_not. exact FO. }
      cbn [absorb_item item_ws node_of] in H. rewrite ilen_cmt in H |- *.
      apply (lift (S k)); [|exact NR|lia].
      apply (rule_comment s cx k ps o st pos ws text _ post r OK T).
      replace (pos + (length ws + 1 + length text + length post))
        with (pos + length ws + 1 + length text + length post) in H by lia. exact H.
    - (* paragraph break *)
      cbn [ok_item] in OKI. apply andb_true_iff in OKI. destruct OKI as [OKI PS].
      apply andb_true_iff in OKI. destruct OKI as [OKI FO].
      apply andb_true_iff in OKI. destruct OKI as [OKI WM].
      apply andb_true_iff in OKI. destruct OKI as [W NW].
      apply negb_true_iff in NW. apply negb_true_iff in FO.
      cbn [absorb_item item_ws node_of] in H. rewrite PS in H.
      unfold par_spec_ok in PS.
      destruct (get_specials_spec cx [10;10]%N) as [sp|] eqn:GS; [|discriminate].
      destruct (sp_args sp) as [[|? ?]|] eqn:SA; try discriminate.
      assert (SK' : skipn pos s = ws ++ 10%N :: mid ++ 10%N :: fol).
      { cbn [unparse_item] in SK. rewrite <- !app_assoc in SK. cbn [app] in SK. rewrite <- !app_assoc in SK. exact SK. }
      pose proof (impl_peek_par cx ps s pos ws mid fol sp V SK' W NW WM (otest_hd_not _ _ FO) GS) as T.
      rewrite ilen_par in H |- *.
      apply (lift (S (k + 2))); [|exact NR|lia].
      eapply (rule_specials s cx (k + 2) ps o st pos ws [10;10]%N _ sp _ _ r OK GS T).
      + replace (k + 2) with (S (S k)) by lia. apply rule_tcall_specials. exact SA.
      + apply (lift _ (k + 2)) in H; [|exact NR|lia].
        replace (pos + (length ws + 1 + length mid + 1)) with (pos + length ws + 1 + length mid + 1) in H by lia.
        exact H.
    - (* text *)
      cbn [ok_item] in OKI. apply andb_true_iff in OKI. destruct OKI as [OKI IN].
      apply andb_true_iff in OKI. destruct OKI as [W NE]. destruct cs as [|c cs]; [discriminate|].
      cbn [unparse_item] in SK. rewrite <- app_assoc in SK.
      unfold ilen in *. cbn [unparse_item absorb_item] in *.
      apply (text_sim ps o r k st pos ws c cs fol SD OK NR W IN SK H).
    - (* group *)
      rewrite ok_item_grp in OKI. apply andb_true_iff in OKI. destruct OKI as [OKI OKB].
      apply andb_true_iff in OKI. destruct OKI as [W Wt].
      cbn [isize] in SZ. fold (lsize b) in SZ.
      assert (SK' : skipn pos s = ws ++ 123%N :: unparse_items b ++ tr ++ 125%N :: fol).
      { unfold unparse_items. cbn [unparse_item] in SK. rewrite <- !app_assoc in SK. cbn [app] in SK.
        rewrite <- !app_assoc in SK. exact SK. }
      assert (T : impl_peek ps s pos
                  = TokOk (mk TkBraceOpen [123%N] (pos + length ws) (S (pos + length ws)) ws [])).
      { rewrite (impl_peek_dispatch ps s pos ws 123%N _ W SK' space_123). apply (dispatch_open cx ps V). }
      pose proof (skipn_shift _ _ _ _ SK') as SK0.
      pose proof (grp_run n IH ps (pos + length ws) ws b tr fol SD ltac:(lia) Wt OKB SK0) as G.
      cbn [absorb_item item_ws] in H.
      set (N0 := k + 3 + 8 * length (unparse_items b)).
      apply (lift (S N0)); [|exact NR|rewrite ilen_grp; unfold N0; lia].
      eapply (rule_group s cx N0 ps o st pos ws _ _ r OK T).
      + apply (lift _ N0) in G; [exact G|discriminate|unfold N0; lia].
      + apply (lift _ N0) in H; [|exact NR|unfold N0; lia].
        rewrite ilen_grp in H.
        replace (pos + length ws + 1 + length (unparse_items b) + length tr + 1)
          with (pos + (length ws + 1 + length (unparse_items b) + length tr + 1)) by lia. exact H.
    - (* macro *)
      destruct (get_macro_spec cx name) as [sp|] eqn:GS;
        [|cbn [ok_item] in OKI; rewrite GS, andb_false_r in OKI; discriminate].
      destruct (sp_args sp) as [l|lk] eqn:SA;
        [|cbn [ok_item] in OKI; rewrite GS, SA, andb_false_r in OKI; discriminate].
      rewrite (ok_item_mac cx ps ws name post args _ sp l GS SA) in OKI.
      apply andb_true_iff in OKI. destruct OKI as [OKI OKA].
      apply andb_true_iff in OKA. destruct OKA as [OKA FO].
      apply andb_true_iff in OKI. destruct OKI as [OKI NM].
      apply andb_true_iff in OKI. destruct OKI as [W Wp].
      rewrite hd_error_ostr in FO.
      cbn [isize] in SZ. fold (lsize args) in SZ.
      set (p0 := pos + length ws).
      set (pe := p0 + 1 + length name + length post).
      assert (SK' : skipn pos s = ws ++ 92%N :: name ++ post ++ unparse_items args ++ fol).
      { unfold unparse_items. cbn [unparse_item] in SK. rewrite <- !app_assoc in SK. cbn [app] in SK.
        rewrite <- !app_assoc in SK. exact SK. }
      pose proof (skipn_shift _ _ _ _ SK') as SK0. fold p0 in SK0.
      assert (T : impl_peek ps s pos = TokOk (mk TkMacro name p0 pe ws post)).
      { destruct name as [|c nm]; [discriminate|]. cbn [name_ok] in NM. cbn [mac_follow_ok] in FO.
        cbn [app] in SK', SK0.
        rewrite (impl_peek_dispatch ps s pos ws 92%N _ W SK' space_92). fold p0.
        destruct (is_alpha c) eqn:AC.
        - apply andb_true_iff in NM. destruct NM as [NM NE]. apply andb_true_iff in NM. destruct NM as [NA NB].
          apply negb_true_iff in NE. apply negb_true_iff in NB.
          apply andb_true_iff in FO. destruct FO as [F1 F2]. apply negb_true_iff in F1.
          rewrite (dispatch_macro_word cx ps V s p0 ws c nm post (unparse_items args ++ fol) SK0 AC NA Wp
                     (otest_hd_not _ _ F1)); [| |exact NB|exact NE].
          + unfold pe. cbn [length]. f_equal. f_equal. lia.
          + intros ->. apply negb_true_iff in F2. apply otest_hd_not. exact F2.
        - destruct nm; [|discriminate]. destruct post; [|discriminate].
          apply negb_true_iff in NM. cbn [mem_c existsb] in NM.
          repeat (apply orb_false_iff in NM; destruct NM as [? NM]).
          cbn [app] in SK0 |- *.
          rewrite (dispatch_macro_sym cx ps V s p0 ws c _ SK0 AC) by assumption.
          unfold pe. cbn [length]. f_equal. f_equal. lia. }
      assert (SKa : skipn pe s = unparse_items args ++ fol).
      { change (92%N :: name ++ post ++ unparse_items args ++ fol)
          with ([92%N] ++ name ++ post ++ unparse_items args ++ fol) in SK0.
        apply skipn_shift in SK0. apply skipn_shift in SK0. apply skipn_shift in SK0.
        cbn [length] in SK0. exact SK0. }
      pose proof (args_run n IH args l ps [] pe fol SD ltac:(lia) OKA SKa) as A. cbn [app] in A.
      pose proof (rule_tcall s cx _ ps name p0 pe post sp l _ _ SA A) as C.
      cbn [absorb_item item_ws] in H. fold p0 in H.
      rewrite (node_of_mac cx ps p0 ws name post args sp l GS SA) in H. cbn zeta in H. fold pe in H.
      rewrite (arg_nodes_pos cx ps args pe l (ok_args_length ps args l OKA)) in H.
      set (N0 := k + 2 + 8 * length (unparse_items args)).
      assert (NL : 1 <= length name) by (destruct name; [discriminate|cbn; lia]).
      apply (lift (S N0)); [|exact NR|rewrite ilen_mac; unfold N0; lia].
      eapply (rule_macro s cx N0 ps o st pos ws name pe post sp _ _ r OK GS T).
      + apply (lift _ N0) in C; [exact C|discriminate|unfold N0; lia].
      + apply (lift _ N0) in H; [|exact NR|unfold N0; lia].
        rewrite ilen_mac in H.
        replace (pos + (length ws + 1 + length name + length post + length (unparse_items args)))
          with (pe + length (unparse_items args)) in H by (unfold pe, p0; lia). exact H.
    - (* math *)
      rewrite ok_item_math in OKI. apply andb_true_iff in OKI. destruct OKI as [OKI DL].
      apply andb_true_iff in OKI. destruct OKI as [OKI OKB].
      apply andb_true_iff in OKI. destruct OKI as [OKI Wt].
      apply andb_true_iff in OKI. destruct OKI as [M W]. apply negb_true_iff in M.
      cbn [isize] in SZ. fold (lsize b) in SZ.
      assert (SK' : skipn pos s = ws ++ m_open mk ++ unparse_items b ++ tr ++ m_close mk ++ fol).
      { unfold unparse_items. cbn [unparse_item] in SK. rewrite <- !app_assoc in SK. exact SK. }
      pose proof (skipn_shift _ _ _ _ SK') as SK0.
      assert (DL' : mk = MDollar -> hd_not (fun c => N.eqb c 36) (unparse_items b ++ tr ++ m_close mk ++ fol)).
      { intros ->. rewrite app_assoc. destruct (unparse_items b ++ tr) as [|c x]; [discriminate|].
        cbn [app hd_not]. apply negb_true_iff in DL. exact DL. }
      assert (T : impl_peek ps s pos
                  = TokOk (PLV.Tok.Tokenizer.mk (m_tok mk) (m_open mk) (pos + length ws)
                              (pos + length ws + length (m_open mk)) ws [])).
      { pose proof (dispatch_math_open cx ps V s (pos + length ws) ws mk _ M DL') as D.
        destruct mk; cbn [m_open app] in SK'.
        - rewrite (impl_peek_dispatch ps s pos ws 36%N _ W SK' space_36). exact D.
        - rewrite (impl_peek_dispatch ps s pos ws 92%N _ W SK' space_92). exact D.
        - rewrite (impl_peek_dispatch ps s pos ws 92%N _ W SK' space_92). exact D.
        - rewrite (impl_peek_dispatch ps s pos ws 36%N _ W SK' space_36). exact D. }
      pose proof (math_run n IH ps (pos + length ws) ws mk b tr fol SD M ltac:(lia) Wt OKB DL' SK0) as G.
      rewrite node_of_math in G. cbn zeta in G.
      cbn [absorb_item item_ws] in H. rewrite node_of_math in H. cbn zeta in H.
      set (N0 := k + 3 + 8 * length (unparse_items b)).
      apply (lift (S N0)); [|exact NR|rewrite ilen_math; unfold N0; destruct mk; cbn [m_open length]; lia].
      eapply (rule_math s cx N0 ps o st pos ws mk _ _ r OK (proj1 SD) M T).
      + apply (lift _ N0) in G; [exact G|discriminate|unfold N0; lia].
      + apply (lift _ N0) in H; [|exact NR|unfold N0; lia].
        rewrite ilen_math in H.
        replace (pos + length ws + length (m_open mk) + length (unparse_items b) + length tr + length (m_close mk))
          with (pos + (length ws + length (m_open mk) + length (unparse_items b) + length tr + length (m_close mk)))
          by lia. exact H.
  Qed.

  (** ** the simulation *)
  Theorem items_sim : forall n, SimN n.
  Proof.
    assert (NIL : forall ps o st pos k r,
              R k (TCollect ps o (fst (absorb cx ps pos st [])) (pos + length (unparse_items []))) = r ->
              R (k + 8 * length (unparse_items [])) (TCollect ps o st pos) = r).
    { intros ps o st pos k r H. cbn in H |- *. rewrite Nat.add_0_r in H |- *. exact H. }
    induction n as [|n IH]; intros l SZ ps o st pos fol k r SD OK NR OKL SK H.
    - destruct l as [|i l]; [apply NIL; exact H|]. rewrite lsize_cons in SZ. pose proof (isize_pos i). lia.
    - destruct l as [|i l]; [apply NIL; exact H|]. rewrite lsize_cons in SZ. pose proof (isize_pos i) as IP.
      rewrite ok_items_cons in OKL. apply andb_true_iff in OKL. destruct OKL as [OKI OKL].
      rewrite hd_error_ostr in OKI.
      assert (L : length (unparse_items (i :: l)) = ilen i + length (unparse_items l)).
      { unfold unparse_items, ilen. cbn [flat_map]. rewrite app_length. reflexivity. }
      assert (SK' : skipn pos s = unparse_item i ++ unparse_items l ++ fol).
      { unfold unparse_items in *. cbn [flat_map] in SK. rewrite <- app_assoc in SK. exact SK. }
      pose proof (skipn_shift _ _ _ _ SK') as SKl. fold (ilen i) in SKl.
      rewrite absorb_cons in H. rewrite L in H |- *.
      replace (pos + (ilen i + length (unparse_items l))) with (pos + ilen i + length (unparse_items l)) in H by lia.
      pose proof (IH l ltac:(lia) ps o (absorb_item cx ps pos st i) (pos + ilen i) fol k r SD OK NR OKL SKl H) as H2.
      pose proof (item_sim n IH i ps o st pos (unparse_items l ++ fol) _ r ltac:(lia) SD OK NR OKI SK' H2) as H3.
      apply (lift _ _ _ _ H3 NR). lia.
  Qed.
End Sim.

(** * The round-trip theorem *)
Theorem parse_unparse : forall cx d,
  ok_doc cx d = true ->
  parse_top (unparse d) false cx (walker_state cx) = doc_result cx d.
Proof.
  intros cx [items tr] OKD. unfold ok_doc, ok_doc_in in OKD. cbn [d_items d_trail] in OKD.
  apply andb_true_iff in OKD. destruct OKD as [OKL W].
  set (s := unparse {| d_items := items; d_trail := tr |}).
  set (ps := walker_state cx).
  assert (SD : Std cx ps) by apply std_walker.
  assert (SK : skipn 0 s = unparse_items items ++ tr) by reflexivity.
  set (A := absorb cx ps 0 cs_empty items).
  set (pe := 0 + length (unparse_items items)).
  assert (SKe : skipn pe s = tr) by (apply skipn_shift in SK; exact SK).
  assert (E : run s false cx 2 (TCollect ps top_opts (fst A) pe)
              = Ok (OColl (eos_state ps (fst A) tr pe) None false true) (pe + length tr)).
  { destruct tr as [|c w].
    - cbn [eos_state length]. rewrite Nat.add_0_r.
      apply (rule_eos s cx 1 ps top_opts (fst A) pe (opts_ok_top ps)).
      apply impl_peek_eos; [reflexivity | exact SKe].
    - cbn [eos_state].
      apply (rule_eos_ws s cx 1 ps top_opts (fst A) pe c w _ (impl_peek_eos ps s pe (c :: w) W SKe)).
      apply (rule_eos s cx 0 ps top_opts _ _ (opts_ok_top ps)).
      apply impl_peek_eos; [reflexivity|].
      assert (SKe' : skipn pe s = (c :: w) ++ []) by (rewrite app_nil_r; exact SKe).
      apply skipn_shift in SKe'. exact SKe'. }
  assert (NR : Ok (OColl (eos_state ps (fst A) tr pe) None false true) (pe + length tr) <> OutOfFuel)
    by discriminate.
  pose proof (items_sim s cx (lsize items) items (le_n _) ps top_opts cs_empty 0 tr 2 _ SD (opts_ok_top ps)
                NR OKL SK E) as S1.
  pose proof (rule_general_top s cx _ ps _ _ S1) as S2.
  assert (LS : length s = length (unparse_items items) + length tr) by (unfold s, unparse; apply app_length).
  unfold parse_top. fold s ps.
  rewrite (run_mono s false cx _ (parse_fuel s cx) _ _ S2 ltac:(discriminate)) by (pose proof (parse_fuel_ge s cx); lia).
  unfold doc_result, tree_of. cbn [parse_content d_items d_trail fst snd]. fold ps. fold A.
  assert (PA : snd A = pe) by (unfold A; rewrite absorb_pos; reflexivity). rewrite PA.
  fold s. rewrite LS. reflexivity.
Qed.
