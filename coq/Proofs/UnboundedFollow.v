(** C13 / C08, unbounded composition — the FOLLOW-STRING FACTORISATION of the
    side conditions of the extended document grammar.

    [ok_item2 cx ps ex i F] looks at the follow string [F] only through
    left-to-right scans (its first character, its leading whitespace run, the
    longest specials sequence at a position, [\begin] / [\end] with an
    environment name after an absent optional argument).  Every such scan
    stops at a STOPPER character ([UnboundedDefs.stopper]: not whitespace, not a
    letter, not an environment-name character, not the escape character or
    [{], in no specials sequence of the context; [}] and [$] under the
    default context).  Hence ([ok_item2_follow]): two follow strings with a
    common prefix that contains a stopper give the same verdict — for every
    item of the sub-grammar [subg] (no comment, environment, verbatim), every
    context, every state.

    Consequences used by the composition: a braced group, [$]-math, a macro
    call ending with a braced argument are CLOSED (their verdict does not
    depend on the follow string at all), and so the finite check
    [atoms_okb] of a chunk, evaluated with the empty follow string, holds with
    every follow string ([atoms_okb_sound]). *)
From Coq Require Import NArith List Bool Arith Lia.
From PLV Require Import Base.PyStr Tok.PState Tok.Tokenizer Parse.Nodes Parse.Parser Parse.ParseWire
                        Doc.DocGrammar Doc.DocGrammar2 Proofs.RoundTrip2 Proofs.UnboundedDefs.
Import ListNotations.
Local Open Scope N_scope.

(** * Scans stop at a character they do not accept *)
Lemma span_stop_app f (u : str) b Z : f b = false ->
  span f (u ++ b :: Z) = (fst (span f u), snd (span f u) ++ b :: Z).
Proof.
  intros Hb. induction u as [|c u IH]; cbn [app span fst snd].
  - rewrite Hb. reflexivity.
  - destruct (f c); [|reflexivity]. rewrite IH. destruct (span f u). reflexivity.
Qed.

Lemma startswith_stop (u : str) b Z Z' : forall sc, mem_c b sc = false ->
  startswith (u ++ b :: Z) sc = startswith (u ++ b :: Z') sc.
Proof.
  induction u as [|d u IH]; intros [|c sc] H; cbn [app startswith]; try reflexivity.
  - cbn [mem_c existsb] in H. apply orb_false_iff in H. destruct H as [H _].
    rewrite N.eqb_sym, H. reflexivity.
  - cbn [mem_c existsb] in H. apply orb_false_iff in H. destruct H as [_ H].
    rewrite (IH sc H). reflexivity.
Qed.

Lemma startswith_prefix_split (kw : str) b : mem_c b kw = false -> forall (u : str) Z,
  startswith (u ++ b :: Z) kw = true -> exists u', u = kw ++ u'.
Proof.
  induction kw as [|c kw IH]; intros H u Z S; [exists u; reflexivity|].
  cbn [mem_c existsb] in H. apply orb_false_iff in H. destruct H as [H1 H2].
  destruct u as [|d u]; cbn [app startswith] in S.
  - rewrite N.eqb_sym, H1 in S. discriminate.
  - apply andb_true_iff in S. destruct S as [S1 S2]. apply N.eqb_eq in S1. subst d.
    destruct (IH H2 u Z S2) as [u' ->]. exists u'. reflexivity.
Qed.

Lemma test_specials_stop (l : list str) (u : str) b Z Z' :
  forallb (fun sc : str => negb (mem_c b sc)) l = true -> forall best,
  test_specials l (u ++ b :: Z) best = test_specials l (u ++ b :: Z') best.
Proof.
  induction l as [|sc l IH]; intros H best; [reflexivity|].
  cbn [forallb] in H. apply andb_true_iff in H. destruct H as [H1 H2]. apply negb_true_iff in H1.
  cbn [test_specials]. rewrite (startswith_stop u b Z Z' sc H1).
  destruct (_ && _); apply IH; exact H2.
Qed.

Section Follow.
  Variable cx : context.
  Notation specs := (map fst (cx_specials cx)).

  (** two follow strings with a common prefix that contains a stopper *)
  Inductive R : str -> str -> Prop :=
  | R_intro (u : str) b Z Z' : stopper cx b = true -> R (u ++ b :: Z) (u ++ b :: Z').

  Lemma R_app Y F F' : R F F' -> R (Y ++ F) (Y ++ F').
  Proof. intros [u b Z Z' H]. rewrite !app_assoc. constructor. exact H. Qed.

  Lemma R_cons c F F' : R F F' -> R (c :: F) (c :: F').
  Proof. apply (R_app [c]). Qed.

  Lemma R_of_stopper (G : str) Z Z' : has_stopper cx G = true -> R (G ++ Z) (G ++ Z').
  Proof.
    unfold has_stopper. intros H. apply existsb_exists in H. destruct H as (b & Hin & Hb).
    apply in_split in Hin. destruct Hin as (u & v & ->).
    rewrite <- !app_assoc. cbn [app]. constructor. exact Hb.
  Qed.

  Lemma stopper_facts b : stopper cx b = true ->
    is_space b = false /\ is_alpha b = false /\ envname_char b = false /\ N.eqb b 92 = false /\ N.eqb b 123 = false
    /\ forallb (fun sc : str => negb (mem_c b sc)) specs = true.
  Proof.
    unfold stopper. intros H.
    repeat (apply andb_true_iff in H; destruct H as [H ?]).
    repeat match goal with X : negb _ = true |- _ => apply negb_true_iff in X end. tauto.
  Qed.

  (** ** the observations *)
  Lemma obs_hd F F' : R F F' -> hd_error F = hd_error F'.
  Proof. intros [u b Z Z' _]. destruct u; reflexivity. Qed.

  Lemma obs_nonnil F F' : R F F' -> is_nil F = false /\ is_nil F' = false.
  Proof. intros [u b Z Z' _]. destruct u; split; reflexivity. Qed.

  Lemma obs_span_fst F F' : R F F' -> fst (span is_space F) = fst (span is_space F').
  Proof.
    intros [u b Z Z' H]. destruct (stopper_facts b H) as (Hs & _).
    rewrite !(span_stop_app is_space u b _ Hs). reflexivity.
  Qed.

  Lemma obs_tspec F F' best : R F F' -> test_specials specs F best = test_specials specs F' best.
  Proof.
    intros [u b Z Z' H]. destruct (stopper_facts b H) as (_ & _ & _ & _ & _ & Hsp).
    apply test_specials_stop. exact Hsp.
  Qed.

  Lemma obs_par F F' : R F F' -> par_follows F = par_follows F'.
  Proof.
    intros HR. unfold par_follows. pose proof (obs_hd _ _ HR) as Hh. pose proof (obs_span_fst _ _ HR) as Hs.
    destruct F as [|c F0]; destruct F' as [|c' F0']; cbn [hd_error] in Hh; try discriminate; [reflexivity|].
    injection Hh as <-. rewrite Hs. reflexivity.
  Qed.

  Lemma obs_macfol name post F F' : R F F' -> mac_follow_ok2 name post F = mac_follow_ok2 name post F'.
  Proof. intros HR. unfold mac_follow_ok2. rewrite (obs_hd _ _ HR), (obs_par _ _ HR). reflexivity. Qed.

  Lemma match_envname_stop (u : str) b Z Z' : stopper cx b = true ->
    match_envname (u ++ b :: Z) = match_envname (u ++ b :: Z').
  Proof.
    intros H. destruct (stopper_facts b H) as (Hs & _ & He & _ & Hb & _).
    unfold match_envname. rewrite !(span_stop_app is_space u b _ Hs).
    destruct (snd (span is_space u)) as [|c r1]; cbn [app].
    - rewrite Hb. reflexivity.
    - destruct (N.eqb c 123); [|reflexivity].
      rewrite !(span_stop_app envname_char r1 b _ He).
      destruct (fst (span envname_char r1)) as [|n0 nm]; [reflexivity|].
      destruct (snd (span envname_char r1)) as [|d r3]; cbn [app]; reflexivity.
  Qed.

  Lemma kw_alpha_notin b kw : is_alpha b = false -> forallb is_alpha kw = true -> mem_c b kw = false.
  Proof.
    intros Hb. induction kw as [|c kw IH]; intros H; [reflexivity|].
    cbn [forallb] in H. apply andb_true_iff in H. destruct H as [H1 H2].
    cbn [mem_c existsb]. fold (mem_c b kw). rewrite (IH H2), orb_false_r.
    destruct (N.eqb b c) eqn:E; [|reflexivity]. apply N.eqb_eq in E. subst. congruence.
  Qed.

  Lemma kw_begin_alpha : forallb is_alpha kw_begin = true. Proof. vm_compute. reflexivity. Qed.
  Lemma kw_end_alpha : forallb is_alpha kw_end = true. Proof. vm_compute. reflexivity. Qed.

  Lemma esc_chk_stop (kw u : str) b Z Z' : stopper cx b = true -> forallb is_alpha kw = true ->
    (negb (startswith (u ++ b :: Z) kw) || otest is_alpha (nth_error (u ++ b :: Z) (length kw))
     || match match_envname (skipn (length kw) (u ++ b :: Z)) with Some _ => true | None => false end)
    = (negb (startswith (u ++ b :: Z') kw) || otest is_alpha (nth_error (u ++ b :: Z') (length kw))
       || match match_envname (skipn (length kw) (u ++ b :: Z')) with Some _ => true | None => false end).
  Proof.
    intros H Hk. destruct (stopper_facts b H) as (_ & Ha & _).
    pose proof (kw_alpha_notin b kw Ha Hk) as Hn.
    rewrite <- (startswith_stop u b Z Z' kw Hn).
    destruct (startswith (u ++ b :: Z) kw) eqn:S; [|reflexivity]. cbn [negb orb].
    destruct (startswith_prefix_split kw b Hn u Z S) as [u' ->].
    rewrite <- !app_assoc.
    assert (E : forall X : str, skipn (length kw) (kw ++ X) = X).
    { intros X. rewrite skipn_app, Nat.sub_diag, skipn_all. reflexivity. }
    assert (E2 : forall X : str, nth_error (kw ++ X) (length kw) = hd_error X).
    { intros X. rewrite nth_error_app2 by lia. rewrite Nat.sub_diag. destruct X; reflexivity. }
    rewrite !E, !E2. rewrite (match_envname_stop u' b Z Z' H).
    destruct u'; reflexivity.
  Qed.

  Lemma esc_ok_stop envs (u : str) b Z Z' : stopper cx b = true ->
    esc_ok envs (u ++ b :: Z) = esc_ok envs (u ++ b :: Z').
  Proof.
    intros H. unfold esc_ok.
    assert (N1 : exists c r, u ++ b :: Z = c :: r) by (destruct u; eexists; eexists; reflexivity).
    assert (N2 : exists c r, u ++ b :: Z' = c :: r) by (destruct u; eexists; eexists; reflexivity).
    destruct N1 as (c1 & r1 & E1). destruct N2 as (c2 & r2 & E2).
    rewrite E1, E2. rewrite <- E1, <- E2.
    rewrite (esc_chk_stop kw_begin u b Z Z' H kw_begin_alpha).
    rewrite (esc_chk_stop kw_end u b Z Z' H kw_end_alpha).
    destruct (stopper_facts b H) as (_ & Ha & _).
    rewrite (startswith_stop u b Z Z' kw_begin (kw_alpha_notin b _ Ha kw_begin_alpha)).
    reflexivity.
  Qed.

  Lemma obs_absent envs oc F F' : R F F' -> absent_ok envs oc F = absent_ok envs oc F'.
  Proof.
    intros [u b Z Z' H]. destruct (stopper_facts b H) as (Hs & _ & _ & Hb & _).
    unfold absent_ok. rewrite !(span_stop_app is_space u b _ Hs). cbn [snd].
    destruct (snd (span is_space u)) as [|c0 r]; cbn [app].
    - rewrite Hb. cbn [negb orb]. reflexivity.
    - rewrite (esc_ok_stop envs r b Z Z' H). reflexivity.
  Qed.

  Lemma obs_char_ok ex c F F' : R F F' -> char_ok cx ex c F = char_ok cx ex c F'.
  Proof. intros HR. unfold char_ok. rewrite (obs_tspec _ _ None (R_cons c _ _ HR)). reflexivity. Qed.

  Lemma obs_text_ok ex cs F F' : R F F' -> text_ok cx ex cs F = text_ok cx ex cs F'.
  Proof.
    intros HR. induction cs as [|c cs IH]; [reflexivity|]. cbn [text_ok].
    rewrite IH, (obs_char_ok ex c _ _ (R_app cs _ _ HR)). reflexivity.
  Qed.

  (** ** the induction (on the size of the item, as [Proofs/RoundTrip2Ws.v]) *)
  Definition ItemF (n : nat) : Prop :=
    forall i, (isize2 i <= n)%nat -> subg i = true -> forall ps ex F F', R F F' ->
    ok_item2 cx ps ex i F = ok_item2 cx ps ex i F'.
  Definition ListF (n : nat) : Prop :=
    forall l, (lsize2 l <= n)%nat -> forallb subg l = true -> forall ps ex F F', R F F' ->
    ok_items2 cx ps ex l F = ok_items2 cx ps ex l F'.

  Lemma expr_follow n : ItemF n -> forall a, (isize2 a <= n)%nat -> subg a = true -> forall sp aps F F', R F F' ->
    ok_expr2 cx sp aps a F = ok_expr2 cx sp aps a F'.
  Proof.
    intros IN a SZ SG sp aps F F' HR.
    destruct a as [ws cs|ws b tr|ws name post args|ws k b tr|ws text post|ws mid|ws bws name args b tr ews
                  |ws chars args|ws name post dc text|ws bws name oarg text|ws oc cc b tr| |vw od cd vt|pw ptx ppost pa0];
      try discriminate SG; try reflexivity.
    - destruct cs as [|c [|c2 cs]]; try reflexivity. cbn [ok_expr2].
      rewrite (obs_char_ok [] c _ _ HR). reflexivity.
    - cbn [ok_expr2]. rewrite (IN _ SZ SG aps [] F F' HR). reflexivity.
    - destruct args as [|a0 args]; [|reflexivity]. cbn [ok_expr2].
      rewrite (obs_macfol name post _ _ HR). reflexivity.
    - destruct chars as [|c cr]; [reflexivity|]. destruct args as [|a0 args]; [|reflexivity]. cbn [ok_expr2].
      rewrite (obs_tspec _ _ None (R_app (c :: cr) _ _ HR)). reflexivity.
  Qed.

  Lemma ok_args2_cons ps a r spc specs' fh :
    ok_args2 cx ps (a :: r) (spc :: specs') fh
    = ok_arg2 cx ps spc a (unparse_items2 r ++ fh) && ok_args2 cx ps r specs' fh.
  Proof. reflexivity. Qed.

  Lemma arg_follow n : ItemF n -> ListF n -> forall a, (isize2 a <= n)%nat -> subg a = true ->
    forall ps spc F F', R F F' -> ok_arg2 cx ps spc a F = ok_arg2 cx ps spc a F'.
  Proof.
    intros IN LN a SZ SG ps spc F F' HR. unfold ok_arg2.
    destruct (a_kind spc) as [sp|o c optional aps|ch aps full|d].
    - apply (expr_follow n IN a SZ SG). exact HR.
    - destruct o as [|oc' [|? ?]]; try reflexivity. destruct c as [|cc' [|? ?]]; try reflexivity.
      destruct a as [ws cs|ws b tr|ws name post args|ws k b tr|ws text post|ws mid|ws bws name args b tr ews
                    |ws chars args|ws name post dc text|ws bws name oarg text|ws oc cc b tr| |vw od cd vt|pw ptx ppost pa0];
        try discriminate SG; try reflexivity.
      + cbn [subg] in SG. cbn [isize2] in SZ. fold (lsize2 b) in SZ.
        rewrite (LN b ltac:(lia) SG _ [oc; cc] _ _ (R_app tr _ _ (R_cons cc _ _ HR))). reflexivity.
      + destruct optional; [|reflexivity]. rewrite (obs_absent _ oc' _ _ HR). reflexivity.
    - destruct ch as [|ch0 [|? ?]]; try reflexivity.
      destruct a as [ws cs|ws b tr|ws name post args|ws k b tr|ws text post|ws mid|ws bws name args b tr ews
                    |ws chars args|ws name post dc text|ws bws name oarg text|ws oc cc b tr| |vw od cd vt|pw ptx ppost pa0];
        try discriminate SG; try reflexivity.
      + destruct cs as [|c0 [|c2 cs]]; try reflexivity.
        rewrite (obs_char_ok [] c0 _ _ HR). reflexivity.
      + rewrite (obs_absent _ ch0 _ _ HR). reflexivity.
    - destruct a; try discriminate SG; reflexivity.
  Qed.

  Lemma args_follow n : ItemF n -> ListF n -> forall args, (lsize2 args <= n)%nat -> forallb subg args = true ->
    forall ps l F F', R F F' -> ok_args2 cx ps args l F = ok_args2 cx ps args l F'.
  Proof.
    intros IN LN. induction args as [|a args IH]; intros SZ SG ps l F F' HR.
    - destruct l; reflexivity.
    - destruct l as [|spc l]; [reflexivity|]. rewrite !ok_args2_cons.
      cbn [forallb] in SG. apply andb_true_iff in SG. destruct SG as [SG1 SG2].
      rewrite lsize_cons2 in SZ. pose proof (isize_pos2 a).
      rewrite (arg_follow n IN LN a ltac:(lia) SG1 ps spc _ _ (R_app (unparse_items2 args) _ _ HR)).
      rewrite (IH ltac:(lia) SG2 ps l F F' HR). reflexivity.
  Qed.

  Lemma item_step n : ItemF n -> ListF n -> ItemF (S n).
  Proof.
    intros IN LN i SZ SG ps ex F F' HR.
    destruct i as [ws cs|ws b tr|ws name post args|ws k b tr|ws text post|ws mid|ws bws name args b tr ews
                  |ws chars args|ws name post dc text|ws bws name oarg text|ws oc cc b tr| |vw od cd vt|pw ptx ppost pa0];
      try discriminate SG; try reflexivity.
    - (* text *)
      cbn [ok_item2]. change ((fix text_ok (cx0 : context) (ex0 cs0 fol : str) {struct cs0} : bool := _) cx ex cs) with (text_ok cx ex cs).
      rewrite (obs_text_ok ex cs _ _ HR). reflexivity.
    - (* group *)
      rewrite !ok_item_grp2. cbn [subg] in SG. cbn [isize2] in SZ. fold (lsize2 b) in SZ.
      rewrite (LN b ltac:(lia) SG ps [] _ _ (R_app tr _ _ (R_cons 125 _ _ HR))). reflexivity.
    - (* macro call *)
      cbn [subg] in SG. cbn [isize2] in SZ. fold (lsize2 args) in SZ.
      destruct (get_macro_spec cx name) as [sp|] eqn:GS; [|cbn [ok_item2]; rewrite GS; reflexivity].
      destruct (sp_args sp) as [l|lk] eqn:SA; [|cbn [ok_item2]; rewrite GS, SA; reflexivity].
      rewrite !(ok_item_mac2 cx ps ex ws name post args _ sp l GS SA).
      rewrite (args_follow n IN LN args ltac:(lia) SG ps l F F' HR).
      rewrite (obs_macfol name post _ _ (R_app (unparse_items2 args) _ _ HR)). reflexivity.
    - (* math *)
      rewrite !ok_item_math2. cbn [subg] in SG. cbn [isize2] in SZ. fold (lsize2 b) in SZ.
      rewrite (LN b ltac:(lia) SG _ [] _ _ (R_app tr _ _ (R_app (m_close k) _ _ HR))). reflexivity.
    - (* paragraph break *)
      cbn [ok_item2]. rewrite (obs_span_fst _ _ HR). reflexivity.
    - (* specials *)
      cbn [subg] in SG. cbn [isize2] in SZ. fold (lsize2 args) in SZ.
      destruct (get_specials_spec cx chars) as [sp|] eqn:GS; [|cbn [ok_item2]; rewrite GS; rewrite !andb_false_r; reflexivity].
      destruct (sp_args sp) as [l|lk] eqn:SA; [|cbn [ok_item2]; rewrite GS, SA; rewrite !andb_false_r; reflexivity].
      rewrite !(ok_item_spc2 cx ps ex ws chars args _ sp l GS SA).
      rewrite (args_follow n IN LN args ltac:(lia) SG ps l F F' HR).
      rewrite (obs_tspec _ _ None (R_app chars _ _ (R_app (unparse_items2 args) _ _ HR))). reflexivity.
  Qed.

  Lemma list_step n : ItemF (S n) -> ListF n -> ListF (S n).
  Proof.
    intros IN LN l SZ SG ps ex F F' HR.
    destruct l as [|i l]; [reflexivity|]. rewrite !ok_items_cons2.
    cbn [forallb] in SG. apply andb_true_iff in SG. destruct SG as [SG1 SG2].
    rewrite lsize_cons2 in SZ. pose proof (isize_pos2 i).
    rewrite (IN i ltac:(lia) SG1 ps ex _ _ (R_app (unparse_items2 l) _ _ HR)).
    rewrite (LN l ltac:(lia) SG2 ps ex F F' HR). reflexivity.
  Qed.

  Lemma follow_all n : ItemF n /\ ListF n.
  Proof.
    induction n as [|n [IN LN]].
    - split.
      + intros i SZ. pose proof (isize_pos2 i). lia.
      + intros l SZ SG ps ex F F' HR. destruct l as [|i l]; [reflexivity|].
        rewrite lsize_cons2 in SZ. pose proof (isize_pos2 i). lia.
    - pose proof (item_step n IN LN) as IN'. split; [exact IN'|apply list_step; assumption].
  Qed.

  (** * The factorisation *)
  Theorem ok_item2_follow i ps ex F F' : subg i = true -> R F F' ->
    ok_item2 cx ps ex i F = ok_item2 cx ps ex i F'.
  Proof. intros SG HR. exact (proj1 (follow_all (isize2 i)) i (le_n _) SG ps ex F F' HR). Qed.

  Theorem ok_items2_follow l ps ex F F' : forallb subg l = true -> R F F' ->
    ok_items2 cx ps ex l F = ok_items2 cx ps ex l F'.
  Proof. intros SG HR. exact (proj2 (follow_all (lsize2 l)) l (le_n _) SG ps ex F F' HR). Qed.

  (** the same without the auxiliary relation: a common prefix that contains a stopper *)
  Corollary ok_item2_stopper i ps ex (G : str) Z Z' : subg i = true -> has_stopper cx G = true ->
    ok_item2 cx ps ex i (G ++ Z) = ok_item2 cx ps ex i (G ++ Z').
  Proof. intros SG H. apply ok_item2_follow; [exact SG|apply R_of_stopper; exact H]. Qed.
End Follow.
