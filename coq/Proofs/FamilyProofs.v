(** The decidable side conditions on the concrete configuration family
    ([Enc/Family.v]) imply the semantic ones used by the theorems. *)
From Coq Require Import NArith List Bool Arith Lia FMapPositive.
From PLV Require Import Base.PyStr Enc.Encoder Enc.Builtin Enc.Family Proofs.EncoderProofs.
Import ListNotations.

Lemma grp_len_pos lo hi suf s k : grp_len lo hi suf s = Some k -> 1 <= k.
Proof.
  destruct s as [|c r]; cbn [grp_len]; [discriminate|].
  destruct (in_cls lo hi c); [|discriminate].
  destruct (grp_len lo hi suf r).
  - intros H; injection H as <-; lia.
  - destruct (startswith r suf); [|discriminate]. intros H; injection H as <-; lia.
Qed.

Lemma rx_match_consumes r pv u n g : rx_consumes r = true -> rx_match r pv u = Some (n, g) -> 1 <= n.
Proof.
  destruct r as [l|lo hi m|c m|pre lo hi suf|lo hi l|l]; cbn [rx_consumes rx_match].
  - destruct l; [discriminate|]. intros _. destruct (startswith u (n0 :: l)); [|discriminate].
    intros H; injection H as <- _. cbn; lia.
  - intros Hm. apply Nat.leb_le in Hm.
    destruct (Nat.leb m (count_prefix (in_cls lo hi) u)) eqn:E; [|discriminate].
    apply Nat.leb_le in E. intros H; injection H as <- _. lia.
  - intros Hm. apply Nat.leb_le in Hm.
    destruct (Nat.leb m (count_prefix (N.eqb c) u)); [|discriminate].
    intros H; injection H as <- _. lia.
  - intros _. destruct (startswith u pre); [|discriminate].
    destruct (grp_len lo hi suf (skipn (length pre) u)) as [k|] eqn:E; [|discriminate].
    apply grp_len_pos in E. intros H; injection H as <- _. lia.
  - destruct l; [discriminate|]. intros _.
    destruct (match pv with Some c => in_cls lo hi c | None => false end); [discriminate|].
    destruct (startswith u (n0 :: l)); [|discriminate].
    intros H; injection H as <- _. cbn; lia.
  - destruct l; [discriminate|]. intros _. destruct pv; [discriminate|].
    destruct (startswith u (n0 :: l)); [|discriminate].
    intros H; injection H as <- _. cbn; lia.
Qed.

Lemma apply_regexes_consumes l pv u n repl :
  forallb (fun p => rx_consumes (fst p)) l = true ->
  apply_regexes (map (fun p => (fst p, den_rrepl (snd p))) l) pv u = CMatch n repl -> 1 <= n.
Proof.
  induction l as [|[r rp] l IH]; cbn [forallb map apply_regexes fst snd]; [discriminate|].
  intros H. apply andb_prop in H. destruct H as [Hr Hl].
  destruct (rx_match r pv u) as [[k g]|] eqn:E; [|auto].
  pose proof (rx_match_consumes _ _ _ _ _ Hr E).
  destruct (den_rrepl rp).
  - destruct (expand t (firstn k u) g); [|discriminate]. intros H0; injection H0 as <- _. auto.
  - intros H0; injection H0 as <- _. auto.
Qed.

Lemma den_callable_consumes c s pos n repl :
  callable_consumes c = true -> den_callable c s pos = CMatch n repl -> 1 <= n.
Proof.
  destruct c as [l r| | |chars k r]; cbn [callable_consumes den_callable].
  - destruct l; [discriminate|]. intros _. destruct (startswith (skipn pos s) (n0 :: l)); [|discriminate].
    intros H; injection H as <- _. cbn; lia.
  - intros _. destruct (rx_match (RxClassMin 65 90 2) None (skipn pos s)) as [[k g]|] eqn:E.
    + intros H; injection H as <- _. eapply rx_match_consumes; eauto. reflexivity.
    + destruct (startswith (skipn pos s) s_dots); [|discriminate]. intros H; injection H as <- _. lia.
  - intros _. destruct (N.eqb (nth pos s 0%N) 34); [|discriminate].
    destruct pos; [intros H; injection H as <- _; lia|].
    destruct (is_blank (nth pos s 0%N)); intros H; injection H as <- _; lia.
  - intros Hk. apply Nat.leb_le in Hk. destruct (mem_c (nth pos s 0%N) chars); [|discriminate].
    intros H; injection H as <- _. lia.
Qed.

Theorem sconfig_consumes_sound c : sconfig_consumes c = true -> rules_consume_pos (den_config c).
Proof.
  unfold sconfig_consumes. rewrite forallb_forall. intros H r s pos n repl Hr _ Ha.
  cbn [den_config rules] in Hr. apply in_map_iff in Hr. destruct Hr as (sr & <- & Hin).
  specialize (H sr Hin). unfold srule_consumes in H. unfold apply_rule, den_rule in Ha. cbn [rbody] in Ha.
  destruct (sr_body sr) as [d|l|cl]; cbn [den_body] in Ha.
  - destruct (den_dict d (nth pos s 0%N)); [|discriminate]. injection Ha as <- _. lia.
  - eapply apply_regexes_consumes; eauto.
  - eapply den_callable_consumes; eauto.
Qed.

(** templates *)
Lemma expand_no_g1 t whole : forallb (fun p => match p with TGroup1 => false | _ => true end) t = true ->
  expand t whole None <> None.
Proof.
  induction t as [|p t IH]; cbn [forallb expand]; [discriminate|].
  intros H. apply andb_prop in H. destruct H as [Hp Ht]. specialize (IH Ht).
  destruct (expand t whole None); [|congruence]. destruct p; discriminate.
Qed.

Lemma expand_with_g1 t whole g : expand t whole (Some g) <> None.
Proof.
  induction t as [|p t IH]; cbn [expand]; [discriminate|].
  destruct (expand t whole (Some g)); [|congruence]. destruct p; discriminate.
Qed.




Lemma apply_regexes_no_raise l pv u e :
  forallb (fun p => match snd p with SRTempl t => templ_ok (fst p) t | SRWrap _ _ => true end) l = true ->
  apply_regexes (map (fun p => (fst p, den_rrepl (snd p))) l) pv u <> CRaise e.
Proof.
  induction l as [|[r rp] l IH]; cbn [forallb map apply_regexes fst snd]; [discriminate|].
  intros H. apply andb_prop in H. destruct H as [Hr Hl].
  destruct (rx_match r pv u) as [[k g]|] eqn:E; [|auto].
  destruct rp as [t|pre post]; cbn [den_rrepl]; [|discriminate].
  destruct (expand t (firstn k u) g) eqn:Ex; [discriminate|]. exfalso.
  destruct g as [g|]; [eapply expand_with_g1; eauto|].
  destruct r as [l0|lo hi m|c m|pre lo hi suf|lo hi l0|l0]; cbn [templ_ok] in Hr;
    try (eapply expand_no_g1; eauto; fail).
  cbn [rx_match] in E. destruct (startswith u pre); [|discriminate].
  destruct (grp_len lo hi suf (skipn (length pre) u)); discriminate.
Qed.

Lemma den_callable_no_raise c s pos e : den_callable c s pos <> CRaise e.
Proof.
  destruct c as [l r| | |chars k r]; cbn [den_callable].
  - destruct (startswith (skipn pos s) l); discriminate.
  - destruct (rx_match (RxClassMin 65 90 2) None (skipn pos s)) as [[k g]|]; [discriminate|].
    destruct (startswith (skipn pos s) s_dots); discriminate.
  - destruct (N.eqb (nth pos s 0%N) 34); [|discriminate]. destruct pos; [discriminate|].
    destruct (is_blank (nth pos s 0%N)); discriminate.
  - destruct (mem_c (nth pos s 0%N) chars); discriminate.
Qed.

Theorem sconfig_no_raise_sound c : sconfig_no_raise c = true -> no_rule_raises (den_config c).
Proof.
  unfold sconfig_no_raise. rewrite forallb_forall. intros H r s pos e Hr _.
  cbn [den_config rules] in Hr. apply in_map_iff in Hr. destruct Hr as (sr & <- & Hin).
  specialize (H sr Hin). unfold srule_no_raise in H. unfold apply_rule, den_rule. cbn [rbody].
  destruct (sr_body sr) as [d|l|cl]; cbn [den_body].
  - destruct (den_dict d (nth pos s 0%N)); discriminate.
  - apply apply_regexes_no_raise; auto.
  - apply den_callable_no_raise.
Qed.

Theorem sconfig_per_char_sound c : sconfig_per_char c = true -> per_char_rules (den_config c).
Proof.
  unfold sconfig_per_char, per_char_rules. rewrite forallb_forall. intros H.
  apply Forall_forall. intros r Hr. cbn [den_config rules] in Hr. apply in_map_iff in Hr.
  destruct Hr as (sr & <- & Hin). specialize (H sr Hin).
  destruct sr as [[d|l|cl] p]; cbn [sr_body] in H; try discriminate.
  exists (den_dict d). intros s pos _. reflexivity.
Qed.

(** any dictionary rule is per-character *)
Lemma dict_rule_per_char d p : rule_per_char {| rbody := RDict d; rprot := p |}.
Proof. exists d. intros s pos _. reflexivity. Qed.

(** the trie lookup of the regenerated tables returns exactly the table entries *)
Lemma uni2latex_map_faithful :
  forallb (fun kv => opt_eqb str_eqb (map_lookup uni2latex_map (fst kv)) (Some (snd kv)))
          Gen.GenUni2Latex.table = true
  /\ N.of_nat (length Gen.GenUni2Latex.table) = Gen.GenUni2Latex.table_size
  /\ N.of_nat (PositiveMap.cardinal uni2latex_map) = Gen.GenUni2Latex.table_size.
Proof. vm_compute. repeat split. Qed.

Lemma uni2latex_xml_map_faithful :
  forallb (fun kv => opt_eqb str_eqb (map_lookup uni2latex_xml_map (fst kv)) (Some (snd kv)))
          Gen.GenUni2LatexXml.table = true
  /\ N.of_nat (length Gen.GenUni2LatexXml.table) = Gen.GenUni2LatexXml.table_size
  /\ N.of_nat (PositiveMap.cardinal uni2latex_xml_map) = Gen.GenUni2LatexXml.table_size.
Proof. vm_compute. repeat split. Qed.
