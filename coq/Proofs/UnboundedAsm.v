(** C13 / C08, unbounded composition — the assembler is correct.

    For ANY list of atoms whose structured items satisfy the side conditions of
    the grammar with what follows them ([good_atoms], established chunk by
    chunk by the sweeps), [asm] succeeds and returns a document of the extended
    grammar
      - whose written form is exactly the concatenation of the atoms
        ([asm_unparse]),
      - which satisfies ALL side conditions ([asm_ok]): the whitespace runs, the
        paragraph breaks, the one-character text items and the specials
        sequences that [asm] itself cuts — possibly across chunk boundaries —
        are justified here, once and for all;
      - which is in the sub-grammar [subg] and has as many math items as the
        atoms have ([asm_subg], [asm_nmath]).
    The context enters through four checkable facts ([CxOK]: the paragraph
    specials exists, every specials sequence has a standard signature without
    arguments, no specials sequence that starts with a non-blank continues
    with [\ { $]). *)
From Coq Require Import NArith List Bool Arith Lia.
From PLV Require Import Base.PyStr Tok.PState Tok.Tokenizer Parse.Nodes Parse.Parser Parse.ParseWire
                        Doc.DocGrammar Doc.DocGrammar2 Proofs.TokProofs Proofs.FsProofs Proofs.RoundTripTok Proofs.RoundTrip2
                        Proofs.UnboundedDefs Proofs.UnboundedFollow Proofs.UnboundedClosed.
Import ListNotations.
Local Open Scope N_scope.

(** * Whitespace runs *)
Lemma count_c_app c (a b : str) : count_c c (a ++ b) = (count_c c a + count_c c b)%nat.
Proof. induction a as [|d a IH]; [reflexivity|]. cbn [app count_c]. rewrite IH. lia. Qed.

Lemma mem_c_count c (s : str) : mem_c c s = false <-> count_c c s = 0%nat.
Proof.
  induction s as [|d s IH]; cbn [mem_c existsb count_c]; [tauto|]. fold (mem_c c s).
  destruct (N.eqb c d); cbn [orb]; [split; [discriminate|lia]|]. rewrite IH. cbn. tauto.
Qed.

Lemma first_nl_none w : first_nl_split w = None -> count_c 10 w = 0%nat.
Proof.
  induction w as [|c w IH]; [reflexivity|]. cbn [first_nl_split count_c]. rewrite (N.eqb_sym 10 c).
  destruct (N.eqb c 10); [discriminate|]. destruct (first_nl_split w) as [[a b]|]; [discriminate|].
  intros _. rewrite IH by reflexivity. reflexivity.
Qed.

Lemma first_nl_some w : forall pre r, first_nl_split w = Some (pre, r) ->
  w = pre ++ 10 :: r /\ count_c 10 pre = 0%nat.
Proof.
  induction w as [|c w IH]; intros pre r H; [discriminate|]. cbn [first_nl_split] in H.
  destruct (N.eqb_spec c 10) as [->|Hne].
  - injection H as <- <-. split; reflexivity.
  - destruct (first_nl_split w) as [[a b]|]; [|discriminate]. injection H as <- <-.
    destruct (IH a b eq_refl) as [-> C]. split; [reflexivity|]. cbn [count_c].
    destruct (N.eqb_spec 10 c); [congruence|]. exact C.
Qed.

Lemma last_nl_none w : last_nl_split w = None -> count_c 10 w = 0%nat.
Proof.
  induction w as [|c w IH]; [reflexivity|]. cbn [last_nl_split count_c]. rewrite (N.eqb_sym 10 c).
  destruct (last_nl_split w) as [[a b]|]; [discriminate|].
  destruct (N.eqb c 10); [discriminate|]. intros _. rewrite IH by reflexivity. reflexivity.
Qed.

Lemma last_nl_some w : forall mid t, last_nl_split w = Some (mid, t) ->
  w = mid ++ 10 :: t /\ count_c 10 t = 0%nat.
Proof.
  induction w as [|c w IH]; intros mid t H; [discriminate|]. cbn [last_nl_split] in H.
  destruct (last_nl_split w) as [[a b]|] eqn:E.
  - injection H as <- <-. destruct (IH a b eq_refl) as [-> C]. split; [reflexivity|exact C].
  - destruct (N.eqb_spec c 10) as [->|Hne]; [|discriminate]. injection H as <- <-.
    split; [reflexivity|]. apply last_nl_none. exact E.
Qed.

Lemma forallb_app_inv {A} (f : A -> bool) a b : forallb f (a ++ b) = true -> forallb f a = true /\ forallb f b = true.
Proof. rewrite forallb_app. intros H. apply andb_true_iff in H. exact H. Qed.

(** what [ws_split] returns *)
Lemma ws_split_spec w : forallb is_space w = true ->
  unparse_items2 (fst (ws_split w)) ++ snd (ws_split w) = w
  /\ ws_ok (snd (ws_split w)) = true
  /\ forallb is_space (snd (ws_split w)) = true
  /\ (fst (ws_split w) = [] \/
      exists pre mid, fst (ws_split w) = [Par2 pre mid] /\ forallb is_space pre = true /\ mem_c 10 pre = false
                      /\ forallb is_space mid = true /\ mem_c 10 (snd (ws_split w)) = false).
Proof.
  intros SP. unfold ws_split.
  destruct (first_nl_split w) as [[pre r1]|] eqn:E1.
  - destruct (first_nl_some w pre r1 E1) as [-> C1].
    destruct (last_nl_split r1) as [[mid rest]|] eqn:E2.
    + destruct (last_nl_some r1 mid rest E2) as [-> C2]. cbn [fst snd].
      apply forallb_app_inv in SP. destruct SP as [S1 S2]. cbn [forallb] in S2.
      apply andb_true_iff in S2. destruct S2 as [_ S2]. apply forallb_app_inv in S2. destruct S2 as [S2 S3].
      cbn [forallb] in S3. apply andb_true_iff in S3. destruct S3 as [_ S3].
      split; [|split; [|split; [exact S3|]]].
      * cbn [unparse_items2 flat_map unparse_item2]. rewrite app_nil_r, <- app_assoc. cbn [app]. rewrite <- app_assoc. reflexivity.
      * unfold ws_ok. rewrite S3, C2. reflexivity.
      * right. exists pre, mid. repeat split; try assumption; apply mem_c_count; assumption.
    + cbn [fst snd]. split; [reflexivity|]. split; [|split; [exact SP|left; reflexivity]].
      unfold ws_ok. rewrite SP. rewrite count_c_app, C1. cbn [count_c N.eqb Pos.eqb]. rewrite (last_nl_none r1 E2). reflexivity.
  - cbn [fst snd]. split; [reflexivity|]. split; [|split; [exact SP|left; reflexivity]].
    unfold ws_ok. rewrite SP, (first_nl_none w E1). reflexivity.
Qed.

(** * Lists of items *)
Lemma unparse_items2_app a b : unparse_items2 (a ++ b) = unparse_items2 a ++ unparse_items2 b.
Proof. unfold unparse_items2. apply flat_map_app. Qed.

Lemma ok_items2_app cx ps ex a : forall b F,
  ok_items2 cx ps ex (a ++ b) F = ok_items2 cx ps ex a (unparse_items2 b ++ F) && ok_items2 cx ps ex b F.
Proof.
  induction a as [|i a IH]; intros b F; [reflexivity|].
  cbn [app]. rewrite !ok_items_cons2, IH, unparse_items2_app, <- app_assoc, andb_assoc. reflexivity.
Qed.

Lemma flat_app a b : flat (a ++ b) = flat a ++ flat b.
Proof. unfold flat. apply flat_map_app. Qed.

Lemma test_specials_in l rest : forall best sc,
  test_specials l rest best = Some sc -> best = Some sc \/ In sc l.
Proof.
  induction l as [|x l IH]; intros best sc H; cbn [test_specials] in H; [left; exact H|].
  destruct (_ && _).
  - apply IH in H. destruct H as [H|H]; [injection H as <-; right; left; reflexivity|right; right; exact H].
  - apply IH in H. destruct H as [H|H]; [left; exact H|right; right; exact H].
Qed.

(** * The context facts *)
Section Asm.
  Variable cx : context.
  Notation specs := (map fst (cx_specials cx)).

  (** every specials sequence has a standard signature without arguments *)
  Definition specs_noargs : bool :=
    forallb (fun sc => match get_specials_spec cx sc with
                       | Some sp => match sp_args sp with APStd [] => true | _ => false end
                       | None => false
                       end) specs.
  (** a specials sequence that starts with a non-blank does not continue with [\ { $] *)
  Definition specs_pend_ok : bool :=
    forallb (fun sc : str => match sc with
                             | c :: t => is_space c || forallb (fun d => negb (mem_c d [92; 123; 36])) t
                             | [] => true
                             end) specs.

  Record CxOK : Prop := {
    cx_par : par_spec_ok cx = true;
    cx_noargs : specs_noargs = true;
    cx_pend : specs_pend_ok = true;
    cx_brace : stopper cx 125 = true;
    cx_dollar : stopper cx 36 = true }.

  Hypothesis OK : CxOK.
  Variable ps : pstate.

  (** ** shapes *)
  Lemma top_shape_unparse i w : top_shape i = true -> unparse_item2 (set_ws w i) = w ++ unparse_item2 i.
  Proof. destruct i; try discriminate; destruct ws; try discriminate; reflexivity. Qed.

  Lemma top_shape_hd i : top_shape i = true ->
    exists c r, unparse_item2 i = c :: r /\ mem_c c [92; 123; 36] = true.
  Proof.
    destruct i; try discriminate; destruct ws; try discriminate; intros _; cbn [unparse_item2 app].
    - eexists; eexists; split; reflexivity.
    - eexists; eexists; split; reflexivity.
    - destruct k; cbn [m_open app]; eexists; eexists; split; reflexivity.
  Qed.

  Lemma subg_set_ws w i : subg (set_ws w i) = subg i.
  Proof. destruct i; reflexivity. Qed.
  Lemma nmath_set_ws w i : nmath (set_ws w i) = nmath i.
  Proof. destruct i; reflexivity. Qed.

  Definition pendable (p : str) : bool := forallb (fun d => negb (mem_c d [92; 123; 36])) p.

  Lemma pend_of_special c r sc : is_space c = false ->
    test_specials specs (c :: r) None = Some sc -> sc = c :: tl sc /\ startswith r (tl sc) = true /\ pendable (tl sc) = true.
  Proof.
    intros NS T. destruct (test_specials_spec _ _ _ _ T) as [E|[S L]]; [discriminate|].
    destruct (test_specials_in _ _ _ _ T) as [E|IN]; [discriminate|].
    destruct sc as [|d t]; [cbn in L; lia|]. cbn [startswith] in S. apply andb_true_iff in S. destruct S as [S1 S2].
    apply N.eqb_eq in S1. subst d. cbn [tl]. split; [reflexivity|]. split; [exact S2|].
    pose proof (cx_pend OK) as P. unfold specs_pend_ok in P. rewrite forallb_forall in P.
    specialize (P _ IN). cbn beta iota in P. rewrite NS in P. exact P.
  Qed.

  (** ** [asm] succeeds *)
  Lemma asm_total l : forall ws pend, good_atoms cx ps [] l ->
    startswith (flat l) pend = true -> pendable pend = true ->
    exists r, asm specs [] ws pend l = Some r.
  Proof.
    induction l as [|[c|i] l IH]; intros ws pend G S P.
    - destruct pend; [eexists; reflexivity|discriminate S].
    - cbn [good_atoms] in G. destruct G as [_ G]. cbn [asm].
      destruct pend as [|d pend'].
      + destruct (is_space c) eqn:SP; [apply IH; [exact G|apply startswith_nil|reflexivity]|].
        destruct (test_specials specs (c :: flat l ++ []) None) as [sc|] eqn:T.
        * destruct (pend_of_special c _ sc SP T) as (E & S' & P'). rewrite app_nil_r in S'.
          destruct (IH [] (tl sc) G S' P') as [[its tr] ->]. eexists; reflexivity.
        * destruct (IH [] [] G (startswith_nil _) eq_refl) as [[its tr] ->]. eexists; reflexivity.
      + cbn [flat flat_map flat_atom app startswith] in S. apply andb_true_iff in S. destruct S as [S1 S2].
        rewrite N.eqb_sym, S1. cbn [pendable forallb] in P. apply andb_true_iff in P. destruct P as [_ P].
        apply IH; assumption.
    - cbn [good_atoms] in G. destruct G as (TS & _ & _ & G). cbn [asm].
      destruct pend as [|d pend'].
      + destruct (IH [] [] G (startswith_nil _) eq_refl) as [[its tr] ->]. eexists; reflexivity.
      + exfalso. destruct (top_shape_hd i TS) as (c & r & E & M).
        cbn [flat flat_map flat_atom] in S. rewrite E in S. cbn [app startswith] in S.
        apply andb_true_iff in S. destruct S as [S1 _]. apply N.eqb_eq in S1. subst d.
        cbn [pendable forallb] in P. apply andb_true_iff in P. destruct P as [P _]. rewrite M in P. discriminate.
  Qed.

  (** ** the written form *)
  Lemma asm_unparse l : forall fol ws pend its tr, good_atoms cx ps [] l -> (pend = [] \/ ws = []) ->
    forallb is_space ws = true ->
    asm specs fol ws pend l = Some (its, tr) -> ws ++ flat l = pend ++ unparse_items2 its ++ tr.
  Proof.
    induction l as [|[c|i] l IH]; intros fol ws pend its tr G INV SP H; cbn [asm] in H.
    - destruct pend; [|discriminate]. injection H as H.
      pose proof (f_equal fst H) as H1. pose proof (f_equal snd H) as H2. cbn [fst snd] in H1, H2. subst its tr.
      rewrite app_nil_r. cbn [app]. symmetry. apply ws_split_spec. exact SP.
    - cbn [good_atoms] in G. destruct G as [_ G]. destruct pend as [|d pend'].
      + destruct (is_space c) eqn:SC.
        * apply IH in H; [|exact G|left; reflexivity|rewrite forallb_app, SP; cbn [forallb]; rewrite SC; reflexivity].
          rewrite <- app_assoc in H. exact H.
        * destruct (ws_split_spec ws SP) as (W1 & _).
          destruct (test_specials specs (c :: flat l ++ fol) None) as [sc|] eqn:T.
          -- destruct (asm specs fol [] (tl sc) l) as [[its' tr']|] eqn:A; [|discriminate]. injection H as <- <-.
             apply IH in A; [|exact G|right; reflexivity|reflexivity]. cbn [app] in A.
             destruct (test_specials_spec _ _ _ _ T) as [E|[S L]]; [discriminate|].
             destruct sc as [|d t]; [cbn in L; lia|]. cbn [startswith] in S. apply andb_true_iff in S.
             destruct S as [S1 _]. apply N.eqb_eq in S1. subst d. cbn [tl] in A.
             cbn [app flat flat_map flat_atom]. fold (flat l). rewrite A.
             rewrite unparse_items2_app. cbn [unparse_items2 flat_map unparse_item2]. rewrite app_nil_r.
             fold (unparse_items2 its'). rewrite <- W1 at 1. rewrite <- !app_assoc. reflexivity.
          -- destruct (asm specs fol [] [] l) as [[its' tr']|] eqn:A; [|discriminate]. injection H as <- <-.
             apply IH in A; [|exact G|left; reflexivity|reflexivity]. cbn [app] in A.
             cbn [app flat flat_map flat_atom]. fold (flat l). rewrite A.
             rewrite unparse_items2_app. cbn [unparse_items2 flat_map unparse_item2].
             fold (unparse_items2 its'). rewrite <- W1 at 1. rewrite <- !app_assoc. reflexivity.
      + destruct (N.eqb_spec c d) as [->| ]; [|discriminate].
        destruct INV as [INV| ->]; [discriminate|].
        apply IH in H; [|exact G|right; reflexivity|reflexivity]. cbn [app] in *.
        cbn [flat flat_map flat_atom app]. fold (flat l). rewrite H. reflexivity.
    - cbn [good_atoms] in G. destruct G as (TS & _ & _ & G). destruct pend as [|d pend']; [|discriminate].
      destruct (asm specs fol [] [] l) as [[its' tr']|] eqn:A; [|discriminate]. injection H as <- <-.
      apply IH in A; [|exact G|left; reflexivity|reflexivity]. cbn [app] in A.
      destruct (ws_split_spec ws SP) as (W1 & _).
      cbn [app flat flat_map flat_atom]. fold (flat l). rewrite A.
      rewrite unparse_items2_app. cbn [unparse_items2 flat_map]. fold (unparse_items2 its').
      rewrite (top_shape_unparse i _ TS). rewrite <- W1 at 1. rewrite <- !app_assoc. reflexivity.
  Qed.

  (** ** the side conditions *)
  Lemma span_space_stop (w : str) c r : forallb is_space w = true -> is_space c = false ->
    fst (span is_space (w ++ c :: r)) = w.
  Proof.
    intros W C. rewrite (span_stop_app is_space w c r C). cbn [fst].
    induction w as [|d w IH]; [reflexivity|]. cbn [forallb] in W. apply andb_true_iff in W. destruct W as [W1 W2].
    cbn [span]. rewrite W1. specialize (IH W2). destruct (span is_space w). cbn [fst] in *. now rewrite IH.
  Qed.

  Lemma span_space_all (w : str) : forallb is_space w = true -> fst (span is_space w) = w.
  Proof.
    induction w as [|d w IH]; [reflexivity|]. cbn [forallb]. intros W. apply andb_true_iff in W. destruct W as [W1 W2].
    cbn [span]. rewrite W1. specialize (IH W2). destruct (span is_space w). cbn [fst] in *. now rewrite IH.
  Qed.

  (** the paragraph break that [ws_split] cuts, followed by the rest of the run and a non-blank *)
  Lemma par_prefix_ok ws ex (X : str) :
    forallb is_space ws = true ->
    (X = [] \/ exists c r, X = c :: r /\ is_space c = false) ->
    ok_items2 cx ps ex (fst (ws_split ws)) (snd (ws_split ws) ++ X) = true.
  Proof.
    intros SP HX. destruct (ws_split_spec ws SP) as (_ & _ & S3 & [E|(pre & mid & E & P1 & P2 & P3 & P4)]); rewrite E; [reflexivity|].
    cbn [ok_items2 ok_item2 unparse_items2 flat_map app]. rewrite P1, P2, P3, (cx_par OK). cbn [negb andb].
    rewrite !andb_true_r. apply negb_true_iff.
    destruct HX as [->|(c & r & -> & C)].
    - rewrite app_nil_r, (span_space_all _ S3). exact P4.
    - rewrite (span_space_stop _ c r S3 C). exact P4.
  Qed.

  Lemma plain_of_good c : mem_c c [92; 36; 37; 123; 125] = false -> is_space c = false -> plain_start c = true.
  Proof. intros M S. unfold plain_start. rewrite M, S. reflexivity. Qed.

  Lemma asm_ok l : forall ws pend its tr, good_atoms cx ps [] l -> (pend = [] \/ ws = []) ->
    forallb is_space ws = true ->
    asm specs [] ws pend l = Some (its, tr) ->
    ok_items2 cx ps [] its tr = true /\ ws_ok tr = true.
  Proof.
    induction l as [|[c|i] l IH]; intros ws pend its tr G INV SP H; cbn [asm] in H.
    - destruct pend; [|discriminate]. injection H as H.
      pose proof (f_equal fst H) as H1. pose proof (f_equal snd H) as H2. cbn [fst snd] in H1, H2. subst its tr.
      destruct (ws_split_spec ws SP) as (_ & W2 & _). split; [|exact W2].
      rewrite <- (app_nil_r (snd (ws_split ws))). apply par_prefix_ok; [exact SP|left; reflexivity].
    - pose proof G as G0. cbn [good_atoms] in G. destruct G as [GC G]. destruct pend as [|d pend'].
      + destruct (is_space c) eqn:SC.
        * apply IH in H; [exact H|exact G|left; reflexivity|rewrite forallb_app, SP; cbn [forallb]; rewrite SC; reflexivity].
        * destruct (ws_split_spec ws SP) as (_ & W2 & W3 & _).
          pose proof (plain_of_good c GC SC) as PS.
          destruct (test_specials specs (c :: flat l ++ []) None) as [sc|] eqn:T.
          -- destruct (asm specs [] [] (tl sc) l) as [[its' tr']|] eqn:A; [|discriminate]. injection H as <- <-.
             pose proof (asm_unparse l [] [] (tl sc) its' tr' G (or_intror eq_refl) eq_refl A) as U. cbn [app] in U.
             apply IH in A; [|exact G|right; reflexivity|reflexivity]. destruct A as [A1 A2]. split; [|exact A2].
             destruct (pend_of_special c _ sc SC T) as (E & _ & _).
             rewrite ok_items2_app, ok_items_cons2, A1, andb_true_r.
             apply andb_true_iff. split.
             ++ cbn [unparse_items2 flat_map unparse_item2]. rewrite app_nil_r. rewrite <- !app_assoc.
                apply par_prefix_ok; [exact SP|right]. rewrite E. eexists; eexists; split; [reflexivity|exact SC].
             ++ destruct (test_specials_in _ _ _ _ T) as [E0|IN]; [discriminate|].
                pose proof (cx_noargs OK) as NA. unfold specs_noargs in NA. rewrite forallb_forall in NA.
                specialize (NA _ IN). cbn beta in NA.
                destruct (get_specials_spec cx sc) as [sp|] eqn:GS; [|discriminate].
                destruct (sp_args sp) as [[|? ?]|] eqn:SA; try discriminate.
                rewrite (ok_item_spc2 cx ps [] _ sc [] _ sp [] GS SA).
                rewrite W2. rewrite E at 1. cbn beta iota. rewrite PS. cbn [mem_c existsb negb andb].
                cbn [unparse_items2 flat_map app]. fold (unparse_items2 its').
                rewrite E at 1. cbn [app]. rewrite <- U. rewrite app_nil_r in T. rewrite T.
                rewrite str_eqb_refl. reflexivity.
          -- destruct (asm specs [] [] [] l) as [[its' tr']|] eqn:A; [|discriminate]. injection H as <- <-.
             pose proof (asm_unparse l [] [] [] its' tr' G (or_introl eq_refl) eq_refl A) as U. cbn [app] in U.
             apply IH in A; [|exact G|left; reflexivity|reflexivity]. destruct A as [A1 A2]. split; [|exact A2].
             rewrite ok_items2_app, ok_items_cons2, A1, andb_true_r.
             apply andb_true_iff. split.
             ++ cbn [unparse_items2 flat_map unparse_item2]. rewrite <- !app_assoc.
                apply par_prefix_ok; [exact SP|right]. eexists; eexists; split; [reflexivity|exact SC].
             ++ cbn [ok_item2 text_ok]. rewrite W2. cbn [andb]. fold (unparse_items2 its').
                unfold char_ok. rewrite PS. cbn [mem_c existsb negb andb app]. rewrite <- U.
                rewrite app_nil_r in T. rewrite T. reflexivity.
      + destruct (N.eqb_spec c d) as [->| ]; [|discriminate].
        apply IH in H; [exact H|exact G|destruct INV as [INV|INV]; [discriminate|right; exact INV]|exact SP].
    - cbn [good_atoms] in G. destruct G as (TS & SG & OI & G). destruct pend as [|d pend']; [|discriminate].
      destruct (asm specs [] [] [] l) as [[its' tr']|] eqn:A; [|discriminate]. injection H as <- <-.
      pose proof (asm_unparse l [] [] [] its' tr' G (or_introl eq_refl) eq_refl A) as U. cbn [app] in U.
      apply IH in A; [|exact G|left; reflexivity|reflexivity]. destruct A as [A1 A2]. split; [|exact A2].
      destruct (ws_split_spec ws SP) as (_ & W2 & W3 & _).
      rewrite ok_items2_app, ok_items_cons2, A1, andb_true_r.
      apply andb_true_iff. split.
      + cbn [unparse_items2 flat_map]. rewrite (top_shape_unparse i _ TS). rewrite <- !app_assoc.
        apply par_prefix_ok; [exact SP|right].
        destruct (top_shape_hd i TS) as (c & r & -> & M). cbn [app]. eexists; eexists; split; [reflexivity|].
        cbn [mem_c existsb] in M. rewrite orb_false_r in M.
        repeat (apply orb_true_iff in M; destruct M as [M|M]); apply N.eqb_eq in M; subst c; reflexivity.
      + rewrite (set_ws_ok cx i _ ps [] _ TS), W2. cbn [andb]. fold (unparse_items2 its').
        rewrite <- U. rewrite app_nil_r in OI. exact OI.
  Qed.

  (** ** sub-grammar and math items *)
  Lemma ws_split_subg ws : forallb subg (fst (ws_split ws)) = true /\ nmath_items (fst (ws_split ws)) = 0%nat.
  Proof.
    unfold ws_split. destruct (first_nl_split ws) as [[pre r1]|]; [|split; reflexivity].
    destruct (last_nl_split r1) as [[mid rest]|]; split; reflexivity.
  Qed.

  Lemma nmath_items_app a b : nmath_items (a ++ b) = (nmath_items a + nmath_items b)%nat.
  Proof. unfold nmath_items. induction a as [|i a IH]; [reflexivity|]. cbn [app fold_right]. rewrite IH. lia. Qed.

  Lemma asm_subg l : forall fol ws pend its tr, good_atoms cx ps [] l ->
    asm specs fol ws pend l = Some (its, tr) ->
    forallb subg its = true /\ nmath_items its = nmath_atoms l.
  Proof.
    induction l as [|[c|i] l IH]; intros fol ws pend its tr G H; cbn [asm] in H.
    - destruct pend; [|discriminate]. injection H as H.
      pose proof (f_equal fst H) as H1. cbn [fst] in H1. subst its. apply ws_split_subg.
    - cbn [good_atoms] in G. destruct G as [_ G]. destruct pend as [|d pend'].
      + destruct (is_space c); [exact (IH _ _ _ _ _ G H)|].
        destruct (ws_split_subg ws) as [W1 W2].
        destruct (test_specials specs (c :: flat l ++ fol) None) as [sc|].
        * destruct (asm specs fol [] (tl sc) l) as [[its' tr']|] eqn:A; [|discriminate]. injection H as <- <-.
          destruct (IH _ _ _ _ _ G A) as [I1 I2]. rewrite forallb_app, W1, nmath_items_app, W2.
          cbn [forallb subg nmath_items fold_right nmath nmath_atoms andb]. fold (nmath_items its'). fold (nmath_atoms l).
          split; [exact I1|]. rewrite I2. reflexivity.
        * destruct (asm specs fol [] [] l) as [[its' tr']|] eqn:A; [|discriminate]. injection H as <- <-.
          destruct (IH _ _ _ _ _ G A) as [I1 I2]. rewrite forallb_app, W1, nmath_items_app, W2.
          cbn [forallb subg nmath_items fold_right nmath nmath_atoms andb]. fold (nmath_items its'). fold (nmath_atoms l).
          split; [exact I1|]. rewrite I2. reflexivity.
      + destruct (N.eqb c d); [|discriminate]. exact (IH _ _ _ _ _ G H).
    - cbn [good_atoms] in G. destruct G as (TS & SG & _ & G). destruct pend as [|d pend']; [|discriminate].
      destruct (asm specs fol [] [] l) as [[its' tr']|] eqn:A; [|discriminate]. injection H as <- <-.
      destruct (ws_split_subg ws) as [W1 W2].
      destruct (IH _ _ _ _ _ G A) as [I1 I2]. rewrite forallb_app, W1, nmath_items_app, W2.
      cbn [forallb nmath_items fold_right nmath_atoms andb]. fold (nmath_items its'). fold (nmath_atoms l).
      rewrite subg_set_ws, nmath_set_ws, SG. split; [exact I1|]. rewrite I2. reflexivity.
  Qed.

  (** * The assembled document *)
  Theorem assemble l : good_atoms cx ps [] l ->
    exists d, unparse2 d = flat l /\ ok_doc2_in cx ps d = true
              /\ forallb subg (d_items2 d) = true /\ nmath_items (d_items2 d) = nmath_atoms l.
  Proof.
    intros G. destruct (asm_total l [] [] G (startswith_nil _) eq_refl) as [[its tr] A].
    exists {| d_items2 := its; d_trail2 := tr |}.
    pose proof (asm_unparse l [] [] [] its tr G (or_introl eq_refl) eq_refl A) as U.
    destruct (asm_ok l [] [] its tr G (or_introl eq_refl) eq_refl A) as [O1 O2].
    destruct (asm_subg l [] [] [] its tr G A) as [S1 S2].
    split; [unfold unparse2; cbn [d_items2 d_trail2]; symmetry; exact U|].
    split; [unfold ok_doc2_in; cbn [d_items2 d_trail2]; rewrite O1, O2; reflexivity|].
    split; assumption.
  Qed.
End Asm.
