(** Property C10, the specification side: what mode (text / math, and which
    math delimiter) the ENCLOSING structure implies for every node of a tree.

    [impliedb cx m n = true]: the tree [n], standing at a place where the
    enclosing constructs imply mode [m], records exactly the implied mode at
    every node.  The definition is a plain structural recursion over the nested
    [node] type; it never looks at the parser. *)
From Coq Require Import NArith List Bool Arith.
From PLV Require Import Base.PyStr Tok.PState Tok.Tokenizer Parse.Nodes Parse.Parser.
Import ListNotations.

Definition nmode_eqb (a b : nmode) : bool :=
  Bool.eqb (in_math a) (in_math b) && opt_eqb str_eqb (math_delim a) (math_delim b).

(** math mode entered through the delimiter [d] ([None]: through a math
    environment or a math-mode argument) *)
Definition math_mode (d : option str) : nmode := {| in_math := true; math_delim := d |}.

(** what an argument's [parsing_state_delta] makes of the mode of the call *)
Definition delta_mode (m : nmode) (d : adelta) : nmode :=
  match d with
  | ADNone => m
  | ADEnterMath => math_mode None
  | ADLeaveMath => text_mode
  end.

(** the deltas of the arguments of a call, in order (standard argument
    parsers only; the legacy verbatim parsers have none) *)
Definition arg_deltas (sp : option cspec) : list adelta :=
  match sp with
  | Some sp' => match sp_args sp' with APStd l => map a_delta l | APLegacy _ => [] end
  | None => []
  end.

(** the mode of an environment's body *)
Definition body_mode (sp : option cspec) (m : nmode) : nmode :=
  match sp with
  | Some sp' => if sp_body_math sp' then math_mode None else m
  | None => m
  end.

(** the default math delimiters: [$ $], [\( \)] inline; [$$ $$], [\[ \]] display *)
Definition is_display_open (o : str) : bool :=
  existsb (fun pr : str * str => str_eqb (fst pr) o) default_display_delims.
Definition math_delims_ok (display : bool) (o c : str) : bool :=
  Bool.eqb display (is_display_open o)
  && pair_in o c (default_inline_delims ++ default_display_delims).

Fixpoint impliedb (cx : context) (m : nmode) (n : node) {struct n} : bool :=
  let on := fun (m' : nmode) (o : option node) =>
      match o with None => true | Some x => impliedb cx m' x end in
  let items := fix go (l : list (option node)) : bool :=
      match l with
      | [] => true
      | o :: r => (match o with None => true | Some x => impliedb cx m x end) && go r
      end in
  (* i-th argument: mode given by the i-th delta (beyond the spec list: inherit) *)
  let args := fix ga (ds : list adelta) (l : list (option node)) : bool :=
      match l with
      | [] => true
      | o :: r => (match o with
                   | None => true
                   | Some x => impliedb cx (delta_mode m (hd ADNone ds)) x
                   end) && ga (tl ds) r
      end in
  let oargs := fun (sp : option cspec) (a : option pargs) =>
      match a with None => true | Some (_, l) => args (arg_deltas sp) l end in
  match n with
  | NChars _ _ m' _ => nmode_eqb m' m
  | NComment _ _ m' _ _ => nmode_eqb m' m
  | NGroup _ _ m' _ _ b => nmode_eqb m' m && on m b
  | NMacro _ _ m' nm _ a => nmode_eqb m' m && oargs (get_macro_spec cx nm) a
  | NEnv _ _ m' nm a b =>
      nmode_eqb m' m && oargs (get_env_spec cx nm) a && on (body_mode (get_env_spec cx nm) m) b
  | NSpecials _ _ m' ch a => nmode_eqb m' m && oargs (get_specials_spec cx ch) a
  | NMath _ _ m' d dl dr b =>
      nmode_eqb m' m && math_delims_ok d dl dr && on (math_mode (Some dl)) b
  | NList _ _ l => items l
  end.

Definition implied (cx : context) (m : nmode) (n : node) : Prop := impliedb cx m n = true.

(** the same for optional nodes, node lists and argument lists *)
Definition oimpliedb (cx : context) (m : nmode) (o : option node) : bool :=
  match o with None => true | Some x => impliedb cx m x end.
Definition all_impliedb (cx : context) (m : nmode) (l : list (option node)) : bool :=
  forallb (oimpliedb cx m) l.
Fixpoint args_impliedb (cx : context) (m : nmode) (ds : list adelta) (l : list (option node)) : bool :=
  match l with
  | [] => true
  | o :: r => oimpliedb cx (delta_mode m (hd ADNone ds)) o && args_impliedb cx m (tl ds) r
  end.
Definition oargs_impliedb (cx : context) (m : nmode) (sp : option cspec) (a : option pargs) : bool :=
  match a with None => true | Some (_, l) => args_impliedb cx m (arg_deltas sp) l end.

(** * Unfolding equations *)
Lemma impliedb_list cx m a b l : impliedb cx m (NList a b l) = all_impliedb cx m l.
Proof. cbn [impliedb]. induction l as [|o l IH]; [reflexivity|]. cbn [all_impliedb forallb oimpliedb]. rewrite IH. reflexivity. Qed.

Lemma impliedb_args_unfold cx m ds l :
  (fix ga (ds : list adelta) (l : list (option node)) : bool :=
      match l with
      | [] => true
      | o :: r => (match o with
                   | None => true
                   | Some x => impliedb cx (delta_mode m (hd ADNone ds)) x
                   end) && ga (tl ds) r
      end) ds l = args_impliedb cx m ds l.
Proof. revert ds. induction l as [|o l IH]; intros ds; [reflexivity|]. cbn [args_impliedb oimpliedb]. rewrite IH. reflexivity. Qed.

Lemma impliedb_chars cx m p e m' c : impliedb cx m (NChars p e m' c) = nmode_eqb m' m.
Proof. reflexivity. Qed.
Lemma impliedb_comment cx m p e m' c q : impliedb cx m (NComment p e m' c q) = nmode_eqb m' m.
Proof. reflexivity. Qed.
Lemma impliedb_group cx m p e m' dl dr b :
  impliedb cx m (NGroup p e m' dl dr b) = nmode_eqb m' m && oimpliedb cx m b.
Proof. reflexivity. Qed.
Lemma impliedb_macro cx m p e m' nm q a :
  impliedb cx m (NMacro p e m' nm q a) = nmode_eqb m' m && oargs_impliedb cx m (get_macro_spec cx nm) a.
Proof. cbn [impliedb]. destruct a as [[sp l]|]; [|reflexivity]. cbn [oargs_impliedb]. rewrite impliedb_args_unfold. reflexivity. Qed.
Lemma impliedb_specials cx m p e m' ch a :
  impliedb cx m (NSpecials p e m' ch a) = nmode_eqb m' m && oargs_impliedb cx m (get_specials_spec cx ch) a.
Proof. cbn [impliedb]. destruct a as [[sp l]|]; [|reflexivity]. cbn [oargs_impliedb]. rewrite impliedb_args_unfold. reflexivity. Qed.
Lemma impliedb_env cx m p e m' nm a b :
  impliedb cx m (NEnv p e m' nm a b)
  = nmode_eqb m' m && oargs_impliedb cx m (get_env_spec cx nm) a
    && oimpliedb cx (body_mode (get_env_spec cx nm) m) b.
Proof. cbn [impliedb]. destruct a as [[sp l]|]; [|reflexivity]. cbn [oargs_impliedb]. rewrite impliedb_args_unfold. reflexivity. Qed.
Lemma impliedb_math cx m p e m' d dl dr b :
  impliedb cx m (NMath p e m' d dl dr b)
  = nmode_eqb m' m && math_delims_ok d dl dr && oimpliedb cx (math_mode (Some dl)) b.
Proof. reflexivity. Qed.

(** * Facts about the spec *)
Lemma str_eqb_iff : forall a b, str_eqb a b = true <-> a = b.
Proof.
  unfold str_eqb. induction a as [|x a IH]; destruct b as [|y b]; split; intros H; try reflexivity; try discriminate.
  - apply andb_true_iff in H. destruct H as [H1 H2]. apply N.eqb_eq in H1. apply IH in H2. congruence.
  - injection H as -> ->. apply andb_true_iff. split; [apply N.eqb_refl | apply IH; reflexivity].
Qed.
Lemma str_eqb_rfl a : str_eqb a a = true.
Proof. apply str_eqb_iff. reflexivity. Qed.

Lemma nmode_eqb_iff a b : nmode_eqb a b = true <-> a = b.
Proof.
  unfold nmode_eqb. destruct a as [ia da], b as [ib db]. cbn [in_math math_delim]. split.
  - intros H. apply andb_true_iff in H. destruct H as [H1 H2]. apply eqb_prop in H1. subst ib.
    destruct da as [x|], db as [y|]; cbn in H2; try discriminate; [|reflexivity].
    apply str_eqb_iff in H2. subst. reflexivity.
  - intros H. injection H as -> ->. rewrite eqb_reflx. destruct db; cbn; [apply str_eqb_rfl | reflexivity].
Qed.
Lemma nmode_eqb_rfl a : nmode_eqb a a = true.
Proof. apply nmode_eqb_iff. reflexivity. Qed.

(** a proper node that is implied w.r.t. [m] carries [m] *)
Lemma implied_node_mode cx m n m' : implied cx m n -> node_mode n = Some m' -> m' = m.
Proof.
  unfold implied. destruct n; cbn [node_mode]; intros H E; try discriminate; injection E as <-.
  - apply nmode_eqb_iff. exact H.
  - apply nmode_eqb_iff. exact H.
  - rewrite impliedb_group in H. apply andb_true_iff in H. apply nmode_eqb_iff. tauto.
  - rewrite impliedb_macro in H. apply andb_true_iff in H. apply nmode_eqb_iff. tauto.
  - rewrite impliedb_env in H. rewrite !andb_true_iff in H. apply nmode_eqb_iff. tauto.
  - rewrite impliedb_specials in H. apply andb_true_iff in H. apply nmode_eqb_iff. tauto.
  - rewrite impliedb_math in H. rewrite !andb_true_iff in H. apply nmode_eqb_iff. tauto.
Qed.

Lemma all_impliedb_app cx m l1 l2 :
  all_impliedb cx m (l1 ++ l2) = all_impliedb cx m l1 && all_impliedb cx m l2.
Proof. apply forallb_app. Qed.

Lemma all_impliedb_snoc cx m l o :
  all_impliedb cx m l = true -> oimpliedb cx m o = true -> all_impliedb cx m (l ++ [o]) = true.
Proof. intros H1 H2. rewrite all_impliedb_app, H1. cbn. rewrite H2. reflexivity. Qed.

Lemma impliedb_mk_nodelist cx m a b l : impliedb cx m (mk_nodelist a b l) = all_impliedb cx m l.
Proof. unfold mk_nodelist. apply impliedb_list. Qed.

(** arguments without deltas are plain items *)
Lemma args_impliedb_nil cx m l : args_impliedb cx m [] l = all_impliedb cx m l.
Proof. induction l as [|o l IH]; [reflexivity|]. cbn [args_impliedb all_impliedb forallb hd tl delta_mode]. f_equal. exact IH. Qed.
