(** Composition glue (C12 x C02), relational form: two trees of the same
    shape render equally whenever they agree on everything [node_text] reads:
    characters, names, delimiters, post-spaces, argument specs; comment texts
    only if comments are kept; the source slices of formulas / equation
    environments only in verbatim mode.  Positions, recorded modes and the
    source strings are otherwise free.  (Subsumes [ComposePos.repos_text] and
    the comment part of [L2TFilters.xform_text]; same proof architecture.) *)
From Coq Require Import NArith ZArith List Bool Arith Lia.
From PLV Require Import Base.PyStr Tok.Tokenizer Parse.Nodes Parse.Parser L2T.L2T.
From PLV Require Import Tree.Visitor Proofs.VisitorProofs Proofs.L2TUnfold Proofs.L2TFilters.
Import ListNotations.

Section VRel.
  Variable src src' : str.
  Variable kc vb : bool.      (* comments kept; verbatim math *)

  Fixpoint vrel (n n' : node) {struct n} : Prop :=
    let all2 := fix all2 (l l' : list (option node)) {struct l} : Prop :=
        match l, l' with
        | [], [] => True
        | Some x :: r, Some x' :: r' => vrel x x' /\ all2 r r'
        | None :: r, None :: r' => all2 r r'
        | _, _ => False
        end in
    let orel := fun (b b' : option node) =>
        match b, b' with Some x, Some x' => vrel x x' | None, None => True | _, _ => False end in
    let arel := fun (a a' : option pargs) =>
        match a, a' with
        | Some (sp, l), Some (sp', l') => sp = sp' /\ all2 l l'
        | None, None => True
        | _, _ => False
        end in
    match n, n' with
    | NChars _ _ _ c, NChars _ _ _ c' => c = c'
    | NComment _ _ _ c ps, NComment _ _ _ c' ps' => ps = ps' /\ (kc = true -> c = c')
    | NGroup _ _ _ dl dr b, NGroup _ _ _ dl' dr' b' => dl = dl' /\ dr = dr' /\ orel b b'
    | NMacro _ _ _ nm ps a, NMacro _ _ _ nm' ps' a' => nm = nm' /\ ps = ps' /\ arel a a'
    | NEnv p e _ nm a b, NEnv p' e' _ nm' a' b' =>
        nm = nm' /\ arel a a' /\ orel b b' /\ (vb = true -> slice src p e = slice src' p' e')
    | NSpecials _ _ _ ch a, NSpecials _ _ _ ch' a' => ch = ch' /\ arel a a'
    | NMath p e _ d dl dr b, NMath p' e' _ d' dl' dr' b' =>
        d = d' /\ dl = dl' /\ dr = dr' /\ orel b b' /\ (vb = true -> slice src p e = slice src' p' e')
    | NList _ _ l, NList _ _ l' => all2 l l'
    | _, _ => False
    end.

  Definition vorel (b b' : option node) : Prop :=
    match b, b' with Some x, Some x' => vrel x x' | None, None => True | _, _ => False end.
  Fixpoint vall2 (l l' : list (option node)) {struct l} : Prop :=
    match l, l' with
    | [], [] => True
    | x :: r, x' :: r' => vorel x x' /\ vall2 r r'
    | _, _ => False
    end.
  Definition varel (a a' : option pargs) : Prop :=
    match a, a' with
    | Some (sp, l), Some (sp', l') => sp = sp' /\ vall2 l l'
    | None, None => True
    | _, _ => False
    end.

  Lemma all2_eq : forall l l',
    (fix all2 (l l' : list (option node)) {struct l} : Prop :=
        match l, l' with
        | [], [] => True
        | Some x :: r, Some x' :: r' => vrel x x' /\ all2 r r'
        | None :: r, None :: r' => all2 r r'
        | _, _ => False
        end) l l' <-> vall2 l l'.
  Proof.
    induction l as [|[x|] r IH]; intros [|[x'|] r']; cbn [vall2 vorel]; try tauto.
    - rewrite IH. tauto.
    - rewrite IH. tauto.
  Qed.

  Lemma vrel_group p e m dl dr b p' e' m' dl' dr' b' :
    vrel (NGroup p e m dl dr b) (NGroup p' e' m' dl' dr' b') <-> dl = dl' /\ dr = dr' /\ vorel b b'.
  Proof. reflexivity. Qed.
  Lemma vrel_macro p e m nm ps a p' e' m' nm' ps' a' :
    vrel (NMacro p e m nm ps a) (NMacro p' e' m' nm' ps' a') <-> nm = nm' /\ ps = ps' /\ varel a a'.
  Proof.
    cbn [vrel]. destruct a as [[sp l]|], a' as [[sp' l']|]; cbn [varel]; try tauto. rewrite all2_eq. tauto.
  Qed.
  Lemma vrel_env p e m nm a b p' e' m' nm' a' b' :
    vrel (NEnv p e m nm a b) (NEnv p' e' m' nm' a' b')
    <-> nm = nm' /\ varel a a' /\ vorel b b' /\ (vb = true -> slice src p e = slice src' p' e').
  Proof.
    cbn [vrel]. destruct a as [[sp l]|], a' as [[sp' l']|]; cbn [varel]; try tauto. rewrite all2_eq. tauto.
  Qed.
  Lemma vrel_specials p e m ch a p' e' m' ch' a' :
    vrel (NSpecials p e m ch a) (NSpecials p' e' m' ch' a') <-> ch = ch' /\ varel a a'.
  Proof.
    cbn [vrel]. destruct a as [[sp l]|], a' as [[sp' l']|]; cbn [varel]; try tauto. rewrite all2_eq. tauto.
  Qed.
  Lemma vrel_math p e m d dl dr b p' e' m' d' dl' dr' b' :
    vrel (NMath p e m d dl dr b) (NMath p' e' m' d' dl' dr' b')
    <-> d = d' /\ dl = dl' /\ dr = dr' /\ vorel b b' /\ (vb = true -> slice src p e = slice src' p' e').
  Proof. reflexivity. Qed.
  Lemma vrel_list p e l p' e' l' : vrel (NList p e l) (NList p' e' l') <-> vall2 l l'.
  Proof. cbn [vrel]. apply all2_eq. Qed.

  (** ** shape tests *)
  Lemma vall2_length l : forall l', vall2 l l' -> length l = length l'.
  Proof. induction l as [|x r IH]; intros [|x' r'] H; cbn in *; try tauto. f_equal. apply IH. tauto. Qed.

  Lemma vall2_skipn k : forall l l', vall2 l l' -> vall2 (skipn k l) (skipn k l').
  Proof.
    induction k as [|k IH]; intros l l' H; [exact H|].
    destruct l as [|x r], l' as [|x' r']; cbn in *; try tauto. apply IH. tauto.
  Qed.

  Definition vorel2 (x x' : option (option node)) : Prop :=
    match x, x' with Some y, Some y' => vorel y y' | None, None => True | _, _ => False end.
  Lemma vall2_nth i : forall l l', vall2 l l' -> vorel2 (nth_error l i) (nth_error l' i).
  Proof.
    induction i as [|i IH]; intros [|x r] [|x' r'] H; cbn in *; try tauto. apply IH. tauto.
  Qed.

  Lemma is_chars_rel x x' : vorel x x' -> is_chars x = is_chars x'.
  Proof. destruct x as [[]|], x' as [[]|]; cbn; tauto. Qed.

  Lemma argn_of_rel a a' : varel a a' -> vall2 (argn_of a) (argn_of a').
  Proof. destruct a as [[sp l]|], a' as [[sp' l']|]; cbn; tauto. Qed.
  Lemma legacy_idx_rel a a' : varel a a' -> legacy_idx a = legacy_idx a'.
  Proof. destruct a as [[sp l]|], a' as [[sp' l']|]; cbn; try tauto. intros [<- _]. reflexivity. Qed.

  Lemma legacy_view_rel a a' : varel a a' ->
    vorel (fst (legacy_view a)) (fst (legacy_view a')) /\ vall2 (snd (legacy_view a)) (snd (legacy_view a')).
  Proof.
    intros H. unfold legacy_view. rewrite <- (legacy_idx_rel a a' H).
    pose proof (argn_of_rel a a' H) as HL.
    destruct (legacy_idx a) as [[i|] off]; cbn [fst snd].
    - split; [|now apply vall2_skipn].
      pose proof (vall2_nth i _ _ HL) as N.
      destruct (nth_error (argn_of a) i) as [y|], (nth_error (argn_of a') i) as [y'|]; cbn in N |- *; tauto.
    - split; [exact I|now apply vall2_skipn].
  Qed.

  Lemma is_bare_macro_rel x x' : vorel x x' -> is_bare_macro x = is_bare_macro x'.
  Proof.
    destruct x as [n|], x' as [n'|]; cbn [vorel]; try tauto.
    destruct n, n'; cbn [vrel]; try tauto; intros H; try reflexivity.
    change (vrel (NMacro p e m name post args) (NMacro p0 e0 m0 name0 post0 args0)) in H.
    apply -> vrel_macro in H. destruct H as (_ & <- & Ha).
    cbn [is_bare_macro]. destruct (legacy_view_rel _ _ Ha) as [A B].
    destruct (legacy_view args) as [[c|] [|y r]], (legacy_view args0) as [[c'|] [|y' r']];
      cbn in A, B |- *; tauto.
  Qed.

  Lemma pre_space_rel sl prev prev' x x' :
    is_bare_macro prev = is_bare_macro prev' -> vorel x x' -> pre_space sl prev x = pre_space sl prev' x'.
  Proof. intros H Hx. unfold pre_space. now rewrite H, (is_chars_rel x x' Hx). Qed.

  Lemma is_amp_rel x x' : vrel x x' -> is_amp x = is_amp x'.
  Proof.
    destruct x, x'; cbn [vrel]; try tauto; intros H; try reflexivity.
    change (vrel (NSpecials p e m chars args) (NSpecials p0 e0 m0 chars0 args0)) in H.
    apply -> vrel_specials in H. destruct H as [<- _]. reflexivity.
  Qed.
  Lemma is_rowsep_rel x x' : vrel x x' -> is_rowsep x = is_rowsep x'.
  Proof.
    destruct x, x'; cbn [vrel]; try tauto; intros H; try reflexivity.
    change (vrel (NMacro p e m name post args) (NMacro p0 e0 m0 name0 post0 args0)) in H.
    apply -> vrel_macro in H. destruct H as [<- _]. reflexivity.
  Qed.
End VRel.

Section RelText.
  Variable src src' : str.
  Variable lt : l2tctx.
  Variable cx : context.
  Variable o : opts.

  Let kc := o_keep_comments o.
  Let vb := match o_math o with MMVerbatim => true | _ => false end.
  Let nt := node_text src lt cx o.
  Let nt' := node_text src' lt cx o.
  Notation R := (vrel src src' kc vb).
  Notation Ro := (vorel src src' kc vb).
  Notation Rl := (vall2 src src' kc vb).
  Notation Ra := (varel src src' kc vb).

  Definition Qn (n : node) : Prop :=
    forall n', R n n' ->
    (forall sl st, nt sl st n = nt' sl st n')
    /\ (forall sl st, arg_text_g nt sl st (Some n) = arg_text_g nt' sl st (Some n')).

  Lemma single_rel x x' : Pslot Qn x -> Ro x x' -> forall sl st,
    single_text_g nt sl st x = single_text_g nt' sl st x'.
  Proof. destruct x as [c|], x' as [c'|]; cbn [vorel]; try tauto. intros H Hr sl st. cbn. now apply H. Qed.

  Lemma argt_rel x x' : Pslot Qn x -> Ro x x' -> forall sl st,
    arg_text_g nt sl st x = arg_text_g nt' sl st x'.
  Proof. destruct x as [c|], x' as [c'|]; cbn [vorel]; try tauto. intros H Hr sl st. now apply H. Qed.

  Lemma items_rel : forall l, Forall (Pslot Qn) l -> forall l', Rl l l' -> forall sl st prev prev',
    is_bare_macro prev = is_bare_macro prev' ->
    items_text_g nt sl st prev l = items_text_g nt' sl st prev' l'.
  Proof.
    induction 1 as [|x r Hx Hr IH]; intros [|x' r'] HR sl st prev prev' Hp; cbn [vall2] in HR; try tauto.
    destruct HR as [Rx Rr]. rewrite !items_text_cons.
    rewrite (single_rel x x' Hx Rx). destruct (single_text_g nt' sl st x') as [t1 st1].
    rewrite (IH r' Rr sl st1 x x' (is_bare_macro_rel _ _ _ _ x x' Rx)).
    destruct (items_text_g nt' sl st1 x' r') as [t2 st2].
    now rewrite (pre_space_rel _ _ _ _ sl prev prev' x x' Hp Rx).
  Qed.

  Lemma body_rel b b' : Pbody Qn b -> Ro b b' -> forall sl st,
    body_text_g nt sl st b = body_text_g nt' sl st b'.
  Proof.
    destruct b as [c|], b' as [c'|]; cbn [vorel]; try tauto. intros Hb Hr sl st.
    destruct Hb as [_ Hi]. destruct c, c'; try (cbn [vrel] in Hr; tauto); try reflexivity.
    apply -> vrel_list in Hr. cbn [body_text_g]. now apply items_rel.
  Qed.

  Lemma args_texts_rel : forall l, Forall (Pslot Qn) l -> forall l', Rl l l' -> forall sl st,
    args_texts_g nt sl st l = args_texts_g nt' sl st l'.
  Proof.
    induction 1 as [|x r Hx Hr IH]; intros [|x' r'] HR sl st; cbn [vall2] in HR; try tauto.
    destruct HR as [Rx Rr]. rewrite !args_texts_cons, (argt_rel x x' Hx Rx).
    destruct (arg_text_g nt' sl st x') as [t st1]. now rewrite (IH r' Rr).
  Qed.

  Lemma args_singles_rel : forall l, Forall (Pslot Qn) l -> forall l', Rl l l' -> forall sl st,
    args_singles_g nt sl st l = args_singles_g nt' sl st l'.
  Proof.
    induction 1 as [|x r Hx Hr IH]; intros [|x' r'] HR sl st; cbn [vall2] in HR; try tauto.
    destruct HR as [Rx Rr]. rewrite !args_singles_cons, (single_rel x x' Hx Rx).
    destruct (single_text_g nt' sl st x') as [t st1]. now rewrite (IH r' Rr).
  Qed.

  Lemma atexts_rel a a' : Pargs Qn a -> Ra a a' -> forall sl st,
    atexts_g nt sl st a = atexts_g nt' sl st a'.
  Proof.
    destruct a as [[sp l]|], a' as [[sp' l']|]; cbn [varel]; try tauto. intros Ha [_ Hl] sl st.
    now apply args_texts_rel.
  Qed.
  Lemma asingles_rel a a' : Pargs Qn a -> Ra a a' -> forall sl st,
    asingles_g nt sl st a = asingles_g nt' sl st a'.
  Proof.
    destruct a as [[sp l]|], a' as [[sp' l']|]; cbn [varel]; try tauto. intros Ha [_ Hl] sl st.
    now apply args_singles_rel.
  Qed.

  Lemma matrix_rel sl : forall l, Forall (Pslot Qn) l -> forall l', Rl l l' -> forall st cur prev prev' cols rows,
    is_bare_macro prev = is_bare_macro prev' ->
    matrix_go_g nt sl st l cur prev cols rows = matrix_go_g nt' sl st l' cur prev' cols rows.
  Proof.
    induction 1 as [|x r Hx Hr IH]; intros [|x' r'] HR st cur prev prev' cols rows Hp; cbn [vall2] in HR; try tauto.
    destruct HR as [Rx Rr]. destruct x as [c|], x' as [c'|]; cbn [vorel] in Rx; try tauto.
    - rewrite !matrix_go_some. rewrite (is_amp_rel _ _ _ _ c c' Rx), (is_rowsep_rel _ _ _ _ c c' Rx).
      destruct (is_amp c'); [now apply IH|]. destruct (is_rowsep c'); [now apply IH|].
      rewrite (proj1 (Hx c' Rx)). destruct (nt' sl st c') as [t1 st1].
      rewrite (pre_space_rel _ _ _ _ sl prev prev' (Some c) (Some c') Hp Rx).
      apply IH; [exact Rr|]. exact (is_bare_macro_rel _ _ _ _ (Some c) (Some c') Rx).
    - rewrite !matrix_go_none. now apply IH.
  Qed.

  Lemma math_text_rel b b' : (forall sl st, body_text_g nt sl st b = body_text_g nt' sl st b') ->
    forall p e p' e', (vb = true -> slice src p e = slice src' p' e') ->
    forall sl st ie d dl dr,
    math_text_g src o nt sl st ie d p e dl dr b = math_text_g src' o nt' sl st ie d p' e' dl dr b'.
  Proof.
    intros H p e p' e' Hs sl st ie d dl dr. unfold math_text_g. unfold vb in Hs.
    destruct (o_math o); try (now rewrite H); try reflexivity.
    now rewrite (Hs eq_refl).
  Qed.

  Definition eqenv_text_at (s0 : str) (f : sls -> dstate -> node -> str * dstate)
             (sl : sls) (st : dstate) (nn : node) : str * dstate :=
    match nn with
    | NEnv p e _ nm _ b =>
        math_text_g s0 o f sl st true false p e
                    ([92;98;101;103;105;110;123]%N ++ nm ++ [125%N])
                    ([92;101;110;100;123]%N ++ nm ++ [125%N]) b
    | _ => ([], set_err st 2)
    end.

  Definition ebrel (eb eb' : option (option node)) : Prop :=
    match eb, eb' with Some b, Some b' => Ro b b' | None, None => True | _, _ => False end.

  Lemma call_repl_rel a a' eb eb' c nn nn' sl st :
    Pargs Qn a -> Ra a a' ->
    match eb with Some b => Pbody Qn b | None => True end -> ebrel eb eb' ->
    (forall sl st, eqenv_text_at src nt sl st nn = eqenv_text_at src' nt' sl st nn') ->
    call_repl_g src lt o nt sl st c nn a (match eb with Some b => b | None => None end)
    = call_repl_g src' lt o nt' sl st c nn' a' (match eb' with Some b => b | None => None end).
  Proof.
    intros Ha Ra' Hb Rb Heq. unfold call_repl_g.
    rewrite <- (legacy_idx_rel _ _ _ _ a a' Ra').
    pose proof (argn_of_rel _ _ _ _ a a' Ra') as HL.
    rewrite <- (vall2_length _ _ _ _ _ _ HL).
    destruct (legacy_idx a) as [optidx off].
    destruct c; try reflexivity;
      try (rewrite (asingles_rel a a' Ha Ra')); try (rewrite (atexts_rel a a' Ha Ra')); try reflexivity.
    - (* CItem *)
      destruct optidx as [i|]; [|reflexivity].
      pose proof (vall2_nth _ _ _ _ i _ _ HL) as N.
      destruct (nth_error (argn_of a) i) as [[y|]|], (nth_error (argn_of a') i) as [[y'|]|];
        cbn in N; try tauto; reflexivity.
    - (* CUebung *)
      pose proof (vall2_nth _ _ _ _ 1 _ _ HL) as N.
      destruct (nth_error (argn_of a) 1) as [[y|]|], (nth_error (argn_of a') 1) as [[y'|]|];
        cbn in N; try tauto; reflexivity.
    - (* CEqEnv *)
      exact (Heq sl st).
    - (* CMatrix *)
      destruct eb as [[b|]|], eb' as [[b'|]|]; cbn [ebrel vorel] in Rb; try tauto; try reflexivity.
      destruct Hb as [_ Hi]. destruct b, b'; try (cbn [vrel] in Rb; tauto); try reflexivity.
      apply -> vrel_list in Rb.
      now rewrite (matrix_rel sl items Hi items0 Rb st None None None [] []).
  Qed.

  Lemma str_repl_rel a a' eb eb' tmpl k sl st :
    Pargs Qn a -> Ra a a' ->
    match eb with Some b => Pbody Qn b | None => True end -> ebrel eb eb' ->
    str_repl_g nt sl st tmpl a k eb = str_repl_g nt' sl st tmpl a' k eb'.
  Proof.
    intros Ha Ra' Hb Rb. unfold str_repl_g.
    destruct (mem_c 37 tmpl && negb (Nat.eqb (length tmpl) 1)); [|reflexivity].
    destruct (parse_fmt (S (length tmpl)) tmpl) as [items|]; [|reflexivity].
    destruct eb as [b|], eb' as [b'|]; cbn [ebrel] in Rb; try tauto.
    - destruct (existsb _ items).
      + now rewrite (body_rel b b' Hb Rb).
      + rewrite (atexts_rel a a' Ha Ra'). destruct (atexts_g nt' sl st a') as [ts0 st1].
        now rewrite (body_rel b b' Hb Rb).
    - now rewrite (atexts_rel a a' Ha Ra').
  Qed.

  Lemma generic_rel a a' eb eb' ts dd k nn nn' sl st :
    Pargs Qn a -> Ra a a' ->
    match eb with Some b => Pbody Qn b | None => True end -> ebrel eb eb' ->
    (forall sl st, eqenv_text_at src nt sl st nn = eqenv_text_at src' nt' sl st nn') ->
    generic_g src lt o nt sl st ts dd nn a k eb = generic_g src' lt o nt' sl st ts dd nn' a' k eb'.
  Proof.
    intros Ha Ra' Hb Rb Heq. unfold generic_g.
    destruct (match ts with Some t => t_repl t | None => RNone end) as [|tmpl|c].
    - destruct (match ts with Some t => t_discard t | None => dd end); [reflexivity|].
      destruct eb as [b|], eb' as [b'|]; cbn [ebrel] in Rb; try tauto;
        [now apply body_rel | now rewrite (atexts_rel a a' Ha Ra')].
    - destruct tmpl as [|c0 tl]; [|now apply str_repl_rel].
      destruct (match ts with Some t => t_discard t | None => dd end); [reflexivity|].
      destruct eb as [b|], eb' as [b'|]; cbn [ebrel] in Rb; try tauto;
        [now apply body_rel | now rewrite (atexts_rel a a' Ha Ra')].
    - now apply call_repl_rel.
  Qed.

  Theorem vrel_text_all : forall n, Qn n.
  Proof.
    induction n using node_ind'; intros n' HR;
      destruct n' as [p' e' m' c'|p' e' m' c' ps'|p' e' m' dl' dr' b'|p' e' m' nm' ps' a'|p' e' m' nm' a' b'
                     |p' e' m' c' a'|p' e' m' d' dl' dr' b'|p' e' l'];
      try (cbn [vrel] in HR; tauto).
    - (* chars *) cbn [vrel] in HR. subst. split; intros; reflexivity.
    - (* comment *)
      cbn [vrel] in HR. destruct HR as [<- Hc].
      assert (Hn : forall sl st, nt sl st (NComment p e m c ps) = nt' sl st (NComment p' e' m' c' ps)).
      { intros sl st. unfold nt, nt'. rewrite !node_text_step. cbn [node_step].
        unfold kc in Hc. destruct (o_keep_comments o); [now rewrite (Hc eq_refl)|reflexivity]. }
      split; [exact Hn|]. intros sl st. exact (Hn sl st).
    - (* group *)
      rename H into Hb. apply -> vrel_group in HR. destruct HR as (<- & <- & Rb).
      split; intros sl st.
      + unfold nt, nt'. rewrite !node_text_step. cbn [node_step]. fold nt. fold nt'.
        now rewrite (body_rel b b' Hb Rb).
      + cbn [arg_text_g]. now apply body_rel.
    - (* macro *)
      rename H into Ha. apply -> vrel_macro in HR. destruct HR as (<- & <- & Ra').
      assert (Hn : forall sl st, nt sl st (NMacro p e m nm ps a) = nt' sl st (NMacro p' e' m' nm ps a')).
      { intros sl st. unfold nt, nt'. rewrite !node_text_step. cbn [node_step]. fold nt. fold nt'.
        apply (generic_rel a a' None None); [exact Ha | exact Ra' | exact I | exact I | reflexivity]. }
      split; [exact Hn|]. intros sl st. exact (Hn sl st).
    - (* environment *)
      rename H into Ha. rename H0 into Hb. apply -> vrel_env in HR. destruct HR as (<- & Ra' & Rb & Hs).
      assert (Hn : forall sl st, nt sl st (NEnv p e m nm a b) = nt' sl st (NEnv p' e' m' nm a' b')).
      { intros sl st. unfold nt, nt'. rewrite !node_text_step. cbn [node_step]. fold nt. fold nt'.
        apply (generic_rel a a' (Some b) (Some b')); [exact Ha | exact Ra' | exact Hb | exact Rb |].
        intros sl' st'. cbn [eqenv_text_at]. apply math_text_rel; [|exact Hs].
        intros sl2 st2. now apply body_rel. }
      split; [exact Hn|]. intros sl st. exact (Hn sl st).
    - (* specials *)
      rename H into Ha. apply -> vrel_specials in HR. destruct HR as (<- & Ra').
      assert (Hn : forall sl st, nt sl st (NSpecials p e m c a) = nt' sl st (NSpecials p' e' m' c a')).
      { intros sl st. unfold nt, nt'. rewrite !node_text_step. cbn [node_step]. fold nt. fold nt'.
        destruct (assoc (lt_specials lt) c) as [t|]; [|reflexivity].
        apply (generic_rel a a' None None); [exact Ha | exact Ra' | exact I | exact I | reflexivity]. }
      split; [exact Hn|]. intros sl st. exact (Hn sl st).
    - (* math *)
      rename H into Hb. apply -> vrel_math in HR. destruct HR as (<- & <- & <- & Rb & Hs).
      assert (Hn : forall sl st, nt sl st (NMath p e m d dl dr b) = nt' sl st (NMath p' e' m' d dl dr b')).
      { intros sl st. unfold nt, nt'. rewrite !node_text_step. cbn [node_step]. fold nt. fold nt'.
        apply math_text_rel; [|exact Hs]. intros sl2 st2. now apply body_rel. }
      split; [exact Hn|]. intros sl st. exact (Hn sl st).
    - (* list *)
      rename H into Hl. apply -> vrel_list in HR. split; intros sl st.
      + unfold nt, nt'. rewrite !node_text_step. cbn [node_step]. fold nt. fold nt'. now apply items_rel.
      + cbn [arg_text_g]. now apply items_rel.
  Qed.

  Theorem vrel_text : forall n n', R n n' -> forall sl st, nt sl st n = nt' sl st n'.
  Proof. intros n n' H. exact (proj1 (vrel_text_all n n' H)). Qed.
End RelText.
