(** Proofs about [Tree/Visitor.v]: the operational visitor (double dispatch,
    descend helpers, writer of callback events) equals the declarative
    post-order specification on every tree and for every callback record; each
    object of the tree gets exactly one callback; children before parents;
    results handed over in slot order. *)
From Coq Require Import NArith ZArith List Bool Arith Lia Permutation.
From PLV Require Import Base.PyStr Base.Wire Parse.Nodes Tree.Visitor.
Import ListNotations.

(** * Induction principle for the nested inductive [node] *)
Section NodeInd.
  Variable P : node -> Prop.
  Definition Pslot (o : option node) : Prop := match o with None => True | Some c => P c end.
  Definition Pargs (a : option pargs) : Prop :=
    match a with None => True | Some (_, l) => Forall Pslot l end.
  (** a body is a slot; when it is a node list the hypothesis also covers its items *)
  Definition Pitems (c : node) : Prop :=
    match c with NList _ _ l => Forall Pslot l | _ => True end.
  Definition Pbody (b : option node) : Prop :=
    match b with None => True | Some c => P c /\ Pitems c end.
  Hypothesis HChars : forall p e m c, P (NChars p e m c).
  Hypothesis HComment : forall p e m c ps, P (NComment p e m c ps).
  Hypothesis HGroup : forall p e m dl dr b, Pbody b -> P (NGroup p e m dl dr b).
  Hypothesis HMacro : forall p e m nm ps a, Pargs a -> P (NMacro p e m nm ps a).
  Hypothesis HEnv : forall p e m nm a b, Pargs a -> Pbody b -> P (NEnv p e m nm a b).
  Hypothesis HSpecials : forall p e m c a, Pargs a -> P (NSpecials p e m c a).
  Hypothesis HMath : forall p e m d dl dr b, Pbody b -> P (NMath p e m d dl dr b).
  Hypothesis HList : forall p e l, Forall Pslot l -> P (NList p e l).

  Fixpoint node_ind' (n : node) : P n :=
    let items := fix go (l : list (option node)) : Forall Pslot l :=
      match l return Forall Pslot l with
      | [] => Forall_nil _
      | o :: r => Forall_cons o (match o return Pslot o with None => I | Some c => node_ind' c end) (go r)
      end in
    let body := fun (b : option node) =>
      match b return Pbody b with
      | None => I
      | Some c => conj (node_ind' c)
                       (match c as c0 return Pitems c0 with
                        | NList _ _ l => items l
                        | _ => I
                        end)
      end in
    let args := fun (a : option pargs) =>
      match a return Pargs a with
      | None => I
      | Some (sp, l) => items l
      end in
    match n return P n with
    | NChars p e m c => HChars p e m c
    | NComment p e m c ps => HComment p e m c ps
    | NGroup p e m dl dr b => HGroup p e m dl dr b (body b)
    | NMacro p e m nm ps a => HMacro p e m nm ps a (args a)
    | NEnv p e m nm a b => HEnv p e m nm a b (args a) (body b)
    | NSpecials p e m c a => HSpecials p e m c a (args a)
    | NMath p e m d dl dr b => HMath p e m d dl dr b (body b)
    | NList p e l => HList p e l (items l)
    end.
End NodeInd.

(** * Unfolding equations of the slot-wise helpers *)
Section Unfold.
  Context {R : Type}.
  Lemma descend_items_none : forall rec p mk i r,
    @descend_items R rec p mk i (None :: r)
    = vbind (descend_items rec p mk (S i) r) (fun rs => vret (None :: rs)).
  Proof. reflexivity. Qed.
  Lemma descend_items_some : forall rec p mk i c r,
    @descend_items R rec p mk i (Some c :: r)
    = vbind (rec (p ++ [mk i]) c) (fun x =>
      vbind (descend_items rec p mk (S i) r) (fun rs => vret (Some x :: rs))).
  Proof. reflexivity. Qed.
  Lemma slot_results_none : forall res p mk i r,
    @slot_results R res p mk i (None :: r) = None :: slot_results res p mk (S i) r.
  Proof. reflexivity. Qed.
  Lemma slot_results_some : forall res p mk i c r,
    @slot_results R res p mk i (Some c :: r) = Some (res (p ++ [mk i]) c) :: slot_results res p mk (S i) r.
  Proof. reflexivity. Qed.
  Lemma slot_events_none : forall evs p mk i r,
    @slot_events R evs p mk i (None :: r) = slot_events evs p mk (S i) r.
  Proof. reflexivity. Qed.
  Lemma slot_events_some : forall evs p mk i c r,
    @slot_events R evs p mk i (Some c :: r) = evs (p ++ [mk i]) c ++ slot_events evs p mk (S i) r.
  Proof. reflexivity. Qed.
End Unfold.
Lemma slot_occ_none : forall f p mk i r, slot_occ f p mk i (None :: r) = slot_occ f p mk (S i) r.
Proof. reflexivity. Qed.
Lemma slot_occ_some : forall f p mk i c r,
  slot_occ f p mk i (Some c :: r) = f (p ++ [mk i]) c ++ slot_occ f p mk (S i) r.
Proof. reflexivity. Qed.

(** * The model equals the specification *)
Section Main.
  Context {R : Type}.
  Variable cb : callbacks R.

  (** on a well-formed tree the visitor returns normally with the post-order
      log and the folded result; on an ill-formed one it raises *)
  Definition good (c : node) : Prop :=
    forall p,
      (wf c = true -> accept cb p c = (postorder_events cb p c, VOk (result cb p c)))
      /\ (wf c = false -> outcome (accept cb p c) = VTypeError).

  Lemma descend_items_good : forall l, Forall (Pslot good) l -> forall p mk i,
    (forallb (wf_slot wf) l = true ->
       descend_items (accept cb) p mk i l
       = (slot_events (postorder_events cb) p mk i l, VOk (slot_results (result cb) p mk i l)))
    /\ (forallb (wf_slot wf) l = false -> snd (descend_items (accept cb) p mk i l) = VTypeError).
  Proof.
    induction 1 as [|o r Ho Hr IH]; intros p mk i.
    - split; [reflexivity | discriminate].
    - destruct o as [c|].
      + rewrite descend_items_some, slot_events_some, slot_results_some.
        cbn [forallb wf_slot]. destruct (Ho (p ++ [mk i])) as [Hok Hbad].
        destruct (IH p mk (S i)) as [IHok IHbad].
        destruct (wf c) eqn:Ewf; cbn [andb].
        * rewrite (Hok eq_refl). split; intros Hl.
          -- rewrite (IHok Hl). unfold vbind, vret. now rewrite app_nil_r.
          -- specialize (IHbad Hl). unfold vbind, vret.
             destruct (descend_items (accept cb) p mk (S i) r) as [e2 [rs|]]; cbn in *; first [discriminate | reflexivity | congruence].
        * split; [discriminate|]. intros _. specialize (Hbad eq_refl).
          unfold outcome in Hbad. unfold vbind.
          destruct (accept cb (p ++ [mk i]) c) as [e1 [x|]]; cbn in *; first [discriminate | reflexivity | congruence].
      + rewrite descend_items_none, slot_events_none, slot_results_none.
        cbn [forallb wf_slot andb]. destruct (IH p mk (S i)) as [IHok IHbad]. split; intros Hl.
        * rewrite (IHok Hl). unfold vbind, vret. now rewrite app_nil_r.
        * specialize (IHbad Hl). unfold vbind, vret.
          destruct (descend_items (accept cb) p mk (S i) r) as [e2 [rs|]]; cbn in *; first [discriminate | reflexivity | congruence].
  Qed.

  Definition iter_of (b : option node) : pyiter :=
    match b with None => ItNone | Some (NList _ _ l) => ItList l | Some _ => ItNotIterable end.

  Lemma accept_group : forall p p0 e m dl dr b,
    accept cb p (NGroup p0 e m dl dr b)
    = node_standard_process_group cb (accept cb) p (NGroup p0 e m dl dr b) (iter_of b).
  Proof. intros. destruct b as [[]|]; reflexivity. Qed.
  Lemma accept_env : forall p p0 e m nm a b,
    accept cb p (NEnv p0 e m nm a b)
    = node_standard_process_environment cb (accept cb) p (NEnv p0 e m nm a b) a (iter_of b).
  Proof. intros. destruct b as [[]|]; reflexivity. Qed.
  Lemma accept_math : forall p p0 e m d dl dr b,
    accept cb p (NMath p0 e m d dl dr b)
    = node_standard_process_math cb (accept cb) p (NMath p0 e m d dl dr b) (iter_of b).
  Proof. intros. destruct b as [[]|]; reflexivity. Qed.

  Lemma din_body : forall b, Pbody good b -> forall p d,
    (wf_body wf b = true ->
       descend_into_nodelist (accept cb) p SBody (iter_of b) d
       = (body_events (postorder_events cb) p b, VOk (body_result (result cb) p d b)))
    /\ (wf_body wf b = false ->
         snd (descend_into_nodelist (accept cb) p SBody (iter_of b) d) = VTypeError).
  Proof.
    intros b Hb p d. destruct b as [c|]; [|split; [reflexivity | discriminate]].
    destruct c; try (split; [discriminate | reflexivity]).
    destruct Hb as [_ Hitems].
    destruct (descend_items_good _ Hitems p SBody 0) as [Hok Hbad].
    cbn [wf_body iter_of descend_into_nodelist body_events body_result]. split; intros Hl.
    - rewrite (Hok Hl). unfold vbind, vret. now rewrite app_nil_r.
    - specialize (Hbad Hl). unfold vbind, vret.
      destruct (descend_items (accept cb) p SBody 0 items) as [e2 [rs|]]; cbn in *; first [discriminate | reflexivity | congruence].
  Qed.

  Lemma dipa_good : forall a, Pargs good a -> forall p,
    (wf_args wf a = true ->
       descend_into_parsed_arguments cb (accept cb) p a
       = (args_events cb (postorder_events cb) p a, VOk (args_result cb (result cb) p a)))
    /\ (wf_args wf a = false ->
         snd (descend_into_parsed_arguments cb (accept cb) p a) = VTypeError).
  Proof.
    intros a Ha p. destruct a as [[sp l]|]; [|split; [reflexivity | discriminate]].
    cbn [Pargs] in Ha.
    destruct (descend_items_good _ Ha (p ++ [SArgs]) SArg 0) as [Hok Hbad].
    cbn [wf_args descend_into_parsed_arguments args_events args_result].
    unfold node_standard_process_parsed_arguments, descend_into_nodelist, pargs_payload.
    cbn [snd]. split; intros Hl.
    - rewrite (Hok Hl). unfold vbind, vret, visit_parsed_arguments, call.
      now rewrite !app_nil_r.
    - specialize (Hbad Hl). unfold vbind, vret.
      destruct (descend_items (accept cb) (p ++ [SArgs]) SArg 0 l) as [e2 [rs|]]; cbn in *; first [discriminate | reflexivity | congruence].
  Qed.

  Theorem all_good : forall n, good n.
  Proof.
    induction n using node_ind'.
    - intros q. split; [reflexivity | discriminate].
    - intros q. split; [reflexivity | discriminate].
    - (* group *)
      intros q. rewrite accept_group. unfold node_standard_process_group.
      destruct (din_body b H q use_list) as [Hok Hbad]. cbn [wf]. split; intros Hw.
      + rewrite (Hok Hw). reflexivity.
      + specialize (Hbad Hw). unfold outcome, vbind.
        destruct (descend_into_nodelist (accept cb) q SBody (iter_of b) use_list) as [e1 [x|]];
          cbn in *; first [discriminate | reflexivity | congruence].
    - (* macro *)
      intros q. cbn [accept]. unfold node_standard_process_macro.
      destruct (dipa_good a H q) as [Hok Hbad]. cbn [wf]. split; intros Hw.
      + rewrite (Hok Hw). reflexivity.
      + specialize (Hbad Hw). unfold outcome, vbind.
        destruct (descend_into_parsed_arguments cb (accept cb) q a) as [e1 [x|]]; cbn in *; first [discriminate | reflexivity | congruence].
    - (* environment *)
      intros q. rewrite accept_env. unfold node_standard_process_environment.
      destruct (dipa_good a H q) as [Aok Abad]. destruct (din_body b H0 q use_list) as [Bok Bbad].
      cbn [wf]. destruct (wf_args wf a) eqn:Ea; cbn [andb].
      + rewrite (Aok eq_refl). split; intros Hw.
        * rewrite (Bok Hw). unfold vbind, visit_environment_node, call. cbn.
          now rewrite <- app_assoc.
        * specialize (Bbad Hw). unfold outcome, vbind.
          destruct (descend_into_nodelist (accept cb) q SBody (iter_of b) use_list) as [e1 [x|]];
            cbn in *; first [discriminate | reflexivity | congruence].
      + split; [discriminate|]. intros _. specialize (Abad eq_refl). unfold outcome, vbind.
        destruct (descend_into_parsed_arguments cb (accept cb) q a) as [e1 [x|]]; cbn in *; first [discriminate | reflexivity | congruence].
    - (* specials *)
      intros q. cbn [accept]. unfold node_standard_process_specials.
      destruct (dipa_good a H q) as [Hok Hbad]. cbn [wf]. split; intros Hw.
      + rewrite (Hok Hw). reflexivity.
      + specialize (Hbad Hw). unfold outcome, vbind.
        destruct (descend_into_parsed_arguments cb (accept cb) q a) as [e1 [x|]]; cbn in *; first [discriminate | reflexivity | congruence].
    - (* math *)
      intros q. rewrite accept_math. unfold node_standard_process_math.
      destruct (din_body b H q None) as [Hok Hbad]. cbn [wf]. split; intros Hw.
      + rewrite (Hok Hw). reflexivity.
      + specialize (Hbad Hw). unfold outcome, vbind.
        destruct (descend_into_nodelist (accept cb) q SBody (iter_of b) None) as [e1 [x|]];
          cbn in *; first [discriminate | reflexivity | congruence].
    - (* node list *)
      intros q. cbn [accept].
      unfold node_standard_process_list, descend_into_nodelist.
      destruct (descend_items_good _ H q SItem 0) as [Hok Hbad]. cbn [wf]. split; intros Hw.
      + rewrite (Hok Hw). unfold vbind, vret, visit_node_list, call. cbn.
        now rewrite !app_nil_r.
      + specialize (Hbad Hw). unfold outcome, vbind, vret.
        destruct (descend_items (accept cb) q SItem 0 l) as [e2 [rs|]]; cbn in *; first [discriminate | reflexivity | congruence].
  Qed.

  Theorem visit_is_postorder : forall t, wf t = true ->
    visit cb t = (postorder_events cb [] t, VOk (result cb [] t)).
  Proof. intros t Hw. exact (proj1 (all_good t []) Hw). Qed.

  Theorem visit_events_postorder : forall t, wf t = true ->
    events (visit cb t) = postorder_events cb [] t.
  Proof. intros t Hw. now rewrite visit_is_postorder. Qed.

  Theorem visit_raises_iff_illformed : forall t,
    outcome (visit cb t) = VTypeError <-> wf t = false.
  Proof.
    intros t. split.
    - intros H. destruct (wf t) eqn:E; [|reflexivity].
      rewrite (visit_is_postorder t E) in H. discriminate.
    - intros H. exact (proj2 (all_good t []) H).
  Qed.

End Main.

(** * Generic facts *)
Lemma Forall_Pslot_all : forall (Q : node -> Prop), (forall n, Q n) -> forall l, Forall (Pslot Q) l.
Proof. intros Q H l. induction l as [|[c|] r IH]; constructor; cbn; auto. Qed.
Lemma Pbody_all : forall (Q : node -> Prop), (forall n, Q n) -> forall b, Pbody Q b.
Proof.
  intros Q H [c|]; cbn; [|exact I]. split; [apply H|]. destruct c; cbn; try exact I.
  now apply Forall_Pslot_all.
Qed.
Lemma Pargs_all : forall (Q : node -> Prop), (forall n, Q n) -> forall a, Pargs Q a.
Proof. intros Q H [[sp l]|]; cbn; [now apply Forall_Pslot_all | exact I]. Qed.

Lemma NoDup_app_intro : forall {A} (l1 l2 : list A),
  NoDup l1 -> NoDup l2 -> (forall x, In x l1 -> ~ In x l2) -> NoDup (l1 ++ l2).
Proof.
  intros A l1 l2 H1 H2 Hd. induction H1 as [|a l Ha Hl IH]; cbn; [exact H2|].
  constructor.
  - rewrite in_app_iff. intros [Hin|Hin]; [exact (Ha Hin)|]. exact (Hd a (or_introl eq_refl) Hin).
  - apply IH. intros x Hx. apply Hd. now right.
Qed.

Lemma FOP_app : forall {A} (Rel : A -> A -> Prop) (l1 l2 : list A),
  ForallOrdPairs Rel l1 -> ForallOrdPairs Rel l2 ->
  (forall a b, In a l1 -> In b l2 -> Rel a b) -> ForallOrdPairs Rel (l1 ++ l2).
Proof.
  intros A Rel l1 l2 H1 H2 Hc. induction H1 as [|a l Ha Hl IH]; cbn; [exact H2|].
  constructor.
  - apply Forall_app. split; [exact Ha|]. apply Forall_forall. intros b Hb. apply Hc; [now left | exact Hb].
  - apply IH. intros x y Hx Hy. apply Hc; [now right | exact Hy].
Qed.

Lemma FOP_split : forall {A} (Rel : A -> A -> Prop) (l1 l2 : list A) (e : A),
  ForallOrdPairs Rel (l1 ++ e :: l2) -> Forall (Rel e) l2.
Proof.
  intros A Rel l1. induction l1 as [|a l IH]; cbn; intros l2 e H; inversion H; subst; auto.
Qed.

Lemma perm_filter : forall {A} (f : A -> bool) (l l' : list A),
  Permutation l l' -> Permutation (filter f l) (filter f l').
Proof.
  intros A f l l' H. induction H; cbn.
  - constructor.
  - destruct (f x); [now constructor | assumption].
  - destruct (f x), (f y); try apply Permutation_refl; now constructor.
  - eapply Permutation_trans; eassumption.
Qed.

Lemma app_cons_assoc : forall {A} (p : list A) x d, (p ++ [x]) ++ d = p ++ x :: d.
Proof. intros. now rewrite <- app_assoc. Qed.

(** * Where the objects of a tree sit *)
Section Occurrences.

  Definition Pprefix (n : node) : Prop :=
    forall p o, In o (occurrences p n) -> exists d, fst o = p ++ d.

  Lemma slot_occ_shape_H : forall l, Forall (Pslot Pprefix) l -> forall p mk i o,
    In o (slot_occ occurrences p mk i l) -> exists j d, i <= j /\ fst o = p ++ mk j :: d.
  Proof.
    induction 1 as [|s r Hs Hr IH]; intros p mk i o Hin; [contradiction|].
    destruct s as [c|].
    - rewrite slot_occ_some in Hin. apply in_app_or in Hin. destruct Hin as [Hin|Hin].
      + destruct (Hs _ _ Hin) as [d Hd]. exists i, d. split; [lia|]. now rewrite Hd, app_cons_assoc.
      + destruct (IH _ _ _ _ Hin) as (j & d & Hj & Hd). exists j, d. split; [lia | exact Hd].
    - rewrite slot_occ_none in Hin.
      destruct (IH _ _ _ _ Hin) as (j & d & Hj & Hd). exists j, d. split; [lia | exact Hd].
  Qed.

  Lemma body_occ_shape_H : forall b, Pbody Pprefix b -> forall p o,
    In o (body_occ occurrences p b) -> exists j d, fst o = p ++ SBody j :: d.
  Proof.
    intros [c|] Hb p o Hin; [|contradiction]. destruct c; try contradiction.
    destruct Hb as [_ Hl]. destruct (slot_occ_shape_H _ Hl _ _ _ _ Hin) as (j & d & _ & Hd).
    now exists j, d.
  Qed.

  Lemma args_occ_shape_H : forall a, Pargs Pprefix a -> forall p o,
    In o (args_occ occurrences p a) -> exists d, fst o = p ++ SArgs :: d.
  Proof.
    intros [[sp l]|] Ha p o Hin; [|contradiction]. cbn [args_occ] in Hin. destruct Hin as [Ho|Hin].
    - subst o. now exists [].
    - destruct (slot_occ_shape_H _ Ha _ _ _ _ Hin) as (j & d & _ & Hd).
      exists (SArg j :: d). now rewrite Hd, app_cons_assoc.
  Qed.

  Lemma occ_prefix : forall n, Pprefix n.
  Proof.
    induction n using node_ind'; intros q o Hin; cbn [occurrences] in Hin;
      (destruct Hin as [Ho|Hin]; [subst o; exists []; now rewrite app_nil_r|]);
      try contradiction.
    - destruct (body_occ_shape_H _ H _ _ Hin) as (j & tl & Hd). now exists (SBody j :: tl).
    - destruct (args_occ_shape_H _ H _ _ Hin) as (tl & Hd). now exists (SArgs :: tl).
    - apply in_app_or in Hin. destruct Hin as [Hin|Hin].
      + destruct (args_occ_shape_H _ H _ _ Hin) as (tl & Hd). now exists (SArgs :: tl).
      + destruct (body_occ_shape_H _ H0 _ _ Hin) as (j & tl & Hd). now exists (SBody j :: tl).
    - destruct (args_occ_shape_H _ H _ _ Hin) as (tl & Hd). now exists (SArgs :: tl).
    - destruct (body_occ_shape_H _ H _ _ Hin) as (j & tl & Hd). now exists (SBody j :: tl).
    - destruct (slot_occ_shape_H _ H _ _ _ _ Hin) as (j & tl & _ & Hd). now exists (SItem j :: tl).
  Qed.

  Lemma slot_occ_shape : forall l p mk i o,
    In o (slot_occ occurrences p mk i l) -> exists j d, i <= j /\ fst o = p ++ mk j :: d.
  Proof. intros l. apply slot_occ_shape_H, Forall_Pslot_all, occ_prefix. Qed.
  Lemma body_occ_shape : forall b p o,
    In o (body_occ occurrences p b) -> exists j d, fst o = p ++ SBody j :: d.
  Proof. intros b. apply body_occ_shape_H, Pbody_all, occ_prefix. Qed.
  Lemma args_occ_shape : forall a p o,
    In o (args_occ occurrences p a) -> exists d, fst o = p ++ SArgs :: d.
  Proof. intros a. apply args_occ_shape_H, Pargs_all, occ_prefix. Qed.

  (** ** no two objects share a path *)
  Definition Pnodup (n : node) : Prop := forall p, NoDup (map fst (occurrences p n)).

  Lemma path_neq_ext : forall (p : path) x d, p <> p ++ x :: d.
  Proof.
    intros p x d H. rewrite <- (app_nil_r p) in H at 1. apply app_inv_head in H. discriminate.
  Qed.

  Lemma slot_occ_nodup : forall l, Forall (Pslot Pnodup) l -> forall p mk i,
    (forall a b, mk a = mk b -> a = b) -> NoDup (map fst (slot_occ occurrences p mk i l)).
  Proof.
    induction 1 as [|s r Hs Hr IH]; intros p mk i Hinj; [constructor|].
    destruct s as [c|].
    - rewrite slot_occ_some, map_app. apply NoDup_app_intro; [apply Hs | now apply IH |].
      intros q H1 H2. apply in_map_iff in H1. destruct H1 as (o1 & E1 & I1).
      apply in_map_iff in H2. destruct H2 as (o2 & E2 & I2).
      destruct (occ_prefix _ _ _ I1) as [d1 D1].
      destruct (slot_occ_shape _ _ _ _ _ I2) as (j & d2 & Hj & D2).
      rewrite E1, app_cons_assoc in D1. rewrite E2, D1 in D2. apply app_inv_head in D2.
      injection D2 as D2 _. apply Hinj in D2. lia.
    - rewrite slot_occ_none. now apply IH.
  Qed.

  Lemma body_occ_nodup : forall b, Pbody Pnodup b -> forall p,
    NoDup (map fst (body_occ occurrences p b)).
  Proof.
    intros [c|] Hb p; [|constructor]. destruct c; try constructor.
    destruct Hb as [_ Hl]. apply slot_occ_nodup; [exact Hl | congruence].
  Qed.

  Lemma args_occ_nodup : forall a, Pargs Pnodup a -> forall p,
    NoDup (map fst (args_occ occurrences p a)).
  Proof.
    intros [[sp l]|] Ha p; [|constructor]. cbn [args_occ map fst]. constructor.
    - intros Hin. apply in_map_iff in Hin. destruct Hin as (o & E & I1).
      destruct (slot_occ_shape _ _ _ _ _ I1) as (j & d & _ & D). rewrite E in D.
      exact (path_neq_ext _ _ _ D).
    - apply slot_occ_nodup; [exact Ha | congruence].
  Qed.

  Lemma occ_nodup : forall n, Pnodup n.
  Proof.
    induction n using node_ind'; intros q; cbn [occurrences map fst]; constructor;
      try (intros []); try constructor.
    - intros Hin. apply in_map_iff in Hin. destruct Hin as (o & E & I1).
      destruct (body_occ_shape _ _ _ I1) as (j & tl & TL). rewrite E in TL. exact (path_neq_ext _ _ _ TL).
    - now apply body_occ_nodup.
    - intros Hin. apply in_map_iff in Hin. destruct Hin as (o & E & I1).
      destruct (args_occ_shape _ _ _ I1) as (tl & TL). rewrite E in TL. exact (path_neq_ext _ _ _ TL).
    - now apply args_occ_nodup.
    - intros Hin. apply in_map_iff in Hin. destruct Hin as (o & E & I1).
      apply in_app_or in I1. destruct I1 as [I1|I1].
      + destruct (args_occ_shape _ _ _ I1) as (tl & TL). rewrite E in TL. exact (path_neq_ext _ _ _ TL).
      + destruct (body_occ_shape _ _ _ I1) as (j & tl & TL). rewrite E in TL. exact (path_neq_ext _ _ _ TL).
    - rewrite map_app. apply NoDup_app_intro; [now apply args_occ_nodup | now apply body_occ_nodup |].
      intros x H1 H2. apply in_map_iff in H1. destruct H1 as (o1 & E1 & I1).
      apply in_map_iff in H2. destruct H2 as (o2 & E2 & I2).
      destruct (args_occ_shape _ _ _ I1) as (d1 & D1). destruct (body_occ_shape _ _ _ I2) as (j & d2 & D2).
      rewrite E1 in D1. rewrite E2, D1 in D2. apply app_inv_head in D2. discriminate.
    - intros Hin. apply in_map_iff in Hin. destruct Hin as (o & E & I1).
      destruct (args_occ_shape _ _ _ I1) as (tl & TL). rewrite E in TL. exact (path_neq_ext _ _ _ TL).
    - now apply args_occ_nodup.
    - intros Hin. apply in_map_iff in Hin. destruct Hin as (o & E & I1).
      destruct (body_occ_shape _ _ _ I1) as (j & tl & TL). rewrite E in TL. exact (path_neq_ext _ _ _ TL).
    - now apply body_occ_nodup.
    - intros Hin. apply in_map_iff in Hin. destruct Hin as (o & E & I1).
      destruct (slot_occ_shape _ _ _ _ _ I1) as (j & tl & _ & TL). rewrite E in TL. exact (path_neq_ext _ _ _ TL).
    - apply slot_occ_nodup; [exact H | congruence].
  Qed.

End Occurrences.

(** * Consequences of the post-order specification *)
Section Spec.
  Context {R : Type}.
  Variable cb : callbacks R.

  (** ** every event of the specification satisfies what its own callback
      invocation satisfies *)
  Section ForallEvents.
    Variable Q : event R -> Prop.
    Hypothesis Qnode : forall p n, Q (Ev p (node_kind n) (SubNode n) (node_payload cb (result cb) p n)).
    Hypothesis Qargs : forall p a, Q (Ev p KPArgs (SubArgs a) (PArgnlist (pargs_payload (result cb) p a))).

    Definition PQ (n : node) : Prop := forall p, Forall Q (postorder_events cb p n).

    Lemma slot_events_Forall : forall l, Forall (Pslot PQ) l -> forall p mk i,
      Forall Q (slot_events (postorder_events cb) p mk i l).
    Proof.
      induction 1 as [|s r Hs Hr IH]; intros p mk i; [constructor|]. destruct s as [c|].
      - rewrite slot_events_some. apply Forall_app. split; [apply Hs | apply IH].
      - rewrite slot_events_none. apply IH.
    Qed.
    Lemma body_events_Forall : forall b, Pbody PQ b -> forall p,
      Forall Q (body_events (postorder_events cb) p b).
    Proof.
      intros [c|] Hb p; [|constructor]. destruct c; try constructor.
      destruct Hb as [_ Hl]. now apply slot_events_Forall.
    Qed.
    Lemma args_events_Forall : forall a, Pargs PQ a -> forall p,
      Forall Q (args_events cb (postorder_events cb) p a).
    Proof.
      intros [[sp l]|] Ha p; [|constructor]. cbn [args_events]. apply Forall_app. split.
      - now apply slot_events_Forall.
      - constructor; [apply Qargs | constructor].
    Qed.

    Lemma postorder_Forall : forall n, PQ n.
    Proof.
      induction n using node_ind'; intros q; cbn [postorder_events]; apply Forall_app; split;
        try (constructor; [apply (Qnode q) | constructor]); try constructor.
      - now apply body_events_Forall.
      - now apply args_events_Forall.
      - apply Forall_app. split; [now apply args_events_Forall | now apply body_events_Forall].
      - now apply args_events_Forall.
      - now apply body_events_Forall.
      - now apply slot_events_Forall.
    Qed.
  End ForallEvents.

  (** the callback matches the class, receives the folded results of what the
      object owns, and what it returns is the object's contribution upwards *)
  Lemma postorder_event_facts : forall n p e, In e (postorder_events cb p n) ->
    ev_kind e = subject_kind (ev_subj e)
    /\ ev_pay e = expected_payload cb (ev_path e) (ev_subj e)
    /\ callback_result cb e = Some (subject_result cb (ev_path e) (ev_subj e)).
  Proof.
    intros n p. apply Forall_forall. revert p. apply postorder_Forall.
    - intros p m. repeat split. destruct m; reflexivity.
    - intros p a. repeat split.
  Qed.

  (** ** the visited objects are exactly the objects of the tree *)
  Definition Pperm (n : node) : Prop :=
    forall p, Permutation (map ev_occ (postorder_events cb p n)) (occurrences p n).

  Lemma slot_events_perm : forall l, Forall (Pslot Pperm) l -> forall p mk i,
    Permutation (map ev_occ (slot_events (postorder_events cb) p mk i l)) (slot_occ occurrences p mk i l).
  Proof.
    induction 1 as [|s r Hs Hr IH]; intros p mk i; [constructor|]. destruct s as [c|].
    - rewrite slot_events_some, slot_occ_some, map_app. apply Permutation_app; [apply Hs | apply IH].
    - rewrite slot_events_none, slot_occ_none. apply IH.
  Qed.
  Lemma body_events_perm : forall b, Pbody Pperm b -> forall p,
    Permutation (map ev_occ (body_events (postorder_events cb) p b)) (body_occ occurrences p b).
  Proof.
    intros [c|] Hb p; [|constructor]. destruct c; try constructor.
    destruct Hb as [_ Hl]. now apply slot_events_perm.
  Qed.
  Lemma args_events_perm : forall a, Pargs Pperm a -> forall p,
    Permutation (map ev_occ (args_events cb (postorder_events cb) p a)) (args_occ occurrences p a).
  Proof.
    intros [[sp l]|] Ha p; [|constructor]. cbn [args_events args_occ]. rewrite map_app.
    eapply Permutation_trans; [apply Permutation_app_comm|]. cbn [map app]. constructor.
    now apply slot_events_perm.
  Qed.

  Lemma postorder_perm : forall n, Pperm n.
  Proof.
    induction n using node_ind'; intros q; cbn [postorder_events occurrences]; rewrite map_app;
      (eapply Permutation_trans; [apply Permutation_app_comm|]); cbn [map app]; constructor;
      try constructor.
    - now apply body_events_perm.
    - now apply args_events_perm.
    - rewrite map_app. apply Permutation_app; [now apply args_events_perm | now apply body_events_perm].
    - now apply args_events_perm.
    - now apply body_events_perm.
    - now apply slot_events_perm.
  Qed.

  Lemma postorder_paths_nodup : forall n p, NoDup (map (@ev_path R) (postorder_events cb p n)).
  Proof.
    intros n p. replace (map (@ev_path R) (postorder_events cb p n))
      with (map fst (map ev_occ (postorder_events cb p n))) by (rewrite map_map; reflexivity).
    eapply Permutation_NoDup; [apply Permutation_sym, Permutation_map, postorder_perm|].
    apply occ_nodup.
  Qed.

  (** shapes of event paths, through the permutation *)
  Lemma ev_in_occ : forall (l : list (event R)) (o : list occ) e,
    Permutation (map ev_occ l) o -> In e l -> In (ev_occ e) o.
  Proof. intros l o e Hp Hin. eapply Permutation_in; [exact Hp|]. now apply in_map. Qed.

  Lemma postorder_path_prefix : forall n p e, In e (postorder_events cb p n) -> exists d, ev_path e = p ++ d.
  Proof.
    intros n p e Hin. exact (occ_prefix n p _ (ev_in_occ _ _ _ (postorder_perm n p) Hin)).
  Qed.
  Lemma slot_events_shape : forall l p mk i e, In e (slot_events (postorder_events cb) p mk i l) ->
    exists j d, i <= j /\ ev_path e = p ++ mk j :: d.
  Proof.
    intros l p mk i e Hin.
    exact (slot_occ_shape l p mk i _
             (ev_in_occ _ _ _ (slot_events_perm l (Forall_Pslot_all _ postorder_perm l) p mk i) Hin)).
  Qed.
  Lemma body_events_shape : forall b p e, In e (body_events (postorder_events cb) p b) ->
    exists j d, ev_path e = p ++ SBody j :: d.
  Proof.
    intros b p e Hin.
    exact (body_occ_shape b p _ (ev_in_occ _ _ _ (body_events_perm b (Pbody_all _ postorder_perm b) p) Hin)).
  Qed.
  Lemma args_events_shape : forall a p e, In e (args_events cb (postorder_events cb) p a) ->
    exists d, ev_path e = p ++ SArgs :: d.
  Proof.
    intros a p e Hin.
    exact (args_occ_shape a p _ (ev_in_occ _ _ _ (args_events_perm a (Pargs_all _ postorder_perm a) p) Hin)).
  Qed.

  (** ** children before parents: once an object has had its callback, nothing
      below it is visited any more *)
  Definition not_below (a b : event R) : Prop := ~ strictly_below (ev_path a) (ev_path b).
  Definition Pfop (n : node) : Prop := forall p, ForallOrdPairs not_below (postorder_events cb p n).

  Lemma ext_not_below : forall (p d q : path), q = p ++ d -> ~ strictly_below q p.
  Proof.
    intros p d q Hq (x & d' & H). subst q. rewrite <- app_assoc in H.
    rewrite <- (app_nil_r p) in H at 1. apply app_inv_head in H.
    now apply app_cons_not_nil in H.
  Qed.

  Lemma diff_step_not_below : forall (p : path) x y d1 d2, x <> y ->
    ~ strictly_below (p ++ x :: d1) (p ++ y :: d2).
  Proof.
    intros p x y d1 d2 Hxy (z & d' & H). rewrite <- app_assoc in H. apply app_inv_head in H.
    cbn in H. injection H as H _. congruence.
  Qed.

  Lemma slot_events_fop : forall l, Forall (Pslot Pfop) l -> forall p mk i,
    (forall a b, mk a = mk b -> a = b) ->
    ForallOrdPairs not_below (slot_events (postorder_events cb) p mk i l).
  Proof.
    induction 1 as [|s r Hs Hr IH]; intros p mk i Hinj; [constructor|]. destruct s as [c|].
    - rewrite slot_events_some. apply FOP_app; [apply Hs | now apply IH |].
      intros a b Ha Hb. destruct (postorder_path_prefix _ _ _ Ha) as [d1 D1].
      destruct (slot_events_shape _ _ _ _ _ Hb) as (j & d2 & Hj & D2).
      unfold not_below. rewrite D1, D2, app_cons_assoc. apply diff_step_not_below.
      intros E. apply Hinj in E. lia.
    - rewrite slot_events_none. now apply IH.
  Qed.
  Lemma body_events_fop : forall b, Pbody Pfop b -> forall p,
    ForallOrdPairs not_below (body_events (postorder_events cb) p b).
  Proof.
    intros [c|] Hb p; [|constructor]. destruct c; try constructor.
    destruct Hb as [_ Hl]. apply slot_events_fop; [exact Hl | congruence].
  Qed.
  Lemma args_events_fop : forall a, Pargs Pfop a -> forall p,
    ForallOrdPairs not_below (args_events cb (postorder_events cb) p a).
  Proof.
    intros [[sp l]|] Ha p; [|constructor]. cbn [args_events].
    apply FOP_app; [apply slot_events_fop; [exact Ha | congruence] | repeat constructor |].
    intros a b Hin [Hb|[]]. subst b. destruct (slot_events_shape _ _ _ _ _ Hin) as (j & d & _ & D).
    unfold not_below. cbn [ev_path]. eapply ext_not_below. exact D.
  Qed.

  Lemma postorder_fop : forall n, Pfop n.
  Proof.
    assert (Hself : forall (l : list (event R)) q k s pl,
              ForallOrdPairs not_below l -> (forall e, In e l -> exists d, ev_path e = q ++ d) ->
              ForallOrdPairs not_below (l ++ [Ev q k s pl])).
    { intros l q k s pl Hl Hp. apply FOP_app; [exact Hl | repeat constructor |].
      intros a b Ha [Hb|[]]. subst b. destruct (Hp a Ha) as [d D].
      unfold not_below. cbn [ev_path]. eapply ext_not_below. exact D. }
    induction n using node_ind'; intros q;
      (assert (Hpre := postorder_path_prefix);
       match goal with |- ForallOrdPairs _ (postorder_events cb q ?t) =>
         specialize (Hpre t q); cbn [postorder_events] in Hpre |- * end;
       apply Hself; [| intros e0 He0; apply Hpre, in_or_app; now left]); try constructor.
    - now apply body_events_fop.
    - now apply args_events_fop.
    - apply FOP_app; [now apply args_events_fop | now apply body_events_fop |].
      intros x y Hx Hy. destruct (args_events_shape _ _ _ Hx) as (d1 & D1).
      destruct (body_events_shape _ _ _ Hy) as (j & d2 & D2).
      unfold not_below. rewrite D1, D2. apply diff_step_not_below. discriminate.
    - now apply args_events_fop.
    - now apply body_events_fop.
    - apply slot_events_fop; [exact H | congruence].
  Qed.

  (** every object strictly below the object of an event has had its callback
      earlier in the log *)
  Lemma postorder_descendants_earlier : forall n p l1 e l2,
    postorder_events cb p n = l1 ++ e :: l2 ->
    forall o, In o (occurrences p n) -> strictly_below (ev_path e) (fst o) ->
    exists e', In e' l1 /\ ev_occ e' = o.
  Proof.
    intros n p l1 e l2 Hsplit o Ho Hbelow.
    assert (Hin : In o (map ev_occ (postorder_events cb p n))).
    { eapply Permutation_in; [apply Permutation_sym, postorder_perm | exact Ho]. }
    apply in_map_iff in Hin. destruct Hin as (e' & Eo & Hin). rewrite Hsplit in Hin.
    apply in_app_or in Hin. destruct Hin as [Hin|[Hin|Hin]].
    - now exists e'.
    - subst e'. subst o. cbn [ev_occ fst] in Hbelow. destruct Hbelow as (x & d & Hd).
      exfalso. exact (path_neq_ext _ _ _ Hd).
    - exfalso. assert (Hf := postorder_fop n p). rewrite Hsplit in Hf. apply FOP_split in Hf.
      rewrite Forall_forall in Hf. apply (Hf e' Hin). subst o. exact Hbelow.
  Qed.

  (** ** document order: nothing is visited after something that lies later in
      the document (arguments before body, slots in list order) *)
  Definition in_doc_order (a b : event R) : Prop := ~ doc_before (ev_path b) (ev_path a).
  Definition Pdoc (n : node) : Prop := forall p, ForallOrdPairs in_doc_order (postorder_events cb p n).

  Lemma step_lt_irrefl : forall x, ~ step_lt x x.
  Proof. intros [| | |]; cbn; lia. Qed.
  Lemma step_lt_asym : forall x y, step_lt x y -> ~ step_lt y x.
  Proof. intros [| | |] [| | |]; cbn; try lia; tauto. Qed.

  Lemma not_doc_before_ext : forall (q d : path), ~ doc_before q (q ++ d).
  Proof.
    intros q d (c & x & y & e1 & e2 & H1 & H2 & Hlt). subst q.
    rewrite <- app_assoc in H2. apply app_inv_head in H2. cbn in H2. injection H2 as H2 _. subst y.
    exact (step_lt_irrefl _ Hlt).
  Qed.

  Lemma not_doc_before_cross : forall (p : path) x y d1 d2, step_lt x y ->
    ~ doc_before (p ++ y :: d2) (p ++ x :: d1).
  Proof.
    intros p x y d1 d2 Hxy (c & x' & y' & e1 & e2 & H1 & H2 & Hlt).
    apply app_eq_app in H1. destruct H1 as [k [[Hp Hk]|[Hc Hk]]].
    - (* p = c ++ k *)
      subst p. destruct k as [|z k'].
      + cbn in Hk. injection Hk as Hk _. subst x'. rewrite app_nil_r in H2.
        apply app_inv_head in H2. injection H2 as H2 _. subst y'.
        exact (step_lt_asym _ _ Hxy Hlt).
      + cbn in Hk. injection Hk as Hz _. subst z. rewrite <- app_assoc in H2. apply app_inv_head in H2.
        cbn in H2. injection H2 as H2 _. subst y'. exact (step_lt_irrefl _ Hlt).
    - (* c = p ++ k *)
      subst c. destruct k as [|z k'].
      + cbn in Hk. injection Hk as Hk _. subst x'. rewrite app_nil_r in H2.
        apply app_inv_head in H2. injection H2 as H2 _. subst y'.
        exact (step_lt_asym _ _ Hxy Hlt).
      + cbn in Hk. injection Hk as Hz _. subst z. rewrite <- app_assoc in H2. apply app_inv_head in H2.
        cbn in H2. injection H2 as H2 _. subst y. exact (step_lt_irrefl _ Hxy).
  Qed.

  Lemma slot_events_doc : forall l, Forall (Pslot Pdoc) l -> forall p mk i,
    (forall a b, a < b -> step_lt (mk a) (mk b)) ->
    ForallOrdPairs in_doc_order (slot_events (postorder_events cb) p mk i l).
  Proof.
    induction 1 as [|s r Hs Hr IH]; intros p mk i Hmono; [constructor|]. destruct s as [c|].
    - rewrite slot_events_some. apply FOP_app; [apply Hs | now apply IH |].
      intros a b Ha Hb. destruct (postorder_path_prefix _ _ _ Ha) as [d1 D1].
      destruct (slot_events_shape _ _ _ _ _ Hb) as (j & d2 & Hj & D2).
      unfold in_doc_order. rewrite D1, D2, app_cons_assoc. apply not_doc_before_cross.
      apply Hmono. lia.
    - rewrite slot_events_none. now apply IH.
  Qed.
  Lemma body_events_doc : forall b, Pbody Pdoc b -> forall p,
    ForallOrdPairs in_doc_order (body_events (postorder_events cb) p b).
  Proof.
    intros [c|] Hb p; [|constructor]. destruct c; try constructor.
    destruct Hb as [_ Hl]. apply slot_events_doc; [exact Hl | intros a b Hab; exact Hab].
  Qed.
  Lemma args_events_doc : forall a, Pargs Pdoc a -> forall p,
    ForallOrdPairs in_doc_order (args_events cb (postorder_events cb) p a).
  Proof.
    intros [[sp l]|] Ha p; [|constructor]. cbn [args_events].
    apply FOP_app; [apply slot_events_doc; [exact Ha | intros a b Hab; exact Hab] | repeat constructor |].
    intros a b Hin [Hb|[]]. subst b. destruct (slot_events_shape _ _ _ _ _ Hin) as (j & d & _ & D).
    unfold in_doc_order. cbn [ev_path]. rewrite D. apply not_doc_before_ext.
  Qed.

  Lemma postorder_doc : forall n, Pdoc n.
  Proof.
    assert (Hself : forall (l : list (event R)) q k s pl,
              ForallOrdPairs in_doc_order l -> (forall e, In e l -> exists d, ev_path e = q ++ d) ->
              ForallOrdPairs in_doc_order (l ++ [Ev q k s pl])).
    { intros l q k s pl Hl Hp. apply FOP_app; [exact Hl | repeat constructor |].
      intros a b Ha [Hb|[]]. subst b. destruct (Hp a Ha) as [d D].
      unfold in_doc_order. cbn [ev_path]. rewrite D. apply not_doc_before_ext. }
    induction n using node_ind'; intros q;
      (assert (Hpre := postorder_path_prefix);
       match goal with |- ForallOrdPairs _ (postorder_events cb q ?t) =>
         specialize (Hpre t q); cbn [postorder_events] in Hpre |- * end;
       apply Hself; [| intros e0 He0; apply Hpre, in_or_app; now left]); try constructor.
    - now apply body_events_doc.
    - now apply args_events_doc.
    - apply FOP_app; [now apply args_events_doc | now apply body_events_doc |].
      intros x y Hx Hy. destruct (args_events_shape _ _ _ Hx) as (d1 & D1).
      destruct (body_events_shape _ _ _ Hy) as (j & d2 & D2).
      unfold in_doc_order. rewrite D1, D2. apply not_doc_before_cross. exact I.
    - now apply args_events_doc.
    - now apply body_events_doc.
    - apply slot_events_doc; [exact H | intros a b Hab; exact Hab].
  Qed.

End Spec.

(** * Slot-wise reading of the lists handed to a parent *)
Lemma slot_results_length : forall {R} (res : path -> node -> R) p mk l i,
  length (slot_results res p mk i l) = length l.
Proof.
  intros R res p mk l. induction l as [|[c|] r IH]; intros i; cbn [length]; [reflexivity| |].
  - rewrite slot_results_some. cbn [length]. now rewrite IH.
  - rewrite slot_results_none. cbn [length]. now rewrite IH.
Qed.

Lemma slot_results_nth : forall {R} (res : path -> node -> R) p mk l i k,
  nth_error (slot_results res p mk i l) k
  = option_map (option_map (res (p ++ [mk (i + k)]))) (nth_error l k).
Proof.
  intros R res p mk l. induction l as [|[c|] r IH]; intros i k.
  - destruct k; reflexivity.
  - rewrite slot_results_some. destruct k as [|k]; cbn [nth_error option_map].
    + now rewrite Nat.add_0_r.
    + rewrite IH. now rewrite Nat.add_succ_r.
  - rewrite slot_results_none. destruct k as [|k]; cbn [nth_error option_map]; [reflexivity|].
    rewrite IH. now rewrite Nat.add_succ_r.
Qed.

(** * The statements about the model ([visit]) *)
Section Final.
  Context {R : Type}.
  Variable cb : callbacks R.
  Variable t : node.
  Hypothesis Hwf : wf t = true.

  Lemma visit_each_once :
    NoDup (map (@ev_path R) (events (visit cb t)))
    /\ Permutation (map ev_occ (events (visit cb t))) (occurrences [] t)
    /\ NoDup (map fst (occurrences [] t)).
  Proof.
    rewrite (visit_events_postorder cb t Hwf). repeat split.
    - apply postorder_paths_nodup.
    - apply postorder_perm.
    - apply occ_nodup.
  Qed.

  Lemma visit_nodes_once :
    Permutation (filter is_proper_node (map ev_occ (events (visit cb t)))) (node_occurrences t).
  Proof.
    rewrite (visit_events_postorder cb t Hwf). apply perm_filter, postorder_perm.
  Qed.

  Lemma visit_event_facts : forall e, In e (events (visit cb t)) ->
    ev_kind e = subject_kind (ev_subj e)
    /\ ev_pay e = expected_payload cb (ev_path e) (ev_subj e)
    /\ callback_result cb e = Some (subject_result cb (ev_path e) (ev_subj e)).
  Proof. rewrite (visit_events_postorder cb t Hwf). apply postorder_event_facts. Qed.

  Lemma visit_children_first_pairs :
    ForallOrdPairs (fun a b : event R => ~ strictly_below (ev_path a) (ev_path b)) (events (visit cb t)).
  Proof. rewrite (visit_events_postorder cb t Hwf). apply postorder_fop. Qed.

  Lemma visit_children_first : forall l1 e l2,
    events (visit cb t) = l1 ++ e :: l2 ->
    forall o, In o (occurrences [] t) -> strictly_below (ev_path e) (fst o) ->
    exists e', In e' l1 /\ ev_occ e' = o.
  Proof. rewrite (visit_events_postorder cb t Hwf). apply postorder_descendants_earlier. Qed.

  Lemma visit_document_order :
    ForallOrdPairs (fun a b : event R => ~ doc_before (ev_path b) (ev_path a)) (events (visit cb t)).
  Proof. rewrite (visit_events_postorder cb t Hwf). apply postorder_doc. Qed.

  Lemma visit_returns_root_result : outcome (visit cb t) = VOk (result cb [] t).
  Proof. now rewrite (visit_is_postorder cb t Hwf). Qed.
End Final.
