(** Composition (C10 x C02): [C10_dollars] for the dollar documents of the
    core document grammar, ALL sizes.

    A dollar document is a sequence of text runs and inline formulas [$ ... $]
    whose bodies are text runs ([dollar_doc]).  For every context and every
    such document that satisfies the side conditions [ok_doc] (in particular:
    no formula body is empty or starts with [$] — an empty [$$] is the display
    delimiter), the strict parser returns a node list whose [dview] (kinds,
    modes, delimiters, characters; positions dropped) is [dollar_spec d]:
    - every maximal text run (with the whitespace in front of the next formula)
      is ONE chars node in text mode;
    - every formula of the document is ONE math node recorded in text mode,
      inline ([display = false]), delimiters [$] [$], whose body is one chars
      node, in math mode with delimiter [$], carrying the body's characters.
    So [$a$$b$] is two inline formulas.

    Also [grammar_modes]: the tree of EVERY document of the core grammar is
    [implied] w.r.t. text mode (C10's per-node mode specification instantiated
    on [tree_of]). *)
From Coq Require Import NArith ZArith List Bool Arith Lia.
From PLV Require Import Base.PyStr Tok.PState Tok.Tokenizer Parse.Nodes Parse.Parser Parse.ParseWire
                        Doc.DocGrammar Proofs.RoundTrip
                        Proofs.ParserModesSpec Proofs.ParserModesState Proofs.ParserModes.
Import ListNotations.

(** * Dollar documents *)
Definition is_text_item (i : item) : bool := match i with Text _ _ => true | _ => false end.
Definition dollar_item (i : item) : bool :=
  match i with
  | Text _ _ => true
  | Math _ MDollar b _ => forallb is_text_item b
  | _ => false
  end.
Definition dollar_doc (d : doc) : bool := forallb dollar_item (d_items d).

(** * What is observed of a tree: kinds, modes, delimiters, characters *)
Inductive dnode :=
| VChars (m : nmode) (c : str)
| VMath (m : nmode) (display : bool) (dl dr : str) (body : list dnode)
| VOther.

Fixpoint dview (n : node) : dnode :=
  match n with
  | NChars _ _ m c => VChars m c
  | NMath _ _ m d dl dr (Some (NList _ _ l)) =>
      VMath m d dl dr (map (fun x => match x with Some c => dview c | None => VOther end) l)
  | _ => VOther
  end.
Definition dviewo (x : option node) : dnode := match x with Some c => dview c | None => VOther end.

(** * What the document says *)
Definition chars_if (m : nmode) (t : str) : list dnode := match t with [] => [] | _ => [VChars m t] end.

(** [pend]: the characters of the text run in progress; [tr]: trailing whitespace of the document *)
Fixpoint dspec_items (pend : str) (l : list item) (tr : str) : list dnode :=
  match l with
  | [] => chars_if text_mode (pend ++ tr)
  | Text ws cs :: r => dspec_items (pend ++ ws ++ cs) r tr
  | Math ws _ b btr :: r =>
      chars_if text_mode (pend ++ ws)
      ++ VMath text_mode false [36%N] [36%N] (chars_if (math_mode (Some [36%N])) (unparse_items b ++ btr))
      :: dspec_items [] r tr
  | _ :: r => VOther :: dspec_items [] r tr
  end.
Definition dollar_spec (d : doc) : list dnode := dspec_items [] (d_items d) (d_trail d).

(** the formulas of the document: their body characters, in order *)
Fixpoint formulas (l : list item) : list str :=
  match l with
  | [] => []
  | Math _ _ b btr :: r => (unparse_items b ++ btr) :: formulas r
  | _ :: r => formulas r
  end.
Definition is_dmath (x : dnode) : bool := match x with VMath _ _ _ _ _ => true | _ => false end.

Section Dollars.
  Variable cx : context.

  Lemma text_body ps b : forallb is_text_item b = true -> forall p st,
    cs_acc (fst (absorb cx ps p st b)) = cs_acc st
    /\ cs_pend (fst (absorb cx ps p st b)) = cs_pend st ++ unparse_items b.
  Proof.
    induction b as [|j b IH]; intros H p st.
    - cbn. now rewrite app_nil_r.
    - cbn [forallb] in H. apply andb_true_iff in H. destruct H as [H1 H2].
      destruct j; try discriminate. rewrite absorb_cons. cbn [absorb_item].
      destruct (IH H2 (p + ilen (Text ws cs)) (push_pending st (ws ++ cs) p)) as [A B].
      rewrite A, B. cbn [push_pending cs_acc cs_pend]. split; [reflexivity|].
      unfold unparse_items. cbn [flat_map unparse_item]. now rewrite <- app_assoc.
  Qed.

  Lemma flush_view ps st :
    map dviewo (cs_acc (flush ps st)) = map dviewo (cs_acc st) ++ chars_if (ps_mode ps) (cs_pend st).
  Proof.
    unfold flush. destruct (cs_pend st) as [|c pd].
    - cbn [chars_if]. now rewrite app_nil_r.
    - cbn [cs_acc]. rewrite map_app. reflexivity.
  Qed.

  Lemma pre_flush_view ps st ws p :
    map dviewo (cs_acc (pre_flush ps st ws p)) = map dviewo (cs_acc st) ++ chars_if (ps_mode ps) (cs_pend st ++ ws)
    /\ cs_pend (pre_flush ps st ws p) = [].
  Proof.
    unfold pre_flush. destruct (cs_pend st) as [|c pd] eqn:E.
    - destruct ws as [|w ws].
      + rewrite E. cbn [chars_if app]. now rewrite app_nil_r.
      + cbn [push_node cs_acc cs_pend]. rewrite E, map_app. split; reflexivity.
    - split; [|reflexivity].
      exact (flush_view ps {| cs_acc := cs_acc st; cs_pend := (c :: pd) ++ ws; cs_ppos := cs_ppos st |}).
  Qed.

  Lemma eos_view ps st tr q :
    map dviewo (cs_acc (eos_state ps st tr q)) = map dviewo (cs_acc st) ++ chars_if (ps_mode ps) (cs_pend st ++ tr).
  Proof.
    unfold eos_state. destruct tr as [|c w].
    - rewrite app_nil_r. apply flush_view.
    - exact (flush_view ps (push_pending st (c :: w) q)).
  Qed.

  Lemma math_view ps p0 ws b btr : forallb is_text_item b = true ->
    dviewo (node_of cx ps p0 (Math ws MDollar b btr))
    = VMath (ps_mode ps) false [36%N] [36%N]
            (chars_if (math_mode (Some [36%N])) (unparse_items b ++ btr)).
  Proof.
    intros H. rewrite node_of_math. cbn zeta. cbn [m_open m_close m_display dviewo].
    unfold gen_nodelist, mk_nodelist. cbn [dview]. f_equal.
    change (map (fun x : option node => match x with Some c => dview c | None => VOther end)) with (map dviewo).
    unfold close_state. rewrite flush_view. cbn [push_pending cs_acc cs_pend].
    pose proof (fun mps p st => text_body mps b H p st) as TB.
    rewrite (proj1 (TB _ _ _)), (proj2 (TB _ _ _)), ps_mode_enter_math. reflexivity.
  Qed.

  Lemma items_view ps : ps_mode ps = text_mode -> forall l tr, forallb dollar_item l = true -> forall p st,
    map dviewo (cs_acc (eos_state ps (fst (absorb cx ps p st l)) tr (snd (absorb cx ps p st l))))
    = map dviewo (cs_acc st) ++ dspec_items (cs_pend st) l tr.
  Proof.
    intros M l tr. induction l as [|j l IH]; intros H p st.
    - cbn [absorb fst snd dspec_items]. rewrite eos_view, M. reflexivity.
    - cbn [forallb] in H. apply andb_true_iff in H. destruct H as [H1 H2].
      rewrite absorb_cons, (IH H2). destruct j as [ws cs|ws b btr|ws name post args|ws k b btr|ws text post|ws mid];
        try discriminate.
      + cbn [absorb_item push_pending cs_acc cs_pend dspec_items]. reflexivity.
      + destruct k; try discriminate. cbn [dollar_item] in H1.
        cbn [absorb_item item_ws push_node cs_acc cs_pend dspec_items].
        destruct (pre_flush_view ps st ws p) as [A B]. rewrite B, map_app, A, M. cbn [map].
        rewrite (math_view ps _ ws b btr H1), M. rewrite <- !app_assoc. reflexivity.
  Qed.

  Theorem dollar_tree ps pos d : ps_mode ps = text_mode -> dollar_doc d = true ->
    map dviewo (fst (tree_of cx ps pos d)) = dollar_spec d.
  Proof.
    intros M H. unfold tree_of, dollar_spec. cbn [fst].
    exact (items_view ps M (d_items d) (d_trail d) H pos cs_empty).
  Qed.
End Dollars.

(** * The theorems about the parser *)
Theorem dollars_grammar : forall cx d, ok_doc cx d = true -> dollar_doc d = true ->
  exists p e items,
    parse_top (unparse d) false cx (walker_state cx) = Ok (ONode (Some (NList p e items))) (length (unparse d))
    /\ map dviewo items = dollar_spec d.
Proof.
  intros cx d O H. rewrite (parse_unparse cx d O). unfold doc_result, gen_nodelist, mk_nodelist.
  do 3 eexists. split; [reflexivity|].
  apply dollar_tree; [apply ps_mode_walker_state | exact H].
Qed.

(** the math nodes of the parse are exactly the formulas of the document *)
Lemma filter_chars_if m t : filter is_dmath (chars_if m t) = [].
Proof. destruct t; reflexivity. Qed.

Lemma dspec_math l : forall pend tr, forallb dollar_item l = true ->
  filter is_dmath (dspec_items pend l tr)
  = map (fun t => VMath text_mode false [36%N] [36%N] (chars_if (math_mode (Some [36%N])) t)) (formulas l).
Proof.
  induction l as [|j l IH]; intros pend tr H.
  - cbn [dspec_items formulas map]. apply filter_chars_if.
  - cbn [forallb] in H. apply andb_true_iff in H. destruct H as [H1 H2].
    destruct j as [ws cs|ws b btr|ws name post args|ws k b btr|ws text post|ws mid]; try discriminate.
    + cbn [dspec_items formulas]. now apply IH.
    + cbn [dspec_items formulas map]. rewrite filter_app, filter_chars_if. cbn [app filter is_dmath].
      f_equal. now apply IH.
Qed.

(** under [ok_doc] no formula is empty *)
Lemma ok_formulas_nonempty cx ps l : forall fh, forallb dollar_item l = true -> ok_items cx ps l fh = true ->
  Forall (fun t => t <> []) (formulas l).
Proof.
  induction l as [|j l IH]; intros fh H O; [constructor|].
  cbn [forallb] in H. apply andb_true_iff in H. destruct H as [H1 H2].
  rewrite ok_items_cons in O. apply andb_true_iff in O. destruct O as [O1 O2].
  destruct j as [ws cs|ws b btr|ws name post args|ws k b btr|ws text post|ws mid]; try discriminate.
  - cbn [formulas]. now apply (IH fh).
  - destruct k; try discriminate. cbn [formulas]. constructor; [|now apply (IH fh)].
    rewrite ok_item_math in O1. apply andb_true_iff in O1. destruct O1 as [_ O1].
    intros E. rewrite E in O1. discriminate.
Qed.

Theorem dollars_math_nodes : forall cx d, ok_doc cx d = true -> dollar_doc d = true ->
  exists p e items,
    parse_top (unparse d) false cx (walker_state cx) = Ok (ONode (Some (NList p e items))) (length (unparse d))
    /\ filter is_dmath (map dviewo items)
       = map (fun t => VMath text_mode false [36%N] [36%N] [VChars (math_mode (Some [36%N])) t])
             (formulas (d_items d))
    /\ Forall (fun t => t <> []) (formulas (d_items d)).
Proof.
  intros cx d O H. destruct (dollars_grammar cx d O H) as (p & e & items & A & B).
  exists p, e, items. split; [exact A|].
  assert (NE : Forall (fun t => t <> []) (formulas (d_items d))).
  { unfold ok_doc, ok_doc_in in O. apply andb_true_iff in O. destruct O as [O _].
    exact (ok_formulas_nonempty cx _ _ _ H O). }
  split; [|exact NE]. rewrite B. unfold dollar_spec. rewrite (dspec_math _ _ _ H).
  apply map_ext_in. intros t Ht. rewrite Forall_forall in NE. specialize (NE t Ht).
  destruct t; [congruence|reflexivity].
Qed.

(** * Every document of the core grammar: the tree it means is [implied] *)
Theorem grammar_modes : forall cx d, ok_doc cx d = true ->
  implied cx text_mode (gen_nodelist 0 (fst (tree_of cx (walker_state cx) 0 d))).
Proof.
  intros cx d O. exact (parse_top_modes (unparse d) false cx _ _ (parse_unparse cx d O)).
Qed.
