(** C05 (injected faults) — positions INSIDE a well-formed document of the
    core grammar: a zipper (nesting path of full frames: the enclosing
    construct with its left and right siblings and its closing part), [plug]
    to fill the hole, and the decomposition of the side conditions [ok_items]
    of a plugged document into those of the left context ([ok_lpath]) and of
    the hole's body. *)
From Coq Require Import NArith List Bool Arith Lia.
From PLV Require Import Base.PyStr Tok.PState Tok.Tokenizer Parse.Nodes Parse.Parser Parse.ParseWire
                        Proofs.PyStrFacts Proofs.ParserErrorsBase
                        Doc.DocGrammar Proofs.RoundTripTok Proofs.RoundTripRules Proofs.RoundTrip
                        Proofs.FaultTok Proofs.FaultDoc Proofs.FaultPath.
Import ListNotations.

(** * Frames with both sides *)
Inductive frame :=
| FGrp (before : list item) (ws tr : str) (after : list item)
      (* before ws { HOLE tr } after *)
| FMath (before : list item) (ws : str) (k : mathkind) (tr : str) (after : list item)
      (* before ws $ HOLE tr $ after *)
| FMac (before : list item) (ws name post : str) (args1 : list item) (tr : str) (args2 after : list item).
      (* before ws \name post {a1}… { HOLE tr } {a2}… after *)

Definition plug_frame (f : frame) (body : list item) : list item :=
  match f with
  | FGrp b ws tr a => b ++ Grp ws body tr :: a
  | FMath b ws k tr a => b ++ Math ws k body tr :: a
  | FMac b ws name post a1 tr a2 a => b ++ Mac ws name post (a1 ++ Grp [] body tr :: a2) :: a
  end.

(** outermost frame first *)
Fixpoint plug (path : list frame) (body : list item) : list item :=
  match path with [] => body | f :: r => plug_frame f (plug r body) end.

Definition left_of (f : frame) : lframe :=
  match f with
  | FGrp b ws _ _ => LGrp b ws
  | FMath b ws k _ _ => LMath b ws k
  | FMac b ws name post a1 _ _ _ => LMac b ws name post a1
  end.

(** what is written after the hole: trailing whitespace, closing delimiter, right siblings *)
Definition right_text (f : frame) : str :=
  match f with
  | FGrp _ _ tr a => tr ++ 125%N :: unparse_items a
  | FMath _ _ k tr a => tr ++ m_close k ++ unparse_items a
  | FMac _ _ _ _ _ tr a2 a => tr ++ 125%N :: unparse_items a2 ++ unparse_items a
  end.

Fixpoint rp_text (path : list frame) : str :=
  match path with [] => [] | f :: r => rp_text r ++ right_text f end.

Definition frame_tr (f : frame) : str :=
  match f with FGrp _ _ tr _ | FMath _ _ _ tr _ | FMac _ _ _ _ _ tr _ _ => tr end.
Definition closer_text (f : frame) : str :=
  match f with FMath _ _ k _ _ => m_close k | _ => [125%N] end.
Definition after_text (f : frame) : str :=
  match f with
  | FGrp _ _ _ a | FMath _ _ _ _ a => unparse_items a
  | FMac _ _ _ _ _ _ a2 a => unparse_items a2 ++ unparse_items a
  end.
Lemma right_text_split f : right_text f = frame_tr f ++ closer_text f ++ after_text f.
Proof. destruct f; reflexivity. Qed.

Definition lefts (path : list frame) : list lframe := map left_of path.

Lemma unparse_items_cons i l : unparse_items (i :: l) = unparse_item i ++ unparse_items l.
Proof. reflexivity. Qed.

Lemma unparse_plug_frame f body :
  unparse_items (plug_frame f body) = lf_text (left_of f) ++ unparse_items body ++ right_text f.
Proof.
  destruct f as [b ws tr a|b ws k tr a|b ws name post a1 tr a2 a];
    cbn [plug_frame left_of right_text]; unfold lf_text; cbn [lf_before lf_ws lf_open];
    rewrite unparse_items_app, unparse_items_cons; cbn [unparse_item]; fold (unparse_items body).
  - rewrite <- !app_assoc. cbn [app]. rewrite <- !app_assoc. reflexivity.
  - rewrite <- !app_assoc. reflexivity.
  - fold (unparse_items (a1 ++ Grp [] body tr :: a2)).
    rewrite unparse_items_app, unparse_items_cons. cbn [unparse_item]. fold (unparse_items body).
    rewrite <- !app_assoc. cbn [app]. rewrite <- !app_assoc. cbn [app]. rewrite <- !app_assoc. reflexivity.
Qed.

Lemma unparse_plug path : forall body,
  unparse_items (plug path body) = lp_text (lefts path) ++ unparse_items body ++ rp_text path.
Proof.
  induction path as [|f r IH]; intros body.
  - cbn [plug lefts map lp_text flat_map rp_text app]. rewrite app_nil_r. reflexivity.
  - cbn [plug lefts map rp_text]. rewrite unparse_plug_frame, IH.
    change (lp_text (left_of f :: map left_of r)) with (lf_text (left_of f) ++ lp_text (map left_of r)).
    unfold lefts. rewrite <- !app_assoc. reflexivity.
Qed.

(** * Side conditions of a plugged list *)
Lemma lf_text_hd f : exists c r, lf_ws f ++ lf_open f = c :: r.
Proof.
  destruct f as [b w|b w k|b w name post a1]; cbn [lf_ws lf_open]; destruct w; cbn [app];
    try (eexists; eexists; reflexivity); destruct k; eexists; eexists; reflexivity.
Qed.

Lemma ok_args_split cx ps a1 G a2 : forall l, ok_args cx ps (a1 ++ G :: a2) l = true ->
  exists spc, nth_error l (length a1) = Some spc /\ ok_args cx ps a1 (firstn (length a1) l) = true /\
              (match a_kind spc with AKExpr _ => true | _ => false end) = true /\
              ok_item cx (apply_adelta ps (a_delta spc)) G None = true.
Proof.
  induction a1 as [|a a1 IH]; intros [|spc l] H; try discriminate.
  - cbn [app ok_args] in H. apply andb_true_iff in H. destruct H as [H _].
    apply andb_true_iff in H. destruct H as [K OKG]. exists spc. cbn [length nth_error firstn ok_args].
    repeat split; try assumption. destruct G as [|ws b tr| | | |]; try discriminate. destruct ws; [exact OKG|discriminate].
  - cbn [app ok_args] in H. apply andb_true_iff in H. destruct H as [H1 H2].
    destruct (IH l H2) as (spc' & N & A & K & G'). exists spc'. cbn [length nth_error firstn ok_args].
    rewrite H1, A. auto.
Qed.

Lemma ok_args_hd cx ps args l : ok_args cx ps args l = true -> args <> [] ->
  exists r, unparse_items args = 123%N :: r.
Proof.
  intros H NE. destruct args as [|a r]; [congruence|]. destruct l as [|spc l]; [discriminate|].
  cbn [ok_args] in H. apply andb_true_iff in H. destruct H as [H _]. apply andb_true_iff in H. destruct H as [_ H].
  destruct a as [|ws b tr| | | |]; try discriminate. destruct ws; [|discriminate]. eexists. reflexivity.
Qed.

Definition not_dollar (o : option N) : Prop := otest (fun c => N.eqb c 36) o = false.
Definition is_dollar (f : frame) : bool := match f with FMath _ _ MDollar _ _ => true | _ => false end.

(** one frame: the conditions on the frame itself and on the content of its hole *)
Lemma ok_plug_frame cx ps f body fh : ok_items cx ps (plug_frame f body) fh = true ->
  (forall nxt, (is_dollar f = true -> not_dollar nxt) -> ok_lframe cx ps (left_of f) nxt = true)
  /\ (is_dollar f = true -> unparse_items body <> [] -> not_dollar (hd_error (unparse_items body)))
  /\ ok_items cx (lf_state cx ps (left_of f)) body (hd_error (frame_tr f ++ closer_text f)) = true
  /\ ws_ok (frame_tr f) = true.
Proof.
  destruct f as [b ws tr a|b ws k tr a|b ws name post a1 tr a2 a]; cbn [plug_frame left_of frame_tr closer_text]; intros H;
    rewrite ok_items_app in H; apply andb_true_iff in H; destruct H as [HB HX];
    rewrite ok_items_cons in HX; apply andb_true_iff in HX; destruct HX as [HX _];
    rewrite unparse_items_cons in HB; cbn [unparse_item] in HB.
  - rewrite ok_item_grp in HX. apply andb_true_iff in HX. destruct HX as [HX OKB].
    apply andb_true_iff in HX. destruct HX as [W Wt]. split; [|split; [|split]].
    + intros nxt _. cbn [ok_lframe]. rewrite W, andb_true_r.
      rewrite <- HB. f_equal. destruct ws; reflexivity.
    + discriminate.
    + exact OKB.
    + exact Wt.
  - rewrite ok_item_math in HX. apply andb_true_iff in HX. destruct HX as [HX DL].
    apply andb_true_iff in HX. destruct HX as [HX OKB].
    apply andb_true_iff in HX. destruct HX as [HX Wt].
    apply andb_true_iff in HX. destruct HX as [M W]. split; [|split; [|split]].
    + intros nxt D1. cbn [ok_lframe]. rewrite W, M. rewrite andb_true_r. apply andb_true_iff. split.
      * rewrite andb_true_r. rewrite <- HB. f_equal. destruct ws; [|reflexivity]. cbn [app]. destruct k; reflexivity.
      * destruct k; try reflexivity. rewrite (D1 eq_refl). reflexivity.
    + cbn [is_dollar]. destruct k; try discriminate. intros _ NE.
      destruct (unparse_items body) as [|c r]; [congruence|]. cbn [app] in DL. cbn [hd_error].
      unfold not_dollar. cbn [otest]. apply negb_true_iff in DL. exact DL.
    + exact OKB.
    + exact Wt.
  - destruct (get_macro_spec cx name) as [sp|] eqn:GS;
      [|cbn [ok_item] in HX; rewrite GS, andb_false_r in HX; discriminate].
    destruct (sp_args sp) as [l|lk] eqn:SA;
      [|cbn [ok_item] in HX; rewrite GS, SA, andb_false_r in HX; discriminate].
    rewrite (ok_item_mac cx ps ws name post _ _ sp l GS SA) in HX.
    apply andb_true_iff in HX. destruct HX as [HX OKA].
    apply andb_true_iff in OKA. destruct OKA as [OKA FO].
    apply andb_true_iff in HX. destruct HX as [HX NM].
    apply andb_true_iff in HX. destruct HX as [W Wp].
    destruct (ok_args_split cx ps a1 _ a2 l OKA) as (spc & NTH & OKA1 & KD & OKG).
    assert (MH : mac_hole cx name (length a1) = Some (sp, l, spc)) by (unfold mac_hole; rewrite GS, SA, NTH; reflexivity).
    rewrite ok_item_grp in OKG. apply andb_true_iff in OKG. destruct OKG as [OKG1 OKG].
    apply andb_true_iff in OKG1. destruct OKG1 as [_ Wt].
    split; [|split; [|split]].
    + intros nxt _. cbn [ok_lframe]. rewrite MH, W, Wp, NM, OKA1, KD, !andb_true_r. cbn [andb].
      apply andb_true_iff. split.
      * rewrite <- HB. f_equal. destruct ws; reflexivity.
      * destruct (ok_args_hd cx ps _ l OKA ltac:(destruct a1; discriminate)) as [r E].
        rewrite E in FO. exact FO.
    + discriminate.
    + cbn [lf_state]. rewrite MH. exact OKG.
    + exact Wt.
Qed.

Lemma lp_text_hd f r (x : str) : hd_error (lp_text (f :: r) ++ x) = hd_error (lp_text (f :: r)).
Proof.
  change (lp_text (f :: r)) with (lf_text f ++ lp_text r). unfold lf_text.
  destruct (lf_text_hd f) as (c & t & E).
  destruct (unparse_items (lf_before f)) as [|c0 t0]; [|reflexivity].
  cbn [app]. rewrite E. reflexivity.
Qed.

Lemma lp_text_nonempty f r : lp_text (f :: r) <> [].
Proof.
  change (lp_text (f :: r)) with (lf_text f ++ lp_text r). unfold lf_text.
  destruct (lf_text_hd f) as (c & t & E). rewrite E.
  destruct (unparse_items (lf_before f)); discriminate.
Qed.

(** a whole path *)
Fixpoint last_dollar (path : list frame) : bool :=
  match path with [] => false | f :: r => match r with [] => is_dollar f | _ => last_dollar r end end.

Lemma ok_plug cx path : forall ps body fh, ok_items cx ps (plug path body) fh = true ->
  (forall nxt, (last_dollar path = true -> not_dollar nxt) -> ok_lpath cx ps (lefts path) nxt = true)
  /\ (last_dollar path = true -> unparse_items body <> [] -> not_dollar (hd_error (unparse_items body)))
  /\ exists fh', ok_items cx (lp_state cx ps (lefts path)) body fh' = true.
Proof.
  induction path as [|f r IH]; intros ps body fh H.
  - split; [reflexivity|]. split; [discriminate|]. exists fh. exact H.
  - cbn [plug] in H. destruct (ok_plug_frame cx ps f (plug r body) fh H) as (OKF & DL & OKB & _).
    destruct (IH _ _ _ OKB) as (OKR & DLR & fh2 & OKH). split; [|split].
    + intros nxt ND. cbn [lefts map ok_lpath]. apply andb_true_iff. split.
      * apply OKF. intros ID. destruct r as [|f1 r1].
        -- cbn [map lp_text flat_map app]. rewrite ostr_hd. apply ND. exact ID.
        -- cbn [map]. rewrite lp_text_hd.
           assert (NE : unparse_items (plug (f1 :: r1) body) <> []).
           { rewrite unparse_plug. cbn [lefts map]. intros E. apply app_eq_nil in E. destruct E as [E _].
             exact (lp_text_nonempty _ _ E). }
           specialize (DL ID NE). rewrite unparse_plug in DL. cbn [lefts map] in DL.
           rewrite lp_text_hd in DL. exact DL.
      * apply OKR. intros LD. apply ND. destruct r; [discriminate|exact LD].
    + destruct r as [|f1 r1].
      * cbn [last_dollar plug] in *. exact DL.
      * intros LD. apply DLR. exact LD.
    + exists fh2. exact OKH.
Qed.

Lemma plug_app a b body : plug (a ++ b) body = plug a (plug b body).
Proof. induction a as [|f r IH]; [reflexivity|]. cbn [app plug]. rewrite IH. reflexivity. Qed.
Lemma lefts_app a b : lefts (a ++ b) = lefts a ++ lefts b. Proof. apply map_app. Qed.
Lemma lp_text_app a b : lp_text (a ++ b) = lp_text a ++ lp_text b. Proof. apply flat_map_app. Qed.
Lemma rp_text_app a b : rp_text (a ++ b) = rp_text b ++ rp_text a.
Proof. induction a as [|f r IH]; [cbn; rewrite app_nil_r; reflexivity|]. cbn [app rp_text]. rewrite IH, app_assoc. reflexivity. Qed.
Lemma lp_state_app cx a : forall ps b, lp_state cx ps (a ++ b) = lp_state cx (lp_state cx ps a) b.
Proof. induction a as [|f r IH]; intros ps b; [reflexivity|]. cbn [app lp_state]. apply IH. Qed.

(** the body of the innermost frame is well formed in front of that frame's closing part *)
Lemma ok_plug_last cx path f ps body fh : ok_items cx ps (plug (path ++ [f]) body) fh = true ->
  ok_items cx (lp_state cx ps (lefts (path ++ [f]))) body (hd_error (frame_tr f ++ closer_text f)) = true
  /\ ws_ok (frame_tr f) = true.
Proof.
  rewrite plug_app. intros H. destruct (ok_plug cx path _ _ _ H) as (_ & _ & fh' & OKH).
  cbn [plug] in OKH. destruct (ok_plug_frame cx _ f body fh' OKH) as (_ & _ & OKB & Wt).
  rewrite lefts_app, lp_state_app. split; [exact OKB | exact Wt].
Qed.
