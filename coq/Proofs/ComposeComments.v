(** Composition (C12 x C02), source level: two documents of the core grammar
    that differ only in the TEXT of their comments are converted to the same
    text by [latex_to_text] when [keep_comments] is off and the math mode is not
    verbatim.

    Ingredients:
    - [Proofs/RoundTrip.v: parse_unparse] (C02): the parser returns the tree
      [tree_of] of each document;
    - [Proofs/L2TFilters.v: xform_text] (C12): the rendering does not depend on
      comment texts;
    - [Proofs/ComposePos.v: repos_text] (glue): nor on positions / the source
      string (the comment texts have different lengths, so every later position
      differs between the two trees);
    - here: the two trees are equal once positions and comment texts are erased
      ([tree_sbc], in the style of [Proofs/RoundTripWs.v]). *)
From Coq Require Import NArith ZArith List Bool Arith Lia.
From PLV Require Import Base.PyStr Tok.PState Tok.Tokenizer Parse.Nodes Parse.Parser Parse.ParseWire
                        Doc.DocGrammar Proofs.RoundTrip L2T.L2T L2T.L2TWire
                        Proofs.L2TUnfold Proofs.L2TFilters Proofs.ComposePos.
From PLV Require Gen.GenWalkerCtx Gen.GenL2TCtx.
Import ListNotations.

(** * Documents that differ only in the text of their comments *)
Fixpoint sbc (i i' : item) {struct i} : Prop :=
  let all2 := fix all2 (l l' : list item) {struct l} : Prop :=
      match l, l' with
      | [], [] => True
      | x :: r, x' :: r' => sbc x x' /\ all2 r r'
      | _, _ => False
      end in
  match i, i' with
  | Text ws cs, Text ws' cs' => ws = ws' /\ cs = cs'
  | Grp ws b tr, Grp ws' b' tr' => ws = ws' /\ tr = tr' /\ all2 b b'
  | Mac ws nm post a, Mac ws' nm' post' a' => ws = ws' /\ nm = nm' /\ post = post' /\ all2 a a'
  | Math ws k b tr, Math ws' k' b' tr' => ws = ws' /\ k = k' /\ tr = tr' /\ all2 b b'
  | Cmt ws _ post, Cmt ws' _ post' => ws = ws' /\ post = post'
  | Par ws mid, Par ws' mid' => ws = ws' /\ mid = mid'
  | _, _ => False
  end.
Definition sbc_items : list item -> list item -> Prop :=
  fix all2 (l l' : list item) {struct l} : Prop :=
    match l, l' with
    | [], [] => True
    | x :: r, x' :: r' => sbc x x' /\ all2 r r'
    | _, _ => False
    end.
Definition same_but_comments (d d' : doc) : Prop :=
  sbc_items (d_items d) (d_items d') /\ d_trail d = d_trail d'.

(** * Trees with positions and comment texts erased *)
Definition cerase : node -> node := xform (fun _ => []) (fun _ => false) false (fun b => b).
Definition E (n : node) : node := cerase (repos n).
Definition Eo (x : option node) : option node := match x with Some c => Some (E c) | None => None end.

Lemma map_xo_ro l :
  map (xo (fun _ : str => []) (fun _ => false) false (fun b => b)) (map ro l) = map Eo l.
Proof. rewrite map_map. apply map_ext. intros [c|]; reflexivity. Qed.

Lemma E_chars p e m c : E (NChars p e m c) = NChars 0 0 m c. Proof. reflexivity. Qed.
Lemma E_comment p e m c ps : E (NComment p e m c ps) = NComment 0 0 m [] ps. Proof. reflexivity. Qed.
Lemma E_group p e m dl dr b : E (NGroup p e m dl dr b) = NGroup 0 0 m dl dr (Eo b).
Proof. destruct b; reflexivity. Qed.
Lemma E_math p e m d dl dr b : E (NMath p e m d dl dr b) = NMath 0 0 m d dl dr (Eo b).
Proof. destruct b; reflexivity. Qed.
Lemma E_macro p e m nm ps sp l : E (NMacro p e m nm ps (Some (sp, l))) = NMacro 0 0 m nm ps (Some (sp, map Eo l)).
Proof. unfold E. rewrite repos_macro. unfold cerase. rewrite xform_macro. cbn [ra xa]. now rewrite map_xo_ro. Qed.
Lemma E_specials p e m ch sp l : E (NSpecials p e m ch (Some (sp, l))) = NSpecials 0 0 m ch (Some (sp, map Eo l)).
Proof. unfold E. rewrite repos_specials. unfold cerase. rewrite xform_specials. cbn [ra xa]. now rewrite map_xo_ro. Qed.
Lemma E_list p e l : E (NList p e l) = NList None None (map Eo l).
Proof. unfold E. rewrite repos_list. unfold cerase. rewrite xform_list. now rewrite map_xo_ro. Qed.
Lemma E_gen_nodelist pos acc : E (gen_nodelist pos acc) = NList None None (map Eo acc).
Proof. unfold gen_nodelist, mk_nodelist. apply E_list. Qed.

(** * Collector states up to erasure *)
Definition ER (st st' : collstate) : Prop :=
  map Eo (cs_acc st) = map Eo (cs_acc st') /\ cs_pend st = cs_pend st'.

Lemma er_empty : ER cs_empty cs_empty. Proof. split; reflexivity. Qed.

Lemma er_push_pending st st' x p p' : ER st st' -> ER (push_pending st x p) (push_pending st' x p').
Proof. intros [A B]. split; cbn [push_pending cs_acc cs_pend]; [exact A | now rewrite B]. Qed.

Lemma er_push_node st st' o o' : ER st st' -> Eo o = Eo o' -> ER (push_node st o) (push_node st' o').
Proof.
  intros [A B] H. split; cbn [push_node cs_acc cs_pend]; [|exact B].
  rewrite !map_app, A. cbn [map]. now rewrite H.
Qed.

Lemma er_flush ps st st' : ER st st' -> ER (flush ps st) (flush ps st').
Proof.
  intros [A B]. unfold flush. rewrite <- B. destruct (cs_pend st) as [|c pd] eqn:Ep.
  - split; [exact A | now rewrite Ep, <- B].
  - split; cbn [cs_acc cs_pend]; [|reflexivity]. rewrite !map_app, A. reflexivity.
Qed.

Lemma er_pre_flush ps st st' ws p p' : ER st st' -> ER (pre_flush ps st ws p) (pre_flush ps st' ws p').
Proof.
  intros [A B]. unfold pre_flush. rewrite <- B. destruct (cs_pend st) as [|c pd] eqn:Ep.
  - destruct ws as [|w ws]; [split; [exact A | now rewrite Ep, <- B]|].
    apply er_push_node; [split; [exact A | now rewrite Ep, <- B] | reflexivity].
  - apply er_flush. split; cbn [cs_acc cs_pend]; [exact A | reflexivity].
Qed.

Lemma sbc_items_cons x r l' : sbc_items (x :: r) l' ->
  exists x' r', l' = x' :: r' /\ sbc x x' /\ sbc_items r r'.
Proof. destruct l' as [|x' r']; cbn; [tauto|]. intros [A B]. eauto. Qed.

Lemma sbc_item_ws i i' : sbc i i' -> item_ws i = item_ws i'.
Proof. destruct i, i'; cbn; tauto. Qed.

(** * The induction on document size *)
Section Sbc.
  Variable cx : context.

  Definition NodeN (n : nat) : Prop :=
    forall i i', isize i <= n -> sbc i i' -> forall ps p p',
    Eo (node_of cx ps p i) = Eo (node_of cx ps p' i').
  Definition ListN (n : nat) : Prop :=
    forall l l', lsize l <= n -> sbc_items l l' -> forall ps p p' st st',
    ER st st' -> ER (fst (absorb cx ps p st l)) (fst (absorb cx ps p' st' l')).

  Lemma close_er n : ListN n -> forall b b' tr ps p p' q q', lsize b <= n -> sbc_items b b' ->
    map Eo (cs_acc (close_state ps (fst (absorb cx ps p cs_empty b)) tr q))
    = map Eo (cs_acc (close_state ps (fst (absorb cx ps p' cs_empty b')) tr q')).
  Proof.
    intros L b b' tr ps p p' q q' SZ WB. unfold close_state.
    apply er_flush, er_push_pending. apply L; [exact SZ | exact WB | apply er_empty].
  Qed.

  Lemma args_er n : NodeN n -> forall args args' l ps p p', lsize args <= n -> sbc_items args args' ->
    map Eo (fst (arg_nodes cx ps p args l)) = map Eo (fst (arg_nodes cx ps p' args' l)).
  Proof.
    intros NN. induction args as [|a args IH]; intros args' l ps p p' SZ W.
    - destruct args'; [reflexivity|contradiction].
    - destruct (sbc_items_cons _ _ _ W) as (a' & r' & -> & Wa & Wr).
      rewrite lsize_cons in SZ. pose proof (isize_pos a).
      destruct l as [|spc l]; [reflexivity|]. cbn [arg_nodes fst map].
      f_equal.
      + apply NN; [lia|exact Wa].
      + apply IH; [lia|exact Wr].
  Qed.

  Lemma node_step_er n : NodeN n -> ListN n -> NodeN (S n).
  Proof.
    intros NN LN i i' SZ W ps p p'.
    destruct i as [ws cs|ws b tr|ws name post args|ws k b tr|ws text post|ws mid];
      destruct i' as [ws' cs'|ws' b' tr'|ws' name' post' args'|ws' k' b' tr'|ws' text' post'|ws' mid'];
      try contradiction; cycle 4.
    - (* comment: the text is erased, the post-space is the same *)
      cbn [sbc] in W. destruct W as (<- & <-). cbn [node_of Eo]. now rewrite !E_comment.
    - (* paragraph break *)
      cbn [sbc] in W. destruct W as (<- & <-). cbn [node_of]. destruct (par_spec_ok cx); [|reflexivity].
      cbn [Eo]. now rewrite !E_specials.
    - reflexivity.
    - cbn [sbc] in W. destruct W as (<- & <- & W3). fold (sbc_items b b') in W3.
      cbn [isize] in SZ. fold (lsize b) in SZ.
      rewrite !node_of_grp. cbn zeta. cbn [Eo]. rewrite !E_group. cbn [Eo]. rewrite !E_gen_nodelist.
      erewrite (close_er n LN b b' _); [reflexivity|lia|exact W3].
    - cbn [sbc] in W. destruct W as (<- & <- & <- & W3). fold (sbc_items args args') in W3.
      cbn [isize] in SZ. fold (lsize args) in SZ.
      destruct (get_macro_spec cx name) as [sp|] eqn:GS; [|cbn [node_of]; rewrite GS; reflexivity].
      destruct (sp_args sp) as [l|lk] eqn:SA; [|cbn [node_of]; rewrite GS, SA; reflexivity].
      rewrite !(node_of_mac cx ps _ _ name _ _ sp l GS SA). cbn zeta. cbn [Eo]. rewrite !E_macro.
      erewrite (args_er n NN args args'); [reflexivity|lia|exact W3].
    - cbn [sbc] in W. destruct W as (<- & <- & <- & W3). fold (sbc_items b b') in W3.
      cbn [isize] in SZ. fold (lsize b) in SZ.
      rewrite !node_of_math. cbn zeta. cbn [Eo]. rewrite !E_math. cbn [Eo]. rewrite !E_gen_nodelist.
      erewrite (close_er n LN b b' _); [reflexivity|lia|exact W3].
  Qed.

  Lemma list_step_er n : NodeN (S n) -> ListN n -> ListN (S n).
  Proof.
    intros NN LN l l' SZ W ps p p' st st' C.
    destruct l as [|i l]; [destruct l'; [exact C|contradiction]|].
    destruct (sbc_items_cons _ _ _ W) as (i' & r' & -> & Wi & Wr).
    rewrite lsize_cons in SZ. pose proof (isize_pos i). rewrite !absorb_cons.
    apply LN; [lia|exact Wr|].
    pose proof (NN i i' ltac:(lia) Wi ps (p + length (item_ws i)) (p' + length (item_ws i'))) as N1.
    pose proof (sbc_item_ws i i' Wi) as WS.
    destruct i as [ws cs|ws b tr|ws name post args|ws k b tr|ws text post|ws mid];
      destruct i' as [ws' cs'|ws' b' tr'|ws' name' post' args'|ws' k' b' tr'|ws' text' post'|ws' mid'];
      try contradiction; cbn [absorb_item item_ws] in *.
    - cbn [sbc] in Wi. destruct Wi as [<- <-]. apply er_push_pending. exact C.
    - subst ws'. apply er_push_node; [|exact N1]. apply er_pre_flush. exact C.
    - subst ws'. apply er_push_node; [|exact N1]. apply er_pre_flush. exact C.
    - subst ws'. apply er_push_node; [|exact N1]. apply er_pre_flush. exact C.
    - subst ws'. apply er_push_node; [|exact N1]. apply er_pre_flush. exact C.
    - subst ws'. apply er_push_node; [|exact N1]. apply er_pre_flush. exact C.
  Qed.

  Lemma sbc_all n : NodeN n /\ ListN n.
  Proof.
    induction n as [|n [NN LN]].
    - split.
      + intros i i' SZ. pose proof (isize_pos i). lia.
      + intros l l' SZ W ps p p' st st' C. destruct l as [|i l]; [destruct l'; [exact C|contradiction]|].
        rewrite lsize_cons in SZ. pose proof (isize_pos i). lia.
    - pose proof (node_step_er n NN LN) as NN'. split; [exact NN'|apply list_step_er; assumption].
  Qed.
End Sbc.

(** the two meanings are equal up to positions and comment texts *)
Theorem tree_sbc cx ps pos pos' d d' : same_but_comments d d' ->
  map Eo (fst (tree_of cx ps pos d)) = map Eo (fst (tree_of cx ps pos' d')).
Proof.
  intros [WI WT]. unfold tree_of. cbn [fst].
  pose proof (proj2 (sbc_all cx (lsize (d_items d))) _ _ (le_n _) WI ps pos pos' _ _ er_empty) as C.
  set (A := absorb cx ps pos cs_empty (d_items d)) in *.
  set (A' := absorb cx ps pos' cs_empty (d_items d')) in *.
  rewrite <- WT. unfold eos_state. destruct (d_trail d) as [|c w].
  - apply er_flush. exact C.
  - apply er_flush, er_push_pending. exact C.
Qed.

(** * The source-level theorem *)
Definition cx0 := Gen.GenWalkerCtx.default_ctx.
Definition lt0 := Gen.GenL2TCtx.default_l2tctx.

(** the text of a tree only depends on its erasure *)
Lemma node_text_E src o sl st n :
  o_keep_comments o = false -> o_math o <> MMVerbatim ->
  node_text src lt0 cx0 o sl st n = node_text [] lt0 cx0 o sl st (E n).
Proof.
  intros Hk Hm. unfold E, cerase.
  rewrite (xform_text [] lt0 cx0 o (fun _ => []) (fun _ => false) false (fun b => b));
    [| now left | discriminate | discriminate].
  symmetry. apply repos_text. exact Hm.
Qed.

Theorem source_level : forall o d d',
  same_but_comments d d' ->
  ok_doc cx0 d = true -> ok_doc cx0 d' = true ->
  o_keep_comments o = false -> o_math o <> MMVerbatim ->
  exists r, latex_to_text o (unparse d) false = Some r /\ latex_to_text o (unparse d') false = Some r.
Proof.
  intros o d d' W O O' Hk Hm. unfold latex_to_text. fold cx0. fold lt0.
  rewrite (parse_unparse cx0 d O), (parse_unparse cx0 d' O'). unfold doc_result.
  eexists. split; [reflexivity|]. f_equal. unfold l2t_nodes.
  rewrite (node_text_E (unparse d') o _ _ _ Hk Hm), (node_text_E (unparse d) o _ _ _ Hk Hm).
  rewrite !E_gen_nodelist. now rewrite (tree_sbc cx0 (walker_state cx0) 0 0 d d' W).
Qed.

Corollary source_level_eq : forall o d d',
  same_but_comments d d' ->
  ok_doc cx0 d = true -> ok_doc cx0 d' = true ->
  o_keep_comments o = false -> o_math o <> MMVerbatim ->
  latex_to_text o (unparse d) false = latex_to_text o (unparse d') false.
Proof. intros o d d' W O O' Hk Hm. destruct (source_level o d d' W O O' Hk Hm) as (r & A & B). congruence. Qed.
