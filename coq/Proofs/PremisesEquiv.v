(** C16: the legacy-arguments equivalence statements after the reader premises
    are discharged ([PremisesReader.reader_premises_hold]): the three formerly
    [_partial] statements WITHOUT the [reader_premises] hypothesis (strictly
    stronger), and fuel sufficiency of the pylatexenc-3 side at the model's own
    fuel. *)
From Coq Require Import NArith ZArith List Bool Arith Lia.
From PLV Require Import Base.PyStr Tok.PState Tok.Tokenizer Parse.Nodes Parse.Parser Parse.ParseWire
     Parse.Legacy Proofs.LegacyProofs Proofs.LegacyArgs Proofs.ComposeLegacy
     Proofs.PremisesReader Proofs.PremisesStar Proofs.ParserInv Proofs.ParserTermDefs Proofs.ParserTerm.
Import ListNotations.

Theorem legacy_args_equiv_fold_sp s cx ps : star_premises s cx ps ->
  forall F a p, forallb argchar_ok a = true ->
    agree (new_args_loop s cx F ps a p [])
          (legacy_parse_args_f s false cx F ps a false None p).
Proof. intros SP. apply legacy_args_equiv_fold; [exact SP | apply reader_premises_hold]. Qed.

Theorem legacy_args_equiv_run_sp s cx ps : star_premises s cx ps ->
  forall F F' a p, forallb argchar_ok a = true ->
    new_args_loop s cx F ps a p [] <> OutOfFuel ->
    run s false cx F' (TArgs ps (map std_spec a) [] p) <> OutOfFuel ->
    agree (run s false cx F' (TArgs ps (map std_spec a) [] p))
          (legacy_parse_args_f s false cx F ps a false None p).
Proof. intros SP. apply legacy_args_equiv_run_all; [exact SP | apply reader_premises_hold]. Qed.

Theorem legacy_args_equiv_parse_fuel_sp s cx ps : star_premises s cx ps ->
  forall a p, forallb argchar_ok a = true ->
    new_args_loop s cx (parse_fuel s cx) ps a p [] <> OutOfFuel ->
    run s false cx (parse_fuel s cx) (TArgs ps (map std_spec a) [] p) <> OutOfFuel ->
    agree (run s false cx (parse_fuel s cx) (TArgs ps (map std_spec a) [] p))
          (legacy_parse_args s false cx ps a false None p).
Proof. intros SP. apply legacy_args_equiv_run_parse_fuel; [exact SP | apply reader_premises_hold]. Qed.

(** the pylatexenc-3 arguments parser does not run out of the model's fuel
    [parse_fuel s cx] on an argument string of up to [37 + max_args cx]
    characters, in EVERY context (the legacy argument string is not part of the
    context, so its length is not accounted for in the context-dependent fuel;
    [fuel_base cx - 3 = 37 + max_args cx] slots are paid by the base): the
    [OutOfFuel] escape of [agree] is not taken there *)
Theorem legacy_args_run_terminates s cx a p :
  p <= length s -> length a <= 37 + max_args cx ->
  run s false cx (parse_fuel s cx) (TArgs (walker_state cx) (map std_spec a) [] p) <> OutOfFuel.
Proof.
  intros Hp Ha. apply parse_fuel_enough.
  - split; [exact Hp | split; [apply good_walker_state | exact I]].
  - cbn [cst]. rewrite map_length. unfold fuel_base. lia.
Qed.
