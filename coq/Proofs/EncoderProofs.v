(** Proofs about the encoder model ([Enc/Encoder.v]): the fuelled loop is the
    declarative specification, concatenation, exceptions. *)
From Coq Require Import NArith List Bool Arith Lia.
From PLV Require Import Base.PyStr Enc.Encoder.
Import ListNotations.

(** * Side conditions (semantic) *)

(** every rule that matches consumes at least one character — the obligation
    on user rules that termination needs *)
Definition rules_consume_pos (cfg : config) : Prop :=
  forall r s pos n repl, In r (rules cfg) -> pos < length s ->
    apply_rule r s pos = CMatch n repl -> 1 <= n.

(** no rule raises an exception of its own *)
Definition no_rule_raises (cfg : config) : Prop :=
  forall r s pos e, In r (rules cfg) -> pos < length s -> apply_rule r s pos <> CRaise e.

(** a rule that looks at the current character only and consumes exactly it *)
Definition rule_per_char (r : rule) : Prop :=
  exists g : N -> option str, forall s pos, pos < length s ->
    apply_rule r s pos = match g (nth pos s 0%N) with Some repl => CMatch 1 repl | None => CNone end.
Definition per_char_rules (cfg : config) : Prop := Forall rule_per_char (rules cfg).

(** * [first_some]: the first element, in order, that answers *)
Lemma first_some_spec {A B} (f : A -> option B) l a b :
  first_some f l = Some (a, b) <->
  exists l1 l2, l = l1 ++ a :: l2 /\ f a = Some b /\ forall x, In x l1 -> f x = None.
Proof.
  induction l as [|x l IH]; cbn [first_some].
  - split; [discriminate|]. intros (l1 & l2 & H & _). destruct l1; discriminate.
  - destruct (f x) eqn:E.
    + split.
      * intros H. inversion H; subst. exists [], l. repeat split; auto. intros ? [].
      * intros (l1 & l2 & H & Hf & Hn). destruct l1 as [|y l1].
        -- cbn in H. injection H as -> ->. congruence.
        -- cbn in H. injection H as -> ->. rewrite (Hn y) in E by (left; auto). discriminate.
    + rewrite IH. split.
      * intros (l1 & l2 & -> & Hf & Hn). exists (x :: l1), l2. repeat split; auto.
        intros y [<-|Hy]; auto.
      * intros (l1 & l2 & H & Hf & Hn). destruct l1 as [|y l1].
        -- cbn in H. injection H as -> ->. congruence.
        -- cbn in H. injection H as _ ->. exists l1, l2. repeat split; auto.
           intros z Hz. apply Hn. right; auto.
Qed.

Lemma first_some_none {A B} (f : A -> option B) l :
  first_some f l = None <-> forall x, In x l -> f x = None.
Proof.
  induction l as [|x l IH]; cbn [first_some].
  - split; auto. intros _ ? [].
  - destruct (f x) eqn:E.
    + split; [discriminate|]. intros H. rewrite (H x) in E by (left; auto). discriminate.
    + rewrite IH. split.
      * intros H y [<-|Hy]; auto.
      * intros H y Hy. apply H. right; auto.
Qed.

Lemma first_some_ext {A B} (f g : A -> option B) l :
  (forall x, In x l -> f x = g x) -> first_some f l = first_some g l.
Proof.
  induction l as [|x l IH]; intros H; cbn [first_some]; auto.
  rewrite <- (H x) by (left; auto). destruct (f x); auto.
  apply IH. intros y Hy. apply H. right; auto.
Qed.

(** * The for-else over the compiled rules is "first rule that answers" *)
Lemma try_rules_first_some cfg rs s pos :
  try_rules cfg rs s pos =
  match first_some (fun r => rule_answer r s pos) rs with
  | Some (r, inl (n, repl)) => RMatch n (apply_protection (effective_prot cfg r) repl)
  | Some (_, inr e) => RRaise e
  | None => RNoMatch
  end.
Proof.
  induction rs as [|r rs IH]; cbn [try_rules first_some]; auto.
  unfold rule_answer at 1. destruct (apply_rule r s pos); auto.
Qed.

(** one iteration of the loop body is one [spec_step] *)
Lemma encode_loop_unfold f cfg s pos acc :
  encode_loop (S f) cfg s pos acc =
  if Nat.ltb pos (length s) then
    match spec_step cfg s pos (nth pos s 0%N) with
    | SEmit n chunk => encode_loop f cfg s (pos + n) (chunk :: acc)
    | SRaise e => Exn e
    end
  else Ok (rev acc).
Proof.
  cbn [encode_loop]. destruct (Nat.ltb pos (length s)); auto.
  unfold spec_step. destruct (skip_ascii cfg (nth pos s 0%N)); auto.
  rewrite try_rules_first_some.
  destruct (first_some (fun r => rule_answer r s pos) (rules cfg)) as [[r [[n repl]|e]]|]; auto.
  destruct (passthrough (nth pos s 0%N)); auto.
  destruct (do_unknown_char (upolicy cfg) (nth pos s 0%N)); auto.
Qed.

Lemma spec_step_consumes cfg s pos c n chunk :
  rules_consume_pos cfg -> pos < length s -> spec_step cfg s pos c = SEmit n chunk -> 1 <= n.
Proof.
  intros HC Hpos. unfold spec_step. destruct (skip_ascii cfg c).
  - intros H; injection H as <- _; lia.
  - destruct (first_some (fun r => rule_answer r s pos) (rules cfg)) as [[r [[m repl]|e]]|] eqn:E.
    + intros H; injection H as <- _.
      apply first_some_spec in E. destruct E as (l1 & l2 & Hl & Hf & _).
      unfold rule_answer in Hf. destruct (apply_rule r s pos) eqn:EA; try discriminate.
      injection Hf as -> ->. eapply HC; eauto. rewrite Hl. apply in_or_app. right; left; auto.
    + discriminate.
    + destruct (passthrough c). { intros H; injection H as <- _; lia. }
      destruct (do_unknown_char (upolicy cfg) c); [|discriminate].
      intros H; injection H as <- _; lia.
Qed.

(** * Skipping in the specification *)
Lemma spec_from_skip cfg s k : forall rest pos,
  spec_from cfg s rest pos k = spec_from cfg s (skipn k rest) (pos + k) 0.
Proof.
  induction k as [|k IH]; intros rest pos.
  - cbn [skipn]. now rewrite Nat.add_0_r.
  - destruct rest as [|c rest]; cbn [spec_from skipn]; auto.
    rewrite IH. f_equal. lia.
Qed.

Lemma skipn_skipn' {A} (a b : nat) (l : list A) : skipn a (skipn b l) = skipn (b + a) l.
Proof.
  revert l. induction b as [|b IH]; intros l; cbn [skipn plus]; auto.
  destruct l; cbn [skipn]; auto. now rewrite skipn_nil.
Qed.

Lemma skipn_nth_cons (s : str) pos :
  pos < length s -> skipn pos s = nth pos s 0%N :: skipn (S pos) s.
Proof.
  revert pos. induction s as [|c s IH]; intros pos H; cbn in H; [lia|].
  destruct pos; cbn [skipn nth]; auto. apply IH. lia.
Qed.

Lemma res_map_map {A B C} (f : A -> B) (g : B -> C) (h : A -> C) r :
  (forall a, g (f a) = h a) -> res_map g (res_map f r) = res_map h r.
Proof. intros H. destruct r; cbn; auto. now rewrite H. Qed.

Lemma res_map_id {A} (f : A -> A) r : (forall a, f a = a) -> res_map f r = r.
Proof. intros H. destruct r; cbn; auto. now rewrite H. Qed.

(** the specification from a position inside the string, unfolded once *)
Lemma spec_from_at cfg s pos :
  pos < length s ->
  spec_from cfg s (skipn pos s) pos 0 =
  match spec_step cfg s pos (nth pos s 0%N) with
  | SEmit n chunk => res_map (cons chunk) (spec_from cfg s (skipn (pos + S (Nat.pred n)) s) (pos + S (Nat.pred n)) 0)
  | SRaise e => Exn e
  end.
Proof.
  intros H. rewrite (skipn_nth_cons s pos H). cbn [spec_from].
  destruct (spec_step cfg s pos (nth pos s 0%N)) as [n chunk|e]; auto.
  rewrite spec_from_skip. rewrite skipn_skipn'.
  replace (S pos + Nat.pred n) with (pos + S (Nat.pred n)) by lia. reflexivity.
Qed.

Lemma spec_from_end cfg s pos : length s <= pos -> spec_from cfg s (skipn pos s) pos 0 = Ok [].
Proof. intros H. rewrite skipn_all2; auto. Qed.

(** * The loop computes the specification and terminates within |s|+1 iterations *)
Lemma encode_loop_is_spec cfg s : rules_consume_pos cfg ->
  forall fuel pos acc, length s - pos < fuel ->
  encode_loop fuel cfg s pos acc =
  res_map (fun l => rev acc ++ l) (spec_from cfg s (skipn pos s) pos 0).
Proof.
  intros HC. induction fuel as [|f IH]; intros pos acc Hf; [lia|].
  rewrite encode_loop_unfold. destruct (Nat.ltb pos (length s)) eqn:El.
  - apply Nat.ltb_lt in El. rewrite (spec_from_at cfg s pos El).
    destruct (spec_step cfg s pos (nth pos s 0%N)) as [n chunk|e] eqn:Es; auto.
    pose proof (spec_step_consumes _ _ _ _ _ _ HC El Es) as Hn.
    replace (pos + S (Nat.pred n)) with (pos + n) by lia.
    rewrite IH by lia.
    symmetry. apply res_map_map. intros l. cbn [rev]. now rewrite <- app_assoc.
  - apply Nat.ltb_ge in El. rewrite spec_from_end by auto. cbn. now rewrite app_nil_r.
Qed.

Theorem encode_is_spec cfg s : rules_consume_pos cfg -> encode cfg s = encode_spec cfg s.
Proof.
  intros HC. unfold encode, encode_spec. rewrite (encode_loop_is_spec cfg s HC) by lia.
  cbn [skipn rev app]. apply res_map_id. auto.
Qed.

(** more fuel changes nothing, so the statement does not depend on the bound *)
Corollary encode_loop_enough_fuel cfg s fuel : rules_consume_pos cfg ->
  length s < fuel -> encode_loop fuel cfg s 0 [] = encode_spec cfg s.
Proof.
  intros HC Hf. rewrite (encode_loop_is_spec cfg s HC) by lia.
  cbn [skipn rev app]. apply res_map_id. auto.
Qed.

Lemma spec_from_not_out_of_fuel cfg s : forall rest p k, spec_from cfg s rest p k <> OutOfFuel.
Proof.
  induction rest as [|c r IH]; intros p k; cbn [spec_from]; [discriminate|].
  destruct k.
  - destruct (spec_step cfg s p c); [|discriminate].
    specialize (IH (S p) (Nat.pred n)). destruct (spec_from cfg s r (S p) (Nat.pred n)); cbn; congruence.
  - apply IH.
Qed.

Corollary encode_never_out_of_fuel cfg s : rules_consume_pos cfg -> encode cfg s <> OutOfFuel.
Proof. intros HC. rewrite encode_is_spec by auto. apply spec_from_not_out_of_fuel. Qed.

(** * Per-character rules: encoding distributes over concatenation *)

Definition res_app {A} (ra rb : res (list A)) : res (list A) :=
  match ra with
  | Ok x => res_map (app x) rb
  | Exn e => Exn e
  | OutOfFuel => OutOfFuel
  end.

(** what happens to one character, whatever surrounds it *)
Definition char_step (cfg : config) (c : N) : sres := spec_step cfg [c] 0 c.

Fixpoint enc_chars (cfg : config) (s : str) : res (list str) :=
  match s with
  | [] => Ok []
  | c :: r => match char_step cfg c with
              | SEmit _ chunk => res_map (cons chunk) (enc_chars cfg r)
              | SRaise e => Exn e
              end
  end.

Lemma per_char_consume cfg : per_char_rules cfg -> rules_consume_pos cfg.
Proof.
  intros HP r s pos n repl Hr Hpos Ha.
  unfold per_char_rules in HP. rewrite Forall_forall in HP. destruct (HP r Hr) as (g & Hg).
  rewrite (Hg s pos Hpos) in Ha.
  destruct (g (nth pos s 0%N)); try discriminate. injection Ha as <- _. lia.
Qed.

Lemma per_char_no_raise cfg : per_char_rules cfg -> no_rule_raises cfg.
Proof.
  intros HP r s pos e Hr Hpos Ha.
  unfold per_char_rules in HP. rewrite Forall_forall in HP. destruct (HP r Hr) as (g & Hg).
  rewrite (Hg s pos Hpos) in Ha. destruct (g (nth pos s 0%N)); discriminate.
Qed.

(** with per-character rules a step depends on the character only *)
Lemma per_char_step cfg s pos : per_char_rules cfg -> pos < length s ->
  spec_step cfg s pos (nth pos s 0%N) = char_step cfg (nth pos s 0%N).
Proof.
  intros HP Hpos. unfold char_step, spec_step.
  destruct (skip_ascii cfg (nth pos s 0%N)); auto.
  rewrite (first_some_ext (fun r => rule_answer r s pos) (fun r => rule_answer r [nth pos s 0%N] 0)); auto.
  intros r Hr. unfold per_char_rules in HP. rewrite Forall_forall in HP. destruct (HP r Hr) as (g & Hg).
  unfold rule_answer. rewrite (Hg s pos Hpos). rewrite (Hg [nth pos s 0%N] 0) by (cbn; lia).
  reflexivity.
Qed.

Lemma per_char_step_one cfg c n chunk : per_char_rules cfg -> char_step cfg c = SEmit n chunk -> n = 1.
Proof.
  intros HP. unfold char_step, spec_step. destruct (skip_ascii cfg c).
  - intros H; injection H as <- _; auto.
  - destruct (first_some (fun r => rule_answer r [c] 0) (rules cfg)) as [[r [[m repl]|e]]|] eqn:E.
    + intros H; injection H as <- _.
      apply first_some_spec in E. destruct E as (l1 & l2 & Hl & Hf & _).
      assert (Hr : In r (rules cfg)) by (rewrite Hl; apply in_or_app; right; left; auto).
      unfold per_char_rules in HP. rewrite Forall_forall in HP. destruct (HP r Hr) as (g & Hg).
      unfold rule_answer in Hf. rewrite (Hg [c] 0) in Hf by (cbn; lia).
      destruct (g (nth 0 [c] 0%N)); try discriminate. injection Hf as <- _. auto.
    + discriminate.
    + destruct (passthrough c). { intros H; injection H as <- _; auto. }
      destruct (do_unknown_char (upolicy cfg) c); [|discriminate].
      intros H; injection H as <- _; auto.
Qed.

Lemma spec_from_per_char cfg s : per_char_rules cfg ->
  forall rest pos, skipn pos s = rest -> spec_from cfg s rest pos 0 = enc_chars cfg rest.
Proof.
  intros HP. induction rest as [|c r IH]; intros pos Hs; cbn [spec_from enc_chars]; auto.
  assert (Hpos : pos < length s).
  { destruct (Nat.ltb pos (length s)) eqn:E; [now apply Nat.ltb_lt|].
    apply Nat.ltb_ge in E. rewrite skipn_all2 in Hs by auto. discriminate. }
  rewrite (skipn_nth_cons s pos Hpos) in Hs. injection Hs as Hc Hr.
  rewrite <- Hc. rewrite per_char_step by auto.
  destruct (char_step cfg (nth pos s 0%N)) as [n chunk|e] eqn:Ec; auto.
  rewrite (per_char_step_one _ _ _ _ HP Ec). cbn [Nat.pred]. rewrite (IH (S pos)); auto.
Qed.

Lemma enc_chars_app cfg a b : enc_chars cfg (a ++ b) = res_app (enc_chars cfg a) (enc_chars cfg b).
Proof.
  induction a as [|c a IH]; cbn [app enc_chars res_app].
  - destruct (enc_chars cfg b); auto.
  - destruct (char_step cfg c); auto. rewrite IH.
    destruct (enc_chars cfg a); cbn; auto. destruct (enc_chars cfg b); cbn; auto.
Qed.

Theorem encode_spec_per_char cfg s : per_char_rules cfg -> encode_spec cfg s = enc_chars cfg s.
Proof. intros HP. unfold encode_spec. apply spec_from_per_char; auto. Qed.

Theorem encode_concat cfg a b : per_char_rules cfg ->
  encode cfg (a ++ b) = res_app (encode cfg a) (encode cfg b).
Proof.
  intros HP. rewrite !encode_is_spec by (apply per_char_consume; auto).
  rewrite !encode_spec_per_char by auto. apply enc_chars_app.
Qed.

(** the [str] result: plain concatenation when neither part raises *)
Corollary encode_concat_str cfg a b x y : per_char_rules cfg ->
  encode cfg a = Ok x -> encode cfg b = Ok y ->
  res_map flatten (encode cfg (a ++ b)) = Ok (flatten x ++ flatten y).
Proof.
  intros HP Ha Hb. rewrite encode_concat by auto. rewrite Ha, Hb. cbn.
  unfold flatten. now rewrite concat_app.
Qed.

(** * Exceptions *)

(** position [pos] is reached by the left-to-right scan *)
Inductive reached (cfg : config) (s : str) : nat -> Prop :=
| reached_0 : reached cfg s 0
| reached_step pos n chunk :
    reached cfg s pos -> pos < length s ->
    spec_step cfg s pos (nth pos s 0%N) = SEmit n chunk -> reached cfg s (pos + n).

(** nothing applies at [pos]: not skipped as ASCII, no rule matches, not
    copied as printable ASCII *)
Definition unmatched_at (cfg : config) (s : str) (pos : nat) : Prop :=
  skip_ascii cfg (nth pos s 0%N) = false /\ (forall r, In r (rules cfg) -> apply_rule r s pos = CNone) /\ passthrough (nth pos s 0%N) = false.

Lemma spec_step_raise_inv cfg s pos c e :
  no_rule_raises cfg -> pos < length s -> c = nth pos s 0%N ->
  spec_step cfg s pos c = SRaise e ->
  e = ValueError /\ upolicy cfg = UFail /\ unmatched_at cfg s pos.
Proof.
  intros HN Hpos -> . unfold spec_step, unmatched_at.
  destruct (skip_ascii cfg (nth pos s 0%N)); [discriminate|].
  destruct (first_some (fun r => rule_answer r s pos) (rules cfg)) as [[r [[m repl]|e']]|] eqn:E.
  - discriminate.
  - intros _. exfalso. apply first_some_spec in E. destruct E as (l1 & l2 & Hl & Hf & _).
    unfold rule_answer in Hf. destruct (apply_rule r s pos) eqn:EA; try discriminate.
    eapply (HN r s pos e0); eauto. rewrite Hl. apply in_or_app; right; left; auto.
  - destruct (passthrough (nth pos s 0%N)); [discriminate|].
    destruct (upolicy cfg); cbn [do_unknown_char]; try discriminate.
    intros H; injection H as <-. repeat split; auto.
    intros r Hr. rewrite first_some_none in E. specialize (E r Hr). unfold rule_answer in E.
    destruct (apply_rule r s pos); auto; discriminate.
Qed.

Lemma unmatched_raises cfg s pos :
  upolicy cfg = UFail -> unmatched_at cfg s pos ->
  spec_step cfg s pos (nth pos s 0%N) = SRaise ValueError.
Proof.
  intros HF (Hs & Hr & Hp). unfold spec_step. rewrite Hs.
  assert (E : first_some (fun r => rule_answer r s pos) (rules cfg) = None).
  { apply first_some_none. intros r Hin. unfold rule_answer. now rewrite (Hr r Hin). }
  rewrite E, Hp, HF. reflexivity.
Qed.

(** an exception at a reached position is the result of the whole run *)
Lemma reached_exn cfg s pos e : rules_consume_pos cfg ->
  reached cfg s pos -> spec_from cfg s (skipn pos s) pos 0 = Exn e -> encode_spec cfg s = Exn e.
Proof.
  intros HC HR. induction HR as [|pos n chunk HR IH Hpos Hs]; intros H; auto.
  apply IH. rewrite (spec_from_at cfg s pos Hpos), Hs.
  pose proof (spec_step_consumes _ _ _ _ _ _ HC Hpos Hs) as Hn.
  replace (pos + S (Nat.pred n)) with (pos + n) by lia. now rewrite H.
Qed.

Lemma exn_reached cfg s e : rules_consume_pos cfg ->
  forall k pos, length s - pos < k -> reached cfg s pos ->
  spec_from cfg s (skipn pos s) pos 0 = Exn e ->
  exists p, reached cfg s p /\ p < length s /\ spec_step cfg s p (nth p s 0%N) = SRaise e.
Proof.
  intros HC. induction k as [|k IH]; intros pos Hk HR H; [lia|].
  destruct (Nat.ltb pos (length s)) eqn:El.
  - apply Nat.ltb_lt in El. rewrite (spec_from_at cfg s pos El) in H.
    destruct (spec_step cfg s pos (nth pos s 0%N)) as [n chunk|e'] eqn:Es.
    + pose proof (spec_step_consumes _ _ _ _ _ _ HC El Es) as Hn.
      replace (pos + S (Nat.pred n)) with (pos + n) in H by lia.
      destruct (spec_from cfg s (skipn (pos + n) s) (pos + n) 0) eqn:E2; cbn in H; try discriminate.
      injection H as ->. apply (IH (pos + n)); auto. lia. eapply reached_step; eauto.
    + injection H as ->. exists pos. auto.
  - apply Nat.ltb_ge in El. rewrite spec_from_end in H by auto. discriminate.
Qed.

(** the only exception is the [ValueError] of policy 'fail', and it is raised
    exactly when the scan reaches a position where nothing applies *)
Theorem encode_only_valueerror cfg s e :
  rules_consume_pos cfg -> no_rule_raises cfg ->
  encode cfg s = Exn e ->
  e = ValueError /\ upolicy cfg = UFail /\ exists pos, pos < length s /\ reached cfg s pos /\ unmatched_at cfg s pos.
Proof.
  intros HC HN H. rewrite encode_is_spec in H by auto.
  destruct (exn_reached cfg s e HC (S (length s)) 0) as (p & HR & Hp & Hs); auto; [lia|constructor|].
  destruct (spec_step_raise_inv cfg s p _ e HN Hp eq_refl Hs) as (-> & HF & HU).
  repeat split; auto. exists p. auto.
Qed.

Theorem encode_valueerror_iff cfg s :
  rules_consume_pos cfg -> no_rule_raises cfg -> upolicy cfg = UFail ->
  (encode cfg s = Exn ValueError <->
   exists pos, pos < length s /\ reached cfg s pos /\ unmatched_at cfg s pos).
Proof.
  intros HC HN HF. split.
  - intros H. destruct (encode_only_valueerror cfg s _ HC HN H) as (_ & _ & Hx). exact Hx.
  - intros (pos & Hpos & HR & HU). rewrite encode_is_spec by auto.
    apply (reached_exn cfg s pos); auto.
    rewrite (spec_from_at cfg s pos Hpos). now rewrite (unmatched_raises cfg s pos HF HU).
Qed.

Theorem encode_total_unless_fail cfg s :
  rules_consume_pos cfg -> no_rule_raises cfg -> upolicy cfg <> UFail ->
  exists chunks, encode cfg s = Ok chunks.
Proof.
  intros HC HN HF. destruct (encode cfg s) as [l|e|] eqn:E.
  - eauto.
  - destruct (encode_only_valueerror cfg s e HC HN E) as (_ & H & _). contradiction.
  - exfalso. eapply encode_never_out_of_fuel; eauto.
Qed.

(** per-character rules: the exception depends on the characters present *)
Definition unmatched_char (cfg : config) (c : N) : Prop :=
  skip_ascii cfg c = false /\ (forall r, In r (rules cfg) -> apply_rule r [c] 0 = CNone) /\ passthrough c = false.

Lemma enc_chars_exn cfg s e :
  enc_chars cfg s = Exn e <-> exists a c b, s = a ++ c :: b /\ char_step cfg c = SRaise e /\ forall x, In x a -> forall e', char_step cfg x <> SRaise e'.
Proof.
  induction s as [|c s IH]; cbn [enc_chars].
  - split; [discriminate|]. intros (a & c & b & H & _). destruct a; discriminate.
  - destruct (char_step cfg c) as [n chunk|e'] eqn:Ec.
    + split.
      * intros H. destruct (enc_chars cfg s) eqn:E; cbn in H; try discriminate. injection H as ->.
        destruct (proj1 IH eq_refl) as (a & d & b & -> & Hd & Ha).
        exists (c :: a), d, b. split; [reflexivity|]. split; [exact Hd|].
        intros x [<-|Hx]; [congruence|auto].
      * intros (a & d & b & H & Hd & Ha). destruct a as [|x a]; cbn in H; injection H as -> ->.
        -- congruence.
        -- assert (E : enc_chars cfg (a ++ d :: b) = Exn e).
           { apply IH. exists a, d, b. split; [reflexivity|]. split; [exact Hd|].
             intros y Hy. apply Ha. right; auto. }
           now rewrite E.
    + split.
      * intros H; injection H as ->. exists [], c, s. split; [reflexivity|]. split; [exact Ec|]. intros ? [].
      * intros (a & d & b & H & Hd & Ha). destruct a as [|x a]; cbn in H; injection H as -> ->.
        -- congruence.
        -- exfalso. apply (Ha x (or_introl eq_refl) e'). auto.
Qed.

Theorem encode_valueerror_per_char cfg s :
  per_char_rules cfg -> upolicy cfg = UFail ->
  (encode cfg s = Exn ValueError <-> exists c, In c s /\ unmatched_char cfg c).
Proof.
  intros HP HF.
  rewrite encode_is_spec by (apply per_char_consume; auto). rewrite encode_spec_per_char by auto.
  assert (HN := per_char_no_raise cfg HP).
  assert (Hiff : forall c e, char_step cfg c = SRaise e <-> (e = ValueError /\ unmatched_char cfg c)).
  { intros c e. unfold char_step. split.
    - intros H. assert (Hl : 0 < length [c]) by (cbn; lia).
      destruct (spec_step_raise_inv cfg [c] 0 c e HN Hl eq_refl H) as (-> & _ & HU). split; auto.
    - intros (-> & HU). apply (unmatched_raises cfg [c] 0 HF HU). }
  split.
  - intros H. apply enc_chars_exn in H. destruct H as (a & c & b & -> & Hc & _).
    exists c. split; [apply in_or_app; right; left; auto|]. now apply Hiff in Hc.
  - intros (c & Hin & HU).
    (* take the first unmatched character *)
    induction s as [|d s IH]; [destruct Hin|]. cbn [enc_chars].
    destruct (char_step cfg d) as [n chunk|e] eqn:Ed.
    + destruct Hin as [->|Hin].
      * assert (Hx : char_step cfg c = SRaise ValueError) by (apply Hiff; auto). congruence.
      * rewrite (IH Hin). reflexivity.
    + apply Hiff in Ed. destruct Ed as (-> & _). reflexivity.
Qed.
