(** C05 over the extended grammar — an unmatched OPENING delimiter inserted into a
    well-formed ORIGINAL document ([ok_doc2 cx d]): the bridge from the follow-string
    hypotheses of [Proofs/Fault2Open.v] (which are about the FAULTED text) to the
    well-formedness of the document the delimiter was inserted into.

    The items [l2] behind the insertion point and the trailing whitespace are those of
    the original document; the items [l1] in front of it have to be well formed in front
    of the INSERTED delimiter, which [ok_doc2] (evaluated against the original follow
    string) gives when the insertion point is INSENSITIVE ([ins_point_ok]):
    - the beginning of the document, or
    - right behind a braced group or an environment (its closing brace is a barrier,
      [Proofs/Fault2DocBar.v]; the item itself sees the follow string only behind it), or
    - right behind a text run that starts the document or stands behind such an item,
      when the first character of what is inserted occurs in no specials sequence of the
      context (a longest-match specials test of the text run cannot reach into it).
    No specials sequence of the context may contain the closing brace. *)
From Coq Require Import NArith List Bool Arith Lia.
From PLV Require Import Base.PyStr Tok.PState Tok.Tokenizer Parse.Nodes Parse.Parser Parse.ParseWire
                        Proofs.PyStrFacts
                        Doc.DocGrammar Proofs.FaultTok Proofs.FaultClose
                        Doc.DocGrammar2 Proofs.RoundTripTok Proofs.RoundTrip2Tok Proofs.RoundTrip2
                        Proofs.Prefix2 Proofs.Prefix2Follow Proofs.Fault2Path Proofs.Fault2Inject Proofs.Fault2Open
                        Proofs.Fault2DocBar.
Import ListNotations.

(** the character [c] occurs in no specials sequence of the context *)
Definition no_special_char (cx : context) (c : N) : bool :=
  forallb (fun sc => negb (mem_c c sc)) (map fst (cx_specials cx)).

(** * [}] is a barrier *)
Section Brace.
  Variable cx : context.
  Hypothesis NS : no_special_char cx 125 = true.

  Lemma ok_items2_brace ps ex l (A F F' : str) :
    ok_items2 cx ps ex l (A ++ 125%N :: F) = true -> ok_items2 cx ps ex l (A ++ 125%N :: F') = true.
  Proof.
    apply (ok_items2_barrier cx 125); try reflexivity; [split; reflexivity | exact NS].
  Qed.

  Lemma ok_args2_brace ps al specs (A F F' : str) :
    ok_args2 cx ps al specs (A ++ 125%N :: F) = true -> ok_args2 cx ps al specs (A ++ 125%N :: F') = true.
  Proof.
    apply (ok_args2_barrier cx 125); try reflexivity; [split; reflexivity | exact NS].
  Qed.

  Lemma ok_item2_brace ps ex i (A F F' : str) :
    ok_item2 cx ps ex i (A ++ 125%N :: F) = true -> ok_item2 cx ps ex i (A ++ 125%N :: F') = true.
  Proof.
    intros H. pose proof (ok_items2_brace ps ex [i] A F F') as Q.
    rewrite !ok_items_cons2 in Q. cbn [unparse_items2 flat_map app ok_items2] in Q. rewrite !andb_true_r in Q.
    exact (Q H).
  Qed.
End Brace.

(** * Items that end with a closing brace and see the follow string only behind it *)
Definition closed_item2 (j : item2) : bool :=
  match j with Grp2 _ _ _ | Env2 _ _ _ _ _ _ _ => true | _ => false end.

Lemma end_str_split ews name (F : str) :
  end_str ews name ++ F = (92%N :: kw_end ++ ews ++ 123%N :: name) ++ 125%N :: F.
Proof. unfold end_str. repeat (first [rewrite <- app_assoc | rewrite <- app_comm_cons]). reflexivity. Qed.

Lemma closed_item_text j : closed_item2 j = true -> exists A, unparse_item2 j = A ++ [125%N].
Proof.
  destruct j as [| ws b tr | | | | |ws bws name args b tr ews| | | | | | |]; try discriminate; intros _; cbn [unparse_item2].
  - exists (ws ++ 123%N :: flat_map unparse_item2 b ++ tr).
    repeat (first [rewrite <- app_assoc | rewrite <- app_comm_cons]). reflexivity.
  - exists (ws ++ begin_str bws name ++ flat_map unparse_item2 args ++ flat_map unparse_item2 b ++ tr
            ++ 92%N :: kw_end ++ ews ++ 123%N :: name).
    rewrite <- (app_nil_r (end_str ews name)), end_str_split.
    repeat (first [rewrite <- app_assoc | rewrite <- app_comm_cons]). reflexivity.
Qed.

Lemma closed_item_insens cx ps ex j (F F' : str) : no_special_char cx 125 = true -> closed_item2 j = true ->
  ok_item2 cx ps ex j F = true -> ok_item2 cx ps ex j F' = true.
Proof.
  intros NS C H.
  destruct j as [| ws b tr | | | | |ws bws name args b tr ews| | | | | | |]; try discriminate C.
  - rewrite ok_item_grp2 in H |- *. apply andb_true_iff in H. destruct H as [H1 H2]. rewrite H1. cbn [andb].
    exact (ok_items2_brace cx NS ps [] b tr F F' H2).
  - destruct (get_env_spec cx name) as [sp|] eqn:GS;
      [|cbn [ok_item2] in H; rewrite GS, andb_false_r in H; discriminate].
    destruct (sp_args sp) as [l|lk] eqn:SA;
      [|cbn [ok_item2] in H; rewrite GS, SA, andb_false_r in H; discriminate].
    rewrite (ok_item_env2 cx ps ex ws bws name args b tr ews _ sp l GS SA) in H.
    rewrite (ok_item_env2 cx ps ex ws bws name args b tr ews _ sp l GS SA).
    apply andb_true_iff in H. destruct H as [H1 H2]. rewrite H1. cbn [andb].
    apply andb_true_iff in H2. destruct H2 as [OKA OKB].
    rewrite end_str_split in OKA, OKB. rewrite end_str_split.
    apply andb_true_iff. split.
    + rewrite !app_assoc in OKA |- *. exact (ok_args2_brace cx NS ps args l _ F F' OKA).
    + rewrite !app_assoc in OKB |- *. exact (ok_items2_brace cx NS _ [] b _ F F' OKB).
Qed.

(** * Lists of items *)
Lemma unparse_items2_app' a b : unparse_items2 (a ++ b) = unparse_items2 a ++ unparse_items2 b.
Proof. unfold unparse_items2. apply flat_map_app. Qed.

Lemma ok_items2_app' cx ps ex a : forall b F,
  ok_items2 cx ps ex (a ++ b) F = ok_items2 cx ps ex a (unparse_items2 b ++ F) && ok_items2 cx ps ex b F.
Proof.
  induction a as [|i a IH]; intros b F; [reflexivity|].
  cbn [app]. rewrite !ok_items_cons2, IH, unparse_items2_app', <- app_assoc, andb_assoc. reflexivity.
Qed.

(** the list is empty or its last item is closed *)
Fixpoint closed_end2 (l : list item2) : bool :=
  match l with
  | [] => true
  | [j] => closed_item2 j
  | _ :: r => closed_end2 r
  end.

Lemma closed_end_text l : l <> [] -> closed_end2 l = true -> exists A, unparse_items2 l = A ++ [125%N].
Proof.
  induction l as [|j r IH]; intros NE C; [congruence|].
  destruct r as [|j' r'].
  - cbn [closed_end2] in C. destruct (closed_item_text j C) as [A E]. exists A.
    cbn [unparse_items2 flat_map]. rewrite app_nil_r. exact E.
  - destruct (IH ltac:(discriminate) C) as [A E]. exists (unparse_item2 j ++ A).
    change (unparse_items2 (j :: j' :: r')) with (unparse_item2 j ++ unparse_items2 (j' :: r')).
    rewrite E, app_assoc. reflexivity.
Qed.

Lemma ok_items2_closed_end cx ps l (F F' : str) : no_special_char cx 125 = true -> closed_end2 l = true ->
  ok_items2 cx ps [] l F = true -> ok_items2 cx ps [] l F' = true.
Proof.
  intros NS. induction l as [|j r IH]; intros C H; [reflexivity|].
  rewrite ok_items_cons2 in H |- *. apply andb_true_iff in H. destruct H as [H1 H2].
  destruct r as [|j' r'].
  - cbn [closed_end2] in C. cbn [flat_map app ok_items2] in *. rewrite andb_true_r.
    exact (closed_item_insens cx ps [] j F F' NS C H1).
  - assert (C' : closed_end2 (j' :: r') = true) by exact C.
    rewrite (IH C' H2), andb_true_r.
    destruct (closed_end_text (j' :: r') ltac:(discriminate) C') as [A E].
    change (flat_map unparse_item2 (j' :: r')) with (unparse_items2 (j' :: r')) in *.
    rewrite E in H1 |- *. rewrite <- app_assoc in H1 |- *. cbn [app] in H1 |- *.
    exact (ok_item2_brace cx NS ps [] j A F F' H1).
Qed.

(** * A text run in front of the insertion point *)
Lemma startswith_app_true (u y p : str) : startswith u p = true -> startswith (u ++ y) p = true.
Proof.
  revert u. induction p as [|d p IH]; intros u H; [destruct (u ++ y); reflexivity|].
  destruct u as [|a u]; [discriminate|]. cbn [app startswith] in H |- *.
  apply andb_true_iff in H. destruct H as [H1 H2]. rewrite H1, (IH u H2). reflexivity.
Qed.

Lemma test_specials_some l x : forall sc, test_specials l x (Some sc) <> None.
Proof.
  induction l as [|s0 l IH]; intros sc; cbn [test_specials]; [discriminate|].
  destruct (_ && _); apply IH.
Qed.

Lemma test_specials_none_mono l (u y : str) : forall best,
  test_specials l (u ++ y) best = None -> test_specials l u best = None.
Proof.
  induction l as [|sc l IH]; intros best H; cbn [test_specials] in H |- *; [exact H|].
  destruct (Nat.ltb _ (length sc)) eqn:LT; cbn [andb] in H |- *; [|apply IH; exact H].
  destruct (startswith u sc) eqn:SW.
  - rewrite (startswith_app_true u y sc SW) in H. apply IH. exact H.
  - destruct (startswith (u ++ y) sc); [exfalso; exact (test_specials_some _ _ _ H)|apply IH; exact H].
Qed.

Lemma text_ok_insert cx ex cs (F : str) h r : no_special_char cx h = true ->
  text_ok cx ex cs F = true -> text_ok cx ex cs (h :: r) = true.
Proof.
  intros NS. induction cs as [|c cs IH]; intros H; [reflexivity|]. cbn [text_ok] in H |- *.
  apply andb_true_iff in H. destruct H as [H1 H2]. rewrite (IH H2), andb_true_r.
  unfold char_ok in H1 |- *. apply andb_true_iff in H1. destruct H1 as [H1 TS]. rewrite H1. cbn [andb].
  change (c :: cs ++ h :: r) with ((c :: cs) ++ h :: r). rewrite (test_specials_ext h r _ NS).
  change (c :: cs ++ F) with ((c :: cs) ++ F) in TS.
  destruct (test_specials (map fst (cx_specials cx)) ((c :: cs) ++ F) None) eqn:E; [discriminate|].
  rewrite (test_specials_none_mono _ _ _ _ E). reflexivity.
Qed.

(** * The insertion point *)

(** [ins_point_ok cx l1 X]: what is inserted ([X], starting with the whitespace in front of
    the delimiter, if any) stands at the beginning, behind a closed item, or behind a text
    run (that starts the document or follows a closed item) whose specials tests cannot
    reach into [X] *)
Definition ins_point_ok (cx : context) (l1 : list item2) (X : str) : bool :=
  match rev l1 with
  | [] => true
  | Text2 _ _ :: r =>
      match X with h :: _ => no_special_char cx h | [] => false end
      && match r with [] => true | j :: _ => closed_item2 j end
  | j :: _ => closed_item2 j
  end.

Lemma closed_end_snoc l j : closed_end2 (l ++ [j]) = closed_item2 j.
Proof.
  induction l as [|i l IH]; [reflexivity|]. cbn [app]. destruct (l ++ [j]) eqn:E; [destruct l; discriminate|].
  exact IH.
Qed.

Theorem ok_items2_insert cx ps l1 (F X : str) : no_special_char cx 125 = true ->
  ins_point_ok cx l1 X = true -> ok_items2 cx ps [] l1 F = true -> ok_items2 cx ps [] l1 X = true.
Proof.
  intros NS IP H. unfold ins_point_ok in IP.
  destruct (rev l1) as [|j r] eqn:RV.
  - apply (f_equal (@rev _)) in RV. rewrite rev_involutive in RV. subst l1. reflexivity.
  - assert (E : l1 = rev r ++ [j]).
    { apply (f_equal (@rev _)) in RV. rewrite rev_involutive in RV. exact RV. }
    assert (CL : closed_item2 j = true -> ok_items2 cx ps [] l1 X = true).
    { intros C. apply (ok_items2_closed_end cx ps l1 F X NS); [|exact H]. rewrite E, closed_end_snoc. exact C. }
    destruct j as [ws cs| | | | | | | | | | | | |]; try (exact (CL IP)).
    (* a text run *)
    apply andb_true_iff in IP. destruct IP as [HX CR].
    destruct X as [|h x]; [discriminate|].
    subst l1. rewrite ok_items2_app' in H |- *. apply andb_true_iff in H. destruct H as [H1 H2].
    apply andb_true_iff. split.
    + destruct r as [|j' r']; [reflexivity|].
      apply (ok_items2_closed_end cx ps _ (unparse_items2 [Text2 ws cs] ++ F) _ NS); [|exact H1].
      cbn [rev]. rewrite closed_end_snoc. exact CR.
    + cbn [ok_items2 flat_map app] in H2 |- *. rewrite andb_true_r in H2 |- *.
      cbn [ok_item2] in H2 |- *. apply andb_true_iff in H2. destruct H2 as [H2 TO]. rewrite H2. cbn [andb].
      exact (text_ok_insert cx [] cs F h x HX TO).
Qed.

(** * The opener's own side conditions, separated from those of the items in front of it *)
Lemma open_side2_split cx ps l1 fws op fol :
  open_side2 cx ps l1 fws op fol
  = ok_items2 cx ps [] l1 (fws ++ open_text2 op ++ fol) && open_side2 cx ps [] fws op fol.
Proof.
  unfold open_side2. destruct op as [|k|bws name args]; cbn [open_frame2 ok_lframe2 open_text2 ok_items2 app andb].
  - reflexivity.
  - rewrite <- !andb_assoc. reflexivity.
  - rewrite <- !app_assoc, <- !andb_assoc. reflexivity.
Qed.

(** * The bridging theorem *)
Theorem fault_opening2_doc cx l1 fws op l2 tr :
  let ps0 := walker_state cx in
  ok_doc2 cx {| d_items2 := l1 ++ l2; d_trail2 := tr |} = true ->
  no_special_char cx 125 = true ->
  ins_point_ok cx l1 (fws ++ open_text2 op) = true ->
  open_side2 cx ps0 [] fws op (unparse_items2 l2 ++ tr) = true ->
  ok_items2 cx (open_state2 cx ps0 op) [] l2 tr = true ->
  let s := unparse_items2 l1 ++ fws ++ open_text2 op ++ unparse_items2 l2 ++ tr in
  let q := length (unparse_items2 l1) + length fws + length (open_text2 op) in
  exists e, parse_top s false cx ps0 = PErr e (length s) /\ pe_pos e = Some q /\ pe_what e = 6.
Proof.
  intros ps0 OKD NS IP OS OK2 s q.
  unfold ok_doc2, ok_doc2_in in OKD. cbn [d_items2 d_trail2] in OKD.
  apply andb_true_iff in OKD. destruct OKD as [OKL W].
  rewrite ok_items2_app' in OKL. apply andb_true_iff in OKL. destruct OKL as [OK1 _].
  apply (fault_opening2_top cx l1 fws op l2 tr); [|exact OK2|exact W].
  rewrite open_side2_split. apply andb_true_iff. split; [|exact OS].
  assert (IP' : ins_point_ok cx l1 (fws ++ open_text2 op ++ unparse_items2 l2 ++ tr) = true).
  { unfold ins_point_ok in IP |- *. destruct (rev l1) as [|[] r]; try exact IP.
    rewrite app_assoc. destruct (fws ++ open_text2 op); [discriminate IP|exact IP]. }
  exact (ok_items2_insert cx ps0 l1 _ _ NS IP' OK1).
Qed.

(** the opening brace: its body is parsed in the state of the document, nothing else to check *)
Corollary fault_opening2_doc_brace cx l1 fws l2 tr :
  let ps0 := walker_state cx in
  ok_doc2 cx {| d_items2 := l1 ++ l2; d_trail2 := tr |} = true ->
  no_special_char cx 125 = true ->
  ins_point_ok cx l1 (fws ++ [123%N]) = true -> ws_ok fws = true ->
  let s := unparse_items2 l1 ++ fws ++ 123%N :: unparse_items2 l2 ++ tr in
  let q := length (unparse_items2 l1) + length fws + 1 in
  exists e, parse_top s false cx ps0 = PErr e (length s) /\ pe_pos e = Some q /\ pe_what e = 6.
Proof.
  intros ps0 OKD NS IP W s q.
  apply (fault_opening2_doc cx l1 fws OBrace2 l2 tr OKD NS IP).
  - unfold open_side2. cbn [open_frame2 ok_lframe2 ok_items2 andb]. exact W.
  - unfold ok_doc2, ok_doc2_in in OKD. cbn [d_items2 d_trail2] in OKD.
    apply andb_true_iff in OKD. destruct OKD as [OKL _].
    rewrite ok_items2_app' in OKL. apply andb_true_iff in OKL. destruct OKL as [_ OK2]. exact OK2.
Qed.
