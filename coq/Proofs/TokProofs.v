(** Proofs about [Tok/Tokenizer.v] (property C11): every token starts where
    the reader stands (after its leading whitespace), is non-empty, stays
    inside the input; hence reading is lossless, always advances, ends after at
    most [len s] reads; peeking does not move; rewinding re-reads. *)
From Coq Require Import NArith List Bool Arith Lia.
From PLV Require Import Base.PyStr Tok.PState Tok.Tokenizer Proofs.PyStrFacts.
Import ListNotations.

(** The assumptions the source states in comments: math delimiters are
    non-empty.  (Escape and group delimiters need no assumption in the model:
    a multi-character one simply never matches.) *)
Definition nonempty (x : str) : bool := match x with [] => false | _ => true end.
Definition ps_wf (ps : pstate) : bool :=
  forallb (fun x : str * tokkind => nonempty (fst x)) (c_math_by_len (ps_c ps))
  && match c_expect_close (ps_c ps) with Some (d, _) => nonempty d | None => true end.

(** the token [t], read with the reader at [pos], is well placed *)
Definition tok_ok (s : str) (pos : nat) (t : token) : Prop :=
  tpos t = pos + length (tpre t) /\ tpre t = slice s pos (tpos t) /\
  tpos t < tend t /\ tend t <= length s.

(** ** whitespace runs *)
Lemma peek_space_spec s pos : pos <= length s ->
  let sp := fst (peek_space s pos) in let pe := snd (peek_space s pos) in
  pe = pos + length sp /\ sp = firstn (length sp) (skipn pos s) /\ pe <= length s.
Proof.
  intros H. unfold peek_space. cbn [fst snd]. repeat split.
  - apply span_fst_prefix.
  - pose proof (span_fst_length is_space (skipn pos s)) as L. rewrite skipn_length in L. lia.
Qed.

Lemma find_nl_le x : find_nl x <= length x.
Proof. induction x as [|c r IH]; cbn [find_nl length]; [lia|]. destruct (N.eqb c 10); lia. Qed.

Lemma find_nl_lt x : 1 <= count_c 10 x -> find_nl x < length x.
Proof.
  induction x as [|c r IH]; cbn [find_nl length count_c]; [lia|].
  rewrite (N.eqb_sym 10 c). destruct (N.eqb c 10); [lia|]. cbn [Nat.add]. intros H. apply IH in H. lia.
Qed.

Lemma find_nl_app_le u v : find_nl (u ++ 10%N :: v) <= length u.
Proof.
  induction u as [|c u IH]; cbn [app find_nl length]; [cbn; lia|].
  destruct (N.eqb c 10); lia.
Qed.

Lemma find_nl_split x : 1 <= count_c 10 x ->
  x = firstn (find_nl x) x ++ 10%N :: skipn (S (find_nl x)) x.
Proof.
  induction x as [|c r IH]; cbn [find_nl count_c]; [lia|].
  rewrite (N.eqb_sym 10 c). destruct (N.eqb c 10) eqn:E.
  - intros _. apply N.eqb_eq in E. subst. reflexivity.
  - cbn [Nat.add]. intros H. cbn [firstn skipn app]. f_equal. apply IH. exact H.
Qed.

Lemma rfind_nl_bounds x : 1 <= count_c 10 x ->
  find_nl x <= rfind_nl x /\ rfind_nl x < length x.
Proof.
  intros H. unfold rfind_nl.
  assert (L : find_nl (rev x) < length x).
  { rewrite <- rev_length. apply find_nl_lt. rewrite count_c_rev. exact H. }
  split; [|lia].
  pose proof (find_nl_split x H) as Sp. set (i := find_nl x) in *.
  assert (Li : i < length x) by (apply find_nl_lt; exact H).
  assert (R : find_nl (rev x) <= length (skipn (S i) x)).
  { rewrite Sp at 1. rewrite rev_app_distr. cbn [rev]. rewrite <- app_assoc. cbn [app].
    rewrite <- (rev_length (skipn (S i) x)). apply find_nl_app_le. }
  rewrite skipn_length in R. lia.
Qed.

Lemma post_space_at_spec s p : p <= length s ->
  p <= snd (post_space_at s p) /\ snd (post_space_at s p) <= length s.
Proof.
  intros H. unfold post_space_at.
  destruct (peek_space_spec s p H) as (A & B & C).
  destruct (peek_space s p) as [sp pe] eqn:E. cbn [fst snd] in *.
  destruct (Nat.leb 2 (count_c 10 sp)); cbn [snd].
  - pose proof (find_nl_le sp). lia.
  - lia.
Qed.

(** ** the stages *)
Lemma test_specials_spec l rest : forall best sc,
  test_specials l rest best = Some sc ->
  best = Some sc \/ (startswith rest sc = true /\ 0 < length sc).
Proof.
  induction l as [|x l IH]; intros best sc H; cbn [test_specials] in H; [left; exact H|].
  destruct (Nat.ltb (match best with Some b => length b | None => 0 end) (length x) && startswith rest x) eqn:E.
  - apply IH in H. destruct H as [H|H]; [|right; exact H].
    injection H as <-. apply andb_true_iff in E. destruct E as [E1 E2].
    apply Nat.ltb_lt in E1. right. split; [exact E2 | lia].
  - apply IH in H. exact H.
Qed.

Lemma match_envname_len x nm len : match_envname x = Some (nm, len) -> 0 < len /\ len <= length x.
Proof.
  unfold match_envname. destruct (span is_space x) as [sp r] eqn:E1.
  destruct (span_spec _ _ _ _ E1) as [-> _].
  destruct r as [|c r1]; [discriminate|].
  destruct (N.eqb c 123); [|discriminate].
  destruct (span envname_char r1) as [n r2] eqn:E2.
  destruct (span_spec _ _ _ _ E2) as [-> _].
  destruct n as [|n0 n]; [discriminate|]. destruct r2 as [|d r3]; [discriminate|].
  destruct (N.eqb d 125); [|discriminate].
  intros H. injection H as <- <-. rewrite !app_length. cbn [length]. rewrite app_length. cbn [length]. lia.
Qed.

Section Dispatch.
  Variables (ps : pstate) (s rest : str) (pos : nat) (pre : str) (c : N).
  Hypothesis WF : ps_wf ps = true.
  Hypothesis Hrest : skipn pos s = rest.
  Hypothesis Hc : exists r, rest = c :: r.

  (** the token / placeholder shape every stage produces *)
  Definition placed (t : token) : Prop :=
    tpos t = pos /\ tpre t = pre /\ pos < tend t /\ tend t <= length s.
  Definition res_placed (r : tokres) : Prop :=
    match r with
    | TokOk t => placed t
    | TokErr e => placed (te_placeholder e) /\ te_recover_at e = tend (te_placeholder e)
    | TokEOS _ => False
    end.

  Lemma pos_lt : pos < length s.
  Proof. destruct Hc as [r Hr]. rewrite Hr in Hrest. apply skipn_cons_lt in Hrest. tauto. Qed.

  Lemma rest_len : length rest = length s - pos.
  Proof. rewrite <- Hrest. apply skipn_length. Qed.

  Lemma starts_bound d : startswith rest d = true -> pos + length d <= length s.
  Proof. intros H. apply startswith_length in H. rewrite rest_len in H. pose proof pos_lt. lia. Qed.

  Lemma stage_math_placed r : stage_math ps rest pos pre c = Some r -> res_placed r.
  Proof.
    unfold stage_math. destruct (_ && _); [|discriminate].
    destruct (read_math ps rest pos pre) as [t|] eqn:E; [|discriminate].
    intros H. injection H as <-. cbn [res_placed].
    unfold ps_wf in WF. apply andb_true_iff in WF. destruct WF as [W1 W2].
    assert (LOOP : forall l, forallb (fun x : str * tokkind => nonempty (fst x)) l = true ->
       forall t0,
       (fix go (l : list (str * tokkind)) : option token :=
          match l with
          | [] => None
          | (d, k) :: r => if startswith rest d then Some (mk k d pos (pos + length d) pre []) else go r
          end) l = Some t0 -> placed t0).
    { induction l as [|[d k] l IH]; intros F t0 H; [discriminate|].
      cbn [forallb fst] in F. apply andb_true_iff in F. destruct F as [F1 F2].
      destruct (startswith rest d) eqn:S.
      - injection H as <-. unfold placed, mk. cbn. repeat split; try reflexivity.
        + destruct d; [discriminate|]. cbn [length]. lia.
        + apply starts_bound. exact S.
      - apply IH; assumption. }
    unfold read_math in E.
    destruct (f_in_math (ps_f ps)).
    - destruct (c_expect_close (ps_c ps)) as [[cd k]|].
      + destruct (startswith rest cd) eqn:S.
        * injection E as <-. unfold placed, mk. cbn. repeat split; try reflexivity.
          -- destruct cd; [discriminate|]. cbn [length]. lia.
          -- apply starts_bound. exact S.
        * eapply LOOP; eassumption.
      + eapply LOOP; eassumption.
    - eapply LOOP; eassumption.
  Qed.

  Lemma read_macro_placed : str_eqb [c] (f_escape (ps_f ps)) = true ->
    res_placed (read_macro ps s pos pre).
  Proof.
    intros _. pose proof pos_lt as PL. unfold read_macro.
    destruct (skipn (S pos) s) as [|d r] eqn:E.
    - cbn [res_placed te_placeholder te_recover_at]. unfold placed, mk. cbn.
      apply skipn_nil_len in E. repeat split; try reflexivity; lia.
    - apply skipn_cons_lt in E. destruct E as [E1 E2].
      destruct (mem_c d (f_alpha (ps_f ps))).
      + set (nm := fst (span _ r)).
        assert (NL : pos + 2 + length nm <= length s).
        { unfold nm. pose proof (span_fst_length (fun x : N => mem_c x (f_alpha (ps_f ps))) r) as L.
          assert (LR : length r = length s - S (S pos)) by (rewrite <- E2; apply skipn_length). lia. }
        pose proof (post_space_at_spec s _ NL) as [P1 P2].
        destruct (post_space_at s (pos + 2 + length nm)) as [post pe]. cbn [snd] in *.
        cbn [res_placed]. unfold placed, mk. cbn. repeat split; try reflexivity; lia.
      + cbn [res_placed]. unfold placed, mk. cbn. repeat split; try reflexivity; lia.
  Qed.

  Lemma read_environment_placed (b : bool) :
    str_eqb [c] (f_escape (ps_f ps)) = true ->
    startswith (skipn (S pos) s) (if b then kw_begin else kw_end) = true ->
    res_placed (read_environment ps s pos b pre).
  Proof.
    intros HE HS. pose proof pos_lt as PL.
    unfold read_environment.
    change [98; 101; 103; 105; 110]%N with kw_begin. change [101; 110; 100]%N with kw_end.
    set (kw := if b then kw_begin else kw_end) in *. clearbody kw.
    assert (KL : pos + 1 + length kw <= length s).
    { apply startswith_length in HS. rewrite skipn_length in HS. lia. }
    destruct (match_envname (skipn (pos + 1 + length kw) s)) as [[nm len]|] eqn:M.
    - apply match_envname_len in M. rewrite skipn_length in M.
      cbn [res_placed]. unfold placed, mk. cbn. repeat split; try reflexivity; lia.
    - cbn [res_placed te_placeholder te_recover_at]. unfold placed, mk. cbn.
      assert (EL : length (f_escape (ps_f ps)) = 1).
      { destruct (f_escape (ps_f ps)) as [|e1 [|e2 er]]; cbn in HE; try discriminate.
        - reflexivity.
        - rewrite andb_false_r in HE. discriminate. }
      rewrite app_length, EL. repeat split; try reflexivity; lia.
  Qed.

  Lemma stage_escape_placed r : stage_escape ps s pos pre c = Some r -> res_placed r.
  Proof.
    unfold stage_escape. destruct (str_eqb [c] (f_escape (ps_f ps))) eqn:HE; [|discriminate].
    set (r1 := skipn (S pos) s).
    destruct (f_en_envs (ps_f ps)).
    - destruct (startswith r1 kw_begin) eqn:SB.
      + destruct (char_at s (pos + 1 + 5)) as [d|].
        * destruct (mem_c d (f_alpha (ps_f ps))).
          -- destruct (f_en_macros (ps_f ps)); [|discriminate]. intros H. injection H as <-.
             apply read_macro_placed. exact HE.
          -- intros H. injection H as <-. apply (read_environment_placed true HE SB).
        * intros H. injection H as <-. apply (read_environment_placed true HE SB).
      + destruct (startswith r1 kw_end) eqn:SE.
        * destruct (char_at s (pos + 1 + 3)) as [d|].
          -- destruct (mem_c d (f_alpha (ps_f ps))).
             ++ destruct (f_en_macros (ps_f ps)); [|discriminate]. intros H. injection H as <-.
                apply read_macro_placed. exact HE.
             ++ intros H. injection H as <-. apply (read_environment_placed false HE SE).
          -- intros H. injection H as <-. apply (read_environment_placed false HE SE).
        * destruct (f_en_macros (ps_f ps)); [|discriminate]. intros H. injection H as <-.
          apply read_macro_placed. exact HE.
    - destruct (f_en_macros (ps_f ps)); [|discriminate]. intros H. injection H as <-.
      apply read_macro_placed. exact HE.
  Qed.

  Lemma stage_comment_placed r : stage_comment ps s rest pos pre c = Some r -> res_placed r.
  Proof.
    unfold stage_comment. destruct (f_comment (ps_f ps)) as [|c0 cr] eqn:CE; [discriminate|].
    destruct (_ && _) eqn:G; [|discriminate]. intros H. injection H as <-.
    apply andb_true_iff in G. destruct G as [_ G]. apply starts_bound in G.
    pose proof pos_lt as PL. cbn [res_placed]. unfold read_comment. rewrite CE.
    set (inner := pos + length (c0 :: cr)) in *. cbn [length] in G.
    destruct (find_from s [10%N] inner) as [sp|] eqn:F.
    - apply find_from_bound in F. cbn [length] in F. destruct F as [F1 F2].
      assert (SL : sp <= length s) by lia.
      pose proof (post_space_at_spec s sp SL) as [P1 P2].
      destruct (post_space_at s sp) as [post pe]. cbn [snd] in *.
      unfold placed, mk. cbn. unfold inner in *. cbn [length] in *. repeat split; try reflexivity; lia.
    - unfold placed, mk. cbn. repeat split; try reflexivity; lia.
  Qed.

  Lemma stage_group_placed r : stage_group ps pos pre c = Some r -> res_placed r.
  Proof.
    pose proof pos_lt as PL. unfold stage_group. destruct (f_en_groups (ps_f ps)); [|discriminate].
    destruct (existsb _ (c_group_open _)).
    - intros H. injection H as <-. cbn. unfold placed. cbn. repeat split; try reflexivity; lia.
    - destruct (existsb _ (c_group_close _)); [|discriminate].
      intros H. injection H as <-. cbn. unfold placed. cbn. repeat split; try reflexivity; lia.
  Qed.

  Lemma stage_specials_placed r : stage_specials ps rest pos pre = Some r -> res_placed r.
  Proof.
    unfold stage_specials. destruct (f_ctx_specials (ps_f ps)) as [l|]; [|discriminate].
    destruct (f_en_specials (ps_f ps)); [|discriminate].
    destruct (test_specials l rest None) as [sc|] eqn:E; [|discriminate].
    intros H. injection H as <-. apply test_specials_spec in E. destruct E as [E|[E1 E2]]; [discriminate|].
    apply starts_bound in E1. cbn. unfold placed. cbn. repeat split; try reflexivity; lia.
  Qed.

  Lemma char_token_placed : res_placed (char_token ps c pos pre).
  Proof.
    pose proof pos_lt as PL. unfold char_token. destruct (mem_c c (f_forbidden (ps_f ps))); cbn;
      unfold placed; cbn; repeat split; try reflexivity; lia.
  Qed.

  Lemma dispatch_placed : res_placed (dispatch ps s rest pos pre c).
  Proof.
    unfold dispatch, orelse.
    destruct (stage_math ps rest pos pre c) eqn:E1; [apply stage_math_placed; exact E1|].
    destruct (stage_escape ps s pos pre c) eqn:E2; [apply stage_escape_placed; exact E2|].
    destruct (stage_comment ps s rest pos pre c) eqn:E3; [apply stage_comment_placed; exact E3|].
    destruct (stage_group ps pos pre c) eqn:E4; [apply stage_group_placed; exact E4|].
    destruct (stage_specials ps rest pos pre) eqn:E5; [apply stage_specials_placed; exact E5|].
    apply char_token_placed.
  Qed.
End Dispatch.

(** ** [impl_peek_token] as a whole *)
Definition peek_ok (s : str) (pos : nat) (r : tokres) : Prop :=
  match r with
  | TokOk t => tok_ok s pos t
  | TokErr e => tok_ok s pos (te_placeholder e) /\ te_recover_at e = tend (te_placeholder e)
  | TokEOS fin => fin = skipn pos s
  end.

Lemma placed_tok_ok s pos0 pre0 t :
  pos0 <= length s -> pre0 = firstn (length pre0) (skipn pos0 s) ->
  placed s (pos0 + length pre0) pre0 t -> tok_ok s pos0 t.
Proof.
  intros H P (A & B & C & D). unfold tok_ok. rewrite A, B. repeat split; try lia.
  rewrite P at 1. apply slice_prefix.
Qed.

Theorem impl_peek_ok ps s pos : ps_wf ps = true -> pos <= length s ->
  peek_ok s pos (impl_peek ps s pos).
Proof.
  intros WF H. unfold impl_peek.
  destruct (peek_space_spec s pos H) as (A & B & C).
  destruct (peek_space s pos) as [pre0 p2] eqn:E. cbn [fst snd] in *.
  destruct (f_en_dnp (ps_f ps) && Nat.leb 2 (count_c 10 pre0)) eqn:G.
  - (* paragraph token *)
    apply andb_true_iff in G. destruct G as [_ G]. apply Nat.leb_le in G.
    assert (G1 : 1 <= count_c 10 pre0) by lia.
    pose proof (find_nl_lt pre0 G1) as F1. pose proof (rfind_nl_bounds pre0 G1) as [F2 F3].
    cbn [peek_ok]. unfold par_token.
    set (rs := find_nl pre0) in *. set (re := S (rfind_nl pre0)).
    assert (TP : firstn rs pre0 = slice s pos (pos + rs)).
    { rewrite B. rewrite firstn_firstn_le by lia. apply slice_prefix. }
    assert (TL : length (firstn rs pre0) = rs) by (rewrite firstn_length; lia).
    destruct (match f_ctx_specials (ps_f ps) with Some l => existsb (str_eqb [10; 10]%N) l | None => false end);
      unfold tok_ok, mk; cbn; rewrite TL; repeat split; try exact TP; unfold re; lia.
  - destruct (skipn p2 s) as [|c rest] eqn:R.
    + cbn [peek_ok]. apply skipn_nil_len in R.
      rewrite B. subst p2. apply firstn_all2. rewrite skipn_length. lia.
    + pose proof (dispatch_placed ps s (c :: rest) p2 pre0 c WF R (ex_intro _ rest eq_refl)) as D.
      destruct (dispatch ps s (c :: rest) p2 pre0 c) as [t|fin|e]; cbn [res_placed peek_ok] in *.
      * subst p2. apply (placed_tok_ok s pos pre0 t H B D).
      * contradiction.
      * destruct D as [D1 D2]. split; [|exact D2]. subst p2. apply (placed_tok_ok s pos pre0 _ H B D1).
Qed.

(** ** the reader *)
Definition rd_wf (r : reader) : Prop := r_pos r <= length (r_s r).

Theorem peek_pure ps r : snd (peek_token ps r) = r.
Proof.
  unfold peek_token. destruct (impl_peek ps (r_s r) (r_pos r)) as [t|f|e]; try reflexivity.
  destruct (r_tol r); reflexivity.
Qed.

Lemma peek_token_ok ps r : ps_wf ps = true -> rd_wf r ->
  match fst (peek_token ps r) with
  | TokOk t => tok_ok (r_s r) (r_pos r) t
  | TokEOS fin => fin = skipn (r_pos r) (r_s r)
  | TokErr e => r_tol r = false
  end.
Proof.
  intros WF H. pose proof (impl_peek_ok ps (r_s r) (r_pos r) WF H) as P.
  unfold peek_token. destruct (impl_peek ps (r_s r) (r_pos r)) as [t|f|e]; cbn [fst peek_ok] in *; auto.
  destruct (r_tol r); cbn [fst]; [exact (proj1 P) | reflexivity].
Qed.

Theorem next_token_progress ps r t r' : ps_wf ps = true -> rd_wf r ->
  next_token ps r = (TokOk t, r') ->
  r_pos r < r_pos r' /\ rd_wf r' /\ r_s r' = r_s r /\ r_tol r' = r_tol r /\
  r_pos r' = tend t /\ tok_ok (r_s r) (r_pos r) t.
Proof.
  intros WF H N. unfold next_token in N.
  pose proof (peek_token_ok ps r WF H) as P. pose proof (peek_pure ps r) as Q.
  destruct (peek_token ps r) as [x r0]. cbn [fst snd] in *. subst r0.
  destruct x as [t0|f|e]; try discriminate. injection N as <- <-.
  destruct P as (A & B & C & D). unfold move_past_token, set_pos, rd_wf. cbn.
  repeat split; try lia; assumption.
Qed.

(** going back to a token and reading again gives the same token and position *)
Theorem next_token_rewind ps r t r' : ps_wf ps = true -> rd_wf r ->
  next_token ps r = (TokOk t, r') ->
  move_to_token r' t = r /\ next_token ps (move_to_token r' t) = (TokOk t, r').
Proof.
  intros WF H N. destruct (next_token_progress ps r t r' WF H N) as (_ & _ & S & T & _ & (A & _)).
  assert (E : move_to_token r' t = r).
  { unfold move_to_token, set_pos. rewrite S, T. destruct r as [s p tl]. cbn in *. f_equal. lia. }
  split; [exact E|]. rewrite E. exact N.
Qed.

(** peek returns what next returns *)
Theorem peek_is_next ps r t r' :
  next_token ps r = (TokOk t, r') -> peek_token ps r = (TokOk t, r).
Proof.
  unfold next_token. pose proof (peek_pure ps r) as Q.
  destruct (peek_token ps r) as [x r0]. cbn [snd] in Q. subst r0.
  destruct x; try discriminate. intros H. injection H as <- _. reflexivity.
Qed.

(** ** reading a whole string *)
Definition tok_text (s : str) (t : token) : str := tpre t ++ slice s (tpos t) (tend t).

Lemma read_all_fuel_spec ps : ps_wf ps = true -> forall fuel r ts fin,
  rd_wf r -> read_all_fuel fuel ps r = inl (Some (ts, fin)) ->
  concat (map (tok_text (r_s r)) ts) ++ fin = skipn (r_pos r) (r_s r) /\
  r_pos r + length ts <= length (r_s r).
Proof.
  intros WF. induction fuel as [|fuel IH]; intros r ts fin H E; cbn [read_all_fuel] in E; [discriminate|].
  destruct (next_token ps r) as [x r'] eqn:N. destruct x as [t|f|e].
  - destruct (next_token_progress ps r t r' WF H N) as (P1 & P2 & P3 & P4 & P5 & (A & B & C & D)).
    destruct (read_all_fuel fuel ps r') as [[[ts' fin']|]|e'] eqn:R; try discriminate.
    injection E as <- <-. destruct (IH r' ts' fin' P2 R) as [I1 I2].
    rewrite P3 in I1, I2. cbn [map concat length]. split; [|lia].
    rewrite <- app_assoc, I1. unfold tok_text. rewrite B.
    rewrite slice_app3 by lia. rewrite P5.
    rewrite <- (slice_to_end (r_s r) (tend t)), <- (slice_to_end (r_s r) (r_pos r)).
    apply slice_app3; lia.
  - injection E as <- <-. cbn [map concat app length].
    unfold next_token in N. pose proof (peek_token_ok ps r WF H) as P.
    destruct (peek_token ps r) as [x r0]. cbn [fst] in P. destruct x; try discriminate.
    injection N as -> _. split; [exact P | unfold rd_wf in H; lia].
  - discriminate.
Qed.

(** fuel [|s| + 1 - pos] never runs out *)
Lemma read_all_fuel_enough ps : ps_wf ps = true -> forall fuel r,
  rd_wf r -> length (r_s r) - r_pos r < fuel -> read_all_fuel fuel ps r <> inl None.
Proof.
  intros WF. induction fuel as [|fuel IH]; intros r H L; [lia|]. cbn [read_all_fuel].
  destruct (next_token ps r) as [x r'] eqn:N. destruct x as [t|f|e]; try discriminate.
  destruct (next_token_progress ps r t r' WF H N) as (P1 & P2 & P3 & _).
  assert (Q : read_all_fuel fuel ps r' <> inl None) by (apply IH; [exact P2 | unfold rd_wf in *; rewrite P3 in *; lia]).
  destruct (read_all_fuel fuel ps r') as [[[ts fin]|]|e']; try discriminate. congruence.
Qed.

Theorem read_all_lossless ps s tol ts fin : ps_wf ps = true ->
  read_all ps s tol = inl (Some (ts, fin)) ->
  concat (map (tok_text s) ts) ++ fin = s /\ length ts <= length s.
Proof.
  intros WF E. unfold read_all in E.
  assert (W : rd_wf {| r_s := s; r_pos := 0; r_tol := tol |}) by (unfold rd_wf; cbn; lia).
  pose proof (read_all_fuel_spec ps WF _ _ _ _ W E) as Q. cbn in Q. exact Q.
Qed.

Theorem read_all_terminates ps s tol : ps_wf ps = true -> read_all ps s tol <> inl None.
Proof.
  intros WF. unfold read_all. apply read_all_fuel_enough; [exact WF | unfold rd_wf; cbn; lia | cbn; lia].
Qed.

(** in tolerant mode reading never fails *)
Lemma read_all_fuel_tolerant ps : forall fuel r e, r_tol r = true -> read_all_fuel fuel ps r <> inr e.
Proof.
  induction fuel as [|fuel IH]; intros r e T; cbn [read_all_fuel]; [discriminate|].
  unfold next_token, peek_token.
  destruct (impl_peek ps (r_s r) (r_pos r)) as [t|f|e0].
  - specialize (IH (move_past_token r t) e T).
    destruct (read_all_fuel fuel ps (move_past_token r t)) as [[[? ?]|]|]; congruence.
  - discriminate.
  - rewrite T. specialize (IH (move_past_token r (te_placeholder e0)) e T).
    destruct (read_all_fuel fuel ps (move_past_token r (te_placeholder e0))) as [[[? ?]|]|]; congruence.
Qed.

Theorem read_all_tolerant_total ps s : ps_wf ps = true ->
  exists ts fin, read_all ps s true = inl (Some (ts, fin)).
Proof.
  intros WF. pose proof (read_all_terminates ps s true WF) as T.
  pose proof (read_all_fuel_tolerant ps (S (length s)) {| r_s := s; r_pos := 0; r_tol := true |}) as Q.
  unfold read_all in *. destruct (read_all_fuel _ ps _) as [[[ts fin]|]|e].
  - eauto.
  - congruence.
  - exfalso. apply (Q e); reflexivity.
Qed.

(** the default delimiters (and every derived state over non-empty delimiters) are well formed *)
Definition fields_wf (f : fields) : bool :=
  forallb (fun pr : str * str => nonempty (fst pr) && nonempty (snd pr))
          (f_inline_delims f ++ f_display_delims f).

Lemma forallb_insert_by_len P x l :
  forallb P (insert_by_len x l) = P x && forallb P l.
Proof.
  induction l as [|y l IH]; cbn [insert_by_len forallb]; [reflexivity|].
  destruct (Nat.leb _ _); cbn [forallb]; [reflexivity|]. rewrite IH.
  destruct (P x), (P y); reflexivity.
Qed.

Lemma forallb_sort_by_len P l : forallb P (sort_by_len l) = forallb P l.
Proof.
  induction l as [|x l IH]; [reflexivity|]. unfold sort_by_len in *. cbn [fold_right forallb].
  rewrite forallb_insert_by_len, IH. reflexivity.
Qed.

Lemma forallb_dedup (P : str -> bool) l : forallb P l = true -> forallb P (dedup l) = true.
Proof.
  induction l as [|x l IH]; [reflexivity|]. cbn [forallb dedup]. intros H.
  apply andb_true_iff in H. destruct H as [H1 H2]. destruct (existsb (str_eqb x) l); [auto|].
  cbn [forallb]. rewrite H1. auto.
Qed.

Lemma dict_get_in {A} (items : list (str * A)) k v :
  dict_get items k = Some v -> In v (map snd items).
Proof.
  induction items as [|[k' v'] items IH]; [discriminate|]. cbn [dict_get map snd].
  destruct (dict_get items k) as [w|] eqn:E.
  - intros H. injection H as <-. right. apply IH. reflexivity.
  - destruct (str_eqb k' k); [|discriminate]. intros H. injection H as <-. left. reflexivity.
Qed.

Lemma delim_set_nonempty d :
  forallb (fun pr : str * str => nonempty (fst pr) && nonempty (snd pr)) d = true ->
  forallb nonempty (delim_set d) = true.
Proof.
  intros H. unfold delim_set. apply forallb_dedup.
  induction d as [|[a b] d IH]; [reflexivity|]. cbn [forallb flat_map app fst snd] in *.
  apply andb_true_iff in H. destruct H as [H1 H2]. apply andb_true_iff in H1. destruct H1 as [Ha Hb].
  rewrite Ha, Hb. cbn [andb]. auto.
Qed.

Theorem fields_wf_ps_wf f : fields_wf f = true -> ps_wf (fresh f) = true.
Proof.
  intros H. unfold ps_wf, fresh. cbn [ps_c compute_caches c_math_by_len c_expect_close].
  assert (HN : fields_wf (normalize f) = true).
  { unfold normalize. destruct (_ && _); exact H. }
  set (g := normalize f) in *. clearbody g. clear H.
  unfold fields_wf in HN. rewrite forallb_app in HN. apply andb_true_iff in HN. destruct HN as [HI HD].
  apply andb_true_iff. split.
  - unfold compute_by_len. rewrite forallb_sort_by_len, forallb_app.
    apply andb_true_iff. split.
    + pose proof (delim_set_nonempty _ HI) as Q. induction (delim_set (f_inline_delims g)) as [|x l IH];
        [reflexivity|]. cbn [map forallb fst] in *. apply andb_true_iff in Q. destruct Q as [Q1 Q2].
      rewrite Q1. auto.
    + pose proof (delim_set_nonempty _ HD) as Q. induction (delim_set (f_display_delims g)) as [|x l IH];
        [reflexivity|]. cbn [map forallb fst] in *. apply andb_true_iff in Q. destruct Q as [Q1 Q2].
      rewrite Q1. auto.
  - unfold compute_expect. destruct (negb (f_in_math g)); [reflexivity|].
    destruct (f_math_delim g) as [d|]; [|reflexivity].
    destruct (dict_get (compute_by_open g) d) as [[cd k]|] eqn:E; [|reflexivity].
    apply dict_get_in in E. unfold compute_by_open in E. rewrite map_app, !map_map in E. cbn [snd] in E.
    apply in_app_or in E. destruct E as [E|E]; apply in_map_iff in E; destruct E as [[a b] [E1 E2]];
      injection E1 as <- _; cbn [snd].
    + rewrite forallb_forall in HI. specialize (HI _ E2). cbn [fst snd] in HI.
      apply andb_true_iff in HI. tauto.
    + rewrite forallb_forall in HD. specialize (HD _ E2). cbn [fst snd] in HD.
      apply andb_true_iff in HD. tauto.
Qed.
