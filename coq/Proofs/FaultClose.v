(** C05 (injected faults) — a stray CLOSING token ([}], [\)], [\]], [\end{x}])
    that does not close the construct it stands in is rejected where it stands:
    in strict mode the parse of  <left context> <items> <ws> <token> <anything>
    fails with the collector's error for that token (2: unexpected closing
    brace, 4: unexpected closing math delimiter, 3: unexpected [\end]), located
    at the token, whatever follows it. *)
From Coq Require Import NArith List Bool Arith Lia.
From PLV Require Import Base.PyStr Tok.PState Tok.Tokenizer Parse.Nodes Parse.Parser Parse.ParseWire
                        Proofs.PyStrFacts Proofs.ParserMono Proofs.ParserSpansStep Proofs.ParserErrorsBase
                        Doc.DocGrammar Proofs.RoundTripTok Proofs.RoundTripRules Proofs.RoundTrip
                        Proofs.FaultRules Proofs.FaultTok Proofs.FaultDoc Proofs.FaultPath Proofs.PrefixSim.
Import ListNotations.

(** * Stray closing tokens *)
Inductive stray :=
| SBrace                       (* } *)
| SMClose (k : mathkind)       (* \) or \]   (k <> MDollar, k <> MDollars) *)
| SEnd (x : str).              (* \end{x} *)

Definition stray_text (c : stray) : str :=
  match c with SBrace => [125%N] | SMClose k => m_close k | SEnd x => env_text false x end.
Definition stray_tk (c : stray) : tokkind :=
  match c with SBrace => TkBraceClose | SMClose k => m_tok k | SEnd _ => TkEndEnv end.
Definition stray_arg (c : stray) : str :=
  match c with SBrace => [125%N] | SMClose k => m_close k | SEnd x => x end.
(** the raise site of the collector: 2 = unexpected closing brace, 4 = unexpected
    closing math-mode delimiter, 3 = unexpected [\end] *)
Definition stray_what (c : stray) : nat :=
  match c with SBrace => 2 | SMClose _ => 4 | SEnd _ => 3 end.
(** [$] and [$$] are not stray CLOSING tokens: wherever they are not the
    expected closing delimiter (outside math mode, in a formula of another
    kind, [$$] in a [$ $] formula being read as [$]) they OPEN a formula *)
Definition stray_wf (c : stray) : Prop :=
  match c with
  | SBrace => True
  | SMClose k => k <> MDollar /\ k <> MDollars
  | SEnd x => envname_ok x = true
  end.
(** the token is not what the collector with options [o] is waiting for *)
Definition stray_ok (o : genopts) (c : stray) : Prop :=
  match c with
  | SBrace => match g_stop o with SBraceClose _ => False | _ => True end
  | SMClose k => match g_stop o with SMathClose _ cd => cd <> m_close k | _ => True end
  | SEnd x => match g_stop o with SEndEnv nm => x <> nm | _ => True end
  end.

Lemma stray_text_hd c : exists h r, stray_text c = h :: r /\ is_space h = false.
Proof.
  destruct c as [|k|x]; cbn [stray_text].
  - exists 125%N, []. split; [reflexivity | exact space_125].
  - destruct k; cbn [m_close]; eexists; eexists; (split; [reflexivity|]); vm_compute; reflexivity.
  - unfold env_text. exists 92%N. eexists. split; [reflexivity | exact space_92].
Qed.

Lemma hd_error_stray (a : str) c g : hd_error (a ++ stray_text c ++ g) = hd_error (a ++ stray_text c).
Proof.
  destruct (stray_text_hd c) as (h & r & -> & _). destruct a; reflexivity.
Qed.

Lemma stray_inertf c : inertf (hd_error (stray_text c)).
Proof.
  destruct c as [|k|x]; cbn [stray_text].
  - exact inertf_125.
  - destruct k; [exact inertf_36 | exact inertf_92 | exact inertf_92 | exact inertf_36].
  - exact inertf_92.
Qed.

Section Stray.
  Variable s : str.
  Variable cx : context.

  Lemma stray_tok ps pos fws c g : StdE cx ps -> ws_ok fws = true -> stray_wf c ->
    skipn pos s = fws ++ stray_text c ++ g ->
    impl_peek ps s pos
    = TokOk (mk (stray_tk c) (stray_arg c) (pos + length fws) (pos + length fws + length (stray_text c)) fws []).
  Proof.
    intros [SD EE] W WF SK. pose proof (std_view_of cx ps SD) as V.
    destruct c as [|k|x]; cbn [stray_text stray_tk stray_arg stray_wf] in *.
    - cbn [app] in SK. rewrite (impl_peek_dispatch ps s pos fws 125%N g W SK space_125).
      rewrite (dispatch_close cx ps V). cbn [length]. f_equal. f_equal. lia.
    - destruct WF as [WF WF2].
      assert (SK' : exists r0, m_close k ++ g = 92%N :: r0) by (destruct k; [congruence| | |congruence]; eexists; reflexivity).
      destruct SK' as [r0 SK']. rewrite SK' in SK.
      rewrite (impl_peek_dispatch ps s pos fws 92%N r0 W SK space_92). rewrite <- SK'.
      rewrite (dispatch_close_delim cx ps V s _ fws k g WF WF2). destruct k; [congruence|reflexivity|reflexivity|congruence].
    - pose proof (skipn_shift _ _ _ _ SK) as SK1.
      assert (SK' : env_text false x ++ g = 92%N :: (env_kw false ++ 123%N :: x ++ [125%N]) ++ g) by reflexivity.
      rewrite SK' in SK.
      rewrite (impl_peek_dispatch ps s pos fws 92%N _ W SK space_92). rewrite <- SK'.
      exact (dispatch_env cx ps V EE s _ fws false x g SK1 WF).
  Qed.

  Lemma stray_rejected ps c : Good ps -> stray_wf c -> rejected ps (stray_tk c) (stray_arg c) (stray_what c).
  Proof.
    intros G WF. destruct c as [|k|x]; cbn [stray_tk stray_arg stray_what stray_wf] in *.
    - left. auto.
    - right. right. split; [destruct k; reflexivity|]. split; [|reflexivity].
      rewrite (good_by_open_has ps _ G). destruct WF as [WF WF2]. destruct k; [congruence|reflexivity|reflexivity|congruence].
    - right. left. auto.
  Qed.

  Lemma stray_nostop ps o c p e pre : opts_ok2 ps o -> stray_ok o c ->
    stop_matches (g_stop o) (mk (stray_tk c) (stray_arg c) p e pre []) = false.
  Proof.
    intros (_ & _ & _ & ST) SO. unfold stray_ok in SO.
    destruct (g_stop o) as [|cc|k' cc|nm|? ? ?]; try reflexivity; try contradiction.
    - destruct c as [|k|x]; [contradiction| |]; cbn; [destruct k|]; reflexivity.
    - destruct ST as [K _]. destruct c as [|k|x].
      + cbn. destruct k'; try discriminate; reflexivity.
      + cbn [stop_matches mk tk targ stray_tk stray_arg].
        destruct (str_eqb (m_close k) cc) eqn:E; [|apply andb_false_r].
        apply pe_str_eqb_eq in E. congruence.
      + cbn. destruct k'; try discriminate; reflexivity.
    - destruct c as [|k|x]; [reflexivity|cbn; destruct k; reflexivity|].
      cbn [stop_matches mk tk targ stray_tk stray_arg tokkind_eqb andb].
      destruct (str_eqb x nm) eqn:E; [|reflexivity]. apply pe_str_eqb_eq in E. congruence.
  Qed.

  (** ** the collector at the stray token, either mode *)
  Lemma stray_step tol ps o st pos fws c g n : StdE cx ps -> opts_ok2 ps o -> ws_ok fws = true ->
    stray_wf c -> stray_ok o c -> skipn pos s = fws ++ stray_text c ++ g ->
    run s tol cx (S n) (TCollect ps o st pos)
    = PErr (fail_err ps st pos (stray_tk c) (stray_arg c) (pos + length fws + length (stray_text c)) fws []
                     (stray_what c))
           (pos + length fws + length (stray_text c)).
  Proof.
    intros SE OK W WF SO SK.
    apply trule_fail.
    - exact (proj1 OK).
    - exact (stray_tok ps pos fws c g SE W WF SK).
    - apply (stray_nostop ps o c _ _ _ OK SO).
    - apply stray_rejected; [exact (proj1 (proj1 SE)) | exact WF].
  Qed.

  (** ** items, then the stray token (either mode) *)
  Lemma stray_collect tol ps o st pos l1 fws c g : StdE cx ps -> opts_ok2 ps o ->
    ok_items cx ps l1 (hd_error (fws ++ stray_text c)) = true -> ws_ok fws = true ->
    stray_wf c -> stray_ok o c ->
    skipn pos s = unparse_items l1 ++ fws ++ stray_text c ++ g ->
    let q := pos + length (unparse_items l1) in
    run s tol cx (1 + 8 * length (unparse_items l1)) (TCollect ps o st pos)
    = PErr (fail_err ps (fst (absorb cx ps pos st l1)) q (stray_tk c) (stray_arg c)
                     (q + length fws + length (stray_text c)) fws [] (stray_what c))
           (q + length fws + length (stray_text c)).
  Proof.
    intros SE OK OKL W WF SO SK q.
    pose proof (skipn_shift _ _ _ _ SK) as SK1. fold q in SK1.
    pose proof (stray_step tol ps o (fst (absorb cx ps pos st l1)) q fws c g 0 SE OK W WF SO SK1) as H.
    rewrite <- (hd_error_stray fws c g) in OKL.
    refine (items_sim_t s cx tol l1 ps o st pos _ 1 _ (proj1 SE) OK _ OKL SK H). discriminate.
  Qed.
End Stray.

(** * Which tokens close the innermost construct of a path *)
Definition closes_hole (path : list lframe) (c : stray) : bool :=
  match last path (LMath [] [] MDollar), path, c with
  | _, [], _ => false
  | (LGrp _ _ | LMac _ _ _ _ _), _, SBrace => true
  | LMath _ _ k, _, SMClose k' => match k, k' with MDollar, MDollar | MParen, MParen | MBracket, MBracket | MDollars, MDollars => true | _, _ => false end
  | _, _, _ => false
  end.

Lemma lp_opts_last cx : forall path ps o f,
  lp_opts cx ps o (path ++ [f])
  = lf_opts (lf_state cx (lp_state cx ps path) f) f.
Proof.
  induction path as [|g path IH]; intros ps o f; [reflexivity|]. cbn [app lp_opts lp_state]. apply IH.
Qed.

Lemma stray_ok_path cx ps path c : closes_hole path c = false -> stray_ok (lp_opts cx ps top_opts path) c.
Proof.
  destruct path as [|f0 path0] eqn:EP; [intros _; destruct c; exact I|].
  assert (NE : f0 :: path0 <> []) by discriminate.
  destruct (exists_last NE) as (path' & f & E). rewrite E. clear EP NE E.
  intros H. rewrite lp_opts_last. unfold closes_hole in H. rewrite last_last in H.
  destruct path' as [|f1 path']; cbn [app] in H;
    destruct f as [b w|b w k|b w name post a1]; destruct c as [|k'|x]; cbn [lf_opts stray_ok grp_opts math_opts g_stop];
    try exact I; try discriminate; destruct k, k'; cbn [m_close]; try discriminate; try congruence.
Qed.

(** * The theorem: strict mode, any left context, anything after the token *)
Theorem fault_closing cx path l1 fws c g :
  let ps0 := walker_state cx in
  ok_lpath cx ps0 path (hd_error (unparse_items l1 ++ fws ++ stray_text c)) = true ->
  ok_items cx (lp_state cx ps0 path) l1 (hd_error (fws ++ stray_text c)) = true ->
  ws_ok fws = true -> stray_wf c -> closes_hole path c = false ->
  let q := length (lp_text path) + length (unparse_items l1) + length fws in
  exists e,
    parse_top (lp_text path ++ unparse_items l1 ++ fws ++ stray_text c ++ g) false cx ps0
    = PErr e (q + length (stray_text c))
    /\ pe_pos e = Some q /\ pe_what e = stray_what c.
Proof.
  intros ps0 OKP OKL W WF CH q.
  set (s := lp_text path ++ unparse_items l1 ++ fws ++ stray_text c ++ g).
  assert (SE0 : StdE cx ps0) by apply stde_walker.
  pose proof (stde_lp_state cx path ps0 SE0) as SEi.
  assert (SK : skipn 0 s = lp_text path ++ (unparse_items l1 ++ fws ++ stray_text c ++ g)) by reflexivity.
  pose proof (skipn_shift _ _ _ _ SK) as SK1.
  assert (OKP' : ok_lpath cx ps0 path (hd_error (unparse_items l1 ++ fws ++ stray_text c ++ g)) = true).
  { rewrite app_assoc, hd_error_stray, <- app_assoc. exact OKP. }
  pose proof (opts_ok_lp cx path ps0 top_opts _ (opts_ok_top ps0) OKP') as OKi.
  pose proof (stray_collect s cx false (lp_state cx ps0 path) (lp_opts cx ps0 top_opts path) (lp_st cs_empty path)
                (0 + length (lp_text path)) l1 fws c g SEi (opts_ok_2 _ _ OKi) OKL W WF (stray_ok_path cx ps0 path c CH) SK1) as H.
  cbn zeta in H.
  destruct (lpath_err s cx path ps0 top_opts cs_empty 0 _ _ _ _ (proj1 SE0) (opts_ok_top ps0) OKP' SK H)
    as (e1 & H1 & P1 & W1).
  pose proof (erule_general s cx _ _ _ _ _ _ H1) as H2.
  assert (LS : length s = length (lp_text path) + (length (unparse_items l1) + (length fws + (length (stray_text c) + length g)))).
  { unfold s. rewrite !app_length. reflexivity. }
  exists (rewrap 0 e1). split; [|split].
  - unfold parse_top. fold s.
    rewrite (run_mono s false cx _ (parse_fuel s cx) _ _ H2 ltac:(discriminate)) by (pose proof (parse_fuel_ge s cx); lia).
    cbn [parse_content]. f_equal; unfold q; lia.
  - cbn [rewrap mkerr pe_pos]. rewrite P1. cbn [fail_err mkerr pe_pos]. f_equal; unfold q; lia.
  - cbn [rewrap mkerr pe_what]. rewrite W1. reflexivity.
Qed.
