(** C02 — the core grammar ([Doc/DocGrammar.v]) is a sub-grammar of the extended
    one ([Doc/DocGrammar2.v]): [up_doc] keeps the written form, the side
    conditions and the meaning.  So the theorems about the extended grammar
    subsume those about the core grammar. *)
From Coq Require Import NArith List Bool Arith Lia.
From PLV Require Import Base.PyStr Tok.PState Tok.Tokenizer Parse.Nodes Parse.Parser Parse.ParseWire
                        Doc.DocGrammar Doc.DocGrammar2 Proofs.RoundTripTok Proofs.RoundTrip2Tok Proofs.RoundTrip Proofs.RoundTrip2
                        Proofs.ParserAgree.
Import ListNotations.

Lemma forallb_ext' {A} (f g : A -> bool) l : (forall x, f x = g x) -> forallb f l = forallb g l.
Proof. intros E. induction l as [|x l IH]; [reflexivity|]. cbn [forallb]. rewrite E, IH. reflexivity. Qed.

Lemma nabs_up l : nabs (map up_item l) = 0.
Proof. unfold nabs. induction l as [|i l IH]; [reflexivity|]. cbn [map filter]. destruct i; exact IH. Qed.

Lemma item_ws_up i : item_ws2 (up_item i) = item_ws i.
Proof. destruct i; reflexivity. Qed.

Section Embed.
  Variable cx : context.

  (** ** the written form *)
  Definition UnpN (n : nat) : Prop := forall i, isize i <= n -> unparse_item2 (up_item i) = unparse_item i.

  Lemma unp_list n : UnpN n -> forall l, lsize l <= n -> unparse_items2 (map up_item l) = unparse_items l.
  Proof.
    intros U. induction l as [|i l IH]; intros SZ; [reflexivity|].
    rewrite lsize_cons in SZ. pose proof (isize_pos i).
    unfold unparse_items2, unparse_items in *. cbn [map flat_map]. rewrite (U i) by lia. rewrite IH by lia. reflexivity.
  Qed.

  Lemma unp_all : forall n, UnpN n.
  Proof.
    induction n as [|n IH]; intros i SZ; [pose proof (isize_pos i); lia|].
    pose proof (unp_list n IH) as UL. unfold unparse_items2, unparse_items in UL.
    destruct i as [ws cs|ws b tr|ws name post args|ws k b tr|ws text post|ws mid]; cbn [up_item unparse_item2 unparse_item];
      cbn [isize] in SZ; try reflexivity.
    - fold (lsize b) in SZ. rewrite UL by lia. reflexivity.
    - fold (lsize args) in SZ. rewrite UL by lia. reflexivity.
    - fold (lsize b) in SZ. rewrite UL by lia. reflexivity.
  Qed.

  Lemma unparse_up_items l : unparse_items2 (map up_item l) = unparse_items l.
  Proof. apply (unp_list (lsize l) (unp_all _)). lia. Qed.
  Lemma unparse_up_item i : unparse_item2 (up_item i) = unparse_item i.
  Proof. apply (unp_all (isize i)). lia. Qed.
  Lemma ilen_up i : ilen2 (up_item i) = ilen i.
  Proof. unfold ilen2, ilen. rewrite unparse_up_item. reflexivity. Qed.

  (** ** the side conditions *)
  Definition OkN (n : nat) : Prop :=
    forall i, isize i <= n -> forall ps fol,
    ok_item cx ps i (hd_error fol) = true -> ok_item2 cx ps [] (up_item i) fol = true.

  Lemma ok_list n : OkN n -> forall l, lsize l <= n -> forall ps fol,
    ok_items cx ps l (hd_error fol) = true -> ok_items2 cx ps [] (map up_item l) fol = true.
  Proof.
    intros O. induction l as [|i l IH]; intros SZ ps fol H; [reflexivity|].
    rewrite lsize_cons in SZ. pose proof (isize_pos i).
    rewrite ok_items_cons in H. apply andb_true_iff in H. destruct H as [H1 H2].
    cbn [map]. rewrite ok_items_cons2. apply andb_true_iff. split.
    - rewrite unparse_up_items. apply O; [lia|]. rewrite hd_error_ostr in H1. exact H1.
    - apply IH; [lia|exact H2].
  Qed.

  Lemma ok_args_up n : OkN n -> forall args l ps fol, lsize args <= n ->
    ok_args cx ps args l = true -> ok_args2 cx ps (map up_item args) l fol = true.
  Proof.
    intros O. induction args as [|a args IH]; intros [|spc l] ps fol SZ H; try discriminate; [reflexivity|].
    rewrite lsize_cons in SZ. pose proof (isize_pos a).
    cbn [ok_args] in H. apply andb_true_iff in H. destruct H as [H HR].
    apply andb_true_iff in H. destruct H as [HK HA].
    cbn [map ok_args2]. apply andb_true_iff. split; [|apply IH; [lia|exact HR]].
    unfold ok_arg2. destruct (a_kind spc) as [sp| | |]; try discriminate.
    destruct a as [|ws b tr| | | |]; try discriminate. destruct ws; [|discriminate].
    cbn [up_item ok_expr2 is_nil]. rewrite orb_true_r. cbn [andb].
    apply (O (Grp [] b tr)); [lia|]. rewrite ok_item_grp in HA |- *. exact HA.
  Qed.

  Lemma ok_all : forall n, OkN n.
  Proof.
    induction n as [|n IH]; intros i SZ ps fol H; [pose proof (isize_pos i); lia|].
    pose proof (ok_list n IH) as OL. pose proof (ok_args_up n IH) as OA.
    destruct i as [ws cs|ws b tr|ws name post args|ws k b tr|ws text post|ws mid]; cbn [isize] in SZ.
    - cbn [ok_item] in H. cbn [up_item ok_item2].
      apply andb_true_iff in H. destruct H as [H IN]. rewrite H. cbn [andb].
      clear H. induction cs as [|c cs IHc]; [reflexivity|]. cbn [forallb] in IN. apply andb_true_iff in IN.
      cbn [text_ok]. rewrite (inert_char_ok cx c _ (proj1 IN)). apply IHc. tauto.
    - fold (lsize b) in SZ. rewrite ok_item_grp in H. cbn [up_item]. rewrite ok_item_grp2.
      apply andb_true_iff in H. destruct H as [H HB]. rewrite H. cbn [andb].
      apply OL; [lia|]. destruct tr; exact HB.
    - fold (lsize args) in SZ.
      destruct (get_macro_spec cx name) as [sp|] eqn:GS; [|cbn [ok_item] in H; rewrite GS, andb_false_r in H; discriminate].
      destruct (sp_args sp) as [l|lk] eqn:SA; [|cbn [ok_item] in H; rewrite GS, SA, andb_false_r in H; discriminate].
      rewrite (ok_item_mac cx ps ws name post args _ sp l GS SA) in H. cbn [up_item].
      rewrite (ok_item_mac2 cx ps [] ws name post (map up_item args) fol sp l GS SA).
      apply andb_true_iff in H. destruct H as [H HA]. rewrite H. cbn [andb].
      apply andb_true_iff in HA. destruct HA as [HA FO]. rewrite hd_error_ostr in FO.
      rewrite (OA args l ps fol ltac:(lia) HA), unparse_up_items. cbn [andb].
      unfold mac_follow_ok2. rewrite FO. cbn [orb]. reflexivity.
    - fold (lsize b) in SZ. rewrite ok_item_math in H. cbn [up_item]. rewrite ok_item_math2.
      apply andb_true_iff in H. destruct H as [H DL]. apply andb_true_iff in H. destruct H as [H HB].
      rewrite H. cbn [andb]. rewrite unparse_up_items, DL, andb_true_r.
      apply OL; [lia|]. destruct tr; [|exact HB]. destruct k; exact HB.
    - cbn [ok_item] in H. cbn [up_item ok_item2].
      apply andb_true_iff in H. destruct H as [H FO]. apply andb_true_iff in H. destruct H as [H NL].
      apply andb_true_iff in H. destruct H as [H WP]. rewrite H. cbn [andb].
      destruct post as [|c w]; [discriminate|]. destruct c as [|q]; try discriminate.
      repeat (destruct q as [q|q|]; try discriminate). rewrite WP, FO. reflexivity.
    - cbn [ok_item] in H. cbn [up_item ok_item2].
      apply andb_true_iff in H. destruct H as [H PS]. apply andb_true_iff in H. destruct H as [H FO].
      rewrite H, PS. cbn [andb]. rewrite andb_true_r. apply negb_true_iff in FO.
      destruct fol as [|c fol']; [reflexivity|]. cbn [hd_error otest] in FO. cbn [span]. rewrite FO. reflexivity.
  Qed.

  (** ** the meaning (of documents that satisfy the side conditions) *)
  Definition NodeEN (n : nat) : Prop :=
    forall i, isize i <= n -> forall ps nxt p, ok_item cx ps i nxt = true ->
    node_of2 cx ps p (up_item i) = node_of cx ps p i.

  Lemma absorb_up n : NodeEN n -> forall l, lsize l <= n -> forall ps fh p st,
    ok_items cx ps l fh = true ->
    absorb2 cx ps p st (map up_item l) = absorb cx ps p st l.
  Proof.
    intros NN. induction l as [|i l IH]; intros SZ ps fh p st OK; [reflexivity|].
    rewrite lsize_cons in SZ. pose proof (isize_pos i).
    rewrite ok_items_cons in OK. apply andb_true_iff in OK. destruct OK as [OK1 OK2].
    cbn [map]. rewrite absorb_cons2, absorb_cons, ilen_up.
    replace (absorb_item2 cx ps p st (up_item i)) with (absorb_item cx ps p st i); [apply (IH ltac:(lia) ps fh); exact OK2|].
    pose proof (fun q => NN i ltac:(lia) ps _ q OK1) as NI.
    destruct i; cbn [up_item absorb_item2 absorb_item item_ws2 item_ws] in *; try reflexivity;
      rewrite NI; reflexivity.
  Qed.

  Lemma arg_nodes_up n : NodeEN n -> forall args l ps p, lsize args <= n ->
    ok_args cx ps args l = true ->
    arg_nodes2 cx ps p (map up_item args) l = arg_nodes cx ps p args l.
  Proof.
    intros NN. induction args as [|a args IH]; intros [|spc l] ps p SZ OK; try discriminate; try reflexivity.
    rewrite lsize_cons in SZ. pose proof (isize_pos a).
    cbn [ok_args] in OK. apply andb_true_iff in OK. destruct OK as [OK HR].
    apply andb_true_iff in OK. destruct OK as [HK HA].
    cbn [map arg_nodes2 arg_nodes]. rewrite ilen_up, (IH l ps _ ltac:(lia) HR).
    f_equal. f_equal. unfold arg_node2. destruct (a_kind spc); try discriminate.
    destruct a as [|ws b tr| | | |]; try discriminate. destruct ws; [|discriminate].
    cbn [up_item expr_node2 item_ws2 length]. rewrite Nat.add_0_r.
    apply (NN (Grp [] b tr) ltac:(lia) _ None). exact HA.
  Qed.

  Lemma node_all : forall n, NodeEN n.
  Proof.
    induction n as [|n IH]; intros i SZ ps nxt p OK; [pose proof (isize_pos i); lia|].
    pose proof (absorb_up n IH) as AU. pose proof (arg_nodes_up n IH) as AN.
    destruct i as [ws cs|ws b tr|ws name post args|ws k b tr|ws text post|ws mid]; cbn [isize] in SZ;
      try reflexivity.
    - fold (lsize b) in SZ. rewrite ok_item_grp in OK. apply andb_true_iff in OK. destruct OK as [_ OKB].
      cbn [up_item]. rewrite node_of_grp2, node_of_grp. cbn zeta. rewrite (AU b ltac:(lia) ps _ _ _ OKB). reflexivity.
    - fold (lsize args) in SZ.
      destruct (get_macro_spec cx name) as [sp|] eqn:GS; [|cbn [up_item node_of2 node_of]; rewrite GS; reflexivity].
      destruct (sp_args sp) as [l|lk] eqn:SA; [|cbn [up_item node_of2 node_of]; rewrite GS, SA; reflexivity].
      rewrite (ok_item_mac cx ps ws name post args _ sp l GS SA) in OK.
      apply andb_true_iff in OK. destruct OK as [_ OK]. apply andb_true_iff in OK. destruct OK as [OKA _].
      cbn [up_item]. rewrite (node_of_mac2 cx ps p ws name post _ sp l GS SA), (node_of_mac cx ps p ws name post args sp l GS SA).
      cbn zeta. rewrite (AN args l ps _ ltac:(lia) OKA). reflexivity.
    - fold (lsize b) in SZ. rewrite ok_item_math in OK. apply andb_true_iff in OK. destruct OK as [OK _].
      apply andb_true_iff in OK. destruct OK as [_ OKB].
      cbn [up_item]. rewrite node_of_math2, node_of_math. cbn zeta. rewrite (AU b ltac:(lia) _ _ _ _ OKB). reflexivity.
  Qed.
End Embed.

(** * The core grammar embeds *)
Theorem unparse_up_doc d : unparse2 (up_doc d) = unparse d.
Proof. unfold unparse2, unparse, up_doc. cbn [d_items2 d_trail2]. rewrite unparse_up_items. reflexivity. Qed.

Theorem ok_up_doc cx d : ok_doc cx d = true -> ok_doc2 cx (up_doc d) = true.
Proof.
  unfold ok_doc, ok_doc_in, ok_doc2, ok_doc2_in, up_doc. cbn [d_items2 d_trail2]. intros H.
  apply andb_true_iff in H. destruct H as [H W]. rewrite W, andb_true_r.
  apply (ok_list cx (lsize (d_items d)) (ok_all cx _)); [lia|exact H].
Qed.

Theorem tree_up_doc cx d : ok_doc cx d = true ->
  tree_of2 cx (walker_state cx) 0 (up_doc d) = tree_of cx (walker_state cx) 0 d.
Proof.
  unfold ok_doc, ok_doc_in. intros H. apply andb_true_iff in H. destruct H as [H _].
  unfold tree_of2, tree_of, up_doc. cbn [d_items2 d_trail2].
  rewrite (absorb_up cx (lsize (d_items d)) (node_all cx _) (d_items d) ltac:(lia) _ _ _ _ H). reflexivity.
Qed.

(** the round-trip theorem of the core grammar is an instance of the one of the extended grammar *)
Corollary parse_unparse_from_extended cx d : ok_doc cx d = true ->
  parse_top (unparse d) false cx (walker_state cx) = doc_result cx d.
Proof.
  intros H. rewrite <- unparse_up_doc, (parse_unparse2 cx (up_doc d) (ok_up_doc cx d H)).
  unfold doc_result2, doc_result. rewrite (tree_up_doc cx d H), unparse_up_doc. reflexivity.
Qed.

Theorem core_embeds cx d : ok_doc cx d = true ->
  ok_doc2 cx (up_doc d) = true /\ unparse2 (up_doc d) = unparse d /\
  tree_of2 cx (walker_state cx) 0 (up_doc d) = tree_of cx (walker_state cx) 0 d.
Proof. intros H. split; [apply ok_up_doc; exact H|]. split; [apply unparse_up_doc|apply tree_up_doc; exact H]. Qed.

(** * Both parsing modes: a document of the grammar parses without error in
    strict mode, so the tolerant parser returns the same tree ([ParserAgree]) *)
Corollary parse_unparse2_modes cx d tol : ok_doc2 cx d = true ->
  parse_top (unparse2 d) tol cx (walker_state cx) = doc_result2 cx d.
Proof.
  intros H. pose proof (parse_unparse2 cx d H) as P. destruct tol; [|exact P].
  apply parse_top_agree. exact P.
Qed.
