(** C06 over the extended grammar — an unmatched OPENING delimiter ([{], [$], [\(],
    [\[], [$$]) at a top-level item boundary, in TOLERANT mode: the body of the new
    construct runs to the end of the input, its general-nodes parser raises error 6
    carrying the nodes it has collected, [parse_content] recovers from it, the group /
    formula node is built around those nodes and the top-level collector goes on — to the
    end of the input.  The result is EXACTLY: the nodes of the items [l1] in front of the
    delimiter (and the whitespace [fws]), then ONE node for the unclosed construct, whose
    body is the tree of the rest [l2 ++ dtr] of the input.

    The body [l2] is a list of EXTENDED items (its strict collector run is the exported
    simulation of [Proofs/RoundTrip2.v], reproduced by the tolerant collector,
    [ParserAgree.run_agree]).  The items [l1] in front are CORE-grammar items (text, groups,
    macro calls with braced arguments, formulas, comments, paragraph breaks): the only
    tolerant-mode simulation of a collector that is followed by an error is the one of
    [Proofs/PrefixSim.v], for the core grammar (the strict run over [l1] followed by the
    unclosed construct ends with an error that does not carry the collector's nodes, so the
    lockstep argument of [Proofs/Prefix2Lock.v] does not apply). *)
From Coq Require Import NArith List Bool Arith Lia.
From PLV Require Import Base.PyStr Tok.PState Tok.Tokenizer Parse.Nodes Parse.Parser Parse.ParseWire
                        Proofs.PyStrFacts Proofs.ParserMono Proofs.ParserSpansStep Proofs.ParserErrorsBase
                        Proofs.ParserAgree
                        Doc.DocGrammar Proofs.FaultRules Proofs.FaultTok Proofs.FaultDoc Proofs.FaultClose
                        Proofs.FaultOpen Proofs.PrefixSim
                        Doc.DocGrammar2 Proofs.RoundTripTok Proofs.RoundTripRules Proofs.RoundTrip
                        Proofs.RoundTrip2Tok Proofs.RoundTrip2Rules Proofs.RoundTrip2
                        Proofs.Prefix2Lock Proofs.Prefix2 Proofs.Fault2Path Proofs.Fault2Inject Proofs.Fault2Open.
Import ListNotations.

Section TolOpen.
  Variable s : str.
  Variable cx : context.
  Notation R := (run s false cx).
  Notation T := (run s true cx).

  (** the general-nodes parser of an unclosed construct, tolerant mode: the same error 6 *)
  Lemma tol_general_unclosed n ps o pos st p :
    g_require o = true -> stop_is_none (g_stop o) = false ->
    R n (TCollect ps o cs_empty pos) = Ok (OColl st None false true) p ->
    T (S n) (TGeneral ps o pos)
    = PErr (mkerr (Some (match coll_pos_start st with Some q => q | None => pos end)) 6
                  (Some (gen_nodelist pos (cs_acc st))) true None None) p.
  Proof. intros RQ SN H. apply (run_agree_ok s cx) in H. cbn [run]. rewrite H, RQ, SN. reflexivity. Qed.

  (** the group parser recovers from it: a group node around the nodes collected *)
  Lemma tol_tgroup_recover n ps p0 epos what nodes fl p :
    f_group_delims (ps_f ps) = default_group_delims ->
    impl_peek ps s p0 = TokOk (mk TkBraceOpen [123%N] p0 (S p0) [] []) ->
    T n (TGeneral ps (grp_opts ps) (S p0)) = PErr (mkerr epos what nodes fl None None) p ->
    T (S n) (TGroup ps (GDStr [123%N]) false false p0)
    = Ok (ONode (Some (NGroup p0 p (ps_mode ps) [123%N] [125%N] nodes))) p.
  Proof.
    intros GD TK H. cbn [run]. rewrite (next_tok_ok _ _ _ _ _ TK). cbn [mk tk targ tpre tpos tend tokkind_eqb str_eqb].
    unfold group_close_of. rewrite GD. cbn. fold (grp_opts ps). rewrite H. reflexivity.
  Qed.

  (** ... and the formula parser *)
  Lemma tol_tmath_recover n ps k p0 kk epos what nodes fl p :
    impl_peek ps s p0 = TokOk (mk (m_tok k) (m_open k) p0 (p0 + length (m_open k)) [] []) ->
    c_expect_close (ps_c (ps_enter_math ps (Some (m_open k)))) = Some (m_close k, kk) ->
    T n (TGeneral (ps_enter_math ps (Some (m_open k))) (math_opts k) (p0 + length (m_open k)))
    = PErr (mkerr epos what nodes fl None None) p ->
    T (S n) (TMath ps (m_open k) p0)
    = Ok (ONode (Some (NMath p0 p (ps_mode ps) (m_display k) (m_open k) (m_close k) nodes))) p.
  Proof.
    intros TK E H. cbn [run]. rewrite (next_tok_ok _ _ _ _ _ TK).
    unfold mode_of_tok. cbn [mk tk targ tpre tpos tend].
    replace (str_eqb (m_open k) (m_open k)) with true by (destruct k; reflexivity).
    replace (tokkind_eqb (m_tok k) TkMathInline || tokkind_eqb (m_tok k) TkMathDisplay) with true
      by (destruct k; reflexivity).
    cbn [negb andb]. rewrite E. fold (math_opts k). rewrite H.
    cbn [parse_content mkerr pe_at pe_past pe_nodes]. destruct k; reflexivity.
  Qed.

  (** the top-level general-nodes parser does not require a stop condition *)
  Lemma tol_general_top n ps pos st p :
    T n (TCollect ps top_opts cs_empty pos) = Ok (OColl st None false true) p ->
    T (S n) (TGeneral ps top_opts pos) = Ok (ONode (Some (gen_nodelist pos (cs_acc st)))) p.
  Proof. intros H. cbn [run]. rewrite H. reflexivity. Qed.
End TolOpen.

Lemma flush_push_pre_flush ps st ws p nd : flush ps (push_node (pre_flush ps st ws p) nd) = push_node (pre_flush ps st ws p) nd.
Proof. unfold flush. cbn [push_node cs_pend]. rewrite pre_flush_pend. reflexivity. Qed.

(** * [{] *)
Theorem prefix_opening2_brace cx (l1 : list item) fws l2 dtr :
  let ps0 := walker_state cx in
  ok_items cx ps0 l1 (hd_error (fws ++ 123%N :: unparse_items2 l2 ++ dtr)) = true -> ws_ok fws = true ->
  ok_items2 cx ps0 [] l2 dtr = true -> ws_ok dtr = true ->
  let s := unparse_items l1 ++ fws ++ 123%N :: unparse_items2 l2 ++ dtr in
  let pb := length (unparse_items l1) in
  let p0 := pb + length fws in
  let A := fst (absorb cx ps0 0 cs_empty l1) in
  let B := absorb2 cx ps0 (S p0) cs_empty l2 in
  let body := gen_nodelist (S p0) (cs_acc (eos_state ps0 (fst B) dtr (snd B))) in
  parse_top s true cx ps0
  = Ok (ONode (Some (gen_nodelist 0
         (cs_acc (push_node (pre_flush ps0 A fws pb)
                            (Some (NGroup p0 (length s) (ps_mode ps0) [123%N] [125%N] (Some body))))))))
       (length s).
Proof.
  intros ps0 OK1 W OK2 Wd s pb p0 A B body.
  set (U := fuel_unit cx). pose proof (fuel_unit_ge8 cx) as U8. pose proof (fuel_unit_slots cx) as UM. fold U in U8, UM.
  pose proof (std_walker cx) as SD. fold ps0 in SD. pose proof (std_view_of cx ps0 SD) as V.
  assert (SK : skipn 0 s = unparse_items l1 ++ (fws ++ 123%N :: unparse_items2 l2 ++ dtr)) by reflexivity.
  pose proof (skipn_shift _ _ _ _ SK) as SKb. cbn [Nat.add] in SKb. fold pb in SKb.
  pose proof (skipn_shift _ _ _ _ SKb) as SK0. fold p0 in SK0.
  assert (SK2 : skipn (S p0) s = unparse_items2 l2 ++ dtr).
  { change (123%N :: unparse_items2 l2 ++ dtr) with ([123%N] ++ unparse_items2 l2 ++ dtr) in SK0.
    apply skipn_shift in SK0. cbn [length] in SK0. rewrite Nat.add_1_r in SK0. exact SK0. }
  assert (LS : length s = pb + (length fws + S (length (unparse_items2 l2) + length dtr))).
  { unfold s, pb. rewrite !app_length. cbn [length]. rewrite !app_length. reflexivity. }
  set (pend := length s).
  (* the body *)
  pose proof (body_eos2 s cx U U8 UM ps0 (grp_opts ps0) (S p0) l2 dtr SD (opts_ok_grp ps0) OK2 Wd SK2) as HB.
  cbn zeta in HB. fold B in HB.
  assert (PE : snd B + length dtr = pend).
  { unfold B. rewrite absorb_pos2. unfold pend, p0. rewrite LS. lia. }
  rewrite PE in HB.
  pose proof (tol_general_unclosed s cx _ ps0 (grp_opts ps0) (S p0) _ _ eq_refl eq_refl HB) as HG.
  fold body in HG.
  assert (TK1 : impl_peek ps0 s p0 = TokOk (mk TkBraceOpen [123%N] p0 (S p0) [] [])).
  { rewrite (impl_peek_dispatch ps0 s _ [] 123%N _ eq_refl SK0 space_123). cbn [length].
    rewrite Nat.add_0_r. apply (dispatch_open cx ps0 V). }
  pose proof (tol_tgroup_recover s cx _ ps0 p0 _ _ _ _ _ (sv_gdelims _ _ V) TK1 HG) as HGr.
  (* the top-level collector: the group, then the end of the input *)
  assert (TK : impl_peek ps0 s pb = TokOk (mk TkBraceOpen [123%N] (pb + length fws) (S (pb + length fws)) fws [])).
  { rewrite (impl_peek_dispatch ps0 s pb fws 123%N _ W SKb space_123). apply (dispatch_open cx ps0 V). }
  set (n2 := S (S (2 + U * length (unparse_items2 l2)))) in *.
  set (st2 := push_node (pre_flush ps0 A fws pb)
                        (Some (NGroup p0 pend (ps_mode ps0) [123%N] [125%N] (Some body)))).
  assert (SKe : skipn pend s = []) by (unfold pend; apply skipn_all).
  pose proof (trule_eos s cx true (n2 - 1) ps0 top_opts st2 pend (opts_ok_2 _ _ (opts_ok_top ps0))
                (impl_peek_eos ps0 s pend [] eq_refl SKe)) as HE.
  replace (S (n2 - 1)) with n2 in HE by (unfold n2; lia).
  unfold st2 in HE at 2. rewrite flush_push_pre_flush in HE. fold st2 in HE.
  pose proof (trule_group s cx true n2 ps0 top_opts A pb fws _ pend _ (opts_ok_2 _ _ (opts_ok_top ps0)) TK HGr HE) as HC.
  (* the items in front *)
  assert (NR : Ok (OColl st2 None false true) pend <> OutOfFuel) by discriminate.
  pose proof (items_sim_t s cx true l1 ps0 top_opts cs_empty 0 _ (S n2) _ SD (opts_ok_2 _ _ (opts_ok_top ps0))
                NR OK1 SK HC) as HS.
  pose proof (tol_general_top s cx _ ps0 0 _ _ HS) as HT.
  unfold parse_top. fold s.
  rewrite (run_mono s true cx _ (parse_fuel s cx) _ _ HT ltac:(discriminate)).
  - cbn [parse_content]. reflexivity.
  - pose proof (parse_fuel_ge_unit s cx (pb + length (unparse_items2 l2)) ltac:(rewrite LS; lia)) as PF.
    fold U in PF. fold pb. unfold n2.
    assert (8 * pb <= U * pb) by (apply Nat.mul_le_mono_r; exact U8).
    rewrite Nat.mul_add_distr_l in PF. lia.
Qed.

(** * [$], [\(], [\[], [$$] *)
Theorem prefix_opening2_math cx (l1 : list item) fws k l2 dtr :
  let ps0 := walker_state cx in
  let mps := ps_enter_math ps0 (Some (m_open k)) in
  ok_items cx ps0 l1 (hd_error (fws ++ m_open k ++ unparse_items2 l2 ++ dtr)) = true ->
  open_side2 cx ps0 [] fws (OMath2 k) (unparse_items2 l2 ++ dtr) = true ->
  ok_items2 cx mps [] l2 dtr = true -> ws_ok dtr = true ->
  let s := unparse_items l1 ++ fws ++ m_open k ++ unparse_items2 l2 ++ dtr in
  let pb := length (unparse_items l1) in
  let p0 := pb + length fws in
  let pm := p0 + length (m_open k) in
  let A := fst (absorb cx ps0 0 cs_empty l1) in
  let B := absorb2 cx mps pm cs_empty l2 in
  let body := gen_nodelist pm (cs_acc (eos_state mps (fst B) dtr (snd B))) in
  parse_top s true cx ps0
  = Ok (ONode (Some (gen_nodelist 0
         (cs_acc (push_node (pre_flush ps0 A fws pb)
                            (Some (NMath p0 (length s) (ps_mode ps0) (m_display k) (m_open k) (m_close k) (Some body))))))))
       (length s).
Proof.
  intros ps0 mps OK1 OS OK2 Wd s pb p0 pm A B body.
  set (U := fuel_unit cx). pose proof (fuel_unit_ge8 cx) as U8. pose proof (fuel_unit_slots cx) as UM. fold U in U8, UM.
  pose proof (std_walker cx) as SD. fold ps0 in SD. pose proof (std_view_of cx ps0 SD) as V.
  unfold open_side2 in OS. cbn [open_frame2 ok_lframe2 ok_items2 andb] in OS.
  apply andb_true_iff in OS. destruct OS as [OS DL].
  apply andb_true_iff in OS. destruct OS as [W M]. apply negb_true_iff in M.
  assert (DL' : k = MDollar -> hd_not (fun c => N.eqb c 36) (unparse_items2 l2 ++ dtr)).
  { intros ->. apply negb_true_iff in DL. apply otest_hd_not. exact DL. }
  assert (SK : skipn 0 s = unparse_items l1 ++ (fws ++ m_open k ++ unparse_items2 l2 ++ dtr)) by reflexivity.
  pose proof (skipn_shift _ _ _ _ SK) as SKb. cbn [Nat.add] in SKb. fold pb in SKb.
  pose proof (skipn_shift _ _ _ _ SKb) as SK0. fold p0 in SK0.
  pose proof (skipn_shift _ _ _ _ SK0) as SK2. fold pm in SK2.
  assert (LS : length s = pb + (length fws + (length (m_open k) + (length (unparse_items2 l2) + length dtr)))).
  { unfold s, pb. rewrite !app_length. reflexivity. }
  set (pend := length s).
  assert (SDm : Std cx mps) by (apply std_enter_math; exact SD).
  pose proof (body_eos2 s cx U U8 UM mps (math_opts k) pm l2 dtr SDm
                (opts_ok_math mps k (proj1 (enter_math_fields ps0 (m_open k)))) OK2 Wd SK2) as HB.
  cbn zeta in HB. fold B in HB.
  assert (PE : snd B + length dtr = pend).
  { unfold B. rewrite absorb_pos2. unfold pend, pm, p0. rewrite LS. lia. }
  rewrite PE in HB.
  assert (RQ : g_require (math_opts k) = true /\ stop_is_none (g_stop (math_opts k)) = false)
    by (destruct k; split; reflexivity).
  pose proof (tol_general_unclosed s cx _ mps (math_opts k) pm _ _ (proj1 RQ) (proj2 RQ) HB) as HG.
  fold body in HG.
  assert (TK1 : impl_peek ps0 s p0 = TokOk (mk (m_tok k) (m_open k) p0 (p0 + length (m_open k)) [] [])).
  { pose proof (dispatch_math_open cx ps0 V s p0 [] k _ M DL') as D.
    destruct k; cbn [m_open app] in SK0.
    - rewrite (impl_peek_dispatch ps0 s _ [] 36%N _ eq_refl SK0 space_36). cbn [length]. rewrite Nat.add_0_r. exact D.
    - rewrite (impl_peek_dispatch ps0 s _ [] 92%N _ eq_refl SK0 space_92). cbn [length]. rewrite Nat.add_0_r. exact D.
    - rewrite (impl_peek_dispatch ps0 s _ [] 92%N _ eq_refl SK0 space_92). cbn [length]. rewrite Nat.add_0_r. exact D.
    - rewrite (impl_peek_dispatch ps0 s _ [] 36%N _ eq_refl SK0 space_36). cbn [length]. rewrite Nat.add_0_r. exact D. }
  pose proof (tol_tmath_recover s cx _ ps0 k p0 _ _ _ _ _ _ TK1 (expect_enter ps0 k (proj1 SD)) HG) as HGr.
  assert (TK : impl_peek ps0 s pb = TokOk (mk (m_tok k) (m_open k) (pb + length fws)
                                            (pb + length fws + length (m_open k)) fws [])).
  { pose proof (dispatch_math_open cx ps0 V s (pb + length fws) fws k _ M DL') as D.
    destruct k; cbn [m_open app] in SKb.
    - rewrite (impl_peek_dispatch ps0 s pb fws 36%N _ W SKb space_36). exact D.
    - rewrite (impl_peek_dispatch ps0 s pb fws 92%N _ W SKb space_92). exact D.
    - rewrite (impl_peek_dispatch ps0 s pb fws 92%N _ W SKb space_92). exact D.
    - rewrite (impl_peek_dispatch ps0 s pb fws 36%N _ W SKb space_36). exact D. }
  set (n2 := S (S (2 + U * length (unparse_items2 l2)))) in *.
  set (st2 := push_node (pre_flush ps0 A fws pb)
                        (Some (NMath p0 pend (ps_mode ps0) (m_display k) (m_open k) (m_close k) (Some body)))).
  assert (SKe : skipn pend s = []) by (unfold pend; apply skipn_all).
  pose proof (trule_eos s cx true (n2 - 1) ps0 top_opts st2 pend (opts_ok_2 _ _ (opts_ok_top ps0))
                (impl_peek_eos ps0 s pend [] eq_refl SKe)) as HE.
  replace (S (n2 - 1)) with n2 in HE by (unfold n2; lia).
  unfold st2 in HE at 2. rewrite flush_push_pre_flush in HE. fold st2 in HE.
  pose proof (trule_math s cx true n2 ps0 top_opts A pb fws k _ pend _ (opts_ok_2 _ _ (opts_ok_top ps0))
                (proj1 SD) M TK HGr HE) as HC.
  assert (NR : Ok (OColl st2 None false true) pend <> OutOfFuel) by discriminate.
  pose proof (items_sim_t s cx true l1 ps0 top_opts cs_empty 0 _ (S n2) _ SD (opts_ok_2 _ _ (opts_ok_top ps0))
                NR OK1 SK HC) as HS.
  pose proof (tol_general_top s cx _ ps0 0 _ _ HS) as HT.
  unfold parse_top. fold s.
  rewrite (run_mono s true cx _ (parse_fuel s cx) _ _ HT ltac:(discriminate)).
  - cbn [parse_content]. reflexivity.
  - pose proof (parse_fuel_ge_unit s cx (pb + length (unparse_items2 l2)) ltac:(rewrite LS; lia)) as PF.
    fold U in PF. fold pb. unfold n2.
    assert (8 * pb <= U * pb) by (apply Nat.mul_le_mono_r; exact U8).
    rewrite Nat.mul_add_distr_l in PF. lia.
Qed.
