(** C13 / C08, unbounded composition — the chunks of the encoder, as atoms.

    [chunk_ok p r]: the sweep predicate for one table entry (the chunk reader
    gives atoms whose written form is the chunk; [atoms_okb]; a math item only
    if the replacement contains [$]); [bad_chunks_nil]: what an empty offender
    list gives for every entry.  The chunks that do not come from the tables —
    a copied ASCII character, and the answers of the unknown-character policies
    for ARBITRARY code points (the character itself, [{\bfseries ?}], nothing,
    [\ensuremath{\langle}\texttt{U+XXXX}\ensuremath{\rangle}] for any number of
    hex digits) — are treated here without a sweep. *)
From Coq Require Import NArith List Bool Arith Lia String.
Local Open Scope string_scope.
Local Open Scope list_scope.
From PLV Require Import Base.PyStr Tok.PState Tok.Tokenizer Parse.Nodes Parse.Parser Parse.ParseWire
                        Doc.DocGrammar Doc.DocGrammar2 Gen.GenWalkerCtx
                        Enc.Encoder Enc.Builtin Enc.RoundTrip
                        Proofs.RoundTripTok Proofs.RoundTrip2
                        Proofs.EncBuiltinFacts Proofs.FastProtection Proofs.RoundTripDefs Proofs.InertDefs
                        Proofs.UnboundedDefs Proofs.UnboundedFollow Proofs.UnboundedClosed Proofs.UnboundedAsm.
Import ListNotations.
Local Open Scope N_scope.

Definition ps0 : pstate := walker_state default_ctx.

(** the four brace-protection schemes *)
Definition brace_prots : list prot := [PBraces; PBracesAll; PBracesAlmostAll; PBracesAfterMacro].

(** * The default context has what the composition needs *)
Lemma default_cx_ok : CxOK default_ctx.
Proof. constructor; vm_compute; reflexivity. Qed.

(** * Table entries: the sweep predicate *)
Definition chunk_ok (p : prot) (r : str) : bool :=
  match chunk_atoms default_ctx (apply_protection_fast p r) with
  | Some al => str_eqb (flat al) (apply_protection_fast p r) && atoms_okb default_ctx ps0 al
               && (Nat.eqb (nmath_atoms al) 0 || mem_N 36 r)
  | None => false
  end.

Definition entry_ok2 (xml : bool) (p : prot) (kv : N * str) : bool :=
  mem_N (fst kv) (excluded xml) || chunk_ok p (snd kv).

(** keys of the offending entries (the sweeps prove this list empty) *)
Definition bad_chunks (xml : bool) (p : prot) : list N :=
  map fst (filter (fun kv => negb (entry_ok2 xml p kv)) (table_of xml)).

(** what the composition needs of one chunk [ch] that stands for the character [c] *)
Definition chunk_good (xml : bool) (c : N) (ch : str) : Prop :=
  exists al, flat al = ch /\ (forall F, good_atoms default_ctx ps0 F al)
             /\ (nmath_atoms al <> O -> exists r, In (c, r) (table_of xml) /\ In 36 r).

Lemma bad_chunks_nil xml p : bad_chunks xml p = [] ->
  forall c r, In (c, r) (table_of xml) -> ~ In c (excluded xml) -> chunk_good xml c (apply_protection p r).
Proof.
  unfold bad_chunks. intros H c r Hin Hex.
  assert (Hf : filter (fun kv => negb (entry_ok2 xml p kv)) (table_of xml) = [])
    by (destruct (filter _ _); [reflexivity|discriminate]).
  pose proof (filter_negb_nil (entry_ok2 xml p) (table_of xml) Hf (c, r) Hin) as Hok.
  unfold entry_ok2 in Hok. cbn [fst snd] in Hok.
  apply orb_true_iff in Hok. destruct Hok as [Hm|Hok]; [apply mem_N_In in Hm; contradiction|].
  unfold chunk_ok in Hok. rewrite <- (chunk_fast_eq xml p c r Hin) in Hok.
  destruct (chunk_atoms default_ctx (apply_protection p r)) as [al|]; [|discriminate].
  apply andb_true_iff in Hok. destruct Hok as [Hok H3]. apply andb_true_iff in Hok. destruct Hok as [H1 H2].
  exists al. split; [apply str_eqb_true; exact H1|]. split.
  - apply (atoms_okb_sound default_ctx (cx_brace _ default_cx_ok) (cx_dollar _ default_cx_ok)). exact H2.
  - intros Hn. exists r. split; [exact Hin|]. apply orb_true_iff in H3. destruct H3 as [H3|H3].
    + apply Nat.eqb_eq in H3. contradiction.
    + apply mem_N_In. exact H3.
Qed.

(** * A copied / kept character *)

(** the five characters that may not occur bare are keys of both tables *)
Lemma active_are_keys : forallb (fun xml => forallb (fun c => match map_lookup (map_of xml) c with Some _ => true | None => false end)
                                                    [92; 36; 37; 123; 125]) [false; true] = true.
Proof. vm_compute. reflexivity. Qed.

Lemma no_rule_not_active xml c : map_lookup (map_of xml) c = None -> mem_c c [92; 36; 37; 123; 125] = false.
Proof.
  intros H. destruct (mem_c c [92; 36; 37; 123; 125]) eqn:E; [|reflexivity]. exfalso.
  pose proof active_are_keys as A. rewrite forallb_forall in A.
  assert (Hx : In xml [false; true]) by (destruct xml; cbn; auto).
  specialize (A xml Hx). rewrite forallb_forall in A.
  unfold mem_c in E. apply existsb_exists in E. destruct E as (d & Hd & Ed). apply N.eqb_eq in Ed. subst d.
  specialize (A c Hd). rewrite H in A. discriminate.
Qed.

Lemma char_chunk_good xml c : map_lookup (map_of xml) c = None -> chunk_good xml c [c].
Proof.
  intros H. exists [AC c]. split; [reflexivity|]. split.
  - intros F. cbn [good_atoms]. split; [exact (no_rule_not_active xml c H)|exact I].
  - intros Hn. exfalso. apply Hn. reflexivity.
Qed.

(** * 'replace' and 'ignore' *)
Lemma replace_chunk_good xml c : chunk_good xml c (lit "{\bfseries ?}").
Proof.
  assert (E : exists al, chunk_atoms default_ctx (lit "{\bfseries ?}") = Some al /\
                         str_eqb (flat al) (lit "{\bfseries ?}") = true /\
                         atoms_okb default_ctx ps0 al = true /\ nmath_atoms al = O).
  { eexists. split; [vm_compute; reflexivity|]. split; [vm_compute; reflexivity|]. split; vm_compute; reflexivity. }
  destruct E as (al & _ & E1 & E2 & E3). exists al. split; [apply str_eqb_true; exact E1|]. split.
  - apply (atoms_okb_sound default_ctx (cx_brace _ default_cx_ok) (cx_dollar _ default_cx_ok)). exact E2.
  - intros Hn. contradiction.
Qed.

Lemma ignore_chunk_good xml c : chunk_good xml c [].
Proof.
  exists []. split; [reflexivity|]. split; [intros F; exact I|]. intros Hn. exfalso. apply Hn. reflexivity.
Qed.

(** * 'unihex': [\ensuremath{\langle}\texttt{U+XXXX}\ensuremath{\rangle}] for every code point *)
Definition hexchars : list N := [48; 49; 50; 51; 52; 53; 54; 55; 56; 57; 65; 66; 67; 68; 69; 70].
Definition is_hexchar (c : N) : bool := mem_N c hexchars.

Lemma hexdigit_hexchar d : d < 16 -> is_hexchar (hexdigit d) = true.
Proof.
  intros H.
  assert (S0 : forallb (fun d => is_hexchar (hexdigit d)) (nrange' 0 16) = true) by (vm_compute; reflexivity).
  rewrite forallb_forall in S0. apply S0. apply nrange'_In. cbn. lia.
Qed.

Lemma hex_aux_hexchars fuel : forall n acc, forallb is_hexchar acc = true -> forallb is_hexchar (hex_aux fuel n acc) = true.
Proof.
  induction fuel as [|f IH]; intros n acc H; cbn [hex_aux]; [exact H|].
  destruct (n =? 0); [exact H|]. apply IH. cbn [forallb]. rewrite H, andb_true_r.
  apply hexdigit_hexchar. apply N.mod_lt. discriminate.
Qed.

Lemma HexstrN_hexchars n : forallb is_hexchar (HexstrN n) = true.
Proof.
  unfold HexstrN, zfill. rewrite forallb_app. apply andb_true_iff. split.
  - generalize (4 - List.length (hexstr n))%nat. intros k. induction k as [|k IH]; [reflexivity|]. cbn [repeat forallb]. exact IH.
  - unfold hexstr. destruct (n =? 0); [reflexivity|]. apply hex_aux_hexchars. reflexivity.
Qed.

(** text characters at which no specials sequence starts *)
Definition quiet (c : N) : bool := plain_start c && nospec default_ctx c.

Lemma text_ok_quiet cs fol : forallb quiet cs = true -> text_ok default_ctx [] cs fol = true.
Proof.
  induction cs as [|c cs IH]; [reflexivity|]. cbn [forallb text_ok]. intros H.
  apply andb_true_iff in H. destruct H as [H1 H2]. rewrite (IH H2), andb_true_r.
  unfold quiet in H1. apply andb_true_iff in H1. destruct H1 as [P Q].
  unfold char_ok. rewrite P. cbn [mem_c existsb negb andb].
  rewrite (test_specials_none (map fst (cx_specials default_ctx)) c (cs ++ fol) Q). reflexivity.
Qed.

Lemma hexchar_quiet c : is_hexchar c = true -> quiet c = true.
Proof.
  intros H. assert (S0 : forallb quiet hexchars = true) by (vm_compute; reflexivity).
  rewrite forallb_forall in S0. apply S0. apply mem_N_In. exact H.
Qed.

Definition tt_item (hex : str) : item2 :=
  Mac2 [] (lit "texttt") [] [Grp2 [] [Text2 [] (85 :: 43 :: hex)] []].
Definition langle_item : item2 := Mac2 [] (lit "ensuremath") [] [Grp2 [] [Mac2 [] (lit "langle") [] []] []].
Definition rangle_item : item2 := Mac2 [] (lit "ensuremath") [] [Grp2 [] [Mac2 [] (lit "rangle") [] []] []].

Lemma tt_item_ok hex F : forallb is_hexchar hex = true -> ok_item2 default_ctx ps0 [] (tt_item hex) F = true.
Proof.
  intros H. unfold tt_item.
  assert (GS : get_macro_spec default_ctx (lit "texttt") = Some {| sp_args := APStd [{| a_spec := [123]; a_kind := AKExpr true; a_delta := ADLeaveMath |}]; sp_body_math := false |}) by (vm_compute; reflexivity).
  rewrite (ok_item_mac2 default_ctx ps0 [] [] (lit "texttt") [] _ F _ _ GS eq_refl).
  assert (N1 : ws_ok [] && ws_ok [] && name_ok (lit "texttt") [] = true) by (vm_compute; reflexivity).
  rewrite N1.
  cbn [andb].
  assert (N2 : forall X, mac_follow_ok2 (lit "texttt") [] (123 :: X) = true).
  { intros X. unfold mac_follow_ok2. cbn [hd_error].
    replace (mac_follow_ok (lit "texttt") [] (Some 123)) with true by (vm_compute; reflexivity). reflexivity. }
  cbn [unparse_items2 flat_map unparse_item2 app].
  rewrite N2, andb_true_r.
  rewrite ok_args2_cons.
  cbn [ok_args2 andb].
  rewrite andb_true_r.
  unfold ok_arg2.
  cbn [a_kind a_delta apply_adelta ok_expr2 orb andb].
  rewrite ok_item_grp2.
  cbn [ws_ok forallb count_c Nat.ltb Nat.leb andb].
  rewrite ok_items_cons2.
  cbn [ok_items2 andb].
  rewrite andb_true_r.
  cbn [ok_item2].
  change (ws_ok []) with true.
  cbn [andb].
  apply text_ok_quiet.
  cbn [forallb].
  replace (quiet 85) with true by (vm_compute; reflexivity).
  replace (quiet 43) with true by (vm_compute; reflexivity).
  cbn [andb].
  apply forallb_forall. intros c Hc. apply hexchar_quiet. rewrite forallb_forall in H. exact (H c Hc).
Qed.

Lemma unihex_chunk_good xml c n :
  chunk_good xml c (lit "\ensuremath{\langle}\texttt{U+" ++ HexstrN n ++ lit "}\ensuremath{\rangle}").
Proof.
  exists [AI langle_item; AI (tt_item (HexstrN n)); AI rangle_item].
  split; [|split].
  - cbn [flat flat_map flat_atom]. unfold langle_item, rangle_item, tt_item.
    cbn [unparse_item2 flat_map app]. rewrite !app_nil_r.
    change (lit "\ensuremath{\langle}\texttt{U+") with
      ((92 :: lit "ensuremath" ++ [] ++ 123 :: (92 :: lit "langle" ++ [] ++ []) ++ [] ++ [125])
       ++ 92 :: lit "texttt" ++ [] ++ 123 :: [85; 43]).
    change (lit "}\ensuremath{\rangle}") with
      (125 :: (92 :: lit "ensuremath" ++ [] ++ 123 :: (92 :: lit "rangle" ++ [] ++ []) ++ [] ++ [125])).
    cbn [app]. rewrite <- !app_assoc. cbn [app]. rewrite <- !app_assoc. cbn [app]. reflexivity.
  - intros F.
    assert (CL : forall i X Y, subg i = true -> closedb default_ctx i = true ->
                 ok_item2 default_ctx ps0 [] i X = true -> ok_item2 default_ctx ps0 [] i Y = true).
    { intros i X Y SG CB. apply (closed_sound default_ctx (cx_brace _ default_cx_ok) (cx_dollar _ default_cx_ok)); assumption. }
    assert (O1 : ok_item2 default_ctx ps0 [] langle_item [] = true) by (vm_compute; reflexivity).
    assert (O3 : ok_item2 default_ctx ps0 [] rangle_item [] = true) by (vm_compute; reflexivity).
    cbn [good_atoms].
    split; [reflexivity|]. split; [reflexivity|]. split; [exact (CL langle_item [] _ eq_refl eq_refl O1)|].
    split; [reflexivity|]. split; [reflexivity|]. split; [apply tt_item_ok; apply HexstrN_hexchars|].
    split; [reflexivity|]. split; [reflexivity|]. split; [exact (CL rangle_item [] _ eq_refl eq_refl O3)|exact I].
  - intros Hn. exfalso. apply Hn. reflexivity.
Qed.
