(** C02 (extended grammar) — rule lemmas beyond [RoundTripRules.v]: the
    branches of [Parser.run] that environments exercise. *)
From Coq Require Import NArith List Bool Arith Lia.
From PLV Require Import Base.PyStr Tok.PState Tok.Tokenizer Parse.Nodes Parse.Parser Parse.ParseWire
                        Proofs.ParserMono Proofs.ParserSpansStep Proofs.ParserErrorsBase
                        Doc.DocGrammar Doc.DocGrammar2 Proofs.RoundTripTok Proofs.RoundTripRules.
Import ListNotations.

(** * [enable_environments] is kept by the state changes of the grammar *)
Definition envs_safe (u : update) : bool := match u with UEnEnvs _ => false | _ => true end.

Lemma en_envs_normalize f : f_en_envs (normalize f) = f_en_envs f.
Proof. unfold normalize. destruct (_ && _); reflexivity. Qed.

Lemma en_envs_fold l : forallb envs_safe l = true ->
  forall f, f_en_envs (fold_left apply_update l f) = f_en_envs f.
Proof.
  induction l as [|u l IH]; intros H f; [reflexivity|].
  cbn [forallb] in H. apply andb_true_iff in H. destruct H as [H1 H2].
  cbn [fold_left]. rewrite IH by exact H2. destruct u; try discriminate; reflexivity.
Qed.

Lemma en_envs_sub ps kw : forallb envs_safe kw = true ->
  f_en_envs (ps_f (sub_context ps kw)) = f_en_envs (ps_f ps).
Proof.
  intros H. unfold sub_context. cbn [ps_f]. rewrite en_envs_normalize, en_envs_fold; [reflexivity|].
  apply forallb_filter'. exact H.
Qed.

Lemma en_envs_enter_math ps d : f_en_envs (ps_f (ps_enter_math ps d)) = f_en_envs (ps_f ps).
Proof. apply en_envs_sub. reflexivity. Qed.
Lemma en_envs_leave_math ps : f_en_envs (ps_f (ps_leave_math ps)) = f_en_envs (ps_f ps).
Proof. apply en_envs_sub. reflexivity. Qed.
Lemma en_envs_adelta ps d : f_en_envs (ps_f (apply_adelta ps d)) = f_en_envs (ps_f ps).
Proof. destruct d; cbn [apply_adelta]; auto using en_envs_enter_math, en_envs_leave_math. Qed.

Lemma std_env_body cx ps sp : Std cx ps -> Std cx (env_body_state ps sp).
Proof. intros H. unfold env_body_state. destruct (sp_body_math sp); [apply std_enter_math|]; exact H. Qed.
Lemma en_envs_env_body ps sp : f_en_envs (ps_f (env_body_state ps sp)) = f_en_envs (ps_f ps).
Proof. unfold env_body_state. destruct (sp_body_math sp); [apply en_envs_enter_math|reflexivity]. Qed.

Lemma str_eqb_refl (a : str) : str_eqb a a = true.
Proof. apply pe_str_eqb_eq. reflexivity. Qed.

Section Rules2.
  Variable s : str.
  Variable cx : context.
  Notation R := (run s false cx).

  Lemma stop_no_match_begin ps o a p e pre post : opts_ok ps o ->
    stop_matches (g_stop o) (mk TkBeginEnv a p e pre post) = false.
  Proof.
    intros (_ & _ & _ & ST). destruct (g_stop o) as [|cc|k' cc|nm|? ? ?]; try reflexivity; try contradiction.
    destruct ST as [K' _]. cbn. destruct k'; try discriminate; reflexivity.
  Qed.

  (** ** the collector meets [\begin{name}] *)
  Lemma rule_env n ps o st pos ws name pe sp nd p' r :
    opts_ok ps o -> get_env_spec cx name = Some sp ->
    impl_peek ps s pos = TokOk (mk TkBeginEnv name (pos + length ws) pe ws []) ->
    R n (TCall ps (mk TkBeginEnv name (pos + length ws) pe [] []) sp pe) = Ok (ONode (Some nd)) p' ->
    R n (TCollect ps o (push_node (pre_flush ps st ws pos) (Some nd)) p') = r ->
    R (S n) (TCollect ps o st pos) = r.
  Proof.
    intros OK SP T G H. pose proof OK as (NL & _ & CH & _). rewrite run_collect. unfold collect_step.
    rewrite next_tok_strict, T, (stop_no_match_begin ps o _ _ _ _ _ OK).
    cbn [mk tk]. rewrite (c_pre_result_nl ps o st _ _ pos _ ws [] NL). cbn [fst snd].
    unfold c_dispatch. cbn [mk tk targ tpos tend tpost]. rewrite SP, CH. unfold c_tok0. cbn [mk tk targ tpos tend tpost].
    rewrite G. cbn [parse_content]. unfold c_push_check. rewrite NL. cbn [nl_stop_met]. exact H.
  Qed.

  (** ** the environment call parser *)
  Lemma rule_tcall_env n ps name p0 pe sp l al p body p2 :
    sp_args sp = APStd l ->
    R n (TArgs ps l [] pe) = Ok (OArgs (Some ([], al))) p ->
    R n (TEnvBody (env_body_state ps sp) name p) = Ok (ONode body) p2 ->
    R (S n) (TCall ps (mk TkBeginEnv name p0 pe [] []) sp pe)
    = Ok (ONode (Some (NEnv p0 p2 (ps_mode ps) name (Some (map a_spec l, al)) body))) p2.
  Proof.
    intros A H B. cbn [run]. rewrite A, H. cbn [parse_content_args parse_content mk tk targ tpos].
    unfold env_body_state in B. rewrite B. reflexivity.
  Qed.

  (** ** the specials call parser *)
  Lemma rule_tcall_spc n ps chars p0 pe sp l al p :
    sp_args sp = APStd l ->
    R n (TArgs ps l [] pe) = Ok (OArgs (Some ([], al))) p ->
    R (S n) (TCall ps (mk TkSpecials chars p0 pe [] []) sp pe)
    = Ok (ONode (Some (NSpecials p0 p (ps_mode ps) chars (Some (map a_spec l, al))))) p.
  Proof. intros A H. cbn [run]. rewrite A, H. reflexivity. Qed.

  (** ** the body of an environment *)
  Definition env_opts (name : str) : genopts :=
    {| g_stop := SEndEnv name; g_nl := NLNone; g_require := true;
       g_child := CPSelf; g_incl_pre := true; g_handle_stop := true |}.

  Lemma opts_ok_env ps name : opts_ok ps (env_opts name).
  Proof. repeat split. Qed.

  Lemma rule_tenvbody n ps name pos nl p :
    R n (TGeneral ps (env_opts name) pos) = Ok (ONode (Some nl)) p ->
    R (S n) (TEnvBody ps name pos) = Ok (ONode (Some nl)) p.
  Proof. intros H. cbn [run]. fold (env_opts name). rewrite H. reflexivity. Qed.
End Rules2.
